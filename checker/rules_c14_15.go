package main

import (
	"fmt"
	"go/types"
	"reflect"
	"strings"

	"golang.org/x/tools/go/ssa"
)

func init() {
	register(&Rule{
		ID:    "C14",
		Title: "a CRL cache entry is only ever absent or complete",
		Run:   runC14,
		Explain: "(a) typestate of the writer (the function of internal/file that calls os.Rename; CreateTemp, Write and Close in it or in one function it calls, which hands the temporary name back): CreateTemp(directory parameter, constant pattern) -> Write(whole content parameter) -> Close -> Rename(temp.Name(), destination parameter), " +
			"each step reachable only after the previous one succeeded, every other exit failing; the destination parameter reaches no call other than Rename's second argument (the entry is never created, opened or truncated in place); " +
			"(b) at the cache's call site the temp directory is the cache root and the destination is Join(root, key(url)): rename within one directory; " +
			"(c) who-may-write: in verifier/crl the only file-mutating calls are MkdirAll in the constructor and that writer in Set; (d) key = hex(sha256([]byte(url))) unsliced, and the temp pattern contains a non-hex rune before '*', so temp names never collide with keys; " +
			"(e) the reader touches the file system exactly once per Get (one whole-file read of Join(root, key(url))) and every later step (in Get or a function it hands the bytes to) works on those bytes.",
		NotCov:  "the schedules and crash points themselves: 'rename(2) within one directory is atomic and an open descriptor keeps the old inode' is the trusted base (POSIX); no durability (fsync) claim is made.",
		Trusted: []string{"go/types, go/ssa", "POSIX rename(2) atomicity within a directory", "os.CreateTemp creates a fresh file with O_EXCL", "os.ReadFile reads one inode"},
	})
	register(&Rule{
		ID:    "C15",
		Title: "the CRL cache returns only fresh, byte-faithful bundles for the exact URL",
		Run:   runC15,
		Explain: "Steps of Get / Set may live in functions of the package they call; each obligation is decided where the step lives and read in the frame of Get / Set (parameters replaced by the arguments of the call). " +
			"(a) field pairing: Set stores bundle.BaseCRL.Raw / bundle.DeltaCRL.Raw into the entry fields BaseCRL / DeltaCRL (distinct JSON names) and Get parses field X into bundle.X; nothing else writes the entry or the bundle; " +
			"(b) gates of Get: read error (not-exist -> the miss sentinel, others -> error), decode error, base parse error, delta parse error whenever a delta is stored, base expiry, delta expiry whenever a delta exists — all on every success exit; " +
			"the function that consults the clock fails on a zero NextUpdate and returns the miss sentinel exactly when time.Now().After(nextUpdate), and these facts hold for the NextUpdate of the bundle's own lists on every success exit of Get; " +
			"(c) URL confinement: every file-system path of Get and Set is Join(root, hex(sha256(url))) — the URL reaches the file system only through the hash (no separator or dot segment can appear, distinct URL strings give distinct keys up to SHA-256); " +
			"(d) Set gates: nil bundle, nil base CRL, marshal error and write error are fail-closed; what is written is the marshalled entry. " +
			"The read of Get and the writer call of Set may stand in a helper of the package reached by calls made once; the clock comparison may use any standard-library spelling (After/Before/Compare/Sub/Since/Until) or a predicate; the guard for an absent delta may stand in the callee (expiry check, parse helper, raw-bytes helper).",
		NotCov:  "byte equality through x509.ParseRevocationList and encoding/json (std), SHA-256 collision freedom.",
		Trusted: []string{"go/types, go/ssa", "crypto/sha256, encoding/hex, encoding/json, crypto/x509", "x509.ParseRevocationList returns a non-nil list whenever its error is nil (used only when the expiry checks skip a nil list: a loop over a table of the lists, or a checking function that answers for an absent list itself)"},
	})
}

var fsMutators = map[string]bool{
	"os.MkdirAll": true, "os.Mkdir": true, "os.WriteFile": true, "os.Create": true, "os.OpenFile": true, "os.Rename": true, "os.Remove": true,
	"os.RemoveAll": true, "os.Chmod": true, "os.CreateTemp": true, "os.Truncate": true, "os.Symlink": true, "os.Link": true, "os.MkdirTemp": true,
	"(*os.File).Write": true, "(*os.File).WriteString": true, "(*os.File).Truncate": true, "(*os.File).Chmod": true, "io.Copy": true,
}

var fsReaders = map[string]bool{
	"os.ReadFile": true, "os.Open": true, "os.Stat": true, "os.Lstat": true, "os.ReadDir": true, "os.OpenFile": true, "io.ReadAll": true, "io.ReadFull": true,
	"(*os.File).Read": true, "(*os.File).Stat": true,
}

type crlAnchors struct {
	WF, Get, Set, Key, Ctor *ssa.Function
}

func findCRL(c *Ctx) *crlAnchors {
	w := c.W
	a := &crlAnchors{}
	for _, fn := range w.FuncsOfPkg("internal/file") {
		if len(findCalls(fn, "os.Rename")) > 0 && fn.Parent() == nil {
			a.WF = fn
		}
	}
	// the cache type: implements corecrl.Cache (Get/Set)
	for _, fn := range w.FuncsOfPkg("verifier/crl") {
		if fn.Signature.Recv() == nil || fn.Parent() != nil {
			if fn.Parent() == nil && fn.Signature.Results().Len() == 2 && strings.HasSuffix(namedOf(fn.Signature.Results().At(0).Type()), "crl.FileCache") {
				a.Ctor = fn
			}
			continue
		}
		switch {
		case fn.Name() == "Get" && fn.Signature.Results().Len() == 2:
			a.Get = fn
		case fn.Name() == "Set" && fn.Signature.Results().Len() == 1:
			a.Set = fn
		case fn.Signature.Params().Len() == 1 && fn.Signature.Results().Len() == 1 && fn.Signature.Results().At(0).Type().String() == "string" && len(findCalls(fn, "crypto/sha256.Sum256", "crypto/sha256.New")) > 0:
			a.Key = fn
		}
	}
	// The writer is the function of internal/file that Set calls and in whose call tree the rename stands (the rename
	// itself may have been moved into a function the writer calls); when Set calls no such function, the function that
	// renames is still examined, and Set is reported for not using it.
	if a.Set != nil {
		for _, sf := range append([]*ssa.Function{a.Set}, calleesInPkg(w, a.Set, "verifier/crl")...) {
			for _, ci := range allCalls(sf) {
				g := staticCallee(ci)
				if g == nil || g.Blocks == nil || g.Parent() != nil || fnPkg(g) == nil || fnPkg(g).Path() != modPath+"/internal/file" {
					continue
				}
				fam, _ := c14Family(w, g)
				for _, f := range fam {
					if len(findCalls(f, "os.Rename")) > 0 {
						a.WF = g
					}
				}
			}
		}
	}
	if a.Key == nil {
		// any method string->string of the cache used to build paths
		for _, fn := range w.FuncsOfPkg("verifier/crl") {
			if fn.Signature.Recv() != nil && fn.Signature.Params().Len() == 1 && fn.Signature.Results().Len() == 1 && fn.Signature.Results().At(0).Type().String() == "string" && fn.Signature.Params().At(0).Type().String() == "string" {
				a.Key = fn
			}
		}
	}
	return a
}

func runC14(c *Ctx) {
	w := c.W
	a := findCRL(c)
	if a.Get == nil || a.Set == nil {
		c.Unk("anchors", "anchors: the file cache's Get and Set", "-", "not found")
		return
	}
	// ---- (a) writer typestate -------------------------------------------------
	// The steps may be split between the writer and one function it calls (c14FindUnit): the function that owns the
	// temporary file up to Close hands its name back and the writer renames it.
	WF := a.WF
	ruleW := "typestate of the writer: CreateTemp(dir parameter, constant pattern) -> Write(content) -> Close -> Rename(temp name, destination parameter), each step only after the previous succeeded"
	unit, whyNot := c14FindUnit(w, WF)
	dirArg, pathArg, contentArg := unit.roles() // which argument of the writer plays which role
	if unit == nil {
		site := "-"
		if WF != nil {
			site = w.FnPos(WF)
		}
		c.Bad("writer/protocol", ruleW, site, "no function of internal/file creates a fresh temporary file with os.CreateTemp and renames it over the destination (entries would be written in place or through a reusable temp name): "+whyNot)
	} else {
		c14Writer(c, unit, ruleW)
	}
	// ---- (b) call site in Set ----------------------------------------------------
	// The call of the writer may stand in Set or in a function of the package that only Set reaches, by calls made once
	// (`c.writeEntry(url, contentBytes)`): its arguments are then read in Set's frame, the helper's parameters replaced
	// by the arguments of the call(s) that lead to it (c15WriterCall, c15UpChain).
	setUnit := append([]*ssa.Function{a.Set}, calleesInPkg(w, a.Set, "verifier/crl")...)
	wcall, frW, whyNoW := c15WriterCall(w, a, setUnit)
	if wcall != nil {
		cv, cf := c15UpChain(frW, wcall.Parent(), wcall.Call.Args[contentArg])
		ok, why := ownedBytes(w, cf, cv, 0)
		c.Check(ok, "writer/content-owned", "the bytes handed to the writer belong to this call alone (a fresh encoding, never a view of a pooled or shared buffer that another goroutine may rewrite while they are being written)", w.InstrPos(wcall), why)
	}
	recv := "param:" + a.Set.Params[0].Name()
	urlP := "param:" + a.Set.Params[2].Name()
	wantPath := "call:path/filepath.Join({" + recv + ".root," + callForm(a.Key, 0, recv, urlP) + "})"
	c.SeenFn(a.Set.String())
	if wcall == nil {
		c.Bad("set/uses-writer", "Set stores the entry through the atomic writer", w.FnPos(a.Set), "Set does not call the temp-file-and-rename writer: "+whyNoW)
	} else {
		c.SeenFn(wcall.Parent().String())
		c.OK("set/uses-writer", "Set stores the entry through the atomic writer", w.InstrPos(wcall))
		c.Check(frW.in(desc(wcall.Call.Args[dirArg])) == recv+".root", "set/temp-in-cache-root", "the temporary file is created in the cache root (same directory, hence same file system, as the entry)", w.InstrPos(wcall), "temp dir is "+frW.in(desc(wcall.Call.Args[dirArg])))
		okD, whyD := c15PathIsKeyOfURL(a, setUnit, a.Set, wcall.Parent(), wcall.Call.Args[pathArg], wantPath)
		c.Check(okD, "set/destination", "the destination is Join(root, key(url)) for the URL being stored", w.InstrPos(wcall), "destination is "+whyD)
	}
	// ---- (c) who may write ----------------------------------------------------------
	ruleM := "who-may-write: in package verifier/crl the only file-mutating calls are os.MkdirAll in the constructor and the atomic writer in Set"
	var muts []string
	okM := true
	for _, fn := range w.FuncsOfPkg("verifier/crl") {
		for _, ci := range allCalls(fn) {
			n := calleeName(ci)
			isMut := fsMutators[n]
			if g := staticCallee(ci); g != nil && w.IsProductFn(g) && fnPkg(g).Path() != modPath+"/verifier/crl" && c14Mutates(w, g, 0) {
				isMut = true
			}
			if !isMut {
				continue
			}
			c.Evals++
			muts = append(muts, fnName(fn)+":"+n)
			switch {
			case n == "os.MkdirAll" && a.Ctor != nil && fn == a.Ctor:
			case wcall != nil && ci == ssa.CallInstruction(wcall):
			default:
				okM = false
			}
		}
	}
	c.Check(okM && len(muts) >= 1, "who-may-write", ruleM, w.FnPos(a.Set), fmt.Sprintf("file-mutating calls found: %v", muts))
	// ---- (d) key / temp disjointness ----------------------------------------------------
	c14Key(c, a)
	if unit != nil {
		for _, call := range []*ssa.Call{unit.ct} {
			ok := false
			pat := desc(call.Call.Args[1])
			if k, isK := call.Call.Args[1].(*ssa.Const); isK {
				s, _ := unquote(constString(k))
				star := strings.Index(s, "*")
				pre := s
				if star >= 0 {
					pre = s[:star]
				}
				for _, r := range pre {
					if !strings.ContainsRune("0123456789abcdef", r) {
						ok = true
					}
				}
			}
			c.Check(ok, "temp-name-disjoint", "the temporary-file pattern is a constant with a non-hex rune before '*': a leftover temporary file can never be mistaken for an entry (keys are 64 hex digits)", w.InstrPos(call), "pattern "+pat)
		}
	}
	// ---- (e) reader ------------------------------------------------------------------
	c.SeenFn(a.Get.String())
	grecv := "param:" + a.Get.Params[0].Name()
	gurl := "param:" + a.Get.Params[2].Name()
	gpath := "call:path/filepath.Join({" + grecv + ".root," + callForm(a.Key, 0, grecv, gurl) + "})"
	var reads []ssa.CallInstruction
	for _, f := range append([]*ssa.Function{a.Get}, calleesInPkg(w, a.Get, "verifier/crl")...) {
		for _, ci := range allCalls(f) {
			if fsReaders[calleeName(ci)] || fsMutators[calleeName(ci)] {
				reads = append(reads, ci)
			}
		}
	}
	// the one read may stand in a function of the package Get reaches by calls made once: its path is read in Get's frame
	okR := len(reads) == 1 && calleeName(reads[0]) == "os.ReadFile"
	if okR {
		okR, _ = c15PathIsKeyOfURL(a, append([]*ssa.Function{a.Get}, calleesInPkg(w, a.Get, "verifier/crl")...), a.Get, reads[0].Parent(), reads[0].Common().Args[0], gpath)
	}
	var names []string
	for _, r := range reads {
		names = append(names, calleeName(r)+"@"+w.InstrPos(r))
	}
	c.Check(okR, "reader/single-whole-file-read", "the reader touches the file system exactly once per Get: one os.ReadFile of Join(root, key(url)) (size and content always come from the same inode)", w.FnPos(a.Get), fmt.Sprintf("file-system calls in Get: %v", names))
	if okR {
		// The decoder may sit in a function Get calls: then the bytes it decodes are a parameter of that function, and
		// every call of it on the way from Get passes the content result of that one read at that position.
		rf := reads[0].(*ssa.Call)
		getUnit := append([]*ssa.Function{a.Get}, calleesInPkg(w, a.Get, "verifier/crl")...)
		nDec := 0
		okB := true
		for _, f := range getUnit {
			for _, ci := range findCalls(f, "encoding/json.Unmarshal") {
				nDec++
				if !c14FromRead(getUnit, f, ci.Common().Args[0], rf, 0) {
					okB = false
				}
			}
		}
		c.Check(okB && nDec > 0, "reader/decodes-those-bytes", "the entry decoded is exactly the bytes of that read", w.InstrPos(rf), "the decoder gets other bytes")
	}
	c.MinCount("", 12, "cache atomicity obligations")
}

func calleesInPkg(w *World, fn *ssa.Function, rel string) []*ssa.Function {
	var out []*ssa.Function
	for _, f := range w.moduleCallees(fn) {
		if f != fn && fnPkg(f).Path() == modPath+"/"+rel {
			out = append(out, f)
		}
	}
	return out
}

// c14Mutates: g (transitively, module functions only) calls a file-system mutator.
func c14Mutates(w *World, g *ssa.Function, depth int) bool {
	if depth > 4 || g.Blocks == nil {
		return false
	}
	for _, f := range append([]*ssa.Function{g}, closuresOf(g)...) {
		for _, ci := range allCalls(f) {
			if fsMutators[calleeName(ci)] {
				return true
			}
			if h := staticCallee(ci); h != nil && h != g && w.IsProductFn(h) && c14Mutates(w, h, depth+1) {
				return true
			}
		}
	}
	return false
}

func c14Writer(c *Ctx, u *c14Unit, ruleW string) {
	w := c.W
	WF, ct, rn := u.WF, u.ct, u.rn
	for _, f := range u.fns {
		c.SeenFn(f.String())
	}
	dirP := u.wfParam(u.ctFn, ct.Call.Args[0])
	pathP := u.wfParam(u.rnFn, rn.Call.Args[1])
	_, constPat := ct.Call.Args[1].(*ssa.Const)
	c.Check(dirP != nil && dirP != pathP && constPat, "writer/create-temp", "the temporary file is created by os.CreateTemp(directory parameter, constant pattern): a fresh, exclusively created file per write", w.InstrPos(ct), "CreateTemp("+u.inWF(u.ctFn, desc(ct.Call.Args[0]))+","+desc(ct.Call.Args[1])+")")
	if pathP == nil {
		c.Bad("writer/protocol", ruleW, w.InstrPos(rn), "Rename's destination is not the destination parameter: "+u.inWF(u.rnFn, desc(rn.Call.Args[1])))
		return
	}
	// The steps on the handle, wherever in the family they stand (c14Unit.isHandle follows the file CreateTemp returned
	// through arguments, results and captured variables). A Write or Close in a member that is called from several
	// places, or in a closure, is counted (a second Write breaks the protocol wherever it stands) but cannot be the
	// step of the protocol, because its facts do not read in the writer's frame.
	wrs, wrFns, wrDeferred := u.handleCalls("(*os.File).Write")
	cls, clFns, _ := u.handleCalls("(*os.File).Close")
	// the file renamed is the temporary file: Rename's source is handle.Name()
	srcOK := u.isName(u.rnFn, rn.Call.Args[0], 0)
	var contentP *ssa.Parameter
	if len(wrs) == 1 && wrDeferred == 0 {
		if _, ok := u.chain(wrFns[0]); ok {
			contentP = u.wfParam(wrFns[0], wrs[0].Call.Args[1])
		}
	}
	others := u.otherHandleUses()
	okProto := len(wrs) == 1 && wrDeferred == 0 && len(cls) > 0 && srcOK && contentP != nil && isByteSlice(contentP.Type()) && contentP != pathP && contentP != dirP && len(others) == 0
	detail := ""
	if len(others) > 0 {
		detail = fmt.Sprintf("the temporary file is also handed to %v; ", others)
	}
	if okProto {
		// Order of the steps, as facts on the paths, all read in the writer's frame (c14Unit.guards = what every path
		// from the writer's entry to the step has passed: the guards inside the member that holds the step, and the
		// guards of the calls that lead to it; a call whose error was tested nil contributes what every success exit of
		// the callee lies behind — the engine's composition). The temporary file may also be closed a second time on the
		// failure paths (clean-up); the Close of the protocol is one that is reached only after the write succeeded and
		// whose success every path to the rename has passed.
		wr, wrFn := wrs[0], wrFns[0]
		gw := u.guards(wrFn, wr)
		gr := u.guards(u.rnFn, rn)
		wrOK := "EQ(" + u.inWF(wrFn, desc(wr)) + "#err,nil)"
		var whyCl string
		okCl := false
		for i, cl := range cls {
			if _, ok := u.chain(clFns[i]); !ok {
				continue
			}
			gc := u.guards(clFns[i], cl)
			why := ""
			if !labelHas(gc, wrOK) {
				why += "Close only after the whole content was written without error is not enforced; "
			}
			if !labelHas(gr, "EQ("+u.inWF(clFns[i], desc(cl))+",nil)") {
				why += "Rename only after Close succeeded is not enforced; "
			}
			if why == "" {
				okCl = true
			} else if whyCl == "" {
				whyCl = why
			}
		}
		if !labelHas(gw, "EQ("+u.inWF(u.ctFn, desc(ct))+"#err,nil)") {
			okProto = false
			detail += "Write only after CreateTemp succeeded is not enforced; "
		}
		if !okCl {
			okProto = false
			if whyCl == "" {
				whyCl = "no Close of the temporary file on the way to the rename; "
			}
			detail += whyCl
		}
		if !labelHas(gr, wrOK) {
			okProto = false
			detail += "Rename only after Write succeeded is not enforced; "
		}
	} else {
		detail += fmt.Sprintf("writes=%d closes=%d; the renamed file is %s (the temporary file's name: %v); written bytes %s", len(wrs)+wrDeferred, len(cls), desc(rn.Call.Args[0]), srcOK, func() string {
			if len(wrs) > 0 {
				return u.inWF(wrFns[0], desc(wrs[0].Call.Args[1]))
			}
			return "-"
		}())
	}
	c.Evals += 4
	c.Check(okProto, "writer/protocol", ruleW, w.InstrPos(rn), detail)
	// Every success-capable exit goes through the rename: as a path fact, or (single-exit writers) as a fact about the
	// values that can be returned — see c14ErrorOnlyViaRename. When the rename stands in a member the writer calls, the
	// same holds in that member, and every success exit of each caller on the chain lies behind `err == nil` of the call
	// (an exit that forwards the call's error counts: the engine records that fact for it).
	okExit, exitDetail, wit := c14SuccessOnlyAfter(w, u.rnFn, rn)
	if ch, _ := u.chain(u.rnFn); okExit {
		for _, call := range ch {
			s := w.Summarize(call.Parent(), Mode{Kind: mErr})
			c.Evals += s.States
			if !s.Complete || len(s.Exits) == 0 {
				okExit, exitDetail = false, "the exits of "+fnName(call.Parent())+" are not understood"
			}
			for _, e := range s.Exits {
				if !labelHas(e.Checked, "EQ("+descTailErr(call)+",nil)") {
					okExit, exitDetail = false, "a success exit of "+fnName(call.Parent())+" at "+w.InstrPos(e.Ret)+" does not depend on the success of "+calleeName(call)
				}
			}
		}
	}
	c.Check(okExit, "writer/success-only-after-rename", "the writer reports success only after the rename", w.FnPos(WF), exitDetail, wit...)
	// the destination parameter is used only as Rename's second argument (handed down the chain of calls to it, or
	// rendered into a log or error text)
	var uses []string
	c14DestUses(u, pathP, 0, &uses)
	c.Check(len(uses) == 0, "writer/destination-only-renamed", "the destination path reaches no call other than Rename's second argument: the entry is never created, opened, truncated or used to derive the temp name", w.FnPos(WF), fmt.Sprintf("other uses of the destination path: %v", uses))
	// no second file creation in the writer (and in the functions it calls)
	nCreate := 0
	for _, f := range u.fns {
		for _, g := range append([]*ssa.Function{f}, closuresOf(f)...) {
			for _, ci := range allCalls(g) {
				switch calleeName(ci) {
				case "os.Create", "os.OpenFile", "os.WriteFile", "os.CreateTemp":
					nCreate++
				}
			}
		}
	}
	c.Check(nCreate == 1, "writer/single-create", "the writer creates exactly one file (the temporary one)", w.FnPos(WF), fmt.Sprintf("%d file-creating calls", nCreate))
}

// c14SuccessOnlyAfter: no success-capable exit of the function that holds the rename is reachable without the rename.
func c14SuccessOnlyAfter(w *World, fn *ssa.Function, rn *ssa.Call) (bool, string, []string) {
	if rn.Block().Index == 0 {
		return true, "", nil // the rename stands in the entry block: every path runs it
	}
	fi := w.Info(fn)
	cut := map[edgeKey]bool{}
	cutInto(fi, rn.Block(), cut)
	wit := fi.successWitness(Mode{Kind: mErr}, entryState(), cut)
	if wit == nil {
		return true, "", nil
	}
	if ok, why := c14ErrorOnlyViaRename(fi, rn); !ok {
		return false, "a success exit bypasses the rename: " + why, wit
	}
	return true, "", nil
}

// c14DestUses: the uses of the destination parameter other than as Rename's second argument, following it into the
// members it is handed to.
func c14DestUses(u *c14Unit, p *ssa.Parameter, depth int, uses *[]string) {
	if depth > 6 {
		*uses = append(*uses, "handed on too deep")
		return
	}
	for _, r := range *p.Referrers() {
		switch x := r.(type) {
		case *ssa.DebugRef:
		case *ssa.Call:
			if x == u.rn {
				if x.Call.Args[0] == ssa.Value(p) {
					*uses = append(*uses, "source of the rename")
				}
				continue
			}
			if isFormattingCall(x) {
				continue
			}
			if g := staticCallee(x); g != nil && u.member(g) && g != u.WF && len(x.Call.Args) == len(g.Params) {
				for i, a := range x.Call.Args {
					if a == ssa.Value(p) {
						c14DestUses(u, g.Params[i], depth+1, uses)
					}
				}
				continue
			}
			*uses = append(*uses, calleeName(x))
		default:
			if onlyFormatted(r, 0) {
				continue // the path is only rendered into a log or error text
			}
			*uses = append(*uses, fmt.Sprintf("%T", r))
		}
	}
}

func c14Key(c *Ctx, a *crlAnchors) {
	w := c.W
	rule := "key = hex.EncodeToString(sha256.Sum256([]byte(url))[:]) — the complete hash of exactly the URL string"
	if a.Key == nil {
		c.Bad("key/sha256-of-url", rule, "-", "no key function found")
		return
	}
	c.SeenFn(a.Key.String())
	// Every return of the key function delivers the lower-case hex rendering (hex.EncodeToString, or fmt.Sprintf("%x"))
	// of the complete SHA-256 digest of exactly the URL parameter (c14URLDigest: one-shot or streaming form).
	ok, n := true, 0
	got := ""
	up := a.Key.Params[len(a.Key.Params)-1]
	for _, b := range a.Key.Blocks {
		r, isRet := blockTerm(b).(*ssa.Return)
		if !isRet || len(r.Results) != 1 {
			continue
		}
		n++
		rv := loadOrigin(r.Results[0])
		hx, isCall := rv.(*ssa.Call)
		var dig ssa.Value
		switch {
		case isCall && calleeName(hx) == "fmt.Sprintf" && len(hx.Call.Args) == 2 && desc(hx.Call.Args[0]) == `const:"%x"`:
			if els := appendedElems(hx.Call.Args[1]); len(els) == 1 {
				dig = unwrap(els[0])
			}
		case isCall && calleeName(hx) == "encoding/hex.EncodeToString":
			dig = hx.Call.Args[0]
		}
		if dig == nil {
			ok, got = false, desc(rv)
			continue
		}
		if good, why := c14URLDigest(dig, up); !good {
			ok, got = false, "hex("+why+")"
		}
	}
	c.Check(ok && n > 0, "key/sha256-of-url", rule, w.FnPos(a.Key), "the key is "+got)
}

// c14URLDigest: the value is the complete SHA-256 digest of exactly the bytes of the string parameter up —
//   - sha256.Sum256([]byte(up)): the array itself, or the unsliced view h[:] of the variable it was assigned to (once);
//   - h.Sum(nil) of a hash made here by sha256.New() into which exactly one thing was written, the whole of up
//     (io.WriteString(h, up) or h.Write([]byte(up))), on every path before the Sum, and which is used for nothing else
//     (Sum appends the digest of everything written so far to its argument: a nil argument and a single write of the
//     URL give the same 32 bytes as the one-shot form).
func c14URLDigest(v ssa.Value, up *ssa.Parameter) (bool, string) {
	isURLBytes := func(x ssa.Value) bool { return unwrap(x) == ssa.Value(up) }
	oneShot := func(x ssa.Value) (bool, string) {
		sum, ok := x.(*ssa.Call)
		if !ok || calleeName(sum) != "crypto/sha256.Sum256" {
			return false, desc(x)
		}
		if !isURLBytes(sum.Call.Args[0]) {
			return false, "sha256(" + desc(sum.Call.Args[0]) + ")"
		}
		return true, ""
	}
	switch x := v.(type) {
	case *ssa.Slice:
		if x.Low != nil || x.High != nil || x.Max != nil {
			return false, desc(v) + " (the hash is sliced)"
		}
		al, ok := x.X.(*ssa.Alloc)
		if !ok {
			return false, desc(v)
		}
		var src ssa.Value
		n := 0
		for _, rr := range *al.Referrers() {
			switch y := rr.(type) {
			case *ssa.Store:
				if y.Addr == ssa.Value(al) {
					n++
					src = y.Val
				}
			case *ssa.IndexAddr:
				if addrWritten(y, 0) {
					n += 2
				}
			}
		}
		if n != 1 {
			return false, desc(v) + " (the array is written more than once)"
		}
		return oneShot(src)
	case *ssa.Call:
		if calleeName(x) == "crypto/sha256.Sum256" {
			return oneShot(x)
		}
		if calleeName(x) != "invoke:hash.Hash.Sum" || len(x.Call.Args) != 1 || !isNilConst(x.Call.Args[0]) {
			return false, desc(v)
		}
		h, ok := x.Call.Value.(*ssa.Call)
		if !ok || calleeName(h) != "crypto/sha256.New" {
			return false, desc(v) + " (not a hash made here by sha256.New)"
		}
		// every use of the hash: the Sum, and one write of the URL that dominates it
		var uses []ssa.Instruction
		var collect func(val ssa.Value)
		collect = func(val ssa.Value) {
			for _, r := range *val.Referrers() {
				switch y := r.(type) {
				case *ssa.DebugRef:
				case *ssa.ChangeInterface:
					collect(y)
				case *ssa.MakeInterface:
					collect(y)
				default:
					uses = append(uses, r)
				}
			}
		}
		collect(h)
		var wr ssa.Instruction
		for _, r := range uses {
			if r == ssa.Instruction(x) {
				continue
			}
			call, isCall := r.(*ssa.Call)
			if !isCall {
				return false, fmt.Sprintf("sha256 of a hash that is also used by %T", r)
			}
			isWrite := false
			switch calleeName(call) {
			case "io.WriteString":
				isWrite = len(call.Call.Args) == 2 && call.Call.Args[1] == ssa.Value(up)
			case "invoke:hash.Hash.Write", "invoke:io.Writer.Write":
				isWrite = len(call.Call.Args) == 1 && isURLBytes(call.Call.Args[0])
				if _, isConv := call.Call.Args[0].(*ssa.Convert); !isConv {
					isWrite = false
				}
			}
			if !isWrite || wr != nil {
				return false, "sha256 of a hash that is also fed by " + desc(call)
			}
			wr = call
		}
		if wr == nil {
			return false, "sha256 of nothing (the URL is not written into the hash)"
		}
		if wr.Block() != x.Block() && !wr.Block().Dominates(x.Block()) {
			return false, "the URL is not written into the hash on every path"
		}
		if wr.Block() == x.Block() && instrIndex(wr) > instrIndex(x) {
			return false, "the URL is written into the hash after the digest was taken"
		}
		return true, ""
	}
	return false, desc(v)
}

// ---- C15 ---------------------------------------------------------------------------

func runC15(c *Ctx) {
	w := c.W
	a := findCRL(c)
	if a.Get == nil || a.Set == nil {
		c.Unk("anchors", "anchors: the file cache's Get and Set", "-", "not found")
		return
	}
	c14Key(c, a)
	Get, Set := a.Get, a.Set
	c.SeenFn(Get.String())
	c.SeenFn(Set.String())
	m := Mode{Kind: mErr}
	gfi := w.Info(Get)
	// Get and Set may delegate steps to functions of the package (decode + parse, the expiry checks, building the entry).
	// An obligation is then decided where the step lives, and carried into the frame of Get / Set the way the gate
	// composition carries labels: the helper's parameters are replaced by the arguments of its (only) call.
	getUnit := append([]*ssa.Function{Get}, calleesInPkg(w, Get, "verifier/crl")...)
	setUnit := append([]*ssa.Function{Set}, calleesInPkg(w, Set, "verifier/crl")...)
	// ---- (a) field pairing ---------------------------------------------------------
	// entry type: the struct decoded on the way of Get
	var entry *ssa.Alloc
	var um *ssa.Call
	var Fu *ssa.Function
	nUm := 0
	for _, f := range getUnit {
		for _, ci := range findCalls(f, "encoding/json.Unmarshal") {
			if call, ok := ci.(*ssa.Call); ok {
				nUm++
				um, Fu = call, f
			}
		}
	}
	if nUm == 1 {
		entry, _ = unwrap(um.Call.Args[1]).(*ssa.Alloc)
	}
	var frU *c15Frame
	if entry != nil {
		frU = c15FramePath(getUnit, Get, Fu)
	}
	if entry == nil || frU == nil {
		c.Bad("pairing/entry", "Get decodes the stored entry into the entry struct", w.FnPos(Get), fmt.Sprintf("%d json.Unmarshal calls into a local entry in Get and the functions of the package it calls (exactly one, in Get or a function called once on the way, is understood)", nUm))
		return
	}
	c.SeenFn(Fu.String())
	est := entry.Type().Underlying().(*types.Pointer).Elem().Underlying().(*types.Struct)
	tags := map[string]string{}
	for i := 0; i < est.NumFields(); i++ {
		tg := reflect.StructTag(est.Tag(i)).Get("json")
		tags[est.Field(i).Name()] = strings.Split(tg, ",")[0]
	}
	c.Check(len(tags) == 2 && tags["BaseCRL"] != "" && tags["DeltaCRL"] != "" && tags["BaseCRL"] != tags["DeltaCRL"], "pairing/json-names", "the entry has two fields BaseCRL and DeltaCRL with distinct, non-empty JSON names", w.InstrPos(entry), fmt.Sprintf("tags: %v", tags))
	ed := desc(entry)
	// Get: parse(field X) -> bundle.X. The bundle field may be assigned in place or through a local that is nil or the parsed
	// list (`var d *RevocationList; if entry.X != nil { d, err = Parse(entry.X) }; ...; &Bundle{X: d}`). The bundle may be
	// filled in Get, in the function that decodes, or in a function the decoding function hands the entry to: what is
	// parsed is compared with the entry in the frame of the decoding function.
	// There may be several bundle objects (`if entry.Delta == nil { return &Bundle{Base: b}, nil }; …; return
	// &Bundle{Base: b, Delta: d}, nil`): the rule is stated per object — each one Get can return is filled from the parse
	// results of the like-named entry fields, and one that gets no delta is built only where the entry stores none.
	s := w.Summarize(Get, m)
	c.Evals += s.States
	var bundleT types.Type
	if r := Get.Signature.Results(); r.Len() == 2 {
		bundleT = r.At(0).Type()
	}
	var nonNilSrcs func(v ssa.Value, seen map[ssa.Value]bool, out *[]ssa.Value)
	nonNilSrcs = func(v ssa.Value, seen map[ssa.Value]bool, out *[]ssa.Value) {
		if seen[v] {
			return
		}
		seen[v] = true
		if ph, ok := v.(*ssa.Phi); ok {
			for _, e := range ph.Edges {
				nonNilSrcs(e, seen, out)
			}
			return
		}
		if isNilConst(v) {
			return
		}
		*out = append(*out, v)
	}
	type bundleObj struct {
		al   *ssa.Alloc
		fn   *ssa.Function
		srcs map[string][]ssa.Value // field -> the non-nil values that can be stored into it
		vals map[string][]string    // field -> how the stored value is written in conditions, in Get's frame (the local form)
		sts  []*ssa.Store
	}
	var objs []*bundleObj
	objOf := map[*ssa.Alloc]*bundleObj{}
	for _, fs := range c15FieldStores(getUnit, func(al *ssa.Alloc) bool { return bundleT != nil && types.Identical(al.Type(), bundleT) }) {
		o := objOf[fs.al]
		if o == nil {
			o = &bundleObj{al: fs.al, fn: fs.fn, srcs: map[string][]ssa.Value{}, vals: map[string][]string{}}
			objOf[fs.al] = o
			objs = append(objs, o)
			c.SeenFn(fs.fn.String())
		}
		var srcs []ssa.Value
		nonNilSrcs(fs.st.Val, map[ssa.Value]bool{}, &srcs)
		o.sts = append(o.sts, fs.st)
		o.srcs[fs.field] = append(o.srcs[fs.field], srcs...)
		if _, isPhi := fs.st.Val.(*ssa.Phi); isPhi || len(srcs) == 1 {
			if fr := c15FramePath(getUnit, Get, fs.fn); fr != nil {
				o.vals[fs.field] = append(o.vals[fs.field], fr.in(desc(fs.st.Val)))
			}
		}
	}
	// the objects Get can return, and how the returned value is written in Get's frame (one spelling for all exits)
	returned := map[*ssa.Alloc]bool{}
	okRet := len(s.Exits) > 0
	retDesc := ""
	for i, ex := range s.Exits {
		if !c15ResolveObjs(w, getUnit, ex.Ret.Results[0], 0, returned) {
			okRet = false
		}
		if d := desc(ex.Ret.Results[0]); i > 0 && d != retDesc {
			okRet = false
		} else {
			retDesc = d
		}
	}
	okPair := len(objs) > 0
	detail := ""
	if len(objs) == 0 {
		detail = "no bundle is filled on the way of Get"
	}
	var single *bundleObj
	if len(objs) == 1 {
		single = objs[0]
	}
	filledFromEntry := map[*ssa.Alloc]bool{} // the objects that pass the per-object rule
	for _, o := range objs {
		okBefore := okPair
		okPair = true
		// the frame of the function that fills the bundle, seen from the function that decodes
		frB := c15FramePath(getUnit, Fu, o.fn)
		if frB == nil {
			okPair = false
			detail = "a bundle is filled in " + fnName(o.fn) + ", which the decoding function " + fnName(Fu) + " does not reach by calls made once"
			continue // okPair stays false
		}
		// a value that is a parameter of the function that builds the bundle (a constructor: `newBundle(base, delta)`)
		// is what its only call passes, read in the caller (nil arguments and nil arms of a phi are no sources)
		leaves := map[string][]c15Leaf{}
		for f, srcs := range o.srcs {
			for _, v0 := range srcs {
				for _, lf := range c15ExpandParams(getUnit, o.fn, v0, 0) {
					if !isNilConst(lf.v) {
						leaves[f] = append(leaves[f], lf)
					}
				}
			}
		}
		for f, lfs := range leaves {
			for _, lf := range lfs {
				// the parse call itself, or the result of a function that hands back nothing but nil and such a parse
				// result (c15ParsedFrom), read in the frame of the decoding function
				good := false
				if frP := c15FramePath(getUnit, Fu, lf.fn); frP != nil {
					good = c15ParsedFrom(w, getUnit, lf.v, ed+"."+f, frP.in, 0)
				}
				if !good {
					okPair = false
					detail = "bundle." + f + " receives " + desc(lf.v)
				}
			}
		}
		if len(leaves["BaseCRL"]) == 0 {
			okPair = false
			if detail == "" {
				detail = "entry field BaseCRL is not parsed into bundle.BaseCRL"
			}
		}
		if len(leaves["DeltaCRL"]) == 0 {
			// an object without a delta is sound only where the entry has none: every path to its construction has
			// passed `entry.DeltaCRL == nil` (read in the frame of the decoding function)
			noDelta := false
			if len(objs) > 1 {
				for l := range w.Info(o.fn).GuardsOf(o.al) {
					if frB.in(l) == "EQ("+ed+".DeltaCRL,nil)" {
						noDelta = true
					}
				}
			}
			if !noDelta {
				okPair = false
				if detail == "" {
					detail = "entry field DeltaCRL is not parsed into bundle.DeltaCRL"
				}
			}
		}
		filledFromEntry[o.al] = okPair
		okPair = okPair && okBefore
	}
	// Nothing else writes the two objects: the entry is only decoded into, the bundles only filled by the stores just
	// examined (a function that is handed a pointer to either could otherwise replace a field after the fact). And when a
	// helper's frame is involved, its facts name the objects by type and local name: there must be one of each on the way.
	// With several bundle objects no fact may name one of them by its local name at all (the expiry facts are then
	// stated on the value Get returns, see below), every local of the bundle type must be one of the objects examined,
	// and Get must be able to return each of them (none is built only to be checked in place of the one returned).
	if bundleT != nil {
		mine := map[*ssa.Alloc]bool{}
		for _, o := range objs {
			mine[o.al] = true
		}
		if fs := c15ForeignStoresSet(w, getUnit, bundleT, mine); len(fs) > 0 {
			okPair = false
			detail = "the bundle is also written through another reference: " + fs[0]
		}
	}
	if fs := c15ForeignStores(w, getUnit, entry.Type(), nil); len(fs) > 0 {
		okPair = false
		detail = "the decoded entry is modified before it is parsed: " + fs[0]
	}
	helperInvolved := Fu != Get
	for _, o := range objs {
		if o.fn != Get {
			helperInvolved = true
		}
	}
	if helperInvolved {
		if n := c15LocalsOfType(getUnit, entry.Type()); n != 1 {
			okPair = false
			detail = fmt.Sprintf("%d locals of the entry type on the way of Get", n)
		}
	}
	if bundleT != nil && (helperInvolved || len(objs) > 1) {
		if n := c15LocalsOfType(getUnit, bundleT); n != len(objs) {
			okPair = false
			detail = fmt.Sprintf("%d locals of the bundle type on the way of Get, %d of them filled from the entry", n, len(objs))
		}
	}
	if len(objs) > 1 {
		for _, o := range objs {
			if !returned[o.al] {
				okPair = false
				detail = "a bundle is built at " + w.InstrPos(o.al) + " that Get never returns"
			}
		}
	}
	c.Check(okPair, "pairing/get", "Get parses entry field X into bundle.X for X in {BaseCRL, DeltaCRL}", w.FnPos(Get), detail)
	// Set: bundle.X.Raw -> entry field X (directly, or through a local that is nil or bundle.X.Raw). The entry may be built
	// in a function Set calls: what that function stores is read in Set's frame.
	okSet := true
	sdetail := ""
	var sEntry *ssa.Alloc
	var Fe *ssa.Function
	var entryStores []*ssa.Store
	storedVals := map[string][]ssa.Value{}
	for _, fs := range c15FieldStores(setUnit, func(al *ssa.Alloc) bool { return types.Identical(al.Type(), entry.Type()) }) {
		if sEntry != nil && sEntry != fs.al {
			okSet = false
			sdetail = "more than one entry is filled; "
		}
		sEntry, Fe = fs.al, fs.fn
		entryStores = append(entryStores, fs.st)
		var srcs []ssa.Value
		nonNilSrcs(fs.st.Val, map[ssa.Value]bool{}, &srcs)
		storedVals[fs.field] = append(storedVals[fs.field], srcs...)
	}
	var frE *c15Frame
	if Fe != nil {
		c.SeenFn(Fe.String())
		if frE = c15FramePath(setUnit, Set, Fe); frE == nil {
			okSet = false
			sdetail += "the entry is built in " + fnName(Fe) + ", which Set does not reach by calls made once; "
		}
	}
	if sEntry != nil {
		if fs := c15ForeignStores(w, setUnit, sEntry.Type(), sEntry); len(fs) > 0 {
			okSet = false
			sdetail += "the entry is also written through another reference: " + fs[0] + "; "
		}
	}
	bp := "param:" + Set.Params[3].Name()
	for _, f := range []string{"BaseCRL", "DeltaCRL"} {
		okF := len(storedVals[f]) > 0 && frE != nil
		var got []string
		for _, v := range storedVals[f] {
			// what the value can be other than nil — itself, or what a helper of the package hands back for it
			// (`rawOf(bundle.DeltaCRL)`: nil or list.Raw), read in the frame of its call (c15ValueSpellings)
			ds, okV := c15ValueSpellings(w, setUnit, v, 0)
			if !okV || len(ds) == 0 {
				okF = false
				ds = append(ds, desc(v))
			}
			for _, d := range ds {
				if frE != nil {
					d = frE.in(d)
				}
				got = append(got, d)
				if d != bp+"."+f+".Raw" {
					okF = false
				}
			}
		}
		if !okF {
			okSet = false
			sdetail += fmt.Sprintf("entry.%s = %v; ", f, got)
		}
	}
	c.Check(okSet, "pairing/set", "Set stores bundle.X.Raw into entry field X for X in {BaseCRL, DeltaCRL}", w.FnPos(Set), sdetail)
	// ---- (b) gates of Get ---------------------------------------------------------------
	// Facts are compared as whole labels: a disjunction that merely contains the wanted fact is weaker and does not count.
	gNeeds := []c15Need{}
	// The read may stand in Get or in a function of the package reached from Get by calls made once (`contentBytes, err
	// := c.readEntry(url)`): its facts are then facts of that function, read in Get's frame.
	var rf *ssa.Call
	var Fr *ssa.Function
	var frR *c15Frame
	nRf := 0
	for _, f := range getUnit {
		for _, ci := range findCalls(f, "os.ReadFile") {
			nRf++
			if call, ok := ci.(*ssa.Call); ok {
				rf, Fr = call, f
			}
		}
	}
	if nRf == 1 && rf != nil {
		frR = c15FramePath(getUnit, Get, Fr)
	}
	if frR != nil {
		c.SeenFn(Fr.String())
		gNeeds = append(gNeeds, c15Need{"read-error", "os.ReadFile err == nil", frR.in("EQ(" + desc(rf) + "#err,nil)"), nil})
	} else {
		rf = nil
		c.Bad("get/read-error", "Get reads the entry with os.ReadFile and fails on a read error", w.FnPos(Get), fmt.Sprintf("%d os.ReadFile calls in Get and the functions of the package it calls (exactly one, in Get or a function called once on the way, is understood)", nRf))
	}
	gNeeds = append(gNeeds,
		c15Need{"decode-error", "json.Unmarshal err == nil", frU.in("EQ(" + desc(um) + ",nil)"), nil},
		c15Need{"base-parse-error", "ParseRevocationList(entry.BaseCRL) err == nil", "EQ(call:crypto/x509.ParseRevocationList(" + ed + ".BaseCRL)#err,nil)", nil},
	)
	c.c15RequireOnExits("get", Get, s.Exits, gNeeds)
	// Expiry. The clock is consulted by a function on the way of Get (role: it calls time.Now); what Get owes is stated on
	// the NextUpdate values themselves — every success exit carries "NextUpdate is not zero" and "now is not after
	// NextUpdate" for the bundle's base CRL — whatever the helper takes as its parameter (the time, the list, the bundle)
	// and however many calls lie in between: the helper's facts arrive in Get's frame with its parameters substituted.
	// How the bundle's lists are written in those facts: as a field of the value Get returns (the local, or the result
	// of the function that builds the bundle — whichever of several objects that is, the facts are about the one
	// returned), or, with a single object, as the local the field was filled from. A spelling that names a local is
	// used only when there is one bundle object: two locals of one type and name print alike.
	EXs := c15ExpiryFns(getUnit)
	lists := map[string][]string{} // field -> spellings of the bundle's list
	for _, f := range []string{"BaseCRL", "DeltaCRL"} {
		if okRet && (single != nil || !strings.Contains(retDesc, "alloc:"+namedOf(bundleT))) {
			lists[f] = append(lists[f], retDesc+"."+f)
		}
		if single != nil {
			lists[f] = append(lists[f], desc(single.al)+"."+f)
			if single.fn == Get {
				lists[f] = append(lists[f], single.vals[f]...)
			}
		}
	}
	notZero := func(v string) string { return "F(call:(time.Time).IsZero(" + v + ".NextUpdate))" }
	// "now is not after v.NextUpdate" in any of its standard-library spellings (c15ClockLabels)
	fresh := func(v string) []string {
		_, fr := c15ClockLabels(v + ".NextUpdate")
		return fr
	}
	// The checks may also be written as one loop over a table of the bundle's lists (c15TableLoops): the loop
	// establishes, for each list in the table, "nil, or checked" at every success exit. For the delta that is the
	// obligation itself; for the base CRL it is the obligation once the list is known not to be nil — it is result 0 of
	// the x509.ParseRevocationList call whose error every success exit has tested nil (pairing/get, get/base-parse-error),
	// and that function hands back a non-nil list whenever its error is nil (trusted; the unconditional
	// bundle.BaseCRL.NextUpdate of the straight-line form relies on the same contract).
	tf := c15TableLoops(w, Get, m, func(ld *ssa.UnOp) bool {
		fa, ok := ld.X.(*ssa.FieldAddr)
		if !ok {
			return false
		}
		if al, isAl := fa.X.(*ssa.Alloc); isAl {
			o := objOf[al]
			return o != nil && c15LoadSeesStores(gfi, ld, o.sts)
		}
		return true
	})
	baseParsed := "EQ(call:crypto/x509.ParseRevocationList(" + ed + ".BaseCRL)#err,nil)"
	if len(EXs) == 0 {
		c.Bad("get/base-expiry", "Get checks the expiry of the base CRL", w.FnPos(Get), "no expiry check on a NextUpdate")
	} else {
		rule := "must-check: every success-capable exit of " + fnName(Get) + " lies behind: NextUpdate of the bundle's base CRL is not zero and time.Now() is not after it"
		// The check may also answer for an absent list itself (the guard `list == nil -> nothing to check` stands in
		// the checking function, or around the check): what the paths then establish for a list v is "v is nil, or its
		// NextUpdate is not zero" and "v is nil, or now is not after its NextUpdate" — no success of Get without passing,
		// in Get or inside a function whose success Get waits for, an edge that carries one of the two facts (c15Blocked,
		// the callee's facts read with its parameters replaced by the arguments). As with the table loop that is the
		// obligation once the base list is known not to be nil: it is result 0 of the ParseRevocationList call whose error
		// every success exit has tested nil (pairing/get, the exit's own fact). And because a nil list now passes, the
		// facts must be about the list the bundle finally holds: every read of the field of a local bundle object (a
		// load, or a call that is handed the object) comes after the field was filled (c15ReadsSeeStores) — a check
		// that ran before the parse would see nil and succeed.
		baseNilOrChecked := map[string]bool{}
		orderWhy := ""
		for _, v := range lists["BaseCRL"] {
			okZ, nZ, _ := c15Blocked(w, Get, m, oneOfLabels([]string{"EQ(" + v + ",nil)", notZero(v)}), 0)
			okF, nF, _ := c15Blocked(w, Get, m, oneOfLabels(append(fresh(v), "EQ("+v+",nil)")), 0)
			c.Evals += 2
			if !okZ || nZ == 0 || !okF || nF == 0 {
				continue
			}
			ordered := true
			for _, o := range objs {
				if ok, why := c15ReadsSeeStores(w, o.al, "BaseCRL", o.sts); !ok {
					ordered, orderWhy = false, "; "+why
				}
			}
			baseNilOrChecked[v] = ordered
		}
		okBase := len(s.Exits) > 0
		bdetail := "no success-capable exit"
		site := w.FnPos(Get)
		for _, ex := range s.Exits {
			c.Evals++
			okEx := false
			for _, v := range lists["BaseCRL"] {
				if labelHas(ex.Checked, notZero(v)) && labelHasAny(ex.Checked, fresh(v)) {
					okEx = true
					site = ex.Checked[notZero(v)]
				}
				if tf.nilOrFresh[v] && tf.nilOrNotZero[v] && okPair && labelHas(ex.Checked, baseParsed) {
					okEx = true
				}
				if baseNilOrChecked[v] && okPair && labelHas(ex.Checked, baseParsed) {
					okEx = true
				}
			}
			if !okEx {
				okBase = false
				bdetail = fmt.Sprintf("success-capable exit at %s is reachable without that check%s; facts that do hold on every path to it: %s", w.InstrPos(ex.Ret), orderWhy, summarizeLabels(ex.Checked, 12))
				site = w.InstrPos(ex.Ret)
				break
			}
		}
		c.Check(okBase, "get/base-expiry", rule, site, bdetail)
		// no delta: the bundle's field (or the local it is built from) is nil, or the entry stores none (pairing/get)
		dl := []string{"EQ(" + ed + ".DeltaCRL,nil)"}
		for _, v := range lists["DeltaCRL"] {
			dl = append(dl, "EQ("+v+",nil)")
			dl = append(dl, fresh(v)...)
		}
		ok, n, wit := c15Blocked(w, Get, m, oneOfLabels(dl), 0)
		if !ok {
			for _, v := range lists["DeltaCRL"] {
				if tf.nilOrFresh[v] {
					ok, n, wit = true, tf.gates, nil
				}
			}
		}
		// "The delta is nil, or it was checked" is a fact about the delta the bundle finally holds only when the field of
		// a local bundle object is read after it was filled (c15ReadsSeeStores): a check placed before the parse sees nil.
		ddetail := "a bundle whose delta CRL is expired is returned"
		for _, o := range objs {
			if okO, why := c15ReadsSeeStores(w, o.al, "DeltaCRL", o.sts); !okO {
				ok, ddetail = false, ddetail+": "+why
			}
		}
		c.slot(ok && n >= 2, n, "get/delta-expiry", "whenever the bundle has a delta CRL its expiry check passes (independently of the base)", w.FnPos(Get), ddetail, wit...)
		for _, EX := range EXs {
			c15Expiry(c, EX)
		}
	}
	{
		ok, n, wit := c15Blocked(w, Get, m, oneOfLabels([]string{"EQ(" + ed + ".DeltaCRL,nil)", "EQ(call:crypto/x509.ParseRevocationList(" + ed + ".DeltaCRL)#err,nil)"}), 0)
		c.slot(ok && n >= 2, n, "get/delta-parse-error", "whenever a delta CRL is stored it must parse", w.FnPos(Get), "an entry with an unparsable delta CRL is returned", wit...)
	}
	// not-exist -> miss sentinel: in the function that reads, some return delivers nothing but the sentinel (itself, or
	// wrapped with %w), arriving by a way that is only open when the read error is "does not exist" (c15SentinelWays);
	// and when that function is not Get, each caller on the way hands the error of the call on — itself or wrapped with
	// %w — next to a nil bundle (c15ErrWays), so that errors.Is still finds the sentinel in what Get returns.
	if rf != nil {
		// errors.Is(err, fs.ErrNotExist), or its older spelling os.IsNotExist(err): the error tested is the one os.ReadFile
		// itself returned, a *PathError of package os, and for those the two agree
		notExist := []string{"T(call:errors.Is(" + desc(rf) + "#err,global:io/fs.ErrNotExist))", "T(call:os.IsNotExist(" + desc(rf) + "#err))"}
		okMiss := false
		missDetail := "no miss for a non-existent entry"
		rfi := w.Info(Fr)
		for _, b := range Fr.Blocks {
			r, isRet := blockTerm(b).(*ssa.Return)
			if !isRet || len(r.Results) != 2 || !c15OnlyErrorReturned(r) {
				continue
			}
			for _, facts := range c15SentinelWays(rfi, r.Results[1], b, "global:core/revocation/crl.ErrCacheMiss", 0) {
				c.Evals++
				if labelHasAny(facts, notExist) {
					okMiss = true
				}
			}
		}
		for fr := frR; okMiss && fr != nil && !fr.ident && fr.call != nil; fr = fr.outer {
			caller := fr.call.Parent()
			cfi := w.Info(caller)
			fwd := false
			for _, b := range caller.Blocks {
				r, isRet := blockTerm(b).(*ssa.Return)
				if !isRet || len(r.Results) != 2 || !c15OnlyErrorReturned(r) {
					continue
				}
				if len(c15ErrWays(cfi, r.Results[1], b, c15IsErrOf(fr.call), 0)) > 0 {
					fwd = true
				}
			}
			if !fwd {
				okMiss = false
				missDetail = fnName(caller) + " does not hand on the error of " + calleeName(fr.call) + " (itself or wrapped with %w): the miss is lost on the way"
			}
		}
		c.Check(okMiss, "get/missing-is-miss", "a URL never stored (file does not exist) yields the cache-miss sentinel, other read errors an error", w.FnPos(Get), missDetail)
		c.c15MissingOnlyMiss(Get, Fr, rf, frR) // and by no other return (must-pass form, extra_c14_15.go)
	}
	// the bundle returned is one of those filled: the object itself, or the result of the function that fills it, which
	// hands back such an object on every exit that reports success (c15ResolveObjs, computed above)
	for al := range returned {
		if !filledFromEntry[al] {
			okRet = false
		}
	}
	c.Check(okRet && len(returned) > 0, "get/returns-parsed-bundle", "Get returns the bundle parsed from the entry", w.FnPos(Get), "another value is returned")
	// ---- (c) confinement ------------------------------------------------------------------
	wfUnit, _ := c14FindUnit(w, a.WF)
	_, pathArg, contentArg := wfUnit.roles() // which argument of the writer is the destination, which the content
	// The file-system calls of Get / Set may stand in functions of the package they call: each path is judged where it is
	// used, read in the frame of Get / Set (c15PathIsKeyOfURL).
	for _, fn := range []*ssa.Function{Get, Set} {
		unit := getUnit
		if fn == Set {
			unit = setUnit
		}
		recv := "param:" + fn.Params[0].Name()
		urlP := "param:" + fn.Params[2].Name()
		want := "call:path/filepath.Join({" + recv + ".root," + callForm(a.Key, 0, recv, urlP) + "})"
		ok := true
		var bad []string
		n := 0
		for _, f := range unit {
			for _, ci := range allCalls(f) {
				nm := calleeName(ci)
				isFS := fsReaders[nm] || fsMutators[nm]
				var pathArgs []ssa.Value
				if isFS && len(ci.Common().Args) > 0 && ci.Common().Args[0].Type().String() == "string" {
					pathArgs = append(pathArgs, ci.Common().Args[0])
				}
				if g := staticCallee(ci); g != nil && a.WF != nil && g == a.WF {
					isFS = true
					pathArgs = append(pathArgs, ci.Common().Args[pathArg])
				}
				if !isFS {
					continue
				}
				for _, pa := range pathArgs {
					n++
					c.Evals++
					if good, why := c15PathIsKeyOfURL(a, unit, fn, f, pa, want); !good {
						ok = false
						bad = append(bad, nm+"("+why+")")
					}
				}
			}
		}
		c.Check(ok && n > 0, "confinement/"+fn.Name(), "every file-system path in "+fn.Name()+" is Join(root, key(url)): the URL reaches the file system only through its hash", w.FnPos(fn), fmt.Sprintf("other paths: %v", bad))
	}
	// ---- (d) Set gates ------------------------------------------------------------------------
	ss := w.Summarize(Set, m)
	c.Evals += ss.States
	// the call of the writer: in Set, or in a function of the package only Set reaches by calls made once (c15WriterCall)
	var mcall *ssa.Call
	wcall, frW, _ := c15WriterCall(w, a, setUnit)
	// The encoder may stand in Set or in a function Set calls (`contentBytes, err := encodeBundle(bundle)`): it is found
	// from what is written — the content argument of the writer is result 0 of a json.Marshal call, directly or handed
	// back by the function(s) in between on every exit that reports success (c15MarshalOf). Its error is then a fact of
	// the function it stands in, read in Set's frame.
	var Fm *ssa.Function
	var frM *c15Frame
	if wcall != nil {
		cv, _ := c15UpChain(frW, wcall.Parent(), wcall.Call.Args[contentArg])
		if mcall = c15MarshalOf(w, setUnit, cv, 0); mcall != nil {
			Fm = mcall.Parent()
			frM = c15FramePath(setUnit, Set, Fm)
			c.SeenFn(Fm.String())
		}
	}
	setNeeds := []c15Need{
		{"nil-bundle", "bundle != nil", "NE(" + bp + ",nil)", nil},
		{"nil-base", "bundle.BaseCRL != nil", "NE(" + bp + ".BaseCRL,nil)", nil},
	}
	if mcall != nil && frM != nil {
		var x ssa.Value
		if Fm == Set {
			for _, r := range *mcall.Referrers() {
				if ex, ok := r.(*ssa.Extract); ok && ex.Index == 1 {
					x = ex
				}
			}
		}
		setNeeds = append(setNeeds, c15Need{"marshal-error", "json.Marshal err == nil", frM.in("EQ(" + desc(mcall) + "#err,nil)"), x})
	}
	if wcall != nil {
		var x ssa.Value
		if wcall.Parent() == Set {
			x = wcall
		}
		setNeeds = append(setNeeds, c15Need{"write-error", "the writer's err == nil", frW.in("EQ(" + desc(wcall) + ",nil)"), x})
	}
	c.c15RequireOnExits("set", Set, ss.Exits, setNeeds)
	// What is marshalled is the entry as it stands after all its fields were stored: the local itself (read after the
	// stores), or the result of the function that builds it, every return of which reads the local after the stores.
	okW := false
	if wcall != nil && mcall != nil && frM != nil && sEntry != nil && frE != nil {
		efi := w.Info(Fe)
		// v is the entry, read at the load — or, when its address is passed on, at the instruction that consumes it
		readsEntry := func(v ssa.Value, consumer ssa.Instruction) bool {
			al, _ := unwrapLoadAlloc(v)
			if al != sEntry {
				return false
			}
			if ld, isLoad := v.(*ssa.UnOp); isLoad {
				consumer = ld
			}
			return c15LoadSeesStores(efi, consumer, entryStores)
		}
		arg := unwrap(mcall.Call.Args[0])
		if Fe == Fm {
			okW = readsEntry(arg, mcall)
		} else if frE.call != nil && frE.call.Parent() == Fm && arg == ssa.Value(frE.call) {
			okW = true
			nRet := 0
			for _, b := range Fe.Blocks {
				if r, isRet := blockTerm(b).(*ssa.Return); isRet && len(r.Results) > 0 {
					nRet++
					if !readsEntry(r.Results[0], r) {
						okW = false
					}
				}
			}
			okW = okW && nRet > 0
		}
	}
	c.Check(okW, "set/writes-marshalled-entry", "what is written is json.Marshal(entry) of the entry filled from the bundle", w.FnPos(Set), "other bytes are written")
	// delta stored only when present (nil deref guard) — and always when present. Decided in the function that fills the
	// entry (every return of it, when it has no error result): no exit without the store, except where the bundle's delta is nil.
	if sEntry != nil && frE != nil {
		efi := w.Info(Fe)
		noDelta := "EQ(" + bp + ".DeltaCRL,nil)"
		for _, st := range entryStores {
			if fa := st.Addr.(*ssa.FieldAddr); fieldName(sEntry.Type(), fa.Field) == "DeltaCRL" {
				cut := efi.edgesMatching(func(l string, _ *ssa.If, _ bool) bool { return frE.in(l) == noDelta })
				cutInto(efi, st.Block(), cut)
				wit := efi.successWitness(m, entryState(), cut)
				// and what is stored is nil only where the bundle has no delta: every way the stored value can be nil (a nil
				// arm of a phi, a nil handed back by the helper that answers for an absent list) lies behind
				// `bundle.DeltaCRL == nil`, read in Set's frame (c15NilWays)
				dropped := "a delta CRL can be dropped"
				ways, okW := c15NilWays(w, setUnit, efi, st.Val, st.Block(), 0)
				okNil := okW
				for _, wy := range ways {
					c.Evals++
					behind := false
					for l := range wy {
						if frE.in(l) == noDelta {
							behind = true
						}
					}
					if !behind {
						okNil = false
						dropped = "nil can be stored as the entry's delta although the bundle has one"
					}
				}
				c.Check(wit == nil && okNil, "set/delta-stored-when-present", "whenever the bundle has a delta CRL it is stored", w.InstrPos(st), dropped, wit...)
			}
		}
	}
	c.MinCount("", 15, "cache freshness obligations")
}

// c15Expiry: the function that consults the clock. The time it judges is the operand it compares with time.Now().
func c15Expiry(c *Ctx, EX *ssa.Function) {
	w := c.W
	c.SeenFn(EX.String())
	fi := w.Info(EX)
	// The time judged: what the function's own branch facts compare the clock with (any standard-library spelling, the
	// comparison standing in the function or in a predicate it calls); failing that, its parameter of type time.Time.
	tp := c15JudgedTime(fi)
	if tp == "" {
		for _, p := range EX.Params {
			if p.Type().String() == "time.Time" {
				tp = paramValueDesc(p)
			}
		}
	}
	s := w.Summarize(EX, Mode{Kind: mErr})
	c.Evals += s.States
	expired, freshOK := c15ClockLabels(tp)
	// When the time judged is the NextUpdate of a list the function is handed (`L.NextUpdate`), the function may also
	// answer for an absent list: a success that lies behind `L == nil` (exactly that fact, for exactly the list whose
	// NextUpdate is judged) judges no time at all. What the function then guarantees is "the list is absent, or its
	// NextUpdate is not zero / not passed"; whether absence is acceptable is not decided here but in Get: for the delta
	// CRL it is the obligation itself (get/delta-expiry: "whenever the bundle has a delta"), for the base CRL Get must
	// in addition know the list is there (get/base-expiry). The guard clause `if bundle.DeltaCRL != nil` of the caller
	// moved into the callee is this shape.
	zeroOK := []string{"F(call:(time.Time).IsZero(" + tp + "))"}
	if root := strings.TrimSuffix(tp, ".NextUpdate"); root != tp && root != "" {
		zeroOK = append(zeroOK, "EQ("+root+",nil)")
		freshOK = append(freshOK, "EQ("+root+",nil)")
	}
	c.c15RequireOrBlocked("expiry", EX, s.Exits, "zero-next-update", "NextUpdate is not the zero time", zeroOK)
	c.c15RequireOrBlocked("expiry", EX, s.Exits, "not-expired", "not time.Now().After(nextUpdate)", freshOK)
	// expired -> the miss sentinel: some returned value is the sentinel, or wraps it with %w, arriving by a way that is
	// only open when now is after NextUpdate (c15SentinelWays)
	okMiss := false
	for _, b := range EX.Blocks {
		r, isRet := blockTerm(b).(*ssa.Return)
		if !isRet || len(r.Results) == 0 {
			continue
		}
		for _, facts := range c15SentinelWays(fi, r.Results[len(r.Results)-1], b, "global:core/revocation/crl.ErrCacheMiss", 0) {
			c.Evals++
			if labelHasAny(facts, expired) {
				okMiss = true
			}
		}
	}
	c.Check(okMiss, "expiry/expired-is-miss", "an expired CRL yields the cache-miss sentinel (the entry is treated as absent)", w.FnPos(EX), "expiry does not map to a miss")
}

// ownedBytes: the byte slice is exclusively owned by the current call — the result of json.Marshal or a clone, or the
// Bytes() of a buffer that is local to the function and never handed to a pool. A slice that aliases a pooled or
// shared buffer can change while the writer is still writing it.
func ownedBytes(w *World, fn *ssa.Function, v ssa.Value, depth int) (bool, string) {
	if depth > 3 {
		return false, "origin too deep"
	}
	v = loadOrigin(v)
	if ex, ok := v.(*ssa.Extract); ok {
		v = ex.Tuple
	}
	call, ok := v.(*ssa.Call)
	if !ok {
		if _, isMk := v.(*ssa.MakeSlice); isMk {
			return true, ""
		}
		return false, "content is " + desc(v)
	}
	switch n := calleeName(call); n {
	case "encoding/json.Marshal", "encoding/json.MarshalIndent", "bytes.Clone", "slices.Clone":
		return true, ""
	case "(*bytes.Buffer).Bytes":
		buf := call.Call.Args[0]
		al, isLocal := buf.(*ssa.Alloc)
		if !isLocal {
			return false, "content aliases the buffer " + desc(buf) + ", which is not local to " + fnName(fn) + " (a pooled or shared buffer is overwritten by the next user while these bytes are still being written)"
		}
		for _, r := range *al.Referrers() {
			if ci, ok := r.(ssa.CallInstruction); ok && strings.HasSuffix(calleeName(ci), "sync.Pool).Put") {
				return false, "content aliases a buffer that is returned to a pool"
			}
		}
		return true, ""
	default:
		if g := staticCallee(call); g != nil && w.IsProductFn(g) {
			for _, b := range g.Blocks {
				if r, ok := blockTerm(b).(*ssa.Return); ok && len(r.Results) > 0 {
					if isNilConst(r.Results[0]) {
						continue
					}
					if ok, why := ownedBytes(w, g, spilledRet(r.Results[0]), depth+1); !ok {
						return false, why
					}
				}
			}
			return true, ""
		}
		return false, "content is the result of " + n
	}
}
