package main

import (
	"fmt"
	"go/types"
	"reflect"
	"strings"

	"golang.org/x/tools/go/ssa"
)

func init() {
	register(&Rule{
		ID:    "C14",
		Title: "a CRL cache entry is only ever absent or complete",
		Run:   runC14,
		Explain: "(a) typestate of the writer (the function of internal/file that calls os.CreateTemp and os.Rename): CreateTemp(directory parameter, constant pattern) -> Write(whole content parameter) -> Close -> Rename(temp.Name(), destination parameter), " +
			"each step reachable only after the previous one succeeded, every other exit failing; the destination parameter reaches no call other than Rename's second argument (the entry is never created, opened or truncated in place); " +
			"(b) at the cache's call site the temp directory is the cache root and the destination is Join(root, key(url)): rename within one directory; " +
			"(c) who-may-write: in verifier/crl the only file-mutating calls are MkdirAll in the constructor and that writer in Set; (d) key = hex(sha256([]byte(url))) unsliced, and the temp pattern contains a non-hex rune before '*', so temp names never collide with keys; " +
			"(e) the reader touches the file system exactly once per Get (one whole-file read of Join(root, key(url))) and every later step works on those bytes.",
		NotCov:  "the schedules and crash points themselves: 'rename(2) within one directory is atomic and an open descriptor keeps the old inode' is the trusted base (POSIX); no durability (fsync) claim is made.",
		Trusted: []string{"go/types, go/ssa", "POSIX rename(2) atomicity within a directory", "os.CreateTemp creates a fresh file with O_EXCL", "os.ReadFile reads one inode"},
	})
	register(&Rule{
		ID:    "C15",
		Title: "the CRL cache returns only fresh, byte-faithful bundles for the exact URL",
		Run:   runC15,
		Explain: "(a) field pairing: Set stores bundle.BaseCRL.Raw / bundle.DeltaCRL.Raw into the entry fields BaseCRL / DeltaCRL (distinct JSON names) and Get parses field X into bundle.X; " +
			"(b) gates of Get: read error (not-exist -> the miss sentinel, others -> error), decode error, base parse error, delta parse error whenever a delta is stored, base expiry, delta expiry whenever a delta exists — all on every success exit; " +
			"the expiry helper fails on a zero NextUpdate and returns the miss sentinel exactly when time.Now().After(nextUpdate); " +
			"(c) URL confinement: every file-system path of Get and Set is Join(root, hex(sha256(url))) — the URL reaches the file system only through the hash (no separator or dot segment can appear, distinct URL strings give distinct keys up to SHA-256); " +
			"(d) Set gates: nil bundle, nil base CRL, marshal error and write error are fail-closed; what is written is the marshalled entry.",
		NotCov:  "byte equality through x509.ParseRevocationList and encoding/json (std), SHA-256 collision freedom.",
		Trusted: []string{"go/types, go/ssa", "crypto/sha256, encoding/hex, encoding/json, crypto/x509"},
	})
}

var fsMutators = map[string]bool{
	"os.MkdirAll": true, "os.Mkdir": true, "os.WriteFile": true, "os.Create": true, "os.OpenFile": true, "os.Rename": true, "os.Remove": true,
	"os.RemoveAll": true, "os.Chmod": true, "os.CreateTemp": true, "os.Truncate": true, "os.Symlink": true, "os.Link": true, "os.MkdirTemp": true,
	"(*os.File).Write": true, "(*os.File).WriteString": true, "(*os.File).Truncate": true, "(*os.File).Chmod": true, "io.Copy": true,
}

var fsReaders = map[string]bool{
	"os.ReadFile": true, "os.Open": true, "os.Stat": true, "os.Lstat": true, "os.ReadDir": true, "os.OpenFile": true, "io.ReadAll": true, "io.ReadFull": true,
	"(*os.File).Read": true, "(*os.File).Stat": true,
}

type crlAnchors struct {
	WF, Get, Set, Key, Ctor *ssa.Function
}

func findCRL(c *Ctx) *crlAnchors {
	w := c.W
	a := &crlAnchors{}
	for _, fn := range w.FuncsOfPkg("internal/file") {
		if len(findCalls(fn, "os.Rename")) > 0 && fn.Parent() == nil {
			a.WF = fn
		}
	}
	for _, fn := range w.implementers("", "", "") {
		_ = fn
	}
	// the cache type: implements corecrl.Cache (Get/Set)
	for _, fn := range w.FuncsOfPkg("verifier/crl") {
		if fn.Signature.Recv() == nil || fn.Parent() != nil {
			if fn.Parent() == nil && fn.Signature.Results().Len() == 2 && strings.HasSuffix(namedOf(fn.Signature.Results().At(0).Type()), "crl.FileCache") {
				a.Ctor = fn
			}
			continue
		}
		switch {
		case fn.Name() == "Get" && fn.Signature.Results().Len() == 2:
			a.Get = fn
		case fn.Name() == "Set" && fn.Signature.Results().Len() == 1:
			a.Set = fn
		case fn.Signature.Params().Len() == 1 && fn.Signature.Results().Len() == 1 && fn.Signature.Results().At(0).Type().String() == "string" && len(findCalls(fn, "crypto/sha256.Sum256")) > 0:
			a.Key = fn
		}
	}
	if a.Key == nil {
		// any method string->string of the cache used to build paths
		for _, fn := range w.FuncsOfPkg("verifier/crl") {
			if fn.Signature.Recv() != nil && fn.Signature.Params().Len() == 1 && fn.Signature.Results().Len() == 1 && fn.Signature.Results().At(0).Type().String() == "string" && fn.Signature.Params().At(0).Type().String() == "string" {
				a.Key = fn
			}
		}
	}
	return a
}

func runC14(c *Ctx) {
	w := c.W
	a := findCRL(c)
	if a.Get == nil || a.Set == nil {
		c.Unk("anchors", "anchors: the file cache's Get and Set", "-", "not found")
		return
	}
	// ---- (a) writer typestate -------------------------------------------------
	WF := a.WF
	ruleW := "typestate of the writer: CreateTemp(dir parameter, constant pattern) -> Write(content) -> Close -> Rename(temp name, destination parameter), each step only after the previous succeeded"
	if WF == nil || len(findCalls(WF, "os.CreateTemp")) != 1 || len(findCalls(WF, "os.Rename")) != 1 {
		site := "-"
		if WF != nil {
			site = w.FnPos(WF)
		}
		c.Bad("writer/protocol", ruleW, site, "no function of internal/file creates a fresh temporary file with os.CreateTemp and renames it over the destination (entries would be written in place or through a reusable temp name)")
	} else {
		c14Writer(c, WF, ruleW)
	}
	// ---- (b) call site in Set ----------------------------------------------------
	var wcall *ssa.Call
	for _, ci := range allCalls(a.Set) {
		if call, ok := ci.(*ssa.Call); ok && WF != nil && staticCallee(call) == WF {
			wcall = call
		}
	}
	if wcall != nil {
		ok, why := ownedBytes(w, a.Set, wcall.Call.Args[2], 0)
		c.Check(ok, "writer/content-owned", "the bytes handed to the writer belong to this call alone (a fresh encoding, never a view of a pooled or shared buffer that another goroutine may rewrite while they are being written)", w.InstrPos(wcall), why)
	}
	recv := "param:" + a.Set.Params[0].Name()
	urlP := "param:" + a.Set.Params[2].Name()
	wantPath := "call:path/filepath.Join({" + recv + ".root," + callForm(a.Key, 0, recv, urlP) + "})"
	c.SeenFn(a.Set.String())
	if wcall == nil {
		c.Bad("set/uses-writer", "Set stores the entry through the atomic writer", w.FnPos(a.Set), "Set does not call the temp-file-and-rename writer")
	} else {
		c.OK("set/uses-writer", "Set stores the entry through the atomic writer", w.InstrPos(wcall))
		c.Check(desc(wcall.Call.Args[0]) == recv+".root", "set/temp-in-cache-root", "the temporary file is created in the cache root (same directory, hence same file system, as the entry)", w.InstrPos(wcall), "temp dir is "+desc(wcall.Call.Args[0]))
		c.Check(desc(wcall.Call.Args[1]) == wantPath, "set/destination", "the destination is Join(root, key(url)) for the URL being stored", w.InstrPos(wcall), "destination is "+desc(wcall.Call.Args[1]))
	}
	// ---- (c) who may write ----------------------------------------------------------
	ruleM := "who-may-write: in package verifier/crl the only file-mutating calls are os.MkdirAll in the constructor and the atomic writer in Set"
	var muts []string
	okM := true
	for _, fn := range w.FuncsOfPkg("verifier/crl") {
		for _, ci := range allCalls(fn) {
			n := calleeName(ci)
			isMut := fsMutators[n]
			if g := staticCallee(ci); g != nil && w.IsProductFn(g) && fnPkg(g).Path() != modPath+"/verifier/crl" && c14Mutates(w, g, 0) {
				isMut = true
			}
			if !isMut {
				continue
			}
			c.Evals++
			muts = append(muts, fnName(fn)+":"+n)
			switch {
			case n == "os.MkdirAll" && a.Ctor != nil && fn == a.Ctor:
			case WF != nil && staticCallee(ci) == WF && fn == a.Set:
			default:
				okM = false
			}
		}
	}
	c.Check(okM && len(muts) >= 1, "who-may-write", ruleM, w.FnPos(a.Set), fmt.Sprintf("file-mutating calls found: %v", muts))
	// ---- (d) key / temp disjointness ----------------------------------------------------
	c14Key(c, a)
	if WF != nil {
		for _, ci := range findCalls(WF, "os.CreateTemp") {
			call := ci.(*ssa.Call)
			ok := false
			pat := desc(call.Call.Args[1])
			if k, isK := call.Call.Args[1].(*ssa.Const); isK {
				s, _ := unquote(constString(k))
				star := strings.Index(s, "*")
				pre := s
				if star >= 0 {
					pre = s[:star]
				}
				for _, r := range pre {
					if !strings.ContainsRune("0123456789abcdef", r) {
						ok = true
					}
				}
			}
			c.Check(ok, "temp-name-disjoint", "the temporary-file pattern is a constant with a non-hex rune before '*': a leftover temporary file can never be mistaken for an entry (keys are 64 hex digits)", w.InstrPos(call), "pattern "+pat)
		}
	}
	// ---- (e) reader ------------------------------------------------------------------
	c.SeenFn(a.Get.String())
	grecv := "param:" + a.Get.Params[0].Name()
	gurl := "param:" + a.Get.Params[2].Name()
	gpath := "call:path/filepath.Join({" + grecv + ".root," + callForm(a.Key, 0, grecv, gurl) + "})"
	var reads []ssa.CallInstruction
	for _, f := range append([]*ssa.Function{a.Get}, calleesInPkg(w, a.Get, "verifier/crl")...) {
		for _, ci := range allCalls(f) {
			if fsReaders[calleeName(ci)] || fsMutators[calleeName(ci)] {
				reads = append(reads, ci)
			}
		}
	}
	okR := len(reads) == 1 && calleeName(reads[0]) == "os.ReadFile" && desc(reads[0].Common().Args[0]) == gpath
	var names []string
	for _, r := range reads {
		names = append(names, calleeName(r)+"@"+w.InstrPos(r))
	}
	c.Check(okR, "reader/single-whole-file-read", "the reader touches the file system exactly once per Get: one os.ReadFile of Join(root, key(url)) (size and content always come from the same inode)", w.FnPos(a.Get), fmt.Sprintf("file-system calls in Get: %v", names))
	if okR {
		rf := reads[0].(*ssa.Call)
		okB := false
		for _, ci := range findCalls(a.Get, "encoding/json.Unmarshal") {
			if ex, ok := ci.Common().Args[0].(*ssa.Extract); ok && ex.Tuple == rf && ex.Index == 0 {
				okB = true
			}
		}
		c.Check(okB, "reader/decodes-those-bytes", "the entry decoded is exactly the bytes of that read", w.InstrPos(rf), "the decoder gets other bytes")
	}
	c.MinCount("", 12, "cache atomicity obligations")
}

func calleesInPkg(w *World, fn *ssa.Function, rel string) []*ssa.Function {
	var out []*ssa.Function
	for _, f := range w.moduleCallees(fn) {
		if f != fn && fnPkg(f).Path() == modPath+"/"+rel {
			out = append(out, f)
		}
	}
	return out
}

// c14Mutates: g (transitively, module functions only) calls a file-system mutator.
func c14Mutates(w *World, g *ssa.Function, depth int) bool {
	if depth > 4 || g.Blocks == nil {
		return false
	}
	for _, f := range append([]*ssa.Function{g}, closuresOf(g)...) {
		for _, ci := range allCalls(f) {
			if fsMutators[calleeName(ci)] {
				return true
			}
			if h := staticCallee(ci); h != nil && h != g && w.IsProductFn(h) && c14Mutates(w, h, depth+1) {
				return true
			}
		}
	}
	return false
}

func c14Writer(c *Ctx, WF *ssa.Function, ruleW string) {
	w := c.W
	fi := w.Info(WF)
	c.SeenFn(WF.String())
	ct := findCalls(WF, "os.CreateTemp")[0].(*ssa.Call)
	rn := findCalls(WF, "os.Rename")[0].(*ssa.Call)
	var dirP, pathP, contentP *ssa.Parameter
	for _, p := range WF.Params {
		switch {
		case desc(ct.Call.Args[0]) == "param:"+p.Name():
			dirP = p
		case desc(rn.Call.Args[1]) == "param:"+p.Name():
			pathP = p
		case p.Type().String() == "[]byte":
			contentP = p
		}
	}
	_, constPat := ct.Call.Args[1].(*ssa.Const)
	c.Check(dirP != nil && constPat, "writer/create-temp", "the temporary file is created by os.CreateTemp(directory parameter, constant pattern): a fresh, exclusively created file per write", w.InstrPos(ct), "CreateTemp("+desc(ct.Call.Args[0])+","+desc(ct.Call.Args[1])+")")
	if pathP == nil || contentP == nil {
		c.Bad("writer/protocol", ruleW, w.InstrPos(rn), "Rename's destination is not the destination parameter: "+desc(rn.Call.Args[1]))
		return
	}
	// the handle
	handle := desc(ct) + "#0"
	isHandle := func(v ssa.Value) bool {
		d := desc(v)
		if d == handle {
			return true
		}
		// spilled into a cell because a deferred closure captures it
		if u, ok := v.(*ssa.UnOp); ok {
			if al, ok := u.X.(*ssa.Alloc); ok {
				n := 0
				okSt := false
				for _, r := range *al.Referrers() {
					if st, ok := r.(*ssa.Store); ok && st.Addr == al {
						n++
						if ex, ok := st.Val.(*ssa.Extract); ok && ex.Tuple == ct && ex.Index == 0 {
							okSt = true
						}
					}
				}
				return n == 1 && okSt
			}
		}
		return false
	}
	var wr, cl, nm *ssa.Call
	for _, ci := range allCalls(WF) {
		call, ok := ci.(*ssa.Call)
		if !ok {
			continue
		}
		switch calleeName(call) {
		case "(*os.File).Write":
			if isHandle(call.Call.Args[0]) {
				wr = call
			}
		case "(*os.File).Close":
			if isHandle(call.Call.Args[0]) {
				cl = call
			}
		case "(*os.File).Name":
			if isHandle(call.Call.Args[0]) {
				nm = call
			}
		}
	}
	okProto := wr != nil && cl != nil && nm != nil && rn.Call.Args[0] == ssa.Value(nm) && wr.Call.Args[1] == ssa.Value(contentP)
	detail := ""
	if okProto {
		gr := fi.GuardsOf(rn)
		gc := fi.GuardsOf(cl)
		gw := fi.GuardsOf(wr)
		need := []struct {
			g    map[string]string
			l, w string
		}{
			{gw, "EQ(" + desc(ct) + "#err,nil)", "Write only after CreateTemp succeeded"},
			{gc, "EQ(" + desc(wr) + "#err,nil)", "Close only after the whole content was written without error"},
			{gr, "EQ(" + desc(cl) + ",nil)", "Rename only after Close succeeded"},
			{gr, "EQ(" + desc(wr) + "#err,nil)", "Rename only after Write succeeded"},
		}
		for _, n := range need {
			if !labelHas(n.g, n.l) {
				okProto = false
				detail += n.w + " is not enforced; "
			}
		}
	} else {
		detail = fmt.Sprintf("write=%v close=%v name=%v; the renamed file is %s; written bytes %s", wr != nil, cl != nil, nm != nil, desc(rn.Call.Args[0]), func() string {
			if wr != nil {
				return desc(wr.Call.Args[1])
			}
			return "-"
		}())
	}
	c.Evals += 4
	c.Check(okProto, "writer/protocol", ruleW, w.InstrPos(rn), detail)
	// every success-capable exit goes through the rename
	cut := map[edgeKey]bool{}
	cutInto(fi, rn.Block(), cut)
	wit := fi.successWitness(Mode{Kind: mErr}, entryState(), cut)
	c.Check(wit == nil, "writer/success-only-after-rename", "the writer reports success only after the rename", w.FnPos(WF), "a success exit bypasses the rename", wit...)
	// the destination parameter is used only as Rename's second argument
	okUse := true
	var uses []string
	for _, r := range *pathP.Referrers() {
		switch x := r.(type) {
		case *ssa.DebugRef:
		case *ssa.Call:
			if x != rn && !isFormattingCall(x) {
				okUse = false
				uses = append(uses, calleeName(x))
			}
		default:
			if onlyFormatted(r, 0) {
				continue // the path is only rendered into a log or error text
			}
			okUse = false
			uses = append(uses, fmt.Sprintf("%T", r))
		}
	}
	c.Check(okUse, "writer/destination-only-renamed", "the destination path reaches no call other than Rename's second argument: the entry is never created, opened, truncated or used to derive the temp name", w.FnPos(WF), fmt.Sprintf("other uses of the destination path: %v", uses))
	// no second file creation in the writer
	nCreate := 0
	for _, ci := range allCalls(WF) {
		switch calleeName(ci) {
		case "os.Create", "os.OpenFile", "os.WriteFile", "os.CreateTemp":
			nCreate++
		}
	}
	c.Check(nCreate == 1, "writer/single-create", "the writer creates exactly one file (the temporary one)", w.FnPos(WF), fmt.Sprintf("%d file-creating calls", nCreate))
}

func c14Key(c *Ctx, a *crlAnchors) {
	w := c.W
	rule := "key = hex.EncodeToString(sha256.Sum256([]byte(url))[:]) — the complete hash of exactly the URL string"
	if a.Key == nil {
		c.Bad("key/sha256-of-url", rule, "-", "no key function found")
		return
	}
	c.SeenFn(a.Key.String())
	ok := false
	got := ""
	up := a.Key.Params[1]
	for _, b := range a.Key.Blocks {
		r, isRet := blockTerm(b).(*ssa.Return)
		if !isRet {
			continue
		}
		got = desc(r.Results[0])
		hx, isCall := r.Results[0].(*ssa.Call)
		// fmt.Sprintf("%x", sha256.Sum256([]byte(url))) renders the same lower-case hex of the whole array
		if isCall && calleeName(hx) == "fmt.Sprintf" && len(hx.Call.Args) == 2 && desc(hx.Call.Args[0]) == `const:"%x"` {
			if els := appendedElems(hx.Call.Args[1]); len(els) == 1 {
				if sum, isSum := unwrap(els[0]).(*ssa.Call); isSum && calleeName(sum) == "crypto/sha256.Sum256" && unwrap(sum.Call.Args[0]) == ssa.Value(up) {
					ok = true
				}
			}
			continue
		}
		if !isCall || calleeName(hx) != "encoding/hex.EncodeToString" {
			continue
		}
		sl, isSl := hx.Call.Args[0].(*ssa.Slice)
		if !isSl || sl.Low != nil || sl.High != nil || sl.Max != nil {
			got += " (the hash is sliced)"
			continue
		}
		al, isAl := sl.X.(*ssa.Alloc)
		if !isAl {
			continue
		}
		var src ssa.Value
		n := 0
		for _, rr := range *al.Referrers() {
			if st, isSt := rr.(*ssa.Store); isSt && st.Addr == al {
				n++
				src = st.Val
			}
		}
		if n != 1 {
			continue
		}
		sum, isSum := src.(*ssa.Call)
		if !isSum || calleeName(sum) != "crypto/sha256.Sum256" {
			got = "hex(" + desc(src) + ")"
			continue
		}
		if unwrap(sum.Call.Args[0]) == ssa.Value(up) {
			ok = true
		} else {
			got = "hex(sha256(" + desc(sum.Call.Args[0]) + "))"
		}
	}
	c.Check(ok, "key/sha256-of-url", rule, w.FnPos(a.Key), "the key is "+got)
}

// ---- C15 ---------------------------------------------------------------------------

func runC15(c *Ctx) {
	w := c.W
	a := findCRL(c)
	if a.Get == nil || a.Set == nil {
		c.Unk("anchors", "anchors: the file cache's Get and Set", "-", "not found")
		return
	}
	c14Key(c, a)
	Get, Set := a.Get, a.Set
	c.SeenFn(Get.String())
	c.SeenFn(Set.String())
	m := Mode{Kind: mErr}
	gfi := w.Info(Get)
	// ---- (a) field pairing ---------------------------------------------------------
	// entry type: the struct decoded in Get
	var entry *ssa.Alloc
	var um *ssa.Call
	for _, ci := range findCalls(Get, "encoding/json.Unmarshal") {
		um = ci.(*ssa.Call)
		entry, _ = unwrap(um.Call.Args[1]).(*ssa.Alloc)
	}
	if entry == nil {
		c.Bad("pairing/entry", "Get decodes the stored entry into the entry struct", w.FnPos(Get), "no json.Unmarshal into a local entry")
		return
	}
	est := entry.Type().Underlying().(*types.Pointer).Elem().Underlying().(*types.Struct)
	tags := map[string]string{}
	for i := 0; i < est.NumFields(); i++ {
		tg := reflect.StructTag(est.Tag(i)).Get("json")
		tags[est.Field(i).Name()] = strings.Split(tg, ",")[0]
	}
	c.Check(len(tags) == 2 && tags["BaseCRL"] != "" && tags["DeltaCRL"] != "" && tags["BaseCRL"] != tags["DeltaCRL"], "pairing/json-names", "the entry has two fields BaseCRL and DeltaCRL with distinct, non-empty JSON names", w.InstrPos(entry), fmt.Sprintf("tags: %v", tags))
	ed := desc(entry)
	// Get: parse(field X) -> bundle.X. The bundle field may be assigned in place or through a local that is nil or the parsed
	// list (`var d *RevocationList; if entry.X != nil { d, err = Parse(entry.X) }; ...; &Bundle{X: d}`).
	var bundle *ssa.Alloc
	okPair := true
	detail := ""
	bundleVals := map[string][]string{} // field -> how the field's value is written in conditions (in place, or the local)
	var nonNilSrcs func(v ssa.Value, seen map[ssa.Value]bool, out *[]ssa.Value)
	nonNilSrcs = func(v ssa.Value, seen map[ssa.Value]bool, out *[]ssa.Value) {
		if seen[v] {
			return
		}
		seen[v] = true
		if ph, ok := v.(*ssa.Phi); ok {
			for _, e := range ph.Edges {
				nonNilSrcs(e, seen, out)
			}
			return
		}
		if isNilConst(v) {
			return
		}
		*out = append(*out, v)
	}
	var bundleT types.Type
	if r := Get.Signature.Results(); r.Len() == 2 {
		bundleT = r.At(0).Type()
	}
	fieldSrcs := map[string][]ssa.Value{}
	for _, b := range Get.Blocks {
		for _, in := range b.Instrs {
			st, ok := in.(*ssa.Store)
			if !ok {
				continue
			}
			fa, ok := st.Addr.(*ssa.FieldAddr)
			if !ok {
				continue
			}
			al, ok := fa.X.(*ssa.Alloc)
			if !ok || bundleT == nil || !types.Identical(al.Type(), bundleT) {
				continue
			}
			if bundle != nil && bundle != al {
				okPair = false
				detail = "more than one bundle is filled"
			}
			bundle = al
			f := fieldName(al.Type(), fa.Field)
			var srcs []ssa.Value
			nonNilSrcs(st.Val, map[ssa.Value]bool{}, &srcs)
			fieldSrcs[f] = append(fieldSrcs[f], srcs...)
			if _, isPhi := st.Val.(*ssa.Phi); isPhi || len(srcs) == 1 {
				bundleVals[f] = append(bundleVals[f], desc(st.Val))
			}
		}
	}
	for f, srcs := range fieldSrcs {
		for _, v := range srcs {
			good := false
			if ex, ok := v.(*ssa.Extract); ok && ex.Index == 0 {
				if call, ok := ex.Tuple.(*ssa.Call); ok && calleeName(call) == "crypto/x509.ParseRevocationList" && desc(call.Call.Args[0]) == ed+"."+f {
					good = true
				}
			}
			if !good {
				okPair = false
				detail = "bundle." + f + " receives " + desc(v)
			}
		}
	}
	for _, f := range []string{"BaseCRL", "DeltaCRL"} {
		if len(fieldSrcs[f]) == 0 {
			okPair = false
			if detail == "" {
				detail = "entry field " + f + " is not parsed into bundle." + f
			}
		}
	}
	c.Check(okPair, "pairing/get", "Get parses entry field X into bundle.X for X in {BaseCRL, DeltaCRL}", w.FnPos(Get), detail)
	// Set: bundle.X.Raw -> entry field X (directly, or through a local that is nil or bundle.X.Raw)
	okSet := true
	sdetail := ""
	var sEntry *ssa.Alloc
	stored := map[string][]string{}
	for _, b := range Set.Blocks {
		for _, in := range b.Instrs {
			if st, ok := in.(*ssa.Store); ok {
				if fa, ok := st.Addr.(*ssa.FieldAddr); ok {
					if al, ok := fa.X.(*ssa.Alloc); ok && types.Identical(al.Type(), entry.Type()) {
						sEntry = al
						var srcs []ssa.Value
						nonNilSrcs(st.Val, map[ssa.Value]bool{}, &srcs)
						f := fieldName(al.Type(), fa.Field)
						for _, v := range srcs {
							stored[f] = append(stored[f], desc(v))
						}
					}
				}
			}
		}
	}
	bp := "param:" + Set.Params[3].Name()
	for _, f := range []string{"BaseCRL", "DeltaCRL"} {
		okF := len(stored[f]) > 0
		for _, d := range stored[f] {
			if d != bp+"."+f+".Raw" {
				okF = false
			}
		}
		if !okF {
			okSet = false
			sdetail += fmt.Sprintf("entry.%s = %v; ", f, stored[f])
		}
	}
	c.Check(okSet, "pairing/set", "Set stores bundle.X.Raw into entry field X for X in {BaseCRL, DeltaCRL}", w.FnPos(Set), sdetail)
	// ---- (b) gates of Get ---------------------------------------------------------------
	s := w.Summarize(Get, m)
	c.Evals += s.States
	var rf *ssa.Call
	for _, ci := range findCalls(Get, "os.ReadFile") {
		rf = ci.(*ssa.Call)
	}
	bd := ""
	if bundle != nil {
		bd = desc(bundle)
	}
	var needs []Need
	if rf != nil {
		needs = append(needs, Need{Name: "read-error", What: "os.ReadFile err == nil", Subs: []string{"EQ(" + desc(rf) + "#err,nil)"}})
	}
	needs = append(needs,
		Need{Name: "decode-error", What: "json.Unmarshal err == nil", Subs: []string{"EQ(" + desc(um) + ",nil)"}},
		Need{Name: "base-parse-error", What: "ParseRevocationList(entry.BaseCRL) err == nil", Subs: []string{"EQ(call:crypto/x509.ParseRevocationList(" + ed + ".BaseCRL)#err,nil)"}},
	)
	c.requireOnExits("get", Get, s.Exits, needs)
	// the expiry helper
	var EX *ssa.Function
	for _, ci := range allCalls(Get) {
		if call, ok := ci.(*ssa.Call); ok {
			if g := staticCallee(call); g != nil && w.IsProductFn(g) && isErrorType(call.Type()) {
				for _, a := range call.Call.Args {
					if strings.HasSuffix(desc(a), ".NextUpdate") {
						EX = g
					}
				}
			}
		}
	}
	if EX == nil {
		c.Bad("get/base-expiry", "Get checks the expiry of the base CRL", w.FnPos(Get), "no expiry check on a NextUpdate")
	} else {
		exn := "call:" + fnName(EX) + "("
		var baseAlt [][]string
		for _, v := range append([]string{bd + ".BaseCRL"}, bundleVals["BaseCRL"]...) {
			baseAlt = append(baseAlt, []string{"EQ(" + exn, v + ".NextUpdate)#err,nil)"})
		}
		c.requireOnExits("get", Get, s.Exits, []Need{
			{Name: "base-expiry", What: "expiry check of bundle.BaseCRL.NextUpdate passes", Alt: baseAlt},
		})
		// no delta: the bundle's field (or the local it is built from) is nil, or the entry stores none (pairing/get)
		preds := []func(string) bool{pre("EQ(" + ed + ".DeltaCRL,nil)")}
		for _, v := range append([]string{bd + ".DeltaCRL"}, bundleVals["DeltaCRL"]...) {
			preds = append(preds, pre("EQ("+v+",nil)"), pre("EQ("+exn, v+".NextUpdate)#err,nil)"))
		}
		ok, n, wit := exitsBlocked(gfi, m, matchOf(preds...), nil)
		c.slot(ok && n >= 2, n, "get/delta-expiry", "whenever the bundle has a delta CRL its expiry check passes (independently of the base)", w.FnPos(Get), "a bundle whose delta CRL is expired is returned", wit...)
		c15Expiry(c, EX)
	}
	{
		ok, n, wit := exitsBlocked(gfi, m, matchOf(pre("EQ("+ed+".DeltaCRL,nil)"), pre("EQ(call:crypto/x509.ParseRevocationList("+ed+".DeltaCRL)#err,nil)")), nil)
		c.slot(ok && n >= 2, n, "get/delta-parse-error", "whenever a delta CRL is stored it must parse", w.FnPos(Get), "an entry with an unparsable delta CRL is returned", wit...)
	}
	// not-exist -> miss sentinel
	if rf != nil {
		okMiss := false
		for _, b := range Get.Blocks {
			r, isRet := blockTerm(b).(*ssa.Return)
			if !isRet || len(r.Results) != 2 {
				continue
			}
			if desc(r.Results[1]) == "global:core/revocation/crl.ErrCacheMiss" && isNilConst(r.Results[0]) {
				g, _ := gfi.mustPassBetween([]int{0}, map[int]bool{b.Index: true})
				if labelHas(g, "T(call:errors.Is("+desc(rf)+"#err,global:io/fs.ErrNotExist))") {
					okMiss = true
				}
			}
		}
		c.Check(okMiss, "get/missing-is-miss", "a URL never stored (file does not exist) yields the cache-miss sentinel, other read errors an error", w.FnPos(Get), "no miss for a non-existent entry")
	}
	// the bundle returned is the one filled
	okRet := len(s.Exits) > 0 && bundle != nil
	for _, ex := range s.Exits {
		if ex.Ret.Results[0] != ssa.Value(bundle) {
			okRet = false
		}
	}
	c.Check(okRet, "get/returns-parsed-bundle", "Get returns the bundle parsed from the entry", w.FnPos(Get), "another value is returned")
	// ---- (c) confinement ------------------------------------------------------------------
	for _, fn := range []*ssa.Function{Get, Set} {
		recv := "param:" + fn.Params[0].Name()
		urlP := "param:" + fn.Params[2].Name()
		want := "call:path/filepath.Join({" + recv + ".root," + callForm(a.Key, 0, recv, urlP) + "})"
		ok := true
		var bad []string
		n := 0
		for _, ci := range allCalls(fn) {
			nm := calleeName(ci)
			isFS := fsReaders[nm] || fsMutators[nm]
			var pathArgs []ssa.Value
			if isFS && len(ci.Common().Args) > 0 && ci.Common().Args[0].Type().String() == "string" {
				pathArgs = append(pathArgs, ci.Common().Args[0])
			}
			if g := staticCallee(ci); g != nil && a.WF != nil && g == a.WF {
				isFS = true
				pathArgs = append(pathArgs, ci.Common().Args[1])
			}
			if !isFS {
				continue
			}
			for _, pa := range pathArgs {
				n++
				c.Evals++
				if desc(pa) != want {
					ok = false
					bad = append(bad, nm+"("+desc(pa)+")")
				}
			}
		}
		c.Check(ok && n > 0, "confinement/"+fn.Name(), "every file-system path in "+fn.Name()+" is Join(root, key(url)): the URL reaches the file system only through its hash", w.FnPos(fn), fmt.Sprintf("other paths: %v", bad))
	}
	// ---- (d) Set gates ------------------------------------------------------------------------
	ss := w.Summarize(Set, m)
	c.Evals += ss.States
	var wcall, mcall *ssa.Call
	for _, ci := range allCalls(Set) {
		call, ok := ci.(*ssa.Call)
		if !ok {
			continue
		}
		if a.WF != nil && staticCallee(call) == a.WF {
			wcall = call
		}
		if calleeName(call) == "encoding/json.Marshal" {
			mcall = call
		}
	}
	setNeeds := []Need{
		{Name: "nil-bundle", What: "bundle != nil", Subs: []string{"NE(" + bp + ",nil)"}},
		{Name: "nil-base", What: "bundle.BaseCRL != nil", Subs: []string{"NE(" + bp + ".BaseCRL,nil)"}},
	}
	if mcall != nil {
		setNeeds = append(setNeeds, Need{Name: "marshal-error", What: "json.Marshal err == nil", Subs: []string{"EQ(" + desc(mcall) + "#err,nil)"}})
	}
	if wcall != nil {
		setNeeds = append(setNeeds, Need{Name: "write-error", What: "the writer's err == nil", Subs: []string{"EQ(" + desc(wcall) + ",nil)"}})
	}
	c.requireOnExits("set", Set, ss.Exits, setNeeds)
	okW := false
	if wcall != nil && mcall != nil && sEntry != nil {
		if ex, ok := wcall.Call.Args[2].(*ssa.Extract); ok && ex.Tuple == mcall && ex.Index == 0 {
			if al, _ := unwrapLoadAlloc(unwrap(mcall.Call.Args[0])); al == sEntry {
				okW = true
			}
		}
	}
	c.Check(okW, "set/writes-marshalled-entry", "what is written is json.Marshal(entry) of the entry filled from the bundle", w.FnPos(Set), "other bytes are written")
	// delta stored only when present (nil deref guard) — and always when present
	if sEntry != nil {
		sfi := w.Info(Set)
		for _, b := range Set.Blocks {
			for _, in := range b.Instrs {
				if st, ok := in.(*ssa.Store); ok {
					if fa, ok := st.Addr.(*ssa.FieldAddr); ok && fa.X == ssa.Value(sEntry) && fieldName(sEntry.Type(), fa.Field) == "DeltaCRL" {
						cut := sfi.edgesMatching(anyOf("EQ(" + bp + ".DeltaCRL,nil)"))
						cutInto(sfi, b, cut)
						wit := sfi.successWitness(m, entryState(), cut)
						c.Check(wit == nil, "set/delta-stored-when-present", "whenever the bundle has a delta CRL it is stored", w.InstrPos(st), "a delta CRL can be dropped", wit...)
					}
				}
			}
		}
	}
	c.MinCount("", 15, "cache freshness obligations")
}

func c15Expiry(c *Ctx, EX *ssa.Function) {
	w := c.W
	c.SeenFn(EX.String())
	fi := w.Info(EX)
	var tp string
	for _, p := range EX.Params {
		if p.Type().String() == "time.Time" {
			tp = paramValueDesc(p)
		}
	}
	s := w.Summarize(EX, Mode{Kind: mErr})
	c.Evals += s.States
	c.requireOnExits("expiry", EX, s.Exits, []Need{
		{Name: "zero-next-update", What: "NextUpdate is not the zero time", Subs: []string{"F(call:(time.Time).IsZero(" + tp + "))"}},
		{Name: "not-expired", What: "not time.Now().After(nextUpdate)", Alt: [][]string{{"F(call:(time.Time).After(call:time.Now()," + tp + "))"}, {"F(call:(time.Time).Before(" + tp + ",call:time.Now()))"}}},
	})
	// expired -> the miss sentinel
	okMiss := false
	for _, b := range EX.Blocks {
		r, isRet := blockTerm(b).(*ssa.Return)
		if !isRet {
			continue
		}
		if desc(r.Results[0]) == "global:core/revocation/crl.ErrCacheMiss" {
			g, _ := fi.mustPassBetween([]int{0}, map[int]bool{b.Index: true})
			if labelHas(g, "T(call:(time.Time).After(call:time.Now(),"+tp+"))") || labelHas(g, "T(call:(time.Time).Before("+tp+",call:time.Now()))") {
				okMiss = true
			}
		}
	}
	c.Check(okMiss, "expiry/expired-is-miss", "an expired CRL yields the cache-miss sentinel (the entry is treated as absent)", w.FnPos(EX), "expiry does not map to a miss")
}

// ownedBytes: the byte slice is exclusively owned by the current call — the result of json.Marshal or a clone, or the
// Bytes() of a buffer that is local to the function and never handed to a pool. A slice that aliases a pooled or
// shared buffer can change while the writer is still writing it.
func ownedBytes(w *World, fn *ssa.Function, v ssa.Value, depth int) (bool, string) {
	if depth > 3 {
		return false, "origin too deep"
	}
	v = loadOrigin(v)
	if ex, ok := v.(*ssa.Extract); ok {
		v = ex.Tuple
	}
	call, ok := v.(*ssa.Call)
	if !ok {
		if _, isMk := v.(*ssa.MakeSlice); isMk {
			return true, ""
		}
		return false, "content is " + desc(v)
	}
	switch n := calleeName(call); n {
	case "encoding/json.Marshal", "encoding/json.MarshalIndent", "bytes.Clone", "slices.Clone":
		return true, ""
	case "(*bytes.Buffer).Bytes":
		buf := call.Call.Args[0]
		al, isLocal := buf.(*ssa.Alloc)
		if !isLocal {
			return false, "content aliases the buffer " + desc(buf) + ", which is not local to " + fnName(fn) + " (a pooled or shared buffer is overwritten by the next user while these bytes are still being written)"
		}
		for _, r := range *al.Referrers() {
			if ci, ok := r.(ssa.CallInstruction); ok && strings.HasSuffix(calleeName(ci), "sync.Pool).Put") {
				return false, "content aliases a buffer that is returned to a pool"
			}
		}
		return true, ""
	default:
		if g := staticCallee(call); g != nil && w.IsProductFn(g) {
			for _, b := range g.Blocks {
				if r, ok := blockTerm(b).(*ssa.Return); ok && len(r.Results) > 0 {
					if isNilConst(r.Results[0]) {
						continue
					}
					if ok, why := ownedBytes(w, g, spilledRet(r.Results[0]), depth+1); !ok {
						return false, why
					}
				}
			}
			return true, ""
		}
		return false, "content is the result of " + n
	}
}
