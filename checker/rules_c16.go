package main

import (
	"fmt"
	"go/token"
	"go/types"
	"strconv"
	"strings"

	"golang.org/x/tools/go/ssa"
)

func init() {
	register(&Rule{
		ID:    "C16",
		Title: "a plugin name can never reach outside the plugin directory",
		Run:   runC16,
		Explain: "(a) taint with certified sanitizers: for every SysPath call on the plugin file system (methods of the type implementing plugin.Manager), every non-constant leaf of the path items — followed through string concatenation, path.Join and module helpers such as binName — " +
			"is the very SSA value that a dominating, fail-closed validation accepted; a validator counts only if its success implies the certified single-component file-name predicate (no separator, NUL, empty, '.' or '..', certified by a regexp/syntax walk); constant items contain no separator or dot segment; " +
			"(b) who-may-call: os.RemoveAll is called only with the SysPath result in the manager; os.Chmod only on the install source candidate; (c) the verifier hands the signature's plugin-name attribute only to plugin.Manager.Get (plus logging and comparisons), so the manager's gate covers unauthenticated names; " +
			"(d) listing appends an entry name only for path != '.', a directory, not a symlink, judged by the DirEntry type (never a symlink-following Stat); (e) thorough: the same under GOOS=windows.",
		NotCov:  "what the operating system does with a validated single path component; the mock plugin manager (test support, excluded by table).",
		Trusted: []string{"go/types, go/ssa", "regexp/syntax", "path.Join / filepath.Join of single components stays inside the first argument", "io/fs.WalkDir"},
	})
}

// leafValues decomposes a path item into its non-constant leaves and constants.
func leafValues(w *World, v ssa.Value, depth int, leaves *[]ssa.Value, consts *[]string) {
	if depth > 8 {
		*leaves = append(*leaves, v)
		return
	}
	switch x := v.(type) {
	case *ssa.Const:
		*consts = append(*consts, constString(x))
	case *ssa.BinOp:
		if x.Op == token.ADD {
			leafValues(w, x.X, depth+1, leaves, consts)
			leafValues(w, x.Y, depth+1, leaves, consts)
			return
		}
		*leaves = append(*leaves, v)
	case *ssa.Convert:
		leafValues(w, x.X, depth+1, leaves, consts)
	case *ssa.ChangeType:
		leafValues(w, x.X, depth+1, leaves, consts)
	case *ssa.Slice:
		if al, ok := x.X.(*ssa.Alloc); ok {
			if els := orderedLitElems(al); els != nil {
				for _, e := range els {
					leafValues(w, e, depth+1, leaves, consts)
				}
				return
			}
		}
		*leaves = append(*leaves, v)
	case *ssa.Call:
		n := calleeName(x)
		if n == "path.Join" || n == "path/filepath.Join" {
			for _, a := range x.Call.Args {
				leafValues(w, a, depth+1, leaves, consts)
			}
			return
		}
		g := staticCallee(x)
		if g != nil && g.Blocks != nil && w.IsProductFn(g) && g.Signature.Results().Len() == 1 {
			// a module helper: its result leaves expressed over its parameters, mapped to the arguments
			ok := true
			var sub []ssa.Value
			for _, b := range g.Blocks {
				if r, isRet := blockTerm(b).(*ssa.Return); isRet {
					var ls []ssa.Value
					leafValues(w, r.Results[0], depth+1, &ls, consts)
					for _, l := range ls {
						p, isP := l.(*ssa.Parameter)
						if !isP {
							ok = false
							continue
						}
						for i, q := range g.Params {
							if q == p && i < len(x.Call.Args) {
								sub = append(sub, x.Call.Args[i])
							}
						}
					}
				}
			}
			if ok {
				for _, a := range sub {
					leafValues(w, a, depth+1, leaves, consts)
				}
				return
			}
		}
		*leaves = append(*leaves, v)
	default:
		*leaves = append(*leaves, v)
	}
}

// c16LeafValidated: the path component l, used at instruction `at` of fn, is the very value a certified validation accepted on
// every path to `at` — in fn itself, or, when l is a parameter of an unexported function whose call sites are all known, at
// every call site for the components of the argument passed there (the validation may sit in a wrapper that then calls a
// worker, or in a caller that validates once and hands the name on).
func c16LeafValidated(w *World, valid map[*ssa.Function]string, fn *ssa.Function, at ssa.Instruction, l ssa.Value, depth int) bool {
	g := w.Info(fn).GuardsOf(at)
	ld := desc(l)
	for vf, kind := range valid {
		if kind == "err" && labelHas(g, "EQ(call:"+fnName(vf)+"("+ld+")#err,nil)") {
			return true
		}
		if kind == "bool" && labelHas(g, "T(call:"+fnName(vf)+"("+ld+"))") {
			return true
		}
	}
	// a field of an object of an unexported struct type of the module (a result object such as `source.pluginName`): every store
	// into that field anywhere in the module stores a validated value, and every function that allocates such an object and
	// hands it out stores the field on the way to each return that hands it out (the zero value "" is not a validated name)
	if ld, ok := l.(*ssa.UnOp); ok && ld.Op == token.MUL && depth <= 3 {
		if fa, ok := ld.X.(*ssa.FieldAddr); ok {
			if nt := namedStructOf(fa.X.Type()); nt != nil && nt.Obj().Pkg() != nil && strings.HasPrefix(nt.Obj().Pkg().Path(), modPath) && !token.IsExported(nt.Obj().Name()) {
				if c16FieldValidated(w, valid, nt, fa.Field, depth) {
					return true
				}
			}
		}
	}
	p, ok := l.(*ssa.Parameter)
	if !ok || depth > 3 || token.IsExported(fn.Name()) || fn.Parent() != nil {
		return false
	}
	pi := -1
	for i, q := range fn.Params {
		if q == p {
			pi = i
		}
	}
	if pi < 0 {
		return false
	}
	sites := 0
	for _, F := range w.Funcs {
		for _, b := range F.Blocks {
			for _, in := range b.Instrs {
				if mc, ok := in.(*ssa.MakeClosure); ok && mc.Fn == ssa.Value(fn) {
					return false
				}
				ci, ok := in.(ssa.CallInstruction)
				if !ok {
					continue
				}
				for _, a := range ci.Common().Args {
					if a == ssa.Value(fn) {
						return false
					}
				}
				if ci.Common().StaticCallee() != fn {
					continue
				}
				if len(ci.Common().Args) != len(fn.Params) {
					return false
				}
				sites++
				var leaves []ssa.Value
				var consts []string
				leafValues(w, ci.Common().Args[pi], 0, &leaves, &consts)
				for _, k := range consts {
					s, _ := unquote(k)
					if strings.ContainsAny(s, "/\\\x00") || s == ".." || s == "." || strings.Contains(s, "..") {
						return false
					}
				}
				for _, al := range leaves {
					// the helper itself validated, before the use, another of its parameters that is this very value at the call site
					// (`resolve(name, path.Join(name, bin(name)))` validating `name`)
					same := false
					for q, pq := range fn.Params {
						if ci.Common().Args[q] != al {
							continue
						}
						qd := "param:" + pq.Name()
						for vf, kind := range valid {
							if kind == "err" && labelHas(g, "EQ(call:"+fnName(vf)+"("+qd+")#err,nil)") {
								same = true
							}
							if kind == "bool" && labelHas(g, "T(call:"+fnName(vf)+"("+qd+"))") {
								same = true
							}
						}
					}
					if same {
						continue
					}
					if !c16LeafValidated(w, valid, F, ci, al, depth+1) {
						return false
					}
				}
			}
		}
	}
	return sites > 0
}

func c16FieldValidated(w *World, valid map[*ssa.Function]string, nt *types.Named, field int, depth int) bool {
	stores := 0
	for _, F := range w.Funcs {
		for _, b := range F.Blocks {
			for _, in := range b.Instrs {
				switch x := in.(type) {
				case *ssa.Store:
					fa, ok := x.Addr.(*ssa.FieldAddr)
					if ok && fa.Field == field && namedStructOf(fa.X.Type()) == nt {
						stores++
						var leaves []ssa.Value
						var consts []string
						leafValues(w, x.Val, 0, &leaves, &consts)
						if len(consts) > 0 {
							return false
						}
						for _, al := range leaves {
							if !c16LeafValidated(w, valid, F, x, al, depth+1) {
								return false
							}
						}
						continue
					}
					// a whole-object store would set the field without passing here
					if ok2 := namedStructOf(x.Val.Type()) == nt; ok2 {
						if _, isPtr := x.Val.Type().Underlying().(*types.Pointer); !isPtr {
							return false
						}
					}
				case *ssa.Alloc:
					if namedStructOf(x.Type()) != nt {
						continue
					}
					// handed out by a return: the field is stored in a block that dominates that return
					for _, rb := range F.Blocks {
						r, isRet := blockTerm(rb).(*ssa.Return)
						if !isRet {
							continue
						}
						for _, rv := range r.Results {
							if canonPtr(rv) != ssa.Value(x) {
								continue
							}
							dom := false
							for _, sb := range F.Blocks {
								for _, sin := range sb.Instrs {
									if st, ok := sin.(*ssa.Store); ok {
										if fa, ok := st.Addr.(*ssa.FieldAddr); ok && fa.Field == field && canonPtr(fa.X) == ssa.Value(x) && sb.Dominates(rb) {
											dom = true
										}
									}
								}
							}
							if !dom {
								return false
							}
						}
					}
				}
			}
		}
	}
	return stores > 0
}

// certifiedValidators returns the product functions func(string) error /
// func(string) bool whose success implies the certified file-name predicate on
// their parameter.
func certifiedValidators(w *World) map[*ssa.Function]string {
	out := map[*ssa.Function]string{}
	base := w.Func("internal/file", "IsValidFileName")
	if base == nil {
		return out
	}
	if ok, _ := certifyFileNameValidator(w, base); !ok {
		return out
	}
	out[base] = "bool"
	for _, fn := range w.Funcs {
		if fn.Parent() != nil || len(fn.Params) != 1 || fn.Params[0].Type().String() != "string" || fn.Signature.Results().Len() != 1 {
			continue
		}
		if !isErrorType(fn.Signature.Results().At(0).Type()) {
			continue
		}
		s := w.Summarize(fn, Mode{Kind: mErr})
		if len(s.Exits) == 0 {
			continue
		}
		if labelHas(s.Checked, "T(call:"+fnName(base)+"(param:"+fn.Params[0].Name()+"))") {
			out[fn] = "err"
		}
	}
	return out
}

func runC16(c *Ctx) {
	w := c.W
	valid := certifiedValidators(w)
	if len(valid) == 0 {
		c.Bad("sanitizer/certified", "a certified single-component file-name validator exists", "-", "internal/file.IsValidFileName is not certified (see C09 file-name/certified)")
	} else {
		var names []string
		for f := range valid {
			names = append(names, fnName(f))
		}
		c.OK("sanitizer/certified", "a certified single-component file-name validator exists: "+strings.Join(sortStrings(names), ", "), w.FnPos(w.Func("internal/file", "IsValidFileName")))
	}
	// the manager type(s)
	mgrs := map[string]bool{}
	for _, fn := range w.implementers("plugin", "Manager", "Get") {
		if fnPkg(fn).Path() == modPath+"/plugin" {
			mgrs[namedOf(fn.Signature.Recv().Type())] = true
		}
	}
	if len(mgrs) == 0 {
		c.Unk("anchor/manager", "anchor: the product type implementing plugin.Manager", "-", "not found")
		return
	}
	nSys := 0
	for _, fn := range w.FuncsOfPkg("plugin") {
		if fn.Signature.Recv() == nil || !mgrs[namedOf(fn.Signature.Recv().Type())] {
			continue
		}
		fi := w.Info(fn)
		k := 0
		for _, ci := range allCalls(fn) {
			call, ok := ci.(*ssa.Call)
			if !ok || calleeName(call) != "invoke:ngo/dir.SysFS.SysPath" {
				continue
			}
			nSys++
			k++
			c.SeenFn(fn.String())
			c.Evals++
			key := fmt.Sprintf("confined/%s#%d", fnName(fn), k)
			rule := "taint: every non-constant leaf of the path handed to the plugin file system is the very value a dominating, fail-closed, certified validation accepted"
			var leaves []ssa.Value
			var consts []string
			leafValues(w, call.Call.Args[0], 0, &leaves, &consts)
			g := fi.GuardsOf(call)
			var bad []string
			for _, l := range leaves {
				if !c16LeafValidated(w, valid, fn, call, l, 0) {
					bad = append(bad, desc(l))
				}
			}
			for _, k := range consts {
				s, _ := unquote(k)
				if strings.ContainsAny(s, "/\\\x00") || s == ".." || s == "." || strings.Contains(s, "..") {
					bad = append(bad, "constant "+k)
				}
			}
			if len(bad) > 0 {
				c.Bad(key, rule, w.InstrPos(call), fmt.Sprintf("unvalidated path component(s): %v (a name such as \"..\" or \"a/../../b\" would leave the plugin directory); guards: %s", bad, summarizeLabels(g, 5)))
			} else {
				c.OK(key, rule, w.InstrPos(call))
			}
			// the plugin file system is the manager's own
			c.Check(strings.HasSuffix(desc(callArgs(call)[0]), ".pluginFS"), key+"/fs", "the path is resolved in the manager's plugin file system", w.InstrPos(call), "receiver "+desc(callArgs(call)[0]))
		}
	}
	// vacuity guard: the three exported operations that take or derive a plugin name each reach such a resolution
	nOps := 0
	for _, fn := range w.FuncsOfPkg("plugin") {
		if fn.Signature.Recv() == nil || !mgrs[namedOf(fn.Signature.Recv().Type())] || !token.IsExported(fn.Name()) {
			continue
		}
		reaches := false
		for _, g := range append([]*ssa.Function{fn}, w.moduleCallees(fn)...) {
			if g.Signature.Recv() != nil && mgrs[namedOf(g.Signature.Recv().Type())] && len(findCalls(g, "invoke:ngo/dir.SysFS.SysPath")) > 0 {
				reaches = true
			}
		}
		if reaches {
			nOps++
		}
	}
	if nSys < 1 || nOps < 3 {
		c.Unk("confined#count", "vacuity guard: Get, Install and Uninstall resolve a plugin path", "-", fmt.Sprintf("%d SysPath calls in manager methods, reached from %d exported operations", nSys, nOps))
	}
	// (b) who may call
	for _, fn := range w.FuncsOfPkg("plugin") {
		fi := w.Info(fn)
		_ = fi
		for _, call := range allCalls(fn) {
			switch calleeName(call) {
			case "os.RemoveAll", "os.Remove":
				d := desc(call.Common().Args[0])
				okR := fn.Signature.Recv() != nil && mgrs[namedOf(fn.Signature.Recv().Type())] && strings.HasPrefix(d, "call:invoke:ngo/dir.SysFS.SysPath(") && strings.HasSuffix(d, "#0")
				c.Check(okR, "who-may-call/remove/"+fnName(fn), "deletion happens only in the manager, on the path SysPath returned for the validated name", w.InstrPos(call), "os.RemoveAll("+d+")")
			case "os.Chmod":
				c.Check(fn.Signature.Recv() == nil && fn.Signature.Params().Len() == 1, "who-may-call/chmod/"+fnName(fn), "os.Chmod is applied only by the set-executable helper to the install source candidate", w.InstrPos(call), "os.Chmod in "+fnName(fn))
			}
		}
	}
	c16Verifier(c)
	c16List(c, mgrs)
	c.MinCount("", 10, "plugin confinement obligations")
}

func namedStructOf(t types.Type) *types.Named {
	if p, ok := t.Underlying().(*types.Pointer); ok {
		t = p.Elem()
	}
	if a, ok := t.(*types.Alias); ok {
		t = types.Unalias(a)
	}
	n, ok := t.(*types.Named)
	if !ok {
		return nil
	}
	if _, isStruct := n.Underlying().(*types.Struct); !isStruct {
		return nil
	}
	return n
}

// c16Verifier: the attribute-supplied plugin name reaches only Manager.Get.
func c16Verifier(c *Ctx) {
	w := c.W
	var get *ssa.Call
	var F *ssa.Function
	for _, fn := range w.FuncsOfPkg("verifier") {
		for _, ci := range allCalls(fn) {
			if call, ok := ci.(*ssa.Call); ok && calleeName(call) == "invoke:ngo/plugin.Manager.Get" {
				get, F = call, fn
			}
		}
	}
	if get == nil {
		c.Unk("verifier/anchor", "anchor: the verifier's call of plugin.Manager.Get", "-", "not found")
		return
	}
	c.SeenFn(F.String())
	nameV := get.Call.Args[1]
	rule := "the plugin name taken from the (not yet authenticated) signature flows only into plugin.Manager.Get, comparisons and logging/error text — never into a path or process call of its own"
	var bad []string
	seen := map[ssa.Value]bool{}
	// the walk follows the value forward: through interfaces, phis, logging argument lists, into the parameters of module
	// functions it is passed to, and out of module functions that return it (to the matching result at every call site)
	var walk func(v ssa.Value, depth int)
	callSites := func(g *ssa.Function) []*ssa.Call {
		var out []*ssa.Call
		for _, fn := range w.Funcs {
			for _, ci := range allCalls(fn) {
				if call, ok := ci.(*ssa.Call); ok && staticCallee(call) == g {
					out = append(out, call)
				}
			}
		}
		return out
	}
	walk = func(v ssa.Value, depth int) {
		if seen[v] || v.Referrers() == nil {
			return
		}
		if depth > 10 {
			bad = append(bad, "flow too deep to follow at "+desc(v))
			return
		}
		seen[v] = true
		for _, r := range *v.Referrers() {
			c.Evals++
			switch x := r.(type) {
			case *ssa.DebugRef, *ssa.BinOp:
			case *ssa.MakeInterface, *ssa.ChangeType:
				walk(x.(ssa.Value), depth+1)
			case *ssa.Store:
				// into a varargs array for logging
				if ia, ok := x.Addr.(*ssa.IndexAddr); ok {
					if al, ok := ia.X.(*ssa.Alloc); ok && al.Comment == "varargs" {
						for _, rr := range *al.Referrers() {
							if sl, ok := rr.(*ssa.Slice); ok {
								walk(sl, depth+1)
							}
						}
						continue
					}
				}
				// a local the value is kept in (a result spilled because of a defer, an address-taken variable): its loads
				if al, ok := x.Addr.(*ssa.Alloc); ok && x.Val == v {
					okLocal := true
					for _, rr := range *al.Referrers() {
						switch y := rr.(type) {
						case *ssa.Store:
							if y.Addr != ssa.Value(al) {
								okLocal = false
							}
						case *ssa.UnOp:
							walk(y, depth+1)
						case *ssa.DebugRef:
						default:
							okLocal = false
						}
					}
					if okLocal {
						continue
					}
				}
				// a field of an unexported struct type of the module (a result object handed back by a helper): every read of that
				// field of that type, anywhere in the module, continues the flow
				if fa, ok := x.Addr.(*ssa.FieldAddr); ok && x.Val == v {
					if nt := namedStructOf(fa.X.Type()); nt != nil && nt.Obj().Pkg() != nil && strings.HasPrefix(nt.Obj().Pkg().Path(), modPath) && !token.IsExported(nt.Obj().Name()) {
						for _, fn := range w.Funcs {
							for _, b := range fn.Blocks {
								for _, in := range b.Instrs {
									switch y := in.(type) {
									case *ssa.FieldAddr:
										if y.Field == fa.Field && namedStructOf(y.X.Type()) == nt {
											for _, rr := range *y.Referrers() {
												if ld, ok := rr.(*ssa.UnOp); ok {
													walk(ld, depth+1)
												}
											}
										}
									case *ssa.Field:
										if y.Field == fa.Field && namedStructOf(y.X.Type()) == nt {
											walk(y, depth+1)
										}
									}
								}
							}
						}
						continue
					}
				}
				bad = append(bad, "stored to "+desc(x.Addr))
			case *ssa.Call:
				n := calleeName(x)
				g := staticCallee(x)
				switch {
				case x == get:
				case strings.HasPrefix(n, "fmt."), strings.HasPrefix(n, "invoke:ngo/log.Logger."):
					// message text: may flow on into errors only
				case g != nil && g.Blocks != nil && w.IsProductFn(g) && len(g.Params) == len(x.Call.Args):
					for i, a := range x.Call.Args {
						if a == v {
							c.SeenFn(g.String())
							walk(g.Params[i], depth+1)
						}
					}
				default:
					bad = append(bad, "passed to "+n)
				}
			case *ssa.Phi:
				walk(x, depth+1)
			case *ssa.Return:
				g := x.Parent()
				if !w.IsProductFn(g) || g.Signature.Recv() != nil && token.IsExported(g.Name()) || g.Signature.Recv() == nil && token.IsExported(g.Name()) {
					bad = append(bad, "returned from "+fnName(g))
					continue
				}
				sites := callSites(g)
				if len(sites) == 0 {
					bad = append(bad, "returned from "+fnName(g)+" (call sites not found)")
				}
				for k, rv := range x.Results {
					if rv != v {
						continue
					}
					for _, call := range sites {
						if len(x.Results) == 1 {
							walk(call, depth+1)
							continue
						}
						for _, rr := range *call.Referrers() {
							if e, ok := rr.(*ssa.Extract); ok && e.Index == k {
								walk(e, depth+1)
							}
						}
					}
				}
			default:
				bad = append(bad, fmt.Sprintf("%T", r))
			}
		}
	}
	walk(nameV, 0)
	c.Check(len(bad) == 0, "verifier/name-only-to-manager", rule, w.InstrPos(get), fmt.Sprintf("other uses: %v", bad))
}

// c16ListComplete: the other half of "exactly the real sub-directories". (a) Every callback invocation for an entry that is a
// real directory other than the root, without a walk error, records the entry: with the edges that contradict that
// assumption removed, no return is reachable that does not pass an append of the entry's name. (b) fs.SkipDir is returned
// only for an entry known to be a directory (for any other entry WalkDir skips the REST of the containing directory, so
// later plugins would be dropped), and fs.SkipAll never.
func c16ListComplete(c *Ctx, L *ssa.Function) {
	w := c.W
	ruleA := "listing is complete: for an entry that is a real directory other than the root (and no walk error) every way through the callback records the entry's name"
	ruleB := "listing is complete: the callback answers fs.SkipDir only for an entry known to be a directory (for a file or symlink WalkDir would skip the remaining entries of the plugin root) and never fs.SkipAll"
	isDirFact := func(l string) bool {
		if d, _, _ := modeBits(map[string]string{l: ""}, "call:invoke:io/fs.DirEntry.Type(param:"); d == 1 {
			return true
		}
		return strings.HasPrefix(l, "T(call:(io/fs.FileMode).IsDir(call:invoke:io/fs.DirEntry.Type(param:") || strings.HasPrefix(l, "T(call:invoke:io/fs.DirEntry.IsDir(param:")
	}
	// an edge that contradicts "real directory, not the root, no error"
	var contradicts func(l string) bool
	contradicts = func(l string) bool {
		// a disjunction computed into a value (`case !isDir || isSymlink:`): every alternative contradicts
		if op, alts := splitTopArgs(l); op == "OR" && len(alts) > 0 {
			for _, a := range alts {
				if !contradicts(a) {
					return false
				}
			}
			return true
		}
		switch {
		case strings.HasPrefix(l, "EQ(param:") && strings.HasSuffix(l, `,const:".")`):
			return true
		case strings.HasPrefix(l, "F(call:(io/fs.FileMode).IsDir(call:invoke:io/fs.DirEntry.Type(param:"), strings.HasPrefix(l, "F(call:invoke:io/fs.DirEntry.IsDir(param:"):
			return true
		case strings.HasPrefix(l, "NE((call:invoke:io/fs.DirEntry.Type(param:") && strings.HasSuffix(l, "& const:134217728),const:0)"):
			return true
		case strings.HasPrefix(l, "NE(param:") && strings.HasSuffix(l, ",nil)"):
			return true
		case strings.HasPrefix(l, "T(call:errors.Is(param:"), strings.HasPrefix(l, "T(call:os.IsNotExist(param:"):
			return true // no walk error: a nil error is no instance of any sentinel
		case c16MaskContradictsRealDir(l, "call:invoke:io/fs.DirEntry.Type(param:"):
			return true
		}
		return false
	}
	for _, cl := range c16WalkCallbacks(L) {
		fi := w.Info(cl)
		var appendBlocks []*ssa.BasicBlock
		for _, b := range cl.Blocks {
			for _, in := range b.Instrs {
				if st, ok := in.(*ssa.Store); ok {
					if call, ok := st.Val.(*ssa.Call); ok {
						if bi, ok := call.Call.Value.(*ssa.Builtin); ok && bi.Name() == "append" {
							appendBlocks = append(appendBlocks, b)
						}
					}
				}
			}
		}
		if len(appendBlocks) == 0 {
			continue
		}
		// (a)
		cut := fi.edgesMatching(func(l string, iff *ssa.If, truth bool) bool {
			if contradicts(l) {
				return true
			}
			// the "no" answer of a predicate helper every "no" exit of which contradicts the assumption
			for _, pre := range []string{"F(call:", "T(call:"} {
				if !strings.HasPrefix(l, pre) {
					continue
				}
				cond := iff.Cond
				neg := false
				for {
					u, ok := cond.(*ssa.UnOp)
					if !ok || u.Op != token.NOT {
						break
					}
					neg = !neg
					cond = u.X
				}
				call, ok := cond.(*ssa.Call)
				if !ok {
					continue
				}
				g := staticCallee(call)
				if g == nil || g.Blocks == nil || !w.IsProductFn(g) {
					continue
				}
				want := truth != neg // the helper's answer on this edge
				sum := w.Summarize(g, Mode{Kind: mBool, Want: want})
				if len(sum.Exits) == 0 {
					continue
				}
				all := true
				for _, ex := range sum.Exits {
					one := false
					for el := range ex.Checked {
						if contradicts(substParams(el, paramNames(g), argDescs(call))) {
							one = true
						}
					}
					if !one {
						all = false
					}
				}
				if all {
					return true
				}
			}
			return false
		})
		for _, ab := range appendBlocks {
			cutInto(fi, ab, cut)
		}
		reach := false
		for _, b := range cl.Blocks {
			if _, ok := blockTerm(b).(*ssa.Return); ok {
				if b.Index == 0 || fi.reachHit(entryState(), cut, map[int]bool{b.Index: true}) {
					reach = true
				}
			}
		}
		c.Evals++
		c.Check(!reach, "list/complete", ruleA, w.FnPos(cl), "a real sub-directory can pass through the callback without being recorded")
		// (b)
		okSkip := true
		detail := ""
		for _, b := range cl.Blocks {
			r, ok := blockTerm(b).(*ssa.Return)
			if !ok || len(r.Results) != 1 {
				continue
			}
			var vals []ssa.Value
			if ph, ok := r.Results[0].(*ssa.Phi); ok {
				vals = ph.Edges
			} else {
				vals = []ssa.Value{r.Results[0]}
			}
			for _, v := range vals {
				d := desc(v)
				switch {
				case strings.HasSuffix(d, "io/fs.SkipAll") || strings.HasSuffix(d, "path/filepath.SkipAll"):
					okSkip = false
					detail = "fs.SkipAll is returned at " + w.InstrPos(r)
				case strings.HasSuffix(d, "io/fs.SkipDir") || strings.HasSuffix(d, "path/filepath.SkipDir"):
					g := fi.GuardsOf(r)
					if _, isPhi := r.Results[0].(*ssa.Phi); isPhi {
						g = nil // which edge delivered it is not decided here: demand the direct form
					}
					dir := false
					for l := range g {
						if isDirFact(l) {
							dir = true
						}
					}
					if !dir {
						okSkip = false
						detail = "fs.SkipDir is returned at " + w.InstrPos(r) + " for an entry not known to be a directory; guards: " + summarizeLabels(g, 6)
					}
				}
			}
		}
		c.Check(okSkip, "list/skip-only-directories", ruleB, w.FnPos(cl), detail)
	}
}

func paramNames(g *ssa.Function) []string {
	var out []string
	for _, p := range g.Params {
		out = append(out, p.Name())
	}
	return out
}

func argDescs(call *ssa.Call) []string {
	var out []string
	for _, a := range call.Call.Args {
		out = append(out, desc(a))
	}
	return out
}

// c16List: listing.
func c16List(c *Ctx, mgrs map[string]bool) {
	w := c.W
	var L *ssa.Function
	for _, fn := range w.FuncsOfPkg("plugin") {
		if fn.Signature.Recv() != nil && mgrs[namedOf(fn.Signature.Recv().Type())] && fn.Name() == "List" {
			L = fn
		}
	}
	if L == nil {
		c.Unk("list/anchor", "anchor: the manager's List", "-", "not found")
		return
	}
	rule := "listing: an entry name is reported only for path != \".\", a directory and not a symlink, judged by the walked DirEntry's own type"
	found := false
	for _, cl := range c16WalkCallbacks(L) {
		fi := w.Info(cl)
		c.SeenFn(cl.String())
		for _, b := range cl.Blocks {
			for _, in := range b.Instrs {
				st, ok := in.(*ssa.Store)
				if !ok {
					continue
				}
				call, ok := st.Val.(*ssa.Call)
				if !ok {
					continue
				}
				if bi, ok := call.Call.Value.(*ssa.Builtin); !ok || bi.Name() != "append" {
					continue
				}
				found = true
				g := fi.GuardsOf(st)
				els := appendedElems(call.Call.Args[1])
				okName := len(els) == 1 && strings.HasPrefix(desc(els[0]), "call:invoke:io/fs.DirEntry.Name(param:")
				_, g1 := hasLabel(g, "NE(param:", `,const:".")`)
				// directory and not a symlink, on the entry's own type: the two predicates, or any mask comparison that fixes
				// both bits (`d.Type()&(fs.ModeDir|fs.ModeSymlink) == fs.ModeDir`)
				mDir, mSym, _ := modeBits(g, "call:invoke:io/fs.DirEntry.Type(param:")
				g2, g3 := mDir == 1, mSym == -1
				c.Evals++
				c.Check(okName && g1 && g2 && g3, "list/real-directories-only", rule, w.InstrPos(st),
					fmt.Sprintf("name-from-entry=%v not-root=%v is-dir(entry type)=%v not-symlink(entry type)=%v; guards: %s", okName, g1, g2, g3, summarizeLabels(g, 6)))
			}
		}
	}
	if !found {
		c.Bad("list/real-directories-only", rule, w.FnPos(L), "the walk callback does not append entry names")
	}
	c16ListComplete(c, L)
	c16ListWalkError(c, L)
	// the walk is over the plugin file system root
	okWalk := false
	for _, ci := range allCalls(L) {
		if call, ok := ci.(*ssa.Call); ok && calleeName(call) == "io/fs.WalkDir" {
			if strings.HasSuffix(desc(call.Call.Args[0]), ".pluginFS") && desc(call.Call.Args[1]) == `const:"."` {
				okWalk = true
			}
		}
	}
	c.Check(okWalk, "list/walks-plugin-root", "listing walks the plugin file system from its root", w.FnPos(L), "another tree is walked")
}

// c16WalkCallbacks: the functions WalkDir calls for the listing — the closures declared in L and whatever L hands to
// fs.WalkDir as its callback: a closure, a plain function, or a method value (`found.visit`: the bound-method wrapper is
// resolved to the method, whose receiver fields then play the part of the captured variables).
func c16WalkCallbacks(L *ssa.Function) []*ssa.Function {
	out := closuresOf(L)
	seen := map[*ssa.Function]bool{}
	for _, f := range out {
		seen[f] = true
	}
	add := func(f *ssa.Function) {
		if f != nil && f.Blocks != nil && !seen[f] {
			seen[f] = true
			out = append(out, f)
		}
	}
	for _, ci := range allCalls(L) {
		call, ok := ci.(*ssa.Call)
		if !ok || calleeName(call) != "io/fs.WalkDir" && calleeName(call) != "path/filepath.WalkDir" || len(call.Call.Args) != 3 {
			continue
		}
		v := call.Call.Args[2]
		for {
			if ct, ok := v.(*ssa.ChangeType); ok {
				v = ct.X
				continue
			}
			break
		}
		switch x := v.(type) {
		case *ssa.Function:
			add(x)
		case *ssa.MakeClosure:
			f, _ := x.Fn.(*ssa.Function)
			if f == nil {
				continue
			}
			if f.Synthetic != "" && len(f.Blocks) == 1 {
				// bound method wrapper: one call of the method on the bound receiver
				for _, in := range f.Blocks[0].Instrs {
					if c2, ok := in.(*ssa.Call); ok {
						add(c2.Call.StaticCallee())
					}
				}
				continue
			}
			add(f)
		}
	}
	return out
}

// c16MaskContradictsRealDir: the fact `(M & mask) ==/!= val` about the entry's type cannot hold for a real directory
// (directory bit set, symlink bit clear): an equality that fixes one of the two bits the other way, or an inequality
// over exactly those bits whose value is what a real directory has.
func c16MaskContradictsRealDir(l, prefix string) bool {
	const bDir, bSym = uint64(1) << 31, uint64(1) << 27
	op, args := splitTopArgs(l)
	if (op != "EQ" && op != "NE") || len(args) != 2 || !strings.HasPrefix(args[0], "("+prefix) || !strings.HasSuffix(args[0], ")") {
		return false
	}
	i := strings.LastIndex(args[0], " & const:")
	if i < 0 {
		return false
	}
	mask, err1 := strconv.ParseUint(strings.TrimSuffix(args[0][i+len(" & const:"):], ")"), 10, 64)
	val, err2 := strconv.ParseUint(strings.TrimPrefix(args[1], "const:"), 10, 64)
	if err1 != nil || err2 != nil || !strings.HasPrefix(args[1], "const:") {
		return false
	}
	known := mask & (bDir | bSym)
	if known == 0 {
		return false
	}
	expected := known & bDir
	if op == "EQ" {
		return val&(bDir|bSym) != expected
	}
	return mask == known && val == expected
}
