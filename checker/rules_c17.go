package main

import (
	"fmt"
	"go/types"
	"strings"

	"golang.org/x/tools/go/ssa"
)

func init() {
	register(&Rule{
		ID:    "C17",
		Title: "plugin processes are contained: validated replies, bounded output, bounded time",
		Run:   runC17,
		Explain: "(a) typestate of the command object in the one function that calls exec.CommandContext: created with the context parameter; before Run, unconditionally (each store dominates Run): Stdin <- reader over the request bytes, " +
			"Stdout and Stderr <- the module's limited writer over a local buffer with a positive constant cap, WaitDelay <- a positive constant; " +
			"(b) the limited writer: the underlying write is reachable only with N > 0, the slice written is cut to N when longer, and N is decreased by the count written on every path; " +
			"(c) reply validation: the runner's success exits are cut by the process error and by json.Unmarshal(stdout, response) err == nil (whole-buffer decode: trailing data is an error); the error mapping returns the executable-file error for empty stderr, " +
			"the malformed-plugin error when stderr does not decode, and the plugin's own decoded error otherwise; (d) metadata: run error, the validator (name, description, version, url, capabilities, contract versions non-empty, supported contract version) and " +
			"metadata.Name == the plugin's name are fail-closed; (e) who-may-call: exec.Command/CommandContext only there; the runner is the only caller of the commander. " +
			"Shapes: the command may be created by a constructor function and configured by unexported helpers (every store to a field on that chain must be acceptable, one must be unconditional before Run; Run may be spelled Start + Wait); " +
			"the runner's mapping is read off its flattened ways of returning (own returns, returns of unexported helpers whose result it returns unchanged, edges of a returned phi), with the helpers' parameters replaced by the call arguments; " +
			"a wrapper that forwards the commander's three results unchanged and has one call site is looked through; json.Unmarshal may sit behind a helper that returns its error (and the decoded object); " +
			"the non-empty tests of the metadata may be one counting loop over a fixed local table of values (array, slice literal or variadic argument list, possibly in a helper or handed to one): " +
			"a table that is stored once and only read, a loop that visits 0..N-1, continues only through the passing edge of the test on row J and is left on every success exit through its exhaustion edge yields the fact for every row.",
		NotCov:  "actual timing and memory: os/exec semantics are trusted (with WaitDelay set, Wait returns at most that long after the context ends even if descendants hold the pipes).",
		Trusted: []string{"go/types, go/ssa", "os/exec (CommandContext kills the process when the context ends; WaitDelay bounds the wait for the pipes)", "encoding/json.Unmarshal rejects trailing data"},
	})
}

func runC17(c *Ctx) {
	w := c.W
	// (e) who may call
	var OUT *ssa.Function
	var cmdCall *ssa.Call
	n := 0
	for _, fn := range w.Funcs {
		for _, ci := range allCalls(fn) {
			nm := calleeName(ci)
			if nm == "os/exec.CommandContext" || nm == "os/exec.Command" {
				n++
				if call, ok := ci.(*ssa.Call); ok {
					OUT, cmdCall = fn, call
				}
			}
		}
	}
	c.Check(n == 1 && OUT != nil && calleeName(cmdCall) == "os/exec.CommandContext", "who-may-call/exec", "who-may-call: processes are started at exactly one site, with exec.CommandContext", w.FnPos(OUT), fmt.Sprintf("%d exec.Command* call sites", n))
	if OUT == nil {
		return
	}
	c.SeenFn(OUT.String())
	// OUT: the function that runs the command (the creating function itself, or the single caller of a constructor)
	cmd := c17CommandTypestate(c, OUT, cmdCall)
	c17LimitedWriter(c)
	if cmd == nil {
		// no Run found on the command (already reported): the remaining rules still run, on the creating function
		cmd = &c17Cmd{OUT: OUT}
	}
	c.SeenFn(cmd.OUT.String())
	c17Runner(c, cmd)
	c.MinCount("", 18, "plugin containment obligations")
}

// c17IsLimiterCtor: g returns &LimitedWriter{W: w, N: limit}.
func c17IsLimiterCtor(w *World, g *ssa.Function) bool {
	for _, b := range g.Blocks {
		r, ok := blockTerm(b).(*ssa.Return)
		if !ok || len(r.Results) != 1 {
			continue
		}
		al, ok := r.Results[0].(*ssa.Alloc)
		if !ok {
			return false
		}
		got := map[string]string{}
		for _, rr := range *al.Referrers() {
			if fa, ok := rr.(*ssa.FieldAddr); ok {
				for _, r3 := range *fa.Referrers() {
					if st, ok := r3.(*ssa.Store); ok && st.Addr == fa {
						got[fieldName(al.Type(), fa.Field)] = desc(st.Val)
					}
				}
			}
		}
		if !(strings.HasPrefix(got["W"], "param:") && strings.HasPrefix(got["N"], "param:")) {
			return false
		}
	}
	return true
}

func c17LimitedWriter(c *Ctx) {
	w := c.W
	WR := w.Method("internal/io", "LimitedWriter", "Write")
	if WR == nil {
		c.Unk("limited-writer/anchor", "anchor: (*LimitedWriter).Write", "-", "not found")
		return
	}
	c.SeenFn(WR.String())
	fi := w.Info(WR)
	recv := "param:" + WR.Params[0].Name()
	pp := "param:" + WR.Params[1].Name()
	var under *ssa.Call
	for _, ci := range allCalls(WR) {
		if call, ok := ci.(*ssa.Call); ok && calleeName(call) == "invoke:io.Writer.Write" {
			under = call
		}
	}
	if under == nil {
		c.Bad("limited-writer/write", "the limited writer forwards to the underlying writer", w.FnPos(WR), "no underlying Write")
		return
	}
	g := fi.GuardsOf(under)
	c.Evals++
	// the budget B (bytes that may still be forwarded) and how it is accounted, in either of two forms:
	//  (a) a remaining counter:  X.f = X.f - n        B = X.f              proceeds only if B > 0
	//  (b) a written counter:    X.g = X.g + n        B = (X.limit - X.g)  proceeds only if X.g < X.limit
	n0 := desc(under) + "#0"
	var acct *ssa.Store
	B, posLabel := "", ""
	for _, b := range WR.Blocks {
		for _, in := range b.Instrs {
			st, ok := in.(*ssa.Store)
			if !ok || !strings.HasPrefix(desc(st.Addr), recv+".") {
				continue
			}
			fld := desc(st.Addr)
			switch desc(st.Val) {
			case "(" + fld + " - " + n0 + ")":
				acct, B, posLabel = st, fld, "GT("+fld+",const:0)"
			case "(" + fld + " + " + n0 + ")":
				// the limit: the field the counter is compared with before the write
				for l := range g {
					if strings.HasPrefix(l, "LT("+fld+","+recv+".") {
						lim := strings.TrimSuffix(strings.TrimPrefix(l, "LT("+fld+","), ")")
						acct, B, posLabel = st, "("+lim+" - "+fld+")", l
					}
				}
			}
		}
	}
	if acct == nil {
		c.Bad("limited-writer/decrement", "after the underlying write the budget is reduced by the number of bytes written (remaining -= n, or written += n), on every path", w.InstrPos(under), "no such accounting store")
		c.Bad("limited-writer/positive-remaining", "the underlying write is reachable only with a positive remaining budget (otherwise the limit error)", w.InstrPos(under), "guards: "+summarizeLabels(g, 4))
		return
	}
	c.Check(labelHas(g, posLabel), "limited-writer/positive-remaining", "the underlying write is reachable only with a positive remaining budget (otherwise the limit error)", w.InstrPos(under), "guards: "+summarizeLabels(g, 4))
	// the slice written: p or p[:B], the latter whenever len(p) > B
	arg := under.Call.Args[0]
	okCut := false
	if p, ok := arg.(*ssa.Phi); ok && len(p.Edges) == 2 {
		var full, cutV bool
		for i, e := range p.Edges {
			d := desc(e)
			switch d {
			case pp:
				// the uncut edge must be the 'len(p) <= B' edge
				pred := p.Block().Preds[i]
				if iff, ok := blockTerm(pred).(*ssa.If); ok {
					for j, s := range pred.Succs {
						if s == p.Block() {
							l := condLabel(iff.Cond, j == 0)
							if l == "LE(len("+pp+"),"+B+")" {
								full = true
							}
						}
					}
				}
			case pp + "[:" + B + "]":
				gl, _ := fi.mustPassBetween([]int{0}, map[int]bool{p.Block().Preds[i].Index: true})
				if labelHas(gl, "GT(len("+pp+"),"+B+")") {
					cutV = true
				}
			}
		}
		okCut = full && cutV
	}
	// the same cut spelled with the builtin min: p[:min(len(p), B)] is p[:len(p)] = p when len(p) <= B and p[:B] otherwise
	if d := desc(arg); d == pp+"[:call:builtin:min(len("+pp+"),"+B+")]" || d == pp+"[:call:builtin:min("+B+",len("+pp+"))]" {
		okCut = true
	}
	c.Check(okCut, "limited-writer/cut-to-remaining", "the bytes forwarded are p when len(p) <= remaining budget and p[:remaining] otherwise", w.InstrPos(under), "forwarded "+desc(arg)+" with remaining budget "+B)
	// the accounting happens on every path after the write
	okDec := false
	{
		b := acct.Block()
		if b == under.Block() || under.Block().Dominates(b) {
			cut := map[edgeKey]bool{}
			if b != under.Block() {
				cutInto(fi, b, cut)
				if !fi.reachHit([]state{{under.Block().Index, 0, -1}}, cut, returnBlocks(WR)) {
					okDec = true
				}
			} else {
				okDec = true
			}
		}
	}
	// nothing else writes the counter or the limit
	for _, fn := range w.FuncsOfPkg("internal/io") {
		for _, b := range fn.Blocks {
			for _, in := range b.Instrs {
				if st, ok := in.(*ssa.Store); ok && st != acct && fn == WR && strings.HasPrefix(desc(st.Addr), recv+".") {
					if _, isInt := st.Val.Type().Underlying().(*types.Basic); isInt {
						okDec = false
					}
				}
			}
		}
	}
	c.Check(okDec, "limited-writer/decrement", "after the underlying write the budget is reduced by the number of bytes written (remaining -= n, or written += n), on every path, and nothing else in Write changes it", w.InstrPos(under), "the budget is not reduced by the written count")
}

func returnBlocks(fn *ssa.Function) map[int]bool {
	m := map[int]bool{}
	for _, b := range fn.Blocks {
		if _, ok := blockTerm(b).(*ssa.Return); ok {
			m[b.Index] = true
		}
	}
	return m
}

func c17Runner(c *Ctx, cmd *c17Cmd) {
	w := c.W
	OUT := cmd.OUT
	// the runner: the function invoking the commander interface
	var RUN *ssa.Function
	var oc *ssa.Call
	nCallers := 0
	for _, fn := range w.FuncsOfPkg("plugin") {
		for _, ci := range allCalls(fn) {
			// an invoke through a module interface that the process starter's receiver type implements
			if call, ok := ci.(*ssa.Call); ok && call.Call.IsInvoke() && OUT.Signature.Recv() != nil && call.Call.Method.Name() == OUT.Name() &&
				strings.HasPrefix(calleeName(call), "invoke:ngo/plugin.") && types.Implements(OUT.Signature.Recv().Type(), call.Call.Value.Type().Underlying().(*types.Interface)) {
				RUN, oc = fn, call
				nCallers++
			}
		}
	}
	if RUN == nil {
		c.Unk("runner/anchor", "anchor: the function invoking the commander", "-", "not found")
		return
	}
	c.SeenFn(RUN.String())
	c.Check(nCallers == 1, "runner/single", "the commander is invoked from exactly one function (all protocol commands go through the same validation)", w.FnPos(RUN), fmt.Sprintf("%d call sites", nCallers))
	// a wrapper that only forwards the commander's results is looked through (extra_c17.go)
	if nCallers == 1 {
		RUN, oc = c17LiftRunner(c, RUN, oc)
		c.SeenFn(RUN.String())
	}
	fi := w.Info(RUN)
	m := Mode{Kind: mErr}
	s := w.Summarize(RUN, m)
	c.Evals += s.States
	var respP string
	for _, p := range RUN.Params {
		if p.Type().String() == "interface{}" || p.Type().String() == "any" {
			respP = "param:" + p.Name()
		}
	}
	c.requireOnExits("runner", RUN, s.Exits, []Need{
		{Name: "process-error", What: "commander.Output err == nil (the process exited successfully)", Subs: []string{"EQ(" + c17ResultDesc(oc, 2) + ",nil)"}},
		{Name: "reply-decodes", What: "json.Unmarshal(stdout, response) err == nil (whole buffer: trailing data is rejected)", Subs: []string{"EQ(call:encoding/json.Unmarshal(" + c17ResultDesc(oc, 0) + "," + respP + ")#err,nil)"}},
	})
	// error mapping: read off the runner's flattened ways of returning (extra_c17.go): its own returns, the returns of the
	// unexported helpers whose result it returns unchanged, the incoming edges of a returned phi
	_ = fi
	cases := c17ErrorMapping(c, RUN, oc, respP)
	for _, k := range []string{"executable", "malformed-stderr", "plugin-error", "malformed-stdout"} {
		what := map[string]string{
			"executable":       "failing process with empty stderr -> PluginExecutableFileError",
			"malformed-stderr": "failing process whose stderr is not a structured error -> PluginMalformedError",
			"plugin-error":     "failing process with a structured error on stderr -> that decoded RequestError",
			"malformed-stdout": "successful process whose stdout does not decode -> PluginMalformedError",
		}[k]
		c.Check(cases[k], "runner/error-mapping/"+k, "error mapping: "+what, w.FnPos(RUN), "this case is not mapped as specified")
	}
	// the commander's outputs: stdout on success, stderr on failure, and the error is propagated: decided on the
	// commander's ways of returning (extra_c17.go)
	okOut := c17OutputOnSuccess(c, cmd)
	c.Check(okOut, "runner/output-on-success", "the commander returns the captured stdout only when Run succeeded", w.FnPos(OUT), "stdout is returned otherwise")
	c17StderrOnFailure(c, cmd, RUN, oc) // extra_c17.go: every failing exit after Run hands on the captured stderr
	c17Metadata(c, RUN)
}

func c17Metadata(c *Ctx, RUN *ssa.Function) {
	w := c.W
	var GM *ssa.Function
	for _, fn := range w.FuncsOfPkg("plugin") {
		if fn.Signature.Recv() != nil && fn.Name() == "GetMetadata" && namedOf(fn.Signature.Recv().Type()) == "ngo/plugin.CLIPlugin" {
			GM = fn
		}
	}
	if GM == nil {
		c.Unk("metadata/anchor", "anchor: (*CLIPlugin).GetMetadata", "-", "not found")
		return
	}
	c.SeenFn(GM.String())
	s := w.Summarize(GM, Mode{Kind: mErr})
	c.Evals += s.States
	var md string
	for _, b := range GM.Blocks {
		for _, in := range b.Instrs {
			if al, ok := in.(*ssa.Alloc); ok && namedOf(al.Type()) == "pfw/plugin.GetMetadataResponse" {
				md = desc(al)
			}
		}
	}
	recv := "param:" + GM.Params[0].Name()
	cv, _ := w.depConstString("github.com/notaryproject/notation-plugin-framework-go/plugin", "ContractVersion")
	needs := []Need{
		{Name: "run-error", What: "the runner's err == nil", Subs: []string{"EQ(call:" + fnName(RUN) + "(", "," + md + ")#err,nil)"}},
		{Name: "name-matches", What: "metadata.Name == the plugin's name", Alt: [][]string{{"EQ(" + md + ".Name," + recv + ".name)"}, {"EQ(" + recv + ".name," + md + ".Name)"}}},
	}
	for _, f := range []string{"Name", "Description", "Version", "URL"} {
		needs = append(needs, Need{Name: "non-empty-" + strings.ToLower(f), What: "metadata." + f + " is not empty", Subs: []string{"NE(" + md + "." + f + `,const:"")`}})
	}
	for _, f := range []string{"Capabilities", "SupportedContractVersions"} {
		needs = append(needs, Need{Name: "non-empty-" + strings.ToLower(f), What: "metadata." + f + " is not empty", Alt: [][]string{{"NE(len(" + md + "." + f + "),const:0)"}, {"GT(len(" + md + "." + f + "),const:0)"}}})
	}
	needs = append(needs, Need{Name: "contract-version", What: "the supported contract versions contain the host's contract version", Subs: []string{"T(call:slices.Contains(" + md + ".SupportedContractVersions," + fmt.Sprintf("const:%q))", cv)}})
	// facts established by one loop over a fixed table of values instead of one branch per value (extra_c17.go, (d)):
	// they hold on every success exit, so they are added to the must-pass facts of each
	exits := s.Exits
	if extra, _ := c17TableFacts(c, GM, Mode{Kind: mErr}, map[*ssa.Function]bool{}, 0); len(extra) > 0 {
		exits = nil
		for _, ex := range s.Exits {
			e2 := *ex
			e2.Checked = map[string]string{}
			for l, site := range ex.Checked {
				e2.Checked[l] = site
			}
			for l, site := range extra {
				if _, ok := e2.Checked[l]; !ok {
					e2.Checked[l] = site
				}
			}
			exits = append(exits, &e2)
		}
	}
	c.requireOnExits("metadata", GM, exits, needs)
	// the request carries the plugin's own name/path
}
