package main

import (
	"fmt"
	"go/types"
	"reflect"
	"strings"

	"golang.org/x/tools/go/ssa"
)

func init() {
	register(&Rule{
		ID:    "C18",
		Title: "the signer never returns plugin output it has not checked against the request",
		Run:   runC18,
		Explain: "(a) envelope path (the function calling SignPlugin.GenerateEnvelope): every success exit is cut by plugin error, response envelope type == requested type, ParseEnvelope(requested type, response bytes), Envelope.Verify, payload type, " +
			"payload decode, content.Equal(requested descriptor, signed target), the annotation-preservation loop (ranges over the REQUESTED descriptor's annotations; comma-ok lookup in the signed ones and value equality per pair; true only after the loop) and an empty unknown-field scan of the verified payload bytes; " +
			"the bytes returned are the bytes that were parsed and verified, the SignerInfo returned is the verified one; the scan removes only JSON names of ocispec.Descriptor fields (named in delete statements, compared with the key, or held in a constant table the key is looked up in) and reports the leftovers of both levels; " +
			"(b) raw path: describe-key and generate-signature answers are accepted only under string equality of the key id; the request carries the key id, EncodeKeySpec/HashAlgorithmFromKeySpec of the described key spec and the payload; certificate parse errors are fail-closed; " +
			"the generic signer returns only after Envelope.Sign, Envelope.Verify (self-verification) and the payload-type check, returning the signed bytes and the verified SignerInfo; " +
			"(c) Sign/SignBlob return only what (a) or (b) returned, chosen by capability; (d) the scan's type assertion is comma-ok (no panic); (e) the key-spec/hash codec tables are total and mutually inverse (shared with C07).",
		NotCov:  "consistency of key, certificate chain and signature (notation-core-go Sign/Verify).",
		Trusted: []string{"go/types, go/ssa", "notation-core-go signature.ParseEnvelope / Envelope.Verify / Envelope.Sign", "oras-go content.Equal", "encoding/json"},
	})
}

func runC18(c *Ctx) {
	w := c.W
	m := Mode{Kind: mErr}
	var ENV *ssa.Function
	var gen *ssa.Call
	for _, fn := range w.FuncsOfPkg("signer") {
		for _, ci := range allCalls(fn) {
			if call, ok := ci.(*ssa.Call); ok && calleeName(call) == "invoke:pfw/plugin.SignPlugin.GenerateEnvelope" {
				ENV, gen = fn, call
			}
		}
	}
	if ENV == nil {
		c.Unk("envelope/anchor", "anchor: the function calling SignPlugin.GenerateEnvelope", "-", "not found")
		return
	}
	c.SeenFn(ENV.String())
	s := w.Summarize(ENV, m)
	c.Evals += s.States
	gd := desc(gen)
	resp := gd + "#0"
	PD := paramWhere(ENV, isNamed("ocispec.Descriptor"))
	PO := paramWhere(ENV, hasField("SignatureMediaType"))
	// The checks may be written in ENV itself or in helpers it calls: the anchors are looked for on ENV's static call tree
	// and rendered in ENV's frame (helper parameters replaced by the arguments of the helper's one call site), which is how
	// the gate engine spells the helper's facts on ENV's exits. The obligations themselves are unchanged: every
	// success-capable exit of ENV must carry the fact.
	fr := newC18Frame(w, ENV)
	var parse, verify *ssa.Call
	for _, call := range fr.calls() {
		switch calleeName(call) {
		case "core/signature.ParseEnvelope":
			parse = call
		case "invoke:core/signature.Envelope.Verify":
			verify = call
		}
	}
	if parse == nil || verify == nil {
		c.Bad("envelope/verify", "the generated envelope is parsed and verified", w.FnPos(ENV), "ParseEnvelope / Envelope.Verify missing")
		return
	}
	pt, _ := w.constString("internal/envelope", "MediaTypePayloadV1")
	vd := fr.val(verify)
	content := vd + "#0.Payload.Content"
	c.requireOnExits("envelope", ENV, s.Exits, []Need{
		{Name: "plugin-error", What: "GenerateEnvelope err == nil", Subs: []string{"EQ(" + gd + "#err,nil)"}},
		{Name: "format-echo", What: "response envelope type == requested envelope type", Alt: [][]string{{"EQ(" + resp + ".SignatureEnvelopeType,", ".SignatureEnvelopeType)"}, {"EQ(" + resp + ".SignatureEnvelopeType," + PO + ".SignatureMediaType)"}}},
		{Name: "parse", What: "ParseEnvelope(requested media type (or the response type, which format-echo equates with it), response envelope bytes) err == nil", Alt: [][]string{{"EQ(call:core/signature.ParseEnvelope(" + PO + ".SignatureMediaType," + resp + ".SignatureEnvelope)#err,nil)"}, {"EQ(call:core/signature.ParseEnvelope(" + resp + ".SignatureEnvelopeType," + resp + ".SignatureEnvelope)#err,nil)"}}},
		{Name: "self-verify", What: "Envelope.Verify() err == nil on the parsed envelope", Subs: []string{"EQ(" + vd + "#err,nil)"}},
		{Name: "payload-type", What: "verified payload content type == envelope.MediaTypePayloadV1", Subs: []string{"EQ(" + vd + "#0.Payload.ContentType," + fmt.Sprintf("const:%q)", pt)}},
		{Name: "payload-decode", What: "json.Unmarshal(verified payload content, *envelope.Payload) err == nil", Subs: []string{"EQ(call:encoding/json.Unmarshal(" + content + ",alloc:ngo/internal/envelope.Payload<", ")#err,nil)"}},
		{Name: "descriptor-equal", What: "content.Equal(requested descriptor, signed target)", Alt: [][]string{{"T(call:oras/content.Equal(" + PD + ",alloc:ngo/internal/envelope.Payload<", ">.TargetArtifact))"}, {"T(call:oras/content.Equal(alloc:ngo/internal/envelope.Payload<", ">.TargetArtifact," + PD + "))"}}},
		{Name: "annotations-loop-completed", What: "the preservation loop over the requested descriptor's annotations ran to completion", Subs: []string{"F(rangeok(" + PD + ".Annotations))"}},
	})
	// the signed payload is decoded into a fresh variable, not over the request's payload
	for _, cc := range fr.calls() {
		if calleeName(cc) == "encoding/json.Unmarshal" && fr.val(cc.Call.Args[0]) == content {
			// freshness is a fact of the function that owns the decode target (a helper's local is fresh per call)
			fresh, why := freshDecodeTarget(w.Info(cc.Parent()), cc)
			c.Check(fresh, "envelope/payload-decode-target-fresh", "the payload the plugin signed is decoded into a fresh variable: members the plugin left out are not filled in from the request before the comparison", w.InstrPos(cc), why)
		}
	}
	// the request's envelope type is the caller's
	okReq := false
	for _, b := range ENV.Blocks {
		for _, in := range b.Instrs {
			if st, ok := in.(*ssa.Store); ok {
				if fa, ok := st.Addr.(*ssa.FieldAddr); ok && namedOf(fa.X.Type()) == "pfw/plugin.GenerateEnvelopeRequest" && fieldName(fa.X.Type(), fa.Field) == "SignatureEnvelopeType" && desc(st.Val) == PO+".SignatureMediaType" {
					okReq = true
				}
			}
		}
	}
	c.Check(okReq, "envelope/request-type", "the request asks for the caller's signature media type", w.FnPos(ENV), "")
	// unknown-field scan on the verified bytes, result must be empty
	var scan *ssa.Call
	for _, call := range fr.calls() {
		g := staticCallee(call)
		if g != nil && w.IsProductFn(g) && len(call.Call.Args) == 1 && fr.val(call.Call.Args[0]) == content && strings.HasPrefix(call.Type().String(), "[]string") {
			scan = call
		}
	}
	scanD := "?"
	if scan != nil {
		scanD = fr.val(scan)
	}
	if scan == nil {
		c.Bad("envelope/unknown-fields", "the verified payload bytes are scanned for unknown fields", w.FnPos(ENV), "no scan of the verified payload content")
	} else {
		c.requireOnExits("envelope", ENV, s.Exits, []Need{
			{Name: "unknown-fields", What: "the unknown-field scan of the verified payload bytes is empty", Alt: [][]string{{"EQ(len(" + scanD + "),const:0)"}, {"LE(len(" + scanD + "),const:0)"}}},
		})
		c18Scan(c, staticCallee(scan))
	}
	// what is returned
	okRet := len(s.Exits) > 0
	for _, ex := range s.Exits {
		r := ex.Ret
		if desc(r.Results[0]) != resp+".SignatureEnvelope" || desc(r.Results[1]) != vd+"#0.SignerInfo" {
			okRet = false
		}
	}
	c.Check(okRet, "envelope/returns-verified-bytes", "the envelope bytes returned are exactly the bytes that were parsed and verified, with the verified SignerInfo", w.FnPos(ENV), "other bytes or signer info are returned")
	// plugin-provided manifest annotations are taken over only after all checks
	for _, b := range ENV.Blocks {
		for _, in := range b.Instrs {
			st, ok := in.(*ssa.Store)
			if !ok {
				continue
			}
			fa, ok := st.Addr.(*ssa.FieldAddr)
			if !ok || !strings.HasPrefix(desc(st.Val), resp) {
				continue
			}
			g := w.Info(ENV).GuardsOf(st)
			_, g1 := hasLabel(g, "EQ("+vd+"#err,nil)")
			_, g2 := hasLabel(g, "T(call:oras/content.Equal(")
			_, g3 := hasLabel(g, "EQ(len("+scanD+"),const:0)")
			c.Check(g1 && g2 && g3, "envelope/state-after-checks/"+fieldName(fa.X.Type(), fa.Field), "plugin output is stored in the signer only after the envelope was verified and matched against the request", w.InstrPos(st), fmt.Sprintf("verify=%v descriptor=%v unknown-fields=%v", g1, g2, g3))
		}
	}
	// the same for a store written in a helper of ENV (a setter): the value stored is plugin output in ENV's frame, the object
	// written is not a local of the helper; the facts are those on the way to the store inside the helper plus those on
	// the way to the helper's call site(s) up to ENV
	for _, f := range fr.tree {
		if f == ENV || f.Parent() != nil {
			continue
		}
		for _, b := range f.Blocks {
			for _, in := range b.Instrs {
				st, ok := in.(*ssa.Store)
				if !ok {
					continue
				}
				fa, ok := st.Addr.(*ssa.FieldAddr)
				if !ok || !strings.HasPrefix(fr.val(st.Val), resp) || c18LocalObject(fa.X) {
					continue
				}
				g := fr.guards(st)
				_, g1 := hasLabel(g, "EQ("+vd+"#err,nil)")
				_, g2 := hasLabel(g, "T(call:oras/content.Equal(")
				_, g3 := hasLabel(g, "EQ(len("+scanD+"),const:0)")
				c.Check(g1 && g2 && g3, "envelope/state-after-checks/"+fieldName(fa.X.Type(), fa.Field), "plugin output is stored in the signer only after the envelope was verified and matched against the request", w.InstrPos(st), fmt.Sprintf("(in helper %s) verify=%v descriptor=%v unknown-fields=%v", fnName(f), g1, g2, g3))
			}
		}
	}
	// the request's payload, key id and payload type
	reqF := map[string]string{}
	for _, b := range ENV.Blocks {
		for _, in := range b.Instrs {
			if st, ok := in.(*ssa.Store); ok {
				if fa, ok := st.Addr.(*ssa.FieldAddr); ok && namedOf(fa.X.Type()) == "pfw/plugin.GenerateEnvelopeRequest" {
					reqF[fieldName(fa.X.Type(), fa.Field)] = desc(st.Val)
				}
			}
		}
	}
	okPay := strings.HasPrefix(reqF["Payload"], "call:encoding/json.Marshal(") && strings.HasSuffix(reqF["Payload"], "#0") && reqF["KeyID"] == "param:"+ENV.Params[0].Name()+".keyID" && reqF["PayloadType"] == fmt.Sprintf("const:%q", pt)
	if okPay {
		// the marshalled value is the payload built from the requested descriptor
		// (the marshalling may sit in a helper: the bytes put into the request are result #0 of that very Marshal call, and the
		// TargetArtifact stored into the marshalled object is, in ENV's frame, the requested descriptor)
		okPay = false
		for _, mc := range fr.calls() {
			if calleeName(mc) != "encoding/json.Marshal" || fr.str(mc.Parent(), res(mc, 0)) != reqF["Payload"] {
				continue
			}
			if mi, ok := mc.Call.Args[0].(*ssa.MakeInterface); ok {
				if strings.Contains(desc(mi.X), "ngo/internal/envelope.Payload") {
					for _, b := range mc.Parent().Blocks {
						for _, in := range b.Instrs {
							if st, ok := in.(*ssa.Store); ok {
								if fa, ok := st.Addr.(*ssa.FieldAddr); ok && namedOf(fa.X.Type()) == "ngo/internal/envelope.Payload" && fieldName(fa.X.Type(), fa.Field) == "TargetArtifact" && desc(fa.X) == desc(mi.X) {
									d := fr.val(st.Val)
									if d == PD || d == "call:ngo/internal/envelope.SanitizeTargetArtifact("+PD+")" {
										okPay = true
									}
								}
							}
						}
					}
				}
			}
		}
	}
	c.Check(okPay, "envelope/request-payload", "the plugin is asked to sign the payload built from the requested descriptor, with the signer's key id and the v1 payload type", w.FnPos(ENV), fmt.Sprintf("request fields: %v", reqF))
	// the annotation-preservation function
	c18Subset(c, ENV, PD, fr)
	c18Raw(c)
	c18Dispatch(c, ENV)
	// (d) and (e)
	c12AssertsIn(c, "signer")
	c12IndexesIn(c, "signer")
	c07Tables(c)
	c.MinCount("", 30, "plugin signer obligations")
}

// c18Subset: the function with the per-annotation loop.
func c18Subset(c *Ctx, ENV *ssa.Function, PD string, fr *c18Frame) {
	w := c.W
	var SUB *ssa.Function
	var sub *ssa.Call
	for _, f := range w.moduleCallees(ENV) {
		for _, rl := range rangeLoops(f) {
			if strings.HasSuffix(desc(rl.X), ".Annotations") && f.Signature.Results().Len() == 1 && f.Signature.Results().At(0).Type().String() == "bool" {
				SUB = f
			}
		}
	}
	rule := "annotation preservation: the loop ranges over the ORIGINAL (requested) descriptor's annotations; every completed iteration passes the comma-ok lookup in the signed annotations and value equality; true is returned only after the loop"
	if SUB == nil {
		c.Bad("envelope/annotations-preserved", rule, w.FnPos(ENV), "no per-annotation comparison on the call tree")
		return
	}
	c.SeenFn(SUB.String())
	fi := w.Info(SUB)
	// which parameter receives the requested descriptor? follow the call chain from ENV: the argument derived from param:desc
	for _, f := range w.moduleCallees(ENV) {
		for _, ci := range allCalls(f) {
			if call, ok := ci.(*ssa.Call); ok && staticCallee(call) == SUB {
				sub = call
			}
		}
	}
	// the comparison may sit any number of helper levels below ENV: the argument that, rendered in ENV's frame, IS the
	// requested descriptor (each level hands its parameter on unchanged; the frame is only defined along single call sites)
	origIdx := -1
	if sub != nil && len(sub.Call.Args) == 2 {
		for i, a := range sub.Call.Args {
			if fr.val(a) == PD {
				origIdx = i
			}
		}
	}
	if origIdx < 0 {
		c.Bad("envelope/annotations-preserved", rule, w.FnPos(SUB), "the requested descriptor does not reach the comparison")
		return
	}
	op := "param:" + SUB.Params[origIdx].Name()
	np := "param:" + SUB.Params[1-origIdx].Name()
	var loop *rangeLoop
	for _, rl := range rangeLoops(SUB) {
		rl := rl
		if desc(rl.X) == op+".Annotations" {
			loop = &rl
		}
	}
	if loop == nil {
		c.Bad("envelope/annotations-preserved", rule, w.FnPos(SUB), "the loop ranges over "+func() string {
			for _, rl := range rangeLoops(SUB) {
				return desc(rl.X)
			}
			return "?"
		}()+" instead of the requested descriptor's annotations (a dropped original annotation is not noticed)")
		return
	}
	labels, _ := fi.mustPassBetween([]int{loop.Body.Index}, map[int]bool{loop.Header.Index: true})
	key := "rangekey(" + op + ".Annotations)"
	val := "rangeval(" + op + ".Annotations)"
	lk := np + ".Annotations[" + key + "]"
	okL := labelHas(labels, "T(ok("+lk+"))") && (labelHas(labels, "EQ("+val+","+lk+")") || labelHas(labels, "EQ("+lk+","+val+")"))
	wit := fi.successWitness(Mode{Kind: mBool, Want: true}, []state{{loop.Body.Index, 0, -1}}, backEdges(loop.Header))
	cut := map[edgeKey]bool{}
	cutInto(fi, loop.Header, cut)
	wit2 := fi.successWitness(Mode{Kind: mBool, Want: true}, entryState(), cut)
	c.Evals += 3
	c.Check(okL && wit == nil && wit2 == nil, "envelope/annotations-preserved", rule, w.InstrPos(loop.Next),
		fmt.Sprintf("per-pair gates=%v; true from inside the loop=%v; loop bypass=%v; facts: %s", okL, wit != nil, wit2 != nil, summarizeLabels(labels, 5)))
}

// c18Scan: the unknown-field scan.
func c18Scan(c *Ctx, SC *ssa.Function) {
	w := c.W
	c.SeenFn(SC.String())
	// JSON names of ocispec.Descriptor
	names := map[string]bool{}
	if p := w.ByPath["github.com/opencontainers/image-spec/specs-go/v1"]; p != nil {
		if tn, ok := p.Types.Scope().Lookup("Descriptor").(*types.TypeName); ok {
			st := tn.Type().Underlying().(*types.Struct)
			for i := 0; i < st.NumFields(); i++ {
				n := strings.Split(reflect.StructTag(st.Tag(i)).Get("json"), ",")[0]
				if n != "" {
					names[n] = true
				}
			}
		}
	}
	// the two levels, as values: the map decoded from the argument (payload level) and its "targetArtifact" member
	// asserted to a map (descriptor level)
	var outerMap ssa.Value
	for _, ci := range findCalls(SC, "encoding/json.Unmarshal") {
		if desc(ci.Common().Args[0]) == "param:"+SC.Params[0].Name() {
			if al, ok := unwrap(ci.Common().Args[1]).(*ssa.Alloc); ok {
				outerMap = al
			}
		}
	}
	innerMaps := c18InnerMaps(SC, outerMap)
	isOuter := func(v ssa.Value) bool { return outerMap != nil && c18MapOrigin(v) == outerMap }
	isInner := func(v ssa.Value) bool { return c18InnerLevel(v, innerMaps) }
	// a key taken out of the report must be one the level may have: a JSON name of ocispec.Descriptor at the descriptor
	// level, "targetArtifact" at the payload level (a removal whose map is neither of the two values is held to the union)
	okDel := true
	var deleted []string
	outer := ""
	exclude := func(m ssa.Value, s string) {
		deleted = append(deleted, s)
		switch {
		case m != nil && isOuter(m):
			if s == "targetArtifact" {
				outer = s
			} else {
				okDel = false
			}
		case m != nil && isInner(m):
			if !names[s] {
				okDel = false
			}
		default:
			if s == "targetArtifact" {
				outer = s
			} else if !names[s] {
				okDel = false
			}
		}
	}
	for _, ci := range allCalls(SC) {
		call, ok := ci.(*ssa.Call)
		if !ok {
			continue
		}
		if bi, ok := call.Call.Value.(*ssa.Builtin); ok && bi.Name() == "delete" {
			k, isK := call.Call.Args[1].(*ssa.Const)
			if !isK {
				// table-driven removal (`for _, n := range known { delete(m, n) }`): the key removed is, whenever the statement
				// runs, an element of a constant table; the keys removed are among the table's constants, each of which is held
				// to the condition of a key removed by name
				ks, isElem := c18ElemOfConstSet(w, call.Call.Args[1], nil, 0)
				if !isElem {
					okDel = false
					deleted = append(deleted, "<"+trunc(desc(call.Call.Args[1]), 60)+">")
					continue
				}
				for _, s := range ks {
					exclude(call.Call.Args[0], s)
				}
				continue
			}
			s, _ := unquote(constString(k))
			exclude(call.Call.Args[0], s)
			continue
		}
		// maps.DeleteFunc(m, pred) removes exactly the keys pred accepts (library contract). With pred a membership test in
		// a constant list that nothing can change, the keys removed are the elements of that list: they are held to the same
		// condition as the keys of the delete statements.
		if calleeName(call) == "maps.DeleteFunc" && len(call.Call.Args) == 2 {
			list, isList := c18MembershipPredicate(w, call.Call.Args[1])
			if !isList {
				okDel = false
				deleted = append(deleted, "<keys chosen by "+trunc(desc(call.Call.Args[1]), 80)+">")
				continue
			}
			for _, s := range list {
				exclude(call.Call.Args[0], s)
			}
		}
	}
	// a level may also be reported by a loop of the scan itself that collects every key except constants it compares the
	// key with (filter while collecting, see c18KeyCollector): those constants are keys taken out of the report, too
	colOuter := c18KeyCollector(w, SC, isOuter, nil)
	colInner := c18KeyCollector(w, SC, isInner, nil)
	if colOuter.ok {
		for _, s := range colOuter.filter {
			exclude(outerMap, s)
		}
	}
	if colInner.ok {
		for m := range innerMaps {
			for _, s := range colInner.filter {
				exclude(m, s)
			}
			break
		}
	}
	// both levels reported, decided on values: the slice returned contains every key of the map decoded from the argument
	// (payload level) and every key of its "targetArtifact" member (descriptor level), whether gathered by a module helper,
	// by slices.AppendSeq / slices.Collect over maps.Keys (library contract: all keys of the map, each once), by a loop of the
	// scan or by a filtering collector helper. (The former test on the printed form of the return expression — "append of
	// two module calls" — did not look at WHICH maps the two calls were handed; the base tree passes the test on values.)
	reported := map[ssa.Value]string{}
	cols := &c18Collectors{filter: map[ssa.Value][]string{}, fns: map[*ssa.Function]bool{}}
	firstRet := true
	for _, b := range SC.Blocks {
		if r, ok := blockTerm(b).(*ssa.Return); ok && len(r.Results) == 1 {
			rep := map[ssa.Value]string{}
			c18ReportedMaps(w, r.Results[0], rep, cols, 0)
			if firstRet {
				reported, firstRet = rep, false
			} else {
				for m := range reported {
					if _, ok := rep[m]; !ok {
						delete(reported, m)
					}
				}
			}
		}
	}
	var innerMap ssa.Value
	for m := range reported {
		// the descriptor level by value: the asserted map itself, or the variable that holds it or nil (c18InnerLevel)
		if innerMaps[m] || isInner(m) {
			innerMap = m
		}
	}
	// the constants a collector helper filters out are keys taken out of the report at the level of the map it was handed
	// (whether or not that map turns out to be one of the two levels)
	for m, ks := range cols.filter {
		for _, s := range ks {
			exclude(m, s)
		}
	}
	c.Check(okDel && outer != "" && len(deleted) >= 5, "scan/removes-only-descriptor-fields", "the scan removes only the JSON names of ocispec.Descriptor fields (and targetArtifact at the outer level): everything else is reported", w.FnPos(SC), fmt.Sprintf("deleted keys: %v", deleted))
	if _, has := reported[outerMap]; !has && outerMap != nil && colOuter.ok {
		reported[outerMap] = "loop"
	}
	if innerMap == nil && colInner.ok {
		for m := range innerMaps {
			innerMap = m
			reported[m] = "loop"
			break
		}
	}
	_, outerReported := reported[outerMap]
	byValue := outerMap != nil && innerMap != nil && outerReported
	lvl := "one level is not reported"
	if !byValue {
		if !outerReported {
			lvl += "; payload level: " + colOuter.why
		}
		if innerMap == nil {
			lvl += "; descriptor level: " + colInner.why
		}
	}
	c.Check(byValue, "scan/reports-both-levels", "the scan reports the leftover keys of the descriptor level and of the payload level", w.FnPos(SC), lvl)
	// the map scanned is decoded from the parameter
	okSrc := false
	for _, ci := range findCalls(SC, "encoding/json.Unmarshal") {
		if desc(ci.Common().Args[0]) == "param:"+SC.Params[0].Name() {
			okSrc = true
		}
	}
	// the key-set helper reports every key
	nks := 0
	for _, f := range w.moduleCallees(SC) {
		if f == SC {
			continue
		}
		for _, rl := range rangeLoops(f) {
			if len(f.Params) == 0 || desc(rl.X) != "param:"+f.Params[0].Name() {
				if _, isParam := rl.X.(*ssa.Parameter); !isParam || !cols.fns[f] {
					continue
				}
			}
			nks++
			if cols.fns[f] {
				// a filtering collector: every key of its map argument is reported except the constants of its filter
				// (c18KeyCollector L1–L6 at the call), and those constants were held to scan/removes-only-descriptor-fields
				c.OK("scan/keyset-complete", "the key-set helper reports every key of the map (a helper that skips a key only after finding it in a constant table is held to the removal rule for those constants)", w.FnPos(f))
				continue
			}
			lb := loopBlocks(rl.Header)
			cond, app := false, false
			for bi := range lb {
				b := f.Blocks[bi]
				if _, isIf := blockTerm(b).(*ssa.If); isIf && b != rl.Header {
					cond = true
				}
				for _, in := range b.Instrs {
					if call, ok := in.(*ssa.Call); ok {
						if bi, ok := call.Call.Value.(*ssa.Builtin); ok && bi.Name() == "append" && strings.Contains(desc(call.Call.Args[1]), "rangekey(param:"+f.Params[0].Name()+")") {
							app = true
						}
					}
				}
			}
			c.Check(app && !cond, "scan/keyset-complete", "the key-set helper reports every key of the map (unconditional append of the range key)", w.FnPos(f), fmt.Sprintf("append of key=%v conditional=%v", app, cond))
		}
	}
	if nks == 0 {
		// no hand-written key-set loop: both levels are gathered by the library (maps.Keys yields every key of the map,
		// slices.AppendSeq / slices.Collect keep every value of the sequence) — nothing in the module can filter a key
		// — or by a loop of the scan that appends every key it has not compared equal to a constant (c18KeyCollector L2–L6)
		complete := func(how string) bool { return how == "library" || how == "loop" || how == "collector" }
		byLibrary := byValue && complete(reported[outerMap]) && complete(reported[innerMap])
		c.Check(byLibrary, "scan/keyset-complete", "the key-set helper reports every key of the map (or the keys are gathered by maps.Keys + slices.AppendSeq/Collect, or by a loop of the scan that skips a key only after comparing it equal to a constant)", w.FnPos(SC), "no key-set loop found")
	}
	c.Check(okSrc, "scan/decodes-its-argument", "the scan decodes the bytes it was given", w.FnPos(SC), "")
}

func c18Raw(c *Ctx) {
	w := c.W
	m := Mode{Kind: mErr}
	// describe-key
	var DK *ssa.Function
	for _, fn := range w.FuncsOfPkg("signer") {
		if fn.Signature.Results().Len() == 2 && namedOf(fn.Signature.Results().At(0).Type()) == "core/internal/algorithm.KeySpec" && len(fn.Params) > 0 && fn.Signature.Recv() != nil && namedOf(fn.Signature.Recv().Type()) == "ngo/signer.PluginSigner" {
			DK = fn
		}
	}
	if DK == nil {
		c.Unk("raw/describe-key", "anchor: the plugin signer's key-spec lookup", "-", "not found")
	} else {
		c.SeenFn(DK.String())
		s := w.Summarize(DK, m)
		c.Evals += s.States
		recv := "param:" + DK.Params[0].Name()
		c.requireOnExits("raw/describe-key", DK, s.Exits, []Need{
			{Name: "plugin-error", What: "DescribeKey err == nil", Subs: []string{"EQ(call:invoke:pfw/plugin.SignPlugin.DescribeKey(", "#err,nil)"}},
			{Name: "key-id-echo", What: "response key id == requested key id (string equality)", Alt: [][]string{{"EQ(" + recv + ".keyID,call:", "#0.KeyID)"}, {"EQ(call:", "#0.KeyID," + recv + ".keyID)"}}},
			{Name: "key-spec-decodes", What: "proto.DecodeKeySpec(response key spec) err == nil", Subs: []string{"EQ(call:ngo/plugin/proto.DecodeKeySpec(", ".KeySpec)#err,nil)"}},
		})
		// the request carries the signer's key id
		for _, f := range w.moduleCallees(DK) {
			for _, b := range f.Blocks {
				for _, in := range b.Instrs {
					if st, ok := in.(*ssa.Store); ok {
						if fa, ok := st.Addr.(*ssa.FieldAddr); ok && namedOf(fa.X.Type()) == "pfw/plugin.DescribeKeyRequest" && fieldName(fa.X.Type(), fa.Field) == "KeyID" {
							c.Check(strings.HasSuffix(desc(st.Val), ".keyID"), "raw/describe-key/request-key-id", "the describe-key request asks for the signer's key id", w.InstrPos(st), desc(st.Val))
						}
					}
				}
			}
		}
	}
	// generate-signature
	var PS *ssa.Function
	var gs *ssa.Call
	for _, fn := range w.FuncsOfPkg("signer") {
		for _, ci := range allCalls(fn) {
			if call, ok := ci.(*ssa.Call); ok && calleeName(call) == "invoke:pfw/plugin.SignPlugin.GenerateSignature" {
				PS, gs = fn, call
			}
		}
	}
	if PS == nil {
		c.Unk("raw/generate-signature", "anchor: the primitive signer calling GenerateSignature", "-", "not found")
	} else {
		c.SeenFn(PS.String())
		s := w.Summarize(PS, m)
		c.Evals += s.States
		recv := "param:" + PS.Params[0].Name()
		gd := desc(gs)
		// where the chain is parsed: found by value on PS's call tree (c18ChainLoopAt). Three places are told apart:
		//   - in PS itself (parser inlined): the loop's own decision answers cert-chain-parses (see c18ChainLoopOK);
		//   - in a helper called from PS (any parameter list): PS must test the error of THAT call;
		//   - not found: the original spelling of the obligation stands (and fails if there is no parser call).
		// Several loops may range over the chain (one may only log it): in PS, a loop that passes the decision is enough;
		// among helpers the first one with a single call site in PS is taken.
		frPS := newC18Frame(w, PS)
		var chainFn *ssa.Function
		var chainLoop sliceLoop
		chainFound := false
		var chainCall *ssa.Call // the call in PS whose callee holds the loop
		rank := 0               // 3: loop in PS that passes, 2: loop in a helper, 1: loop in PS that fails
		for _, cs := range c18ChainLoopsAt(frPS, gd+"#0.CertificateChain") {
			r, call := 0, (*ssa.Call)(nil)
			if cs.F == PS {
				r = 1
				if okL, _, _ := c18ChainLoopOK(w, PS, cs.Loop, 1); okL {
					r = 3
				}
			} else if ss := frPS.sites[cs.F]; len(ss) == 1 && ss[0] != nil && ss[0].Parent() == PS {
				r, call = 2, ss[0]
			}
			if r > rank {
				rank, chainFn, chainLoop, chainFound, chainCall = r, cs.F, cs.Loop, true, call
			}
		}
		chainNeed := Need{Name: "cert-chain-parses", What: "every certificate of the response chain parses", Subs: []string{"EQ(call:ngo/signer.", "(" + gd + "#0.CertificateChain)#err,nil)"}}
		if chainCall != nil {
			chainNeed.Alt = [][]string{chainNeed.Subs, {"EQ(" + desc(chainCall) + "#err,nil)"}}
			chainNeed.Subs = nil
		}
		var chainDst ssa.Value
		needs := []Need{}
		if chainFound && chainFn == PS {
			okL, dst, detail := c18ChainLoopOK(w, PS, chainLoop, 1)
			chainDst = dst
			c.Evals += 3
			c.Check(okL, "raw/generate-signature/cert-chain-parses", "must-check: no success-capable exit of "+fnName(PS)+" is reachable unless every certificate of the response chain parsed (the chain is parsed by a loop of the function itself)", w.InstrPos(blockTerm(chainLoop.Header)), detail)
			c.Check(okL, "raw/cert-chain-parser", "the chain parser parses every element of the response chain, fails on the first parse error, and returns the parsed certificates in order", w.InstrPos(blockTerm(chainLoop.Header)), detail)
		} else {
			needs = append(needs, chainNeed)
		}
		c.requireOnExits("raw/generate-signature", PS, s.Exits, append(needs, []Need{
			{Name: "plugin-error", What: "GenerateSignature err == nil", Subs: []string{"EQ(" + gd + "#err,nil)"}},
			{Name: "key-id-echo", What: "response key id == requested key id (string equality)", Alt: [][]string{{"EQ(alloc:pfw/plugin.GenerateSignatureRequest<", ">.KeyID," + gd + "#0.KeyID)"}, {"EQ(" + gd + "#0.KeyID,alloc:pfw/plugin.GenerateSignatureRequest<", ">.KeyID)"}, {"EQ(" + recv + ".keyID," + gd + "#0.KeyID)"}, {"EQ(" + gd + "#0.KeyID," + recv + ".keyID)"}}},
			{Name: "key-spec-encodes", What: "EncodeKeySpec(described key spec) err == nil", Subs: []string{"EQ(call:ngo/plugin/proto.EncodeKeySpec(" + recv + ".keySpec)#err,nil)"}},
			{Name: "hash-of-key-spec", What: "HashAlgorithmFromKeySpec(described key spec) err == nil", Subs: []string{"EQ(call:ngo/plugin/proto.HashAlgorithmFromKeySpec(" + recv + ".keySpec)#err,nil)"}},
		}...))
		req := map[string]string{}
		for _, b := range PS.Blocks {
			for _, in := range b.Instrs {
				if st, ok := in.(*ssa.Store); ok {
					if fa, ok := st.Addr.(*ssa.FieldAddr); ok && namedOf(fa.X.Type()) == "pfw/plugin.GenerateSignatureRequest" {
						req[fieldName(fa.X.Type(), fa.Field)] = desc(st.Val)
					}
				}
			}
		}
		okReq := req["KeyID"] == recv+".keyID" && req["KeySpec"] == "call:ngo/plugin/proto.EncodeKeySpec("+recv+".keySpec)#0" && req["Hash"] == "call:ngo/plugin/proto.HashAlgorithmFromKeySpec("+recv+".keySpec)#0" && req["Payload"] == "param:"+PS.Params[1].Name()
		c.Check(okReq, "raw/generate-signature/request", "the request carries the signer's key id, the encoded described key spec, the hash bound to it and exactly the payload to sign", w.FnPos(PS), fmt.Sprintf("request fields: %v", req))
		okRet := len(s.Exits) > 0
		for _, ex := range s.Exits {
			okChain := false
			for _, ci := range allCalls(PS) {
				if cc, isC := ci.(*ssa.Call); isC && len(cc.Call.Args) == 1 && desc(cc.Call.Args[0]) == gd+"#0.CertificateChain" && desc(ex.Ret.Results[1]) == res(cc, 0) {
					okChain = true
				}
			}
			// the same by value: result #0 of the call whose callee holds the chain loop, or — loop in PS itself — the
			// very slice the loop stored the parsed certificates in
			if chainCall != nil && desc(ex.Ret.Results[1]) == res(chainCall, 0) {
				okChain = true
			}
			if chainDst != nil {
				r := ex.Ret.Results[1]
				if ph, isPhi := r.(*ssa.Phi); r == chainDst || (isPhi && phiHas(ph, chainDst)) {
					okChain = true
				}
			}
			if desc(ex.Ret.Results[0]) != gd+"#0.Signature" || !okChain {
				okRet = false
			}
		}
		c.Check(okRet, "raw/generate-signature/returns", "the raw signature and the parsed certificate chain of that very response are returned", w.FnPos(PS), "")
		// the chain parser: every element parsed, error fail-closed
		for _, ci := range allCalls(PS) {
			call, ok := ci.(*ssa.Call)
			if !ok || len(call.Call.Args) != 1 || desc(call.Call.Args[0]) != gd+"#0.CertificateChain" {
				continue
			}
			if P := staticCallee(call); P != nil && w.IsProductFn(P) {
				c18ChainParser(c, P)
			}
		}
		// a helper that is handed more than the chain (the response, a context, …): same decision on the loop found by value
		if chainCall != nil && !(len(chainCall.Call.Args) == 1 && desc(chainCall.Call.Args[0]) == gd+"#0.CertificateChain") {
			c.SeenFn(chainFn.String())
			okL, _, detail := c18ChainLoopOK(w, chainFn, chainLoop, 0)
			c.Evals += 3
			c.Check(okL, "raw/cert-chain-parser", "the chain parser parses every element of the response chain, fails on the first parse error, and returns the parsed certificates in order", w.FnPos(chainFn), detail)
		}
	}
	c18Primitive(c)
	// the generic signer
	var GS *ssa.Function
	for _, fn := range w.FuncsOfPkg("signer") {
		if len(findCalls(fn, "invoke:core/signature.Envelope.Sign")) > 0 {
			GS = fn
		}
	}
	if GS == nil {
		c.Unk("raw/generic-signer", "anchor: the generic signer calling Envelope.Sign", "-", "not found")
		return
	}
	c.SeenFn(GS.String())
	s := w.Summarize(GS, m)
	c.Evals += s.States
	var sg, vf *ssa.Call
	for _, ci := range allCalls(GS) {
		if call, ok := ci.(*ssa.Call); ok {
			switch calleeName(call) {
			case "invoke:core/signature.Envelope.Sign":
				sg = call
			case "invoke:core/signature.Envelope.Verify":
				vf = call
			}
		}
	}
	if vf == nil {
		c.Bad("raw/generic-signer/self-verify", "the generic signer verifies the envelope it produced", w.FnPos(GS), "Envelope.Verify is not called")
		return
	}
	pt, _ := w.constString("internal/envelope", "MediaTypePayloadV1")
	c.requireOnExits("raw/generic-signer", GS, s.Exits, []Need{
		{Name: "sign-error", What: "Envelope.Sign err == nil", Subs: []string{"EQ(" + desc(sg) + "#err,nil)"}},
		{Name: "self-verify", What: "Envelope.Verify err == nil on the same envelope object", Subs: []string{"EQ(" + desc(vf) + "#err,nil)"}},
		{Name: "payload-type", What: "payload content type == envelope.MediaTypePayloadV1", Subs: []string{"EQ(" + desc(vf) + "#0.Payload.ContentType," + fmt.Sprintf("const:%q)", pt)}},
	})
	okSame := callArgs(sg)[0] == callArgs(vf)[0]
	okRet := len(s.Exits) > 0
	for _, ex := range s.Exits {
		if desc(ex.Ret.Results[0]) != desc(sg)+"#0" || desc(ex.Ret.Results[1]) != desc(vf)+"#0.SignerInfo" {
			okRet = false
		}
	}
	c.Check(okSame && okRet, "raw/generic-signer/returns-verified", "the envelope returned is the one that was signed and self-verified, with the verified SignerInfo", w.FnPos(GS), fmt.Sprintf("same envelope object=%v returns ok=%v", okSame, okRet))
}

// c18Dispatch: Sign and SignBlob of the plugin signer.
func c18Dispatch(c *Ctx, ENV *ssa.Function) {
	w := c.W
	// the raw path, by role (c18RawPath R1–R3): a call of the generic signer on an object that holds the plugin-backed
	// primitive signer, or of a module function that returns only the checked results of such a call. Its helpers are
	// looked up for the spelling of the composed facts (tail call / tested error of the helper's call).
	rp := newC18RawPath(w)
	isDispatcher := func(fn *ssa.Function) bool {
		return fn.Signature.Recv() != nil && namedOf(fn.Signature.Recv().Type()) == "ngo/signer.PluginSigner" && (fn.Name() == "Sign" || fn.Name() == "SignBlob")
	}
	var RAWS []*ssa.Function
	for _, fn := range w.FuncsOfPkg("signer") {
		if fn == ENV || isDispatcher(fn) || fn.Signature.Results().Len() != 3 {
			continue
		}
		if rp.isHelper(fn) {
			RAWS = append(RAWS, fn)
			c.SeenFn(fn.String())
		}
	}
	sg, _ := w.depConstString("github.com/notaryproject/notation-plugin-framework-go/plugin", "CapabilitySignatureGenerator")
	eg, _ := w.depConstString("github.com/notaryproject/notation-plugin-framework-go/plugin", "CapabilityEnvelopeGenerator")
	n := 0
	for _, fn := range w.FuncsOfPkg("signer") {
		if fn.Signature.Recv() == nil || namedOf(fn.Signature.Recv().Type()) != "ngo/signer.PluginSigner" || (fn.Name() != "Sign" && fn.Name() != "SignBlob") {
			continue
		}
		n++
		c.SeenFn(fn.String())
		s := w.Summarize(fn, Mode{Kind: mErr})
		c.Evals += s.States
		ok := len(s.Exits) > 0
		detail := ""
		for _, ex := range s.Exits {
			viaEnv := ex.Tail == fnName(ENV)
			viaRaw := false
			for _, RAW := range RAWS {
				if ex.Tail == fnName(RAW) {
					viaRaw = true
				}
			}
			for l := range ex.Checked {
				if strings.HasPrefix(l, "EQ(call:"+fnName(ENV)+"(") && strings.HasSuffix(l, "#err,nil)") {
					viaEnv = true
				}
				for _, RAW := range RAWS {
					if strings.HasPrefix(l, "EQ(call:"+fnName(RAW)+"(") && strings.HasSuffix(l, "#err,nil)") {
						viaRaw = true
					}
				}
			}
			_, capS := hasLabel(ex.Checked, "T(call:(*pfw/plugin.GetMetadataResponse).HasCapability(", fmt.Sprintf("const:%q))", sg))
			_, capE := hasLabel(ex.Checked, "T(call:(*pfw/plugin.GetMetadataResponse).HasCapability(", fmt.Sprintf("const:%q))", eg))
			if !((viaRaw && capS) || (viaEnv && capE)) {
				// not one exit per path: the exit may serve both paths through merged variables (`switch` that only assigns,
				// one error test and one return after it). Decided on the values returned: see c18ReturnsCheckedCall.
				paths := func(call *ssa.Call) (string, bool, string) {
					if staticCallee(call) == ENV {
						return fmt.Sprintf("const:%q))", eg), true, ""
					}
					if isRaw, why := rp.isRawCall(call); !isRaw {
						return "", false, why
					}
					return fmt.Sprintf("const:%q))", sg), true, ""
				}
				c.Evals++
				if okV, why := c18ReturnsCheckedCall(w, fn, ex, paths); !okV {
					ok = false
					detail = fmt.Sprintf("exit %s: raw=%v(cap %v) envelope=%v(cap %v); by value: %s", w.InstrPos(ex.Ret), viaRaw, capS, viaEnv, capE, why)
				}
			}
			if _, h := hasLabel(ex.Checked, "EQ(call:invoke:pfw/plugin.SignPlugin.GetMetadata(", "#err,nil)"); !h {
				ok = false
				detail = "metadata error not checked"
			}
		}
		c.Check(ok, "dispatch/"+fn.Name(), "the plugin signer returns only the checked result of the raw-signature path (signature-generator capability) or of the envelope path (envelope-generator capability)", w.FnPos(fn), detail)
	}
	if n < 2 {
		c.Unk("dispatch#count", "vacuity guard: Sign and SignBlob", "-", fmt.Sprintf("%d", n))
	}
}

// c12AssertsIn runs the type-assertion inventory restricted to one package.
func c12AssertsIn(c *Ctx, rel string) {
	w := c.W
	rule := "inventory: a non-comma-ok type assertion on decoded plugin output cannot fail"
	k := 0
	for _, fn := range w.FuncsOfPkg(rel) {
		fi := w.Info(fn)
		for _, b := range fn.Blocks {
			for _, in := range b.Instrs {
				ta, ok := in.(*ssa.TypeAssert)
				if !ok || ta.CommaOk {
					continue
				}
				k++
				d := desc(ta.X)
				tt := abbrev(types.TypeString(ta.AssertedType, nil))
				g := fi.GuardsOf(ta)
				if labelHas(g, "T(ok(assert("+d+","+tt+")))") {
					c.OK(fmt.Sprintf("no-panic/assert/%s#%d", fnName(fn), k), rule, w.InstrPos(ta))
				} else {
					c.Bad(fmt.Sprintf("no-panic/assert/%s#%d", fnName(fn), k), rule, w.InstrPos(ta), d+".("+tt+") panics on unexpected payload shapes")
				}
			}
		}
	}
	if k == 0 {
		c.OK("no-panic/assert/none", rule+" (none present: all assertions are comma-ok)", "-")
	}
}

// c18ChainParser: every certificate of the response chain is parsed; a parse error fails the call.
func c18ChainParser(c *Ctx, P *ssa.Function) {
	w := c.W
	c.SeenFn(P.String())
	fi := w.Info(P)
	rule := "the chain parser parses every element of the response chain, fails on the first parse error, and returns the parsed certificates in order"
	pn := "param:" + P.Params[0].Name()
	for _, sl := range sliceLoops(P) {
		if desc(sl.X) != pn {
			continue
		}
		labels, _ := fi.mustPassBetween([]int{sl.Body.Index}, map[int]bool{sl.Header.Index: true})
		_, gate := hasLabel(labels, "EQ(call:crypto/x509.ParseCertificate("+pn+"[", "#err,nil)")
		// the parsed certificate is stored per iteration
		stored := false
		var dst ssa.Value
		for bi := range loopBlocks(sl.Header) {
			for _, in := range P.Blocks[bi].Instrs {
				switch x := in.(type) {
				case *ssa.Store:
					if strings.HasPrefix(desc(x.Val), "call:crypto/x509.ParseCertificate("+pn+"[") && strings.HasSuffix(desc(x.Val), "#0") {
						if ia, ok := x.Addr.(*ssa.IndexAddr); ok {
							stored, dst = true, ia.X
						}
					}
				case *ssa.Call:
					if bi, ok := x.Call.Value.(*ssa.Builtin); ok && bi.Name() == "append" && strings.Contains(desc(x.Call.Args[1]), "call:crypto/x509.ParseCertificate("+pn+"[") {
						stored, dst = true, x
					}
				}
			}
		}
		// success exits only after the loop
		wit := fi.successWitness(Mode{Kind: mErr}, []state{{sl.Body.Index, 0, -1}}, backEdges(sl.Header))
		cut := map[edgeKey]bool{}
		cutInto(fi, sl.Header, cut)
		wit2 := fi.successWitness(Mode{Kind: mErr}, entryState(), cut)
		okRet := dst != nil
		s := w.Summarize(P, Mode{Kind: mErr})
		for _, ex := range s.Exits {
			r := ex.Ret.Results[0]
			if dst != nil && r != dst {
				if ph, ok := r.(*ssa.Phi); !ok || !phiHas(ph, dst) {
					if _, isMk := dst.(*ssa.MakeSlice); !isMk || r != dst {
						okRet = false
					}
				}
			}
		}
		c.Evals += 3
		c.Check(gate && stored && wit == nil && wit2 == nil && okRet, "raw/cert-chain-parser", rule, w.FnPos(P),
			fmt.Sprintf("parse gate per element=%v stored=%v success from inside loop=%v bypass=%v returns parsed slice=%v", gate, stored, wit != nil, wit2 != nil, okRet))
		return
	}
	c.Bad("raw/cert-chain-parser", rule, w.FnPos(P), "no loop over the response chain")
}

func phiHas(ph *ssa.Phi, v ssa.Value) bool {
	for _, e := range ph.Edges {
		if e == v {
			return true
		}
		if p2, ok := e.(*ssa.Phi); ok && p2 != ph {
			for _, e2 := range p2.Edges {
				if e2 == v {
					return true
				}
			}
		}
	}
	return false
}

// c18Primitive: construction of the primitive signer for the raw path and the payload of the envelope path.
func c18Primitive(c *Ctx) {
	w := c.W
	n := 0
	// the primitive signer type: the receiver of the function that calls SignPlugin.GenerateSignature
	primT := "?"
	for _, fn := range w.FuncsOfPkg("signer") {
		if fn.Signature.Recv() != nil && len(findCalls(fn, "invoke:pfw/plugin.SignPlugin.GenerateSignature")) > 0 {
			primT = namedOf(fn.Signature.Recv().Type())
		}
	}
	// the described key spec: result 0 of a method of the plugin signer that returns (key spec, error) — the describe-key
	// lookup held to raw/describe-key/* —, its error tested before the use. Decided where the value is PRODUCED: a
	// function that merely hands its own parameter on (constructor below the raw-path helper, helper below a helper) is
	// looked through to every one of its call sites, because on every execution the parameter is the argument of one of
	// them. The obligation is stated per producing function, as before.
	originRule := "the key spec handed to the raw path is the checked result of the describe-key lookup (its error tested before use)"
	var origin func(g *ssa.Function, at ssa.Instruction, v ssa.Value, depth int)
	origin = func(g *ssa.Function, at ssa.Instruction, v ssa.Value, depth int) {
		if p, isP := v.(*ssa.Parameter); isP && p.Parent() == g && depth < 4 {
			idx := -1
			for i, q := range g.Params {
				if q == p {
					idx = i
				}
			}
			sites := 0
			for _, h := range w.FuncsOfPkg("signer") {
				for _, ci := range allCalls(h) {
					if staticCallee(ci) != g || idx < 0 || idx >= len(ci.Common().Args) {
						continue
					}
					sites++
					if call, isC := ci.(*ssa.Call); isC {
						origin(h, call, call.Call.Args[idx], depth+1)
					} else {
						c.Bad("raw/primitive-signer/key-spec-origin/"+fnName(h), originRule, w.InstrPos(ci), "deferred / concurrent call")
					}
				}
			}
			if sites == 0 {
				c.Bad("raw/primitive-signer/key-spec-origin/"+fnName(g), originRule, w.InstrPos(at), "the key spec is a parameter of a function without a static call site")
			}
			return
		}
		d := desc(v)
		okA, okG := false, false
		gl := w.Info(g).GuardsOf(at)
		if ex, isEx := loadOrigin(v).(*ssa.Extract); isEx && ex.Index == 0 {
			if kc, isC := ex.Tuple.(*ssa.Call); isC {
				if kf := staticCallee(kc); kf != nil && kf.Signature.Recv() != nil && namedOf(kf.Signature.Recv().Type()) == "ngo/signer.PluginSigner" {
					okA = true
					okG = labelHas(gl, "EQ("+desc(kc)+"#err,nil)")
				}
			}
		}
		c.Check(okA && okG, "raw/primitive-signer/key-spec-origin/"+fnName(g), originRule, w.InstrPos(at), fmt.Sprintf("argument %s, error tested=%v", d, okG))
	}
	for _, fn := range w.FuncsOfPkg("signer") {
		flds := map[string]string{}
		var al ssa.Instruction
		var ksStore *ssa.Store
		for _, b := range fn.Blocks {
			for _, in := range b.Instrs {
				if st, ok := in.(*ssa.Store); ok {
					if fa, ok := st.Addr.(*ssa.FieldAddr); ok && namedOf(fa.X.Type()) == primT {
						flds[fieldName(fa.X.Type(), fa.Field)] = desc(st.Val)
						al = st
						if fieldName(fa.X.Type(), fa.Field) == "keySpec" {
							ksStore = st
						}
					}
				}
			}
		}
		if al == nil {
			continue
		}
		n++
		c.SeenFn(fn.String())
		// the plugin signer the object is built for: the parameter of that type (receiver of a method, or any parameter of
		// a plain constructor function)
		recv := ""
		for _, p := range fn.Params {
			if recv == "" && namedOf(p.Type()) == "ngo/signer.PluginSigner" {
				recv = "param:" + p.Name()
			}
		}
		if recv == "" {
			c.Bad("raw/primitive-signer/"+fnName(fn), "the primitive signer is built from the signer's own key id and plugin and the key spec that was described for that key id", w.InstrPos(al), "built without a plugin signer")
			continue
		}
		// the key spec stored is a parameter of the constructing function (followed to where it is produced) or is produced
		// in the constructing function itself (construction written out in Sign / SignBlob): the same origin obligation
		okKS := false
		if ksStore != nil {
			if _, isP := ksStore.Val.(*ssa.Parameter); isP {
				okKS = namedOf(ksStore.Val.Type()) == "core/internal/algorithm.KeySpec"
			} else if ex, isEx := loadOrigin(ksStore.Val).(*ssa.Extract); isEx && ex.Index == 0 {
				okKS = namedOf(ksStore.Val.Type()) == "core/internal/algorithm.KeySpec"
			}
		}
		ok := flds["keyID"] == recv+".keyID" && flds["plugin"] == recv+".plugin" && okKS
		c.Check(ok, "raw/primitive-signer/"+fnName(fn), "the primitive signer is built from the signer's own key id and plugin and the key spec that was described for that key id", w.InstrPos(al), fmt.Sprintf("fields: %v", flds))
		if okKS {
			origin(fn, ksStore, ksStore.Val, 0)
		}
	}
	if n == 0 {
		c.Unk("raw/primitive-signer", "anchor: construction of pluginPrimitiveSigner", "-", "not found")
	}
}
