package main

import (
	"fmt"
	"go/constant"
	"go/types"
	"regexp"
	"sort"
	"strconv"
	"strings"

	"golang.org/x/tools/go/ssa"
)

func init() {
	register(&Rule{
		ID:    "C19",
		Title: "stored signatures stay with their artifact; hostile referrers are refused before their content is used",
		Run:   runC19,
		Explain: "structural clauses of the round-trip property, decided on all paths: " +
			"(a) size caps: every read of a descriptor's content in the registry package (content.FetchAll, content.ReadAll, Fetch on an oras-go storage) is reachable only through `D.Size <= positive constant` on the very descriptor D it reads (per loop iteration inside loops; when the read stands in an unexported helper that does not test D, or tests it against an integer parameter, at every call site of the helper, with the constant passed there), and the constant is at most the cap of the reference tree for what the bytes are used for: 4 MiB for content decoded as a manifest, 32 MiB for the envelope FetchSignatureBlob returns; " +
			"(b) fetch: FetchSignatureBlob succeeds only through the manifest lookup, the blob cap and the fetch of the looked-up descriptor (FetchAll, or a module function that is Fetch + ReadAll on one descriptor), returning that fetch's bytes and that descriptor; the lookup succeeds only for the two manifest media types " +
			"(tested in the lookup or in a helper that succeeds only through such a test — an edge of the helper or the comparison it returns —, or by membership in a read-only package-level table whose constant keys are the two types), through the manifest cap, the fetch of the capped descriptor, a decode (inline, in a helper, or in the function a read-only media-type -> decoder table holds under that media type) into the manifest type that belongs to the media type, and exactly one layer/blob, returning element 0 of the decoded list; the blob store is decided on every value the fetcher expression can take (phis, returns of an accessor function); " +
			"(c) listing: the listing either asks the referrers API for (subject, notation artifact type) or filters predecessors: an element is appended only, per iteration and per media type (on the paths an element of that media type can take, whatever the dispatch looks like), through cap, fetch, decode into a per-iteration fresh target of the right type, " +
			"non-nil subject, content.Equal(decoded subject, requested descriptor) or its three field comparisons, a test against the notation type of the artifact type the listed descriptor carries, which is the one decoded from the manifest of that iteration; the listed descriptor is a per-iteration copy of the current predecessor whose identity fields nobody writes; failures return no list; any stretch of this per-iteration work may stand in module functions whose success is must-pass in the loop (their facts are read with the parameters replaced by the arguments, restricted to the paths the media type allows; the values they hand back — a record, a pointer to one, several results — are followed to the decoded manifest's fields); " +
			"(d) push: the blob is pushed (PushBytes, NewDescriptorFromBytes + Push of a reader over the same bytes, or a module function that is that upload) with the caller's media type and bytes, the manifest packed (v1.1, artifact type from the config) at the one PackManifest call of PushSignature or of the module functions it calls, with — in PushSignature's terms, parameters replaced by arguments along the call chain — subject, annotations and exactly the pushed blob's descriptor as single layer, the packed descriptor handed up unchanged, the config descriptor being the immutable notation config whose media type is the notation artifact type the listing filters on.",
		NotCov:  "byte-for-byte equality itself (content addressing of oras-go: FetchAll / ReadAll verify size and digest; PackManifest/PushBytes/Push store what they are given) and the behaviour over push sequences in a real layout; remote referrers API filtering.",
		Trusted: []string{"go/types, go/ssa", "oras-go content.FetchAll (= Fetch + content.ReadAll) / content.Equal (= size, digest and media type equal) / PackManifest / PushBytes (= content.NewDescriptorFromBytes + Push) / Predecessors", "encoding/json"},
	})
}

var c19CapRe = regexp.MustCompile(`^(LE|LT)\((.*)\.Size,const:(-?\d+)\)$`)

// the same comparison with the bound on the left (`limit < d.Size` failing, after the parameter became a constant)
var c19CapRevRe = regexp.MustCompile(`^(GE|GT)\(const:(-?\d+),(.*)\.Size\)$`)

// c19Capped: labels contain `d.Size <= K` with K > 0 (`d.Size < N` is `d.Size <= N-1`); the smallest such K.
func c19Capped(labels map[string]string, d string) (int64, bool) {
	best, found := int64(0), false
	for _, l := range labelList(labels) {
		var op, dd, num string
		if m := c19CapRe.FindStringSubmatch(l); m != nil {
			op, dd, num = m[1], m[2], m[3]
		} else if m := c19CapRevRe.FindStringSubmatch(l); m != nil {
			op, dd, num = m[1], m[3], m[2]
		} else {
			continue
		}
		if dd != d {
			continue
		}
		k, err := strconv.ParseInt(num, 10, 64)
		if err != nil {
			continue
		}
		if op == "LT" || op == "GT" {
			k--
		}
		if k > 0 && k <= 1<<31 && (!found || k < best) {
			best, found = k, true
		}
	}
	return best, found
}

func runC19(c *Ctx) {
	c19Caps(c)
	c19Fetch(c)
	sr := c19ListEntry(c)
	if sr != nil {
		c19Referrers(c, sr)
	}
	c19Push(c)
	c.MinCount("", 30, "registry obligations")
}

// innermostLoop returns the smallest loop containing the block.
func innermostLoop(fn *ssa.Function, b *ssa.BasicBlock) *loopRef {
	var best *loopRef
	bestN := 0
	for _, l := range allLoops(fn) {
		l := l
		lb := loopBlocks(l.Header)
		if !lb[b.Index] || b == l.Header {
			continue
		}
		if best == nil || len(lb) < bestN {
			best, bestN = &l, len(lb)
		}
	}
	return best
}

// guardsAt: facts on every path to the instruction; inside a loop, facts of the current iteration.
func guardsAt(fi *FnInfo, in ssa.Instruction) map[string]string {
	if l := innermostLoop(fi.Fn, in.Block()); l != nil {
		if in.Block() == l.Body {
			return map[string]string{}
		}
		labels, _ := fi.mustPassBetweenCut([]int{l.Body.Index}, blocksOf(in), backEdges(l.Header))
		return labels
	}
	return fi.GuardsOf(in)
}

func fieldStores(fn *ssa.Function, base ssa.Value, field string) []*ssa.Store {
	var out []*ssa.Store
	for _, b := range fn.Blocks {
		for _, in := range b.Instrs {
			if st, ok := in.(*ssa.Store); ok {
				if fa, ok := st.Addr.(*ssa.FieldAddr); ok && fa.X == base && fieldName(fa.X.Type(), fa.Field) == field {
					out = append(out, st)
				}
			}
		}
	}
	return out
}

// (a) every FetchAll is capped on its own descriptor, by the cap that belongs to what the bytes are used for
func c19Caps(c *Ctx) {
	c19CapRules(c)
}

func c19Iface(c *Ctx, method string) *ssa.Function {
	fs := c.W.implementers("registry", "Repository", method)
	var out *ssa.Function
	for _, f := range fs {
		if f.Pkg != nil && f.Pkg.Pkg.Path() == modPath+"/registry" {
			out = f
		}
	}
	if out == nil {
		c.Unk("anchor/"+method, "anchor: the registry package's implementation of Repository."+method, "-", "not found")
	}
	return out
}

// (b) fetch
func c19Fetch(c *Ctx) {
	w := c.W
	F := c19Iface(c, "FetchSignatureBlob")
	if F == nil {
		return
	}
	c.SeenFn(F.String())
	m := Mode{Kind: mErr}
	s := w.Summarize(F, m)
	c.Evals += s.States
	// the blob fetch: content.FetchAll or a module function that is that very read (c19FetchEquiv)
	fsites := c19FetchSites(w, F)
	if len(fsites) != 1 {
		c.Bad("fetch/blob-fetch", "FetchSignatureBlob fetches exactly one blob", w.FnPos(F), fmt.Sprintf("%d fetch calls", len(fsites)))
		return
	}
	fa := fsites[0].Call
	D := loadOrigin(fsites[0].D)
	ex, _ := D.(*ssa.Extract)
	var G *ssa.Function
	var gcall *ssa.Call
	if ex != nil {
		if cc, ok := ex.Tuple.(*ssa.Call); ok {
			if g := staticCallee(cc); g != nil && w.IsProductFn(g) {
				G, gcall = g, cc
			}
		}
	}
	if G == nil {
		c.Bad("fetch/blob-descriptor-origin", "the fetched blob descriptor is the result of the manifest lookup", w.InstrPos(fa), "fetched: "+desc(D))
		return
	}
	gd := desc(gcall)
	okArg := false
	for _, a := range gcall.Call.Args {
		if desc(a) == "param:"+F.Params[2].Name() {
			okArg = true
		}
	}
	c.Check(okArg, "fetch/blob-descriptor-origin", "the fetched blob descriptor is the result of the manifest lookup for the requested signature manifest descriptor", w.InstrPos(gcall), gd)
	c.requireOnExits("fetch", F, s.Exits, []Need{
		{Name: "lookup-error", What: "manifest lookup err == nil", Subs: []string{"EQ(" + gd + "#err,nil)"}},
		{Name: "blob-fetch-error", What: "FetchAll(looked-up blob descriptor) err == nil", Subs: []string{c19ErrNil(fa)}},
	})
	okRet := len(s.Exits) > 0
	for _, e := range s.Exits {
		if desc(e.Ret.Results[0]) != res(fa, 0) || desc(e.Ret.Results[1]) != res(gcall, 0) {
			okRet = false
		}
	}
	c.Check(okRet, "fetch/returns-fetched", "the bytes returned are the fetch result and the descriptor returned is the descriptor that was capped and fetched", w.FnPos(F), "")
	// the fetcher is the target (or its blob store)
	// (decided on the values the fetcher expression can take — c19SourceLeaves —, each of which must be the receiver's
	// GraphTarget itself or something obtained from it other than its manifest store)
	srcs := map[string]bool{}
	okSrc := c19SourceLeaves(w, fsites[0].Src, c19Same, 0, srcs) && len(srcs) > 0
	for fd := range srcs {
		if !strings.Contains(fd, "param:"+F.Params[0].Name()+".GraphTarget") || strings.Contains(fd, "Manifests(") {
			okSrc = false
		}
	}
	c.Check(okSrc, "fetch/blob-store", "the blob is fetched from the repository's own target (its blob store for remote repositories)", w.InstrPos(fa), strings.Join(sortedKeys(srcs), " | "))

	// the lookup
	c.SeenFn(G.String())
	gi := w.Info(G)
	gs := w.Summarize(G, m)
	c.Evals += gs.States
	var P string
	for _, p := range G.Params {
		if namedOf(p.Type()) == "ocispec.Descriptor" {
			P = "param:" + p.Name()
		}
	}
	im, _ := w.depConstString("github.com/opencontainers/image-spec/specs-go/v1", "MediaTypeImageManifest")
	am, _ := w.constString("registry/internal/artifactspec", "MediaTypeArtifactManifest")
	if im == "" || am == "" || P == "" {
		c.Unk("lookup/anchors", "anchor: manifest media type constants and the descriptor parameter", w.FnPos(G), fmt.Sprintf("%q %q %q", im, am, P))
		return
	}
	eqI := fmt.Sprintf("EQ(%s.MediaType,const:%q)", P, im)
	eqA := fmt.Sprintf("EQ(%s.MediaType,const:%q)", P, am)
	// media type: no success once every edge that implies "media type is the image or the artifact manifest type" is
	// cut — an edge of the lookup itself, or the passing edge of a helper that succeeds only through such an edge
	mtCut := c19GateCut(w, G, map[string]bool{eqI: true, eqA: true}, c19Same, 0)
	wit := gi.successWitness(m, entryState(), mtCut)
	nMT := len(mtCut)
	if wit != nil {
		// ... or the same clause decided one level up, on FetchSignatureBlob itself (the lookup is its helper: a test
		// the lookup used to make may stand in front of the call instead): FetchSignatureBlob cannot succeed once its
		// own edges that imply "the requested descriptor's media type is one of the two" are cut, together with the
		// passing edges of the helpers (the lookup among them, its parameter read as the argument) that succeed only
		// through such an edge. What the clause protects is the exported operation; it holds whichever of the two
		// functions makes the test.
		fP := "param:" + F.Params[2].Name()
		fCut := c19GateCut(w, F, map[string]bool{fmt.Sprintf("EQ(%s.MediaType,const:%q)", fP, im): true, fmt.Sprintf("EQ(%s.MediaType,const:%q)", fP, am): true}, c19Same, 0)
		if len(fCut) > 0 {
			nMT += len(fCut)
			wit = w.Info(F).successWitness(m, entryState(), fCut)
		}
	}
	c.slot(wit == nil, nMT, "lookup/media-type", "the signature manifest descriptor's media type is the image manifest or the artifact manifest type", w.FnPos(G), "success without either media type", wit...)
	var mf *ssa.Call
	for _, fs := range c19FetchSites(w, G) {
		if desc(fs.D) == P {
			mf = fs.Call
		}
	}
	if mf == nil {
		c.Bad("lookup/manifest-fetch", "the lookup fetches the signature manifest it was asked for", w.FnPos(G), "no FetchAll of "+P)
		return
	}
	c.requireOnExits("lookup", G, gs.Exits, []Need{
		{Name: "manifest-fetch-error", What: "FetchAll(signature manifest descriptor) err == nil", Subs: []string{c19ErrNil(mf)}},
	})
	// exactly one blob: every success exit returns element 0 of a list whose length was tested to be 1; the list
	// resolves (through phis and helper results) to the layer/blob field of the manifests decoded from the fetched bytes
	listField := map[string]string{"ocispec.Manifest": "Layers", "ngo/registry/internal/artifactspec.Artifact": "Blobs"}
	rs := &c19ListResolver{w: w, gates: map[*ssa.Function][]string{}}
	var decs []c19Decode
	okOne := len(gs.Exits) > 0
	detail := ""
	for _, e := range gs.Exits {
		// the returned value itself, or a local it was parked in (`d := list[0]; …; return d`: a variable written once
		// as a whole and never through a field holds, when it is returned, what was stored — loadOrigin)
		// (c19ExitResult: with a single return statement fed by result variables, the value this exit came in with)
		r := loadOrigin(c19ExitResult(e, 0))
		var list ssa.Value
		switch x := r.(type) {
		case *ssa.UnOp:
			if ia, ok := x.X.(*ssa.IndexAddr); ok {
				if k, ok := ia.Index.(*ssa.Const); ok && k.Int64() == 0 {
					list = ia.X
				}
			}
		case *ssa.Index:
			if k, ok := x.Index.(*ssa.Const); ok && k.Int64() == 0 {
				list = x.X
			}
		}
		if list == nil {
			okOne = false
			detail = "returns " + desc(r)
			continue
		}
		if !labelHas(e.Checked, "EQ(len("+desc(list)+"),const:1)") {
			okOne = false
			detail = "no `len == 1` gate on " + desc(list)
		}
		ls := rs.leaves(G, list, c19Same, map[string]string{}, 0)
		if rs.why != "" || len(ls) == 0 {
			okOne = false
			detail = rs.why
		}
		for _, d := range ls {
			if d.Field != listField[d.Typ] || d.Field == "" {
				okOne = false
				detail = "list leaf " + desc(d.X) + "." + d.Field + " is not the layer/blob list of a decoded manifest"
			}
		}
		decs = append(decs, ls...)
	}
	c.Check(okOne, "lookup/exactly-one-blob", "the lookup succeeds only with exactly one layer/blob and returns element 0 of the decoded manifest's own list", w.FnPos(G), detail)
	// the decodes the list comes from
	okDec := len(decs) >= 2
	detail = ""
	for _, d := range decs {
		g := d.Guard
		src := d.Src == res(mf, 0)
		var okT bool
		switch d.Typ {
		case "ocispec.Manifest":
			okT = labelHas(g, eqI)
		case "ngo/registry/internal/artifactspec.Artifact":
			okT = labelHas(g, eqA) || labelHas(g, fmt.Sprintf("NE(%s.MediaType,const:%q)", P, im))
		}
		if !src || !okT {
			okDec = false
			detail += fmt.Sprintf("decode into %s at %s: source is the fetched manifest=%v, media-type guard=%v; ", d.Typ, w.InstrPos(d.U), src, okT)
		}
	}
	c.Check(okDec, "lookup/decode-matches-media-type", "the fetched manifest is decoded into the manifest type that belongs to its media type (image manifest -> ocispec.Manifest, artifact manifest -> artifactspec.Artifact)", w.FnPos(G), detail)
	// decode error: in every function on the way, no success once the passing edges "decode succeeded" / "the decoding
	// helper reported no error" are cut
	blockedAll, nGates := true, 0
	var dwit []string
	// (the functions on the way: the lookup's static callees and — when the decode is dispatched through a read-only
	// table — the functions of the table, which the resolver recorded gates for)
	way := w.moduleCallees(G)
	onWay := map[*ssa.Function]bool{}
	for _, f := range way {
		onWay[f] = true
	}
	var viaTable []*ssa.Function
	for f := range rs.gates {
		if !onWay[f] {
			viaTable = append(viaTable, f)
		}
	}
	sort.Slice(viaTable, func(i, j int) bool {
		if viaTable[i].String() != viaTable[j].String() {
			return viaTable[i].String() < viaTable[j].String()
		}
		return viaTable[i].Pos() < viaTable[j].Pos()
	})
	for _, f := range append(way, viaTable...) {
		ls := rs.gates[f]
		if len(ls) == 0 {
			continue
		}
		c.SeenFn(f.String())
		blocked, n, wt := exitsBlocked(w.Info(f), m, anyOf(ls...), nil)
		nGates += n
		if !blocked || n == 0 {
			blockedAll = false
			dwit = wt
		}
	}
	c.slot(blockedAll, nGates, "lookup/decode-error", "the manifest decode error fails the lookup", w.FnPos(G), "success with a decode error", dwit...)
}

// (c) listing entry
func c19ListEntry(c *Ctx) *ssa.Function {
	w := c.W
	L := c19Iface(c, "ListSignatures")
	if L == nil {
		return nil
	}
	c.SeenFn(L.String())
	s := w.Summarize(L, Mode{Kind: mErr})
	c.Evals += s.States
	nt, _ := w.constString("registry", "ArtifactTypeNotation")
	var dp, fp string
	for _, p := range L.Params {
		if namedOf(p.Type()) == "ocispec.Descriptor" {
			dp = "param:" + p.Name()
		}
		if _, ok := p.Type().Underlying().(*types.Signature); ok {
			fp = "param:" + p.Name()
		}
	}
	var SR *ssa.Function
	ok := len(s.Exits) > 0 && nt != ""
	detail := ""
	for _, e := range s.Exits {
		switch {
		case strings.HasSuffix(e.Tail, "ReferrerLister.Referrers"):
			if _, h := hasLabel(e.Checked, "Referrers(", ","+dp+fmt.Sprintf(",const:%q,", nt)+fp+")#err,nil)"); !h {
				ok = false
				detail = "the referrers API is not asked for (subject, notation artifact type, fn)"
			}
		case e.Tail == "dyn:"+fp:
			found := false
			for l := range e.Checked {
				if !strings.HasPrefix(l, "EQ(call:dyn:"+fp+"(call:") || !strings.HasSuffix(l, "#0)#err,nil)") {
					continue
				}
				inner := strings.TrimSuffix(strings.TrimPrefix(l, "EQ(call:dyn:"+fp+"("), "#0)#err,nil)")
				if labelHas(e.Checked, "EQ("+inner+"#err,nil)") && strings.Contains(inner, dp) {
					found = true
					for _, ci := range allCalls(L) {
						if cc, isC := ci.(*ssa.Call); isC && desc(cc) == inner {
							SR = staticCallee(cc)
						}
					}
				}
			}
			if !found {
				ok = false
				detail = "the callback receives something other than the error-checked referrer list of the requested descriptor"
			}
		default:
			ok = false
			detail = "exit at " + w.InstrPos(e.Ret) + " returns neither the referrers API result nor the callback's result (tail " + e.Tail + ")"
		}
	}
	c.Check(ok, "list/entry", "ListSignatures reports only through the referrers API asked for (subject, notation artifact type) or through the callback applied to the error-checked filtered referrer list of the requested descriptor", w.FnPos(L), detail)
	if SR == nil || !w.IsProductFn(SR) {
		c.Unk("list/filter-anchor", "anchor: the referrer filter function", w.FnPos(L), "not found")
		return nil
	}
	return SR
}

func c19Referrers(c *Ctx, SR *ssa.Function) {
	w := c.W
	c.SeenFn(SR.String())
	fi := w.Info(SR)
	m := Mode{Kind: mErr}
	s := w.Summarize(SR, m)
	c.Evals += s.States
	nt, _ := w.constString("registry", "ArtifactTypeNotation")
	im, _ := w.depConstString("github.com/opencontainers/image-spec/specs-go/v1", "MediaTypeImageManifest")
	am, _ := w.constString("registry/internal/artifactspec", "MediaTypeArtifactManifest")
	var dp string
	for _, p := range SR.Params {
		if namedOf(p.Type()) == "ocispec.Descriptor" {
			dp = "param:" + p.Name()
		}
	}
	// predecessors of the requested descriptor
	pre := findCalls(SR, "invoke:oras/content.ReadOnlyGraphStorage.Predecessors", "invoke:oras/content.PredecessorFinder.Predecessors")
	if len(pre) != 1 || desc(pre[0].Common().Args[1]) != dp {
		c.Bad("list/predecessors", "the candidates are the predecessors of the requested descriptor", w.FnPos(SR), "")
		return
	}
	pd := desc(pre[0].(*ssa.Call))
	c.requireOnExits("list", SR, s.Exits, []Need{{Name: "predecessors-error", What: "Predecessors(requested descriptor) err == nil", Subs: []string{"EQ(" + pd + "#err,nil)"}}})
	loop := findLoop(SR, func(d string) bool { return d == pd+"#0" })
	if loop == nil {
		c.Bad("list/loop", "the filter loops over the predecessors", w.FnPos(SR), "no loop over "+pd+"#0")
		return
	}
	lb := loopBlocks(loop.Header)
	// the appended element and the result
	var app *ssa.Call
	napp := 0
	for _, ci := range allCalls(SR) {
		if cc, ok := ci.(*ssa.Call); ok {
			if bi, ok := cc.Call.Value.(*ssa.Builtin); ok && bi.Name() == "append" && strings.HasSuffix(cc.Type().String(), "v1.Descriptor") {
				app = cc
				napp++
			}
		}
	}
	if app == nil || napp != 1 || !lb[app.Block().Index] {
		c.Bad("list/append", "the result list is appended at one site inside the loop", w.FnPos(SR), fmt.Sprintf("%d append sites", napp))
		return
	}
	els := appendedElems(app.Call.Args[1])
	var node *ssa.Alloc
	if len(els) == 1 {
		if un, ok := els[0].(*ssa.UnOp); ok {
			node, _ = un.X.(*ssa.Alloc)
		}
	}
	if node == nil || !lb[node.Block().Index] {
		c.Bad("list/append", "the appended element is the per-iteration copy of the current predecessor", w.InstrPos(app), "appended: "+desc(app.Call.Args[1]))
		return
	}
	// The appended variable and what it is a copy of (c19CurrentElement): the names of the current referrer. The rules
	// below accept a test / fetch on any of them (`node` filled in place; or `node` left alone and a copy made for the
	// result; or an index loop with `node := preds[i]`).
	cur := c19CurrentElement(node, pd, loop, lb)
	initOK := cur.Why == ""
	names := sortedKeys(cur.Names)
	// results returned: success exits return the phi fed by the append
	okRet := len(s.Exits) > 0
	for _, e := range s.Exits {
		r := e.Ret.Results[0]
		ph, isPhi := r.(*ssa.Phi)
		if !(isPhi && phiHas(ph, app)) && r != ssa.Value(app) {
			okRet = false
		}
	}
	// failing exits return nil
	okNil := true
	for _, b := range SR.Blocks {
		if r, ok := blockTerm(b).(*ssa.Return); ok {
			if k, isK := r.Results[1].(*ssa.Const); isK && k.IsNil() {
				continue
			}
			if !isNilConst(r.Results[0]) {
				okNil = false
			}
		}
	}
	c.Check(initOK && okRet && okNil, "list/result", "the list returned on success is exactly what the loop appended (per-iteration copies of predecessors); every failure returns no list", w.InstrPos(app), fmt.Sprintf("element copy=%v (%s) success returns appended=%v failures return nil=%v", initOK, cur.Why, okRet, okNil))
	if !initOK {
		return
	}

	// Media types. The rules are path rules over one iteration, not over the shape of the dispatch: for an element of
	// media type M, the edges whose fact contradicts "current referrer's media type == M" (`!= M`, `== the other
	// constant`) cannot be taken, so cutting them (and the back edges) leaves a superset of the paths such an element
	// can run; what every remaining path from the body entry to the append passes is what holds for every listed
	// element of media type M. A switch, an if/else chain, a guard clause followed by shared code and a media-type
	// flag tested later all yield the same facts. (The two constants are different strings, checked here.)
	type branch struct {
		name, mt, other, typ, atField string
	}
	brs := []*branch{
		{name: "artifact-manifest", mt: am, other: im, typ: "ngo/registry/internal/artifactspec.Artifact", atField: ".ArtifactType"},
		{name: "image-manifest", mt: im, other: am, typ: "ocispec.Manifest", atField: ".Config.MediaType"},
	}
	if am == "" || im == "" || am == im || nt == "" {
		c.Unk("list/anchors", "anchor: the two manifest media type constants and the notation artifact type", w.FnPos(SR), fmt.Sprintf("%q %q %q", am, im, nt))
		return
	}
	mtFact := func(op, mt string) map[string]bool {
		m := map[string]bool{}
		for _, n := range names {
			m[fmt.Sprintf("%s(%s.MediaType,const:%q)", op, n, mt)] = true
		}
		return m
	}
	union := func(ms ...map[edgeKey]bool) map[edgeKey]bool {
		out := map[edgeKey]bool{}
		for _, m := range ms {
			for e := range m {
				out[e] = true
			}
		}
		return out
	}
	bodyStart := []state{{loop.Body.Index, 0, -1}}
	// every path body -> append passes an edge "media type == one of the two constants"
	// (an edge "passes a media-type test" when its condition implies one of the two equalities — c19Implies: the
	// comparison itself, a module predicate that answers only through such a comparison, membership in a read-only
	// table whose keys are the two constants)
	eitherMT := mtFact("EQ", am)
	for l := range mtFact("EQ", im) {
		eitherMT[l] = true
	}
	inLoop := map[edgeKey]bool{}
	for e := range c19GateCut(w, SR, eitherMT, c19Same, 0) {
		if lb[e.b] {
			inLoop[e] = true
		}
	}
	cut := union(backEdges(loop.Header), inLoop)
	c.Evals++
	c.Check(app.Block() != loop.Body && !fi.reachHit(bodyStart, cut, blocksOf(app)), "list/only-manifest-media-types", "an element is appended only on a path through one of the two manifest media-type tests", w.InstrPos(app), "the append is reachable without a media-type test on the current referrer")
	fetches := c19FetchSites(w, SR)
	for _, br := range brs {
		key := "list/" + br.name
		cutM := union(backEdges(loop.Header), c19EdgesLabelled(SR, lb, mtFact("NE", br.mt)), c19EdgesLabelled(SR, lb, mtFact("EQ", br.other)))
		labels, reach := fi.mustPassBetweenCut([]int{loop.Body.Index}, blocksOf(app), cutM)
		c.Evals++
		if !reach {
			c.Bad(key+"/branch", "an element of media type "+br.mt+" can be listed", w.FnPos(SR), "the append is unreachable for a referrer of this media type")
			continue
		}
		flow := c19NewFlow(fi, loop.Body, cutM, cur.Allocs)
		// The frames an element of this media type runs through: this function's loop body and the module functions it
		// must have come through successfully (c19Frame). Each fact below is looked for in every frame; a rendering of
		// a helper's frame is read with the helper's parameters replaced by the call's arguments.
		root := &c19Frame{fn: SR, fi: fi, tr: c19Same, cut: cutM, labels: labels, flow: flow, w: w}
		flow.frame = root
		contra := map[string]bool{}
		for l := range mtFact("NE", br.mt) {
			contra[l] = true
		}
		for l := range mtFact("EQ", br.other) {
			contra[l] = true
		}
		root.grow(w, lb, contra)
		frames := root.all()
		for _, fr := range frames[1:] {
			c.SeenFn(fr.fn.String())
			c.Evals++
		}
		facts := root.facts()
		// the decode target of this media type
		var X *ssa.Alloc
		var U *ssa.Call
		var FU *c19Frame
		for _, fr := range frames {
			for _, ci := range findCalls(fr.fn, "encoding/json.Unmarshal") {
				cc := ci.(*ssa.Call)
				if !labelHas(fr.labels, "EQ("+desc(cc)+",nil)") {
					continue
				}
				if mi, ok := cc.Call.Args[1].(*ssa.MakeInterface); ok {
					if al, ok := mi.X.(*ssa.Alloc); ok && namedOf(al.Type()) == br.typ {
						X, U, FU = al, cc, fr
					}
				}
			}
		}
		capOK := false
		for _, n := range names {
			if _, ok := c19Capped(facts, n); ok {
				capOK = true
			}
		}
		// the fetch of the current referrer whose error is checked on the way
		var fetch *ssa.Call
		var FF *c19Frame
		for _, fr := range frames {
			fss := fetches
			if fr != root {
				fss = c19FetchSites(w, fr.fn)
			}
			for _, fs := range fss {
				if cur.Names[fr.tr(desc(fs.D))] && labelHas(fr.labels, c19ErrNil(fs.Call)) {
					fetch, FF = fs.Call, fr
				}
			}
		}
		// (or rule (a) decided this very fetch capped on its descriptor — with the constants the call sites pass, which the
		// composed facts do not evaluate: c19CapProved)
		if !capOK && fetch != nil {
			chain := []ssa.Instruction{fetch}
			for fr := FF; fr != nil && fr.call != nil; fr = fr.parent {
				chain = append(chain, fr.call)
			}
			capOK = c19CapProved(w, chain...)
		}
		c.Check(capOK, key+"/cap", "per iteration: the referrer's declared size is capped before it is fetched", w.InstrPos(app), summarizeLabels(facts, 6))
		c.Check(fetch != nil, key+"/fetch-error", "per iteration: FetchAll(current referrer) err == nil", w.InstrPos(app), summarizeLabels(facts, 6))
		if X == nil {
			c.Bad(key+"/decode", "per iteration: the fetched manifest is decoded into "+br.typ+" and the decode error fails the listing", w.InstrPos(app), summarizeLabels(facts, 8))
			continue
		}
		xd := desc(X)
		srcOK := fetch != nil && FU.tr(desc(U.Call.Args[0])) == FF.tr(res(fetch, 0))
		c.Check(srcOK, key+"/decode", "per iteration: the fetched manifest of the current referrer is decoded into "+br.typ+" and the decode error fails the listing", w.InstrPos(U), "decoded bytes: "+FU.tr(desc(U.Call.Args[0])))
		// fresh per iteration
		var fresh bool
		if FU == root {
			fresh = lb[X.Block().Index] && X.Block() != loop.Header
			if !fresh {
				// or zeroed in the loop before the decode
				for _, r := range *X.Referrers() {
					if st, ok := r.(*ssa.Store); ok && st.Addr == X && lb[st.Block().Index] && st.Block().Dominates(U.Block()) {
						if k, ok := st.Val.(*ssa.Const); ok && k.Value == nil {
							fresh = true
						}
					}
				}
			}
		} else {
			// a local of a helper called in this iteration is a new variable in every call; inside a loop of the helper it
			// must be the loop's own
			fresh = X.Parent() == FU.fn
			if l := innermostLoop(FU.fn, U.Block()); l != nil {
				hl := loopBlocks(l.Header)
				fresh = fresh && hl[X.Block().Index] && X.Block() != l.Header
			}
		}
		c.Check(fresh, key+"/decode-target-fresh", "the decode target is fresh in every iteration (json.Unmarshal keeps fields that the input omits: a reused target leaks the previous referrer's subject and type)", w.InstrPos(X), "the decode target "+xd+" lives across iterations and is not reset")
		// subject: content.Equal, or its definition spelled out (oras-go content/descriptor.go: Equal(a, b) is
		// a.Size == b.Size && a.Digest == b.Digest && a.MediaType == b.MediaType) — inline or through a module
		// predicate, whose three must-pass facts the engine hands up in this frame. The decoded subject is `X.Subject`
		// where X lives, and whatever the frames above see of it (c19Spellings): a test on `info.subject` with info the
		// record a helper built from X is a test on X.Subject.
		subj := c19Spellings(root, lb, X, ".Subject")
		subj[xd+".Subject"] = true
		nn, eq := false, false
		for sd := range subj {
			if labelHas(facts, "NE("+sd+",nil)") {
				nn = true
			}
			e := labelHas(facts, "T(call:oras/content.Equal("+sd+","+dp+"))") || labelHas(facts, "T(call:oras/content.Equal("+dp+","+sd+"))")
			if !e {
				e = true
				for _, f := range []string{"MediaType", "Digest", "Size"} {
					if !labelHas(facts, "EQ("+sd+"."+f+","+dp+"."+f+")") && !labelHas(facts, "EQ("+dp+"."+f+","+sd+"."+f+")") {
						e = false
					}
				}
			}
			eq = eq || e
		}
		c.Check(nn && eq, key+"/subject-equality", "per iteration: the decoded subject is non-nil and content.Equal to the requested descriptor (all of media type, digest and size)", w.InstrPos(app), fmt.Sprintf("non-nil=%v equal=%v decoded subject seen as %v; facts: %s", nn, eq, sortedKeys(subj), summarizeLabels(facts, 8)))
		// artifact type: some test `V == notation type` is passed on every path, and V is what the listed descriptor
		// carries as its artifact type at the append (the field itself, or the local the field is then filled from)
		elemAT, okElem := flow.field(node, "ArtifactType", app, 0)
		tests, ats := c19ConstTests(flow, lb, blocksOf(app), nt)
		okTest := false
		var seen []string
		for i, V := range tests {
			ls, ok := flow.resolve(V, ats[i], 0)
			seen = append(seen, c19Keys(ls))
			if ok && okElem && c19SetEq(ls, elemAT) {
				okTest = true
			}
		}
		// ... or the test stands in a helper frame (a predicate `keep(info, desc)` whose answer is must-pass, a helper
		// that refuses other types with an error): the tests that together every success of the helper passes
		// (c19HelperConstTests), each on a value that — followed through the helper's parameters to the arguments of
		// the call — is what the listed descriptor carries
		for _, fr := range frames[1:] {
			hv, hat, hok := c19HelperConstTests(fr, nt)
			if !hok {
				continue
			}
			all := true
			for i, V := range hv {
				ls, ok := fr.flow.resolve(V, hat[i], 0)
				seen = append(seen, c19Keys(ls))
				if !(ok && okElem && c19SetEq(ls, elemAT)) {
					all = false
				}
			}
			if all {
				okTest = true
			}
		}
		c.Check(okTest, key+"/artifact-type", "per iteration: the artifact type is the notation signature type", w.InstrPos(app), fmt.Sprintf("compared with the notation type: %v; the listed descriptor carries %s; facts: %s", seen, c19Keys(elemAT), summarizeLabels(facts, 8)))
		// ... and it is the decoded one
		c.Evals++
		c.Check(okTest && okElem && c19Only(elemAT, X, br.atField), key+"/artifact-type-origin", "the artifact type compared is the one decoded from this referrer's manifest ("+strings.TrimPrefix(br.atField, ".")+"), set on every path to the append", w.InstrPos(app), fmt.Sprintf("the listed descriptor's artifact type at the append: %s (determined on every path=%v)", c19Keys(elemAT), okElem))
		// annotations
		elemAn, okAn := flow.field(node, "Annotations", app, 0)
		c.Check(okAn && c19Only(elemAn, X, ".Annotations"), key+"/annotations", "the listed descriptor carries the annotations of the decoded manifest", w.InstrPos(app), fmt.Sprintf("annotations at the append: %s (determined on every path=%v)", c19Keys(elemAn), okAn))
	}
	// no other writes to the element, nor to the variables it was copied from; none of them is handed out by address
	okW := true
	why := ""
	for _, al := range cur.Allocs {
		for _, b := range SR.Blocks {
			for _, in := range b.Instrs {
				if st, ok := in.(*ssa.Store); ok {
					if fa, ok := st.Addr.(*ssa.FieldAddr); ok && fa.X == ssa.Value(al) {
						f := fieldName(fa.X.Type(), fa.Field)
						if f != "ArtifactType" && f != "Annotations" {
							okW = false
							why = "field " + f + " is written at " + w.InstrPos(st)
						}
					}
				}
			}
		}
		if c19AllocEscapes(al) {
			okW = false
			why = "the address of " + desc(al) + " is handed out"
		}
	}
	c.Check(okW, "list/element-identity", "the listed descriptor keeps the predecessor's media type, digest and size (only artifact type and annotations are filled in)", w.InstrPos(node), why)
}

// (d) push
func c19Push(c *Ctx) {
	w := c.W
	P := c19Iface(c, "PushSignature")
	if P == nil {
		return
	}
	c.SeenFn(P.String())
	m := Mode{Kind: mErr}
	s := w.Summarize(P, m)
	c.Evals += s.States
	// the envelope upload: oras.PushBytes, its two steps spelled out, or a module function that is that upload
	// (c19BlobPushes)
	pbs := c19BlobPushes(w, P)
	if len(pbs) != 1 {
		c.Bad("push/blob", "the envelope is pushed once with oras.PushBytes", w.FnPos(P), fmt.Sprintf("%d calls", len(pbs)))
		return
	}
	pb := pbs[0]
	pn := func(i int) string { return "param:" + P.Params[i].Name() }
	// params: c, ctx, mediaType, blob, subject, annotations
	var iMT, iBlob, iSub, iAnn int = -1, -1, -1, -1
	for i, p := range P.Params {
		switch t := p.Type().Underlying().(type) {
		case *types.Basic:
			if t.Kind() == types.String {
				iMT = i
			}
		case *types.Slice:
			iBlob = i
		case *types.Map:
			iAnn = i
		case *types.Struct:
			if namedOf(p.Type()) == "ocispec.Descriptor" {
				iSub = i
			}
		}
	}
	if iMT < 0 || iBlob < 0 || iSub < 0 || iAnn < 0 {
		c.Unk("push/params", "anchor: PushSignature(mediaType, blob, subject, annotations)", w.FnPos(P), "signature not recognised")
		return
	}
	c.Check(desc(pb.MT) == pn(iMT) && desc(pb.Blob) == pn(iBlob), "push/blob", "the blob is pushed with exactly the caller's media type and bytes", w.InstrPos(pb.At), desc(pb.At))
	// The place where the manifest is packed: the one oras.PackManifest call of PushSignature itself or of the module
	// functions it calls (c19PackSites). Whether the packing stands in PushSignature or in a helper (one or more
	// levels down) is immaterial to the clause: what matters is what the options hold, expressed in PushSignature's
	// frame — the helper's parameters are replaced by the arguments bound to them on the way down (site.Tr), the same
	// substitution the engine applies to gate labels.
	sites := c19PackSites(w, P)
	if len(sites) != 1 {
		c.Bad("push/manifest", "the manifest is built from the pushed blob's descriptor: PushSignature packs one manifest (oras.PackManifest, in its own body or in a module function it calls)", w.FnPos(P), fmt.Sprintf("%d oras.PackManifest calls reachable through module calls", len(sites)))
		return
	}
	site := sites[0]
	UP, pk := site.Fn, site.Pack
	needs := []Need{
		{Name: "blob-error", What: "PushBytes err == nil", Subs: []string{pb.Err}},
		{Name: "pack-error", What: "oras.PackManifest err == nil", Subs: []string{"EQ(call:oras.PackManifest(", "#err,nil)"}},
	}
	if len(site.Chain) > 0 {
		needs = append(needs, Need{Name: "manifest-error", What: "manifest upload err == nil", Subs: []string{c19ErrNil(site.Chain[0])}})
	} else {
		needs = append(needs, Need{Name: "manifest-error", What: "manifest upload err == nil", Subs: []string{c19ErrNil(pk)}})
	}
	c.requireOnExits("push", P, s.Exits, needs)
	// the manifest descriptor returned: result 0 of the pack call, handed up unchanged by every function on the way
	mdesc, mdOK, mdWhy := c19PackedDesc(w, site)
	okRet := len(s.Exits) > 0 && mdOK
	for _, e := range s.Exits {
		if desc(e.Ret.Results[0]) != pb.Desc || desc(e.Ret.Results[1]) != mdesc {
			okRet = false
		}
	}
	c.Check(okRet, "push/returns", "the descriptors returned are those of the pushed blob and the packed manifest", w.FnPos(P), mdWhy)
	// what a value of the packing function is, in PushSignature's terms
	role := func(d string) string {
		if d == "" {
			return ""
		}
		switch site.Tr(d) {
		case pn(iSub):
			return "subject"
		case pn(iAnn):
			return "annotations"
		case pb.Desc:
			return "blob"
		}
		return ""
	}
	c.SeenFn(UP.String())
	ver := ""
	if p := w.ByPath["oras.land/oras-go/v2"]; p != nil {
		if k, ok := p.Types.Scope().Lookup("PackManifestVersion1_1").(*types.Const); ok {
			ver = "const:" + k.Val().ExactString()
		}
	}
	nt, _ := w.constString("registry", "ArtifactTypeNotation")
	at := desc(pk.Call.Args[3])
	c.Check(desc(pk.Call.Args[2]) == ver && (at == `const:""` || at == fmt.Sprintf("const:%q", nt)), "push/pack-version", "the manifest is an OCI 1.1 image manifest whose artifact type is the config media type (or the notation type itself)", w.InstrPos(pk), desc(pk))
	var opts *ssa.Alloc
	if un, ok := pk.Call.Args[4].(*ssa.UnOp); ok {
		opts, _ = un.X.(*ssa.Alloc)
	}
	if opts == nil {
		c.Bad("push/options", "the pack options are built locally", w.InstrPos(pk), desc(pk.Call.Args[4]))
		return
	}
	get := func(f string) ssa.Value {
		sts := fieldStores(UP, opts, f)
		if len(sts) != 1 {
			return nil
		}
		return sts[0].Val
	}
	ptrTo := func(v ssa.Value) string {
		al, ok := v.(*ssa.Alloc)
		if !ok {
			return ""
		}
		if sv := onlyDirectStore(al); sv != nil {
			return desc(sv)
		}
		return ""
	}
	var sub, ann, lay, cfg string
	if v := get("Subject"); v != nil {
		sub = role(ptrTo(v))
	}
	if v := get("ManifestAnnotations"); v != nil {
		ann = role(desc(v))
	}
	if v := get("Layers"); v != nil {
		// a slice literal over an array of length one: exactly one element (decided on the SSA value, the rendering of
		// the element may itself contain commas)
		if el := c19SingleElem(v); el != nil {
			lay = role(desc(el))
		}
	}
	// the config descriptor: what the options point to, followed up the call chain while it is a parameter of the
	// function it stands in (the helper that packs may be handed the descriptor its caller obtained), down to the
	// call that delivered it; that call's error must gate the way to the packing in the function where it stands
	var CFG *ssa.Function
	cfgFn, cfgGate := UP, ssa.Instruction(pk)
	if v := get("ConfigDescriptor"); v != nil {
		cfg = ptrTo(v)
		if al, ok := v.(*ssa.Alloc); ok {
			ov, lvl := c19UpChain(site, P, onlyDirectStore(al))
			if ex, ok := ov.(*ssa.Extract); ok {
				if cc, ok := ex.Tuple.(*ssa.Call); ok {
					CFG = staticCallee(cc)
					cfgFn = cc.Parent()
					if lvl < len(site.Chain) {
						cfgGate = site.Chain[lvl]
					}
				}
			}
		}
	}
	c.Check(sub == "subject", "push/options/subject", "the manifest's subject is the caller's subject descriptor", w.InstrPos(pk), "Subject <- "+sub)
	c.Check(ann == "annotations", "push/options/annotations", "the manifest's annotations are the caller's annotations", w.InstrPos(pk), "ManifestAnnotations <- "+ann)
	c.Check(lay == "blob", "push/options/single-layer", "the manifest's layers are exactly the pushed blob's descriptor", w.InstrPos(pk), "Layers <- "+lay)
	if CFG == nil || !w.IsProductFn(CFG) {
		c.Bad("push/options/config", "the config descriptor comes from the notation config helper", w.InstrPos(pk), "ConfigDescriptor <- "+cfg)
		return
	}
	c.SeenFn(CFG.String())
	cs := w.Summarize(CFG, m)
	c.Evals += cs.States
	gname := ""
	okCfg := len(cs.Exits) > 0
	for _, e := range cs.Exits {
		d := desc(e.Ret.Results[0])
		if !strings.HasPrefix(d, "global:ngo/registry.") {
			okCfg = false
		}
		if gname != "" && gname != d {
			okCfg = false
		}
		gname = d
	}
	// the error of the helper gates the packing
	g := w.Info(cfgFn).GuardsOf(cfgGate)
	_, okErr := hasLabel(g, "EQ(call:"+fnName(CFG)+"(", "#err,nil)")
	// the global's media type
	mtOK, immut := false, true
	if okCfg {
		name := strings.TrimPrefix(gname, "global:ngo/registry.")
		if e, p := w.pkgVarInit("registry", name); e != nil {
			if f := structLitField(e, "MediaType"); f != nil {
				if v, ok := constOfExpr(p, f); ok && v == nt {
					mtOK = true
				}
			}
		}
		// never written outside its initialiser, never handed out by address (decided on addresses rooted at the
		// global itself: a local copy of it is another variable)
		if sp := w.Pkg("registry"); sp != nil {
			if gv, ok := sp.Members[name].(*ssa.Global); ok {
				immut = !c19GlobalWritten(w, "registry", gv)
			} else {
				immut = false
			}
		}
	}
	c.Check(okCfg && okErr && mtOK && immut, "push/options/config", "the config descriptor is the package's immutable notation config whose media type is the notation artifact type (the value the listing compares image.Config.MediaType with); the helper's error gates the packing", w.InstrPos(pk),
		fmt.Sprintf("returns %s; error gated=%v; media type is ArtifactTypeNotation=%v; never reassigned=%v", gname, okErr, mtOK, immut))
	// the config blob pushed is the config descriptor with the package's empty config data
	okPush := true
	for _, ci := range allCalls(CFG) {
		if ci.Common().IsInvoke() && ci.Common().Method.Name() == "Push" {
			if desc(ci.Common().Args[1]) != gname {
				okPush = false
			}
		}
		if ci.Common().IsInvoke() && ci.Common().Method.Name() == "Exists" {
			if desc(ci.Common().Args[1]) != gname {
				okPush = false
			}
		}
	}
	c.Check(okPush, "push/config-blob", "the config helper tests and pushes the very descriptor it returns", w.FnPos(CFG), "")
	c19ConfigStored(c, CFG, gname)
	c.MinCount("push/config-stored", 1, "config helpers whose success exits are decided")
	_ = sort.Strings
	_ = constant.MakeBool
}

// loadOrigin follows loads of single-store allocs.
func loadOrigin(v ssa.Value) ssa.Value {
	for i := 0; i < 4; i++ {
		un, ok := v.(*ssa.UnOp)
		if !ok {
			return v
		}
		al, ok := un.X.(*ssa.Alloc)
		if !ok {
			return v
		}
		sv := onlyDirectStore(al)
		if sv == nil {
			return v
		}
		v = sv
	}
	return v
}

// onlyDirectStore: the single value stored to the alloc as a whole, provided no field or element of it is written
// (the address itself may escape to callees that receive it as a pointer field: used for `&x` option fields).
func onlyDirectStore(al *ssa.Alloc) ssa.Value {
	var v ssa.Value
	for _, r := range *al.Referrers() {
		switch x := r.(type) {
		case *ssa.Store:
			if x.Addr == al {
				if v != nil {
					return nil
				}
				v = x.Val
			}
		case *ssa.FieldAddr, *ssa.IndexAddr:
			if addrWritten(x.(ssa.Value), 0) {
				return nil
			}
		}
	}
	return v
}
