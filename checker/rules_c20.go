package main

import (
	"fmt"
	"go/ast"
	"go/types"
	"regexp"
	"sort"
	"strings"

	"golang.org/x/tools/go/ssa"
)

func init() {
	register(&Rule{
		ID:    "C20",
		Title: "plugin installation follows the version rules; nothing is touched before every check passed",
		Run:   runC20,
		Explain: "(a) effect inventory: the calls of CLIManager.Install — and of the helpers of Install that only delegate (no os mutator of their own, no loop, no closure) — that can modify the plugin directory (module callees that transitively reach an os mutator and receive the manager or a SysPath-derived path) are enumerated; every rule about an effect in a helper frame is decided along the chain of calls from Install to it; " +
			"(b) gates: each of them is reachable only through non-empty source path, the certified name validation, NewCLIPlugin and GetMetadata success of the new plugin, all on the one name value that is also used for Get, Uninstall and SysPath; " +
			"(c) decision table (abstract interpretation of Install, and of the helpers of Install that consume a scenario input — source resolution, existence check, version gate — whose outcomes are bound to their results in Install, over source kind x overwrite x existence x metadata error x comparison error x comparison result, 216 scenarios): an effect is reachable exactly when the source is usable and " +
			"(overwrite, or no plugin exists, or the comparison succeeded with new > existing); the first effect is always the clean-up; after it the directory source reaches only CopyDirToDir and the file source only CopyToDir; " +
			"(d) copies happen only after the clean-up returned nil or not-exist, into SysPath(name), from the source that was validated; success is returned only after a copy succeeded, with the new plugin's metadata; below Install, a copy routine answers nil only if every step it took answered nil (the error of each call on the copy path is tested or returned before the routine can report success); " +
			"(e) version comparison: both versions pass the module's validity predicate, whose constant pattern classifies the semver.org corpus correctly, before x/mod Compare(\"v\"+new, \"v\"+existing); arguments in (new, existing) order; " +
			"(f) discovery: every WalkDir callback of the install tree returns SkipDir for each directory other than the walk root (path compared with the root) and SkipDir / SkipAll for nothing but a directory — both as must-pass facts from the entry of the callback (a test that is present but no longer decides does not count); the callback goes on only behind `err == nil` for the error the walk handed it; every entry that may be a regular file reaches the copy; a walk that lives in a helper taking the per-entry action as a function value is certified as a pure walk (the action is only called by the callback, with the callback's path and entry, its answer is returned) and each caller's action is then judged as a callback, under the facts the helper established before the call; candidates are regular files only; the (executable, name) pair returned is parsed from that very file — held in two shared variables, or in the two fields of a record the callback built for that entry and nobody writes afterwards; two executables are refused; " +
			"(g) binName and parsePluginName use the same constant prefix, so the copied executable is found under the parsed name.",
		NotCov:  "file-system behaviour of the copy itself (a copy failing half-way after the clean-up), histories of operations, the metadata the installed plugin reports (it is the metadata of the executable that was run, C17).",
		Trusted: []string{"go/types, go/ssa", "golang.org/x/mod/semver.Compare", "path/filepath.WalkDir", "os"},
	})
}

var c20Mutators = map[string]string{
	"os.RemoveAll": "remove", "os.Remove": "remove",
	"os.Create": "write", "os.OpenFile": "write", "os.WriteFile": "write", "os.Rename": "write", "os.MkdirAll": "write", "os.Mkdir": "write",
	"os.Symlink": "write", "os.Link": "write", "os.CreateTemp": "write", "os.Truncate": "write",
	"os.Chmod": "chmod", "(*os.File).Chmod": "chmod", "os.Chown": "chmod",
}

// c20Reach: the kinds of os mutators a function transitively reaches through static module callees, closures and function values.
func c20Reach(w *World, fn *ssa.Function) map[string]bool {
	out := map[string]bool{}
	// c20Tree: static module callees, function literals, and functions that run only as values handed on (a method value
	// given to WalkDir is part of the tree like a function literal) — more effects are found, never fewer
	for _, f := range c20Tree(w, fn) {
		for _, ci := range allCalls(f) {
			if k, ok := c20Mutators[calleeName(ci)]; ok {
				out[k] = true
			}
		}
	}
	return out
}

type c20Effect struct {
	call ssa.CallInstruction
	kind string // cleanup | copy | other
	name string
	via  []*ssa.Call // the helper calls between Install and the function that holds the call (nil: Install itself)
}

func runC20(c *Ctx) {
	w := c.W
	INST := w.Method("plugin", "CLIManager", "Install")
	if INST == nil {
		c.Unk("anchor/install", "anchor: (*CLIManager).Install", "-", "not found")
		return
	}
	c.SeenFn(INST.String())
	fi := w.Info(INST)
	// (a) effects: the calls of Install — and of the helpers of Install that only delegate (c20Dispatch) — that can modify
	// files; those that receive the manager or a SysPath-derived path are the effects on the plugin directory
	effects, srcOnlyE := c20EnumEffects(w, INST)
	var srcOnly []ssa.CallInstruction
	for _, e := range srcOnlyE {
		srcOnly = append(srcOnly, e.call)
	}
	for _, e := range effects {
		for _, h := range e.via {
			c.SeenFn(staticCallee(h).String())
		}
	}
	nClean, nCopy := 0, 0
	for _, e := range effects {
		if e.kind == "cleanup" {
			nClean++
		}
		if e.kind == "copy" {
			nCopy++
		}
	}
	if nClean < 1 || nCopy < 2 {
		c.Unk("effects#count", "vacuity guard: Install has one clean-up and two copy effects on the plugin directory", w.FnPos(INST), fmt.Sprintf("cleanup=%d copy=%d", nClean, nCopy))
		return
	}
	// source-only effects may only set permission bits
	for i, ci := range srcOnly {
		k := map[string]bool{}
		if g := staticCallee(ci); g != nil {
			k = c20Reach(w, g)
		}
		c.Check(!k["remove"] && !k["write"], fmt.Sprintf("effects/source-only#%d", i+1), "a call of Install that modifies files without receiving the manager or a plugin-directory path only changes permission bits of the source", w.InstrPos(ci), calleeName(ci))
	}
	// the name value
	var nameV ssa.Value
	var newP *ssa.Call
	for _, ci := range allCalls(INST) {
		if cc, ok := ci.(*ssa.Call); ok && calleeName(cc) == "ngo/plugin.NewCLIPlugin" {
			newP = cc
			nameV = cc.Call.Args[1]
		}
	}
	if newP == nil {
		c.Bad("gates/new-plugin", "the new plugin is validated with NewCLIPlugin before anything else", w.FnPos(INST), "no NewCLIPlugin call")
		return
	}
	X := desc(nameV)
	var getC, cmpC *ssa.Call
	var newMD, oldMD ssa.CallInstruction
	// the lookup of the existing plugin: Get (in Install or in a helper of Install), or the worker Get delegates to, called
	// under Get's own checks (c20FindLookup)
	var getName ssa.Value
	lookup, lookupWhy := c20FindLookup(w, INST)
	if lookup != nil {
		getC = lookup.call
		// the name and the manager of the lookup, in terms of Install's own values
		getName = c20InFrameOfRoot(lookup.name, lookup.via)
		if m := c20InFrameOfRoot(lookup.recv, lookup.via); m != ssa.Value(INST.Params[0]) {
			getC, lookupWhy = nil, "the existing plugin is not looked up in the manager that installs"
		}
	}
	// the comparison: in Install or below it
	var cmpVia []*ssa.Call
	if found := c20FindCalls(w, INST, func(cc *ssa.Call) bool { return calleeName(cc) == "ngo/internal/semver.ComparePluginVersion" }); len(found) == 1 {
		cmpC, cmpVia = found[0].call, found[0].via
	}
	// GetMetadata of the new plugin (in Install) and of the existing one (where the lookup is)
	mdOf := func(fn *ssa.Function, of *ssa.Call) ssa.CallInstruction {
		var out ssa.CallInstruction
		for _, ci := range allCalls(fn) {
			cc, ok := ci.(*ssa.Call)
			if !ok || !strings.HasSuffix(calleeName(cc), ".GetMetadata") {
				continue
			}
			// by value: the receiver is the first result of NewCLIPlugin / of the lookup (the printed form of a result may be
			// the expression a helper returns)
			if rv := callArgs(cc)[0]; desc(rv) == desc(of)+"#0" || c20IsResult(rv, of, 0) {
				out = cc
			}
		}
		return out
	}
	newMD = mdOf(INST, newP)
	if getC != nil {
		oldMD = mdOf(getC.Parent(), getC)
	}
	// the version gate may live in a helper of Install: `gate(…, newVersion, existingVersion) error`
	var gateCall *ssa.Call
	if len(cmpVia) == 1 && isErrorType(cmpVia[0].Type()) {
		gateCall = cmpVia[0]
	}
	if getC == nil || cmpC == nil || newMD == nil || oldMD == nil {
		c.Unk("anchor/install-shape", "anchor: Get, GetMetadata of new and existing plugin, ComparePluginVersion in Install", w.FnPos(INST), c20Join(fmt.Sprintf("get=%v cmp=%v newMD=%v oldMD=%v", getC != nil, cmpC != nil, newMD != nil, oldMD != nil), lookupWhy))
		return
	}
	// (b) gates per effect
	var optsP string
	var boolField string
	for _, p := range INST.Params {
		if st, ok := p.Type().Underlying().(*types.Struct); ok && namedOf(p.Type()) == "ngo/plugin.CLIInstallOptions" {
			optsP = "param:" + p.Name()
			for i := 0; i < st.NumFields(); i++ {
				if b, ok := st.Field(i).Type().Underlying().(*types.Basic); ok && b.Kind() == types.Bool {
					boolField = st.Field(i).Name()
				}
			}
		}
	}
	var unstable []string
	stable := func(v ssa.Value) {
		if bad, why := c20UnstableRead(w, INST, v); bad {
			unstable = append(unstable, desc(v)+": "+why)
		}
	}
	stable(nameV)
	stable(newP.Call.Args[2])
	for i, e := range effects {
		// an effect in a helper frame: what holds before each call of the chain and before the effect in its own frame
		// (c20GuardsVia); its arguments are read in Install's frame (a parameter of a helper is what the call passes)
		g := fi.GuardsOf(e.call)
		if len(e.via) > 0 {
			g = c20GuardsVia(w, e.call, e.via)
		}
		c.Evals++
		key := fmt.Sprintf("gates/%s#%d", e.kind, i+1)
		_, g1 := hasLabel(g, "NE("+optsP+".", ",const:\"\")")
		_, g2 := hasLabel(g, "T(call:ngo/internal/file.IsValidFileName("+X+"))")
		if !g2 {
			// the name was validated where it was produced: by the helper that returns it, before it returns it
			// (c20ValidatedByProducer)
			g2 = c20ValidatedByProducer(w, nameV, nil, g, 0)
		}
		g3 := labelHas(g, "EQ("+desc(newP)+"#err,nil)")
		g4 := labelHas(g, "EQ("+desc(newMD.(*ssa.Call))+"#err,nil)")
		// the name the effect works on
		nm := ""
		for _, a := range e.call.Common().Args {
			stable(a)
			d := c20SubstVia(desc(a), e.via)
			if d == X {
				nm = X
			}
			if strings.Contains(d, "SysFS.SysPath(") && strings.Contains(d, "{"+X+"}") {
				nm = X
			}
		}
		if nm == "" {
			// the name the new plugin reported is the validated name: GetMetadata succeeds only if they are equal
			_, same := hasLabel(g, "EQ(alloc:pfw/plugin.GetMetadataResponse<", ">.Name,"+desc(newP)+"#0.name)")
			for _, a := range e.call.Common().Args {
				d := c20SubstVia(desc(a), e.via)
				if same && (d == desc(newMD.(*ssa.Call))+"#0.Name" || (strings.Contains(d, "SysFS.SysPath(") && strings.Contains(d, "{"+desc(newMD.(*ssa.Call))+"#0.Name}"))) {
					nm = X
				}
			}
		}
		c.Check(g1 && g2 && g3 && g4 && nm == X, key, "an effect on the plugin directory is reachable only after: non-empty source path, certified name validation, NewCLIPlugin success, GetMetadata success of the new plugin; it works on that same name", w.InstrPos(e.call),
			fmt.Sprintf("%s: source-path=%v name-valid=%v new-plugin=%v new-metadata=%v same-name=%v", e.name, g1, g2, g3, g4, nm == X))
	}
	if getName != nil {
		stable(getName)
	}
	if len(unstable) > 0 {
		c.Bad("gates/same-object-same-name", "a name or path that is read from a field of a shared object is the same at every read: nothing below Install writes that field after the object was built", w.FnPos(INST), strings.Join(uniq(unstable), "; "))
	}
	c.Check(getName != nil && desc(getName) == X, "gates/existing-lookup-name", "the existing plugin is looked up under the name that is installed", w.InstrPos(getC), func() string {
		if getName == nil {
			return "the name is computed in a helper"
		}
		return desc(getName)
	}())
	// the certified validator
	if v := w.Func("internal/file", "IsValidFileName"); v != nil {
		ok, why := certifyFileNameValidator(w, v)
		if !ok {
			// the same language written as a scan over the bytes of the name (see c20CertifyByteScan for the argument)
			if ok2, why2 := c20CertifyByteScan(w, v); ok2 {
				ok, why = true, ""
			} else {
				why += "; read as a scan over the bytes of the name: " + why2
			}
		}
		c.Check(ok, "gates/name-validator", "the name validator accepts only single path components (no separator, NUL, empty, dot names)", w.FnPos(v), why)
	}
	// a helper that only turns the comparison into a refusal is certified on its own (c20GateHelper) and the table uses
	// that lemma; a helper that also receives a flag (the overwrite option) is interpreted by the table itself, with the
	// flag bound to the scenario's value (c20Frames)
	lemma := gateCall
	if gateCall != nil {
		for _, p := range staticCallee(gateCall).Params {
			if c20IsBoolType(p.Type()) {
				lemma = nil
			}
		}
	}
	if lemma != nil {
		if !c20GateHelper(c, gateCall, cmpC) {
			return
		}
	}
	c20Table(c, INST, effects, optsP, boolField, getC, cmpC, oldMD.(*ssa.Call), lemma)
	c20Order(c, INST, effects, newP, newMD.(*ssa.Call), optsP)
	c20Semver(c, cmpC, newMD.(*ssa.Call), oldMD.(*ssa.Call), gateCall)
	c20Discovery(c, INST)
	c20Names(c)
	c.MinCount("", 25, "installation obligations")
}

// (c) the decision table
func c20Table(c *Ctx, INST *ssa.Function, effects []c20Effect, optsP, boolField string, getC, cmpC, oldMD, gateCall *ssa.Call) {
	w := c.W
	// by role, not by position: the module function with results (file, name, error) that walks a directory and is handed a
	// field of the install options (the source path) — whatever else it receives (a context, a logger), in Install itself
	// or in a helper of Install that receives the source path as a parameter (c20FindParser)
	parsers := c20FindParser(w, INST, optsP)
	if len(parsers) != 1 {
		c.Unk("table/anchor", "anchor: the source-directory parser call in Install", w.FnPos(INST), fmt.Sprintf("%d calls of a source parser with the source path of the install options found below Install", len(parsers)))
		return
	}
	parseC := parsers[0].call
	// the helpers between Install and an anchor are interpreted under each scenario (c20Frames)
	fr := &c20Frames{w: w, expand: map[*ssa.Call]bool{}}
	for _, v := range parsers[0].via {
		fr.expand[v] = true
		c.SeenFn(staticCallee(v).String())
	}
	for _, anchor := range []*ssa.Call{getC, oldMD, cmpC} {
		if anchor.Parent() == INST || (gateCall != nil && anchor == cmpC) {
			continue
		}
		found := c20FindCalls(w, INST, func(cc *ssa.Call) bool { return cc == anchor })
		if len(found) != 1 {
			c.Unk("table/anchor", "anchor: the calls the decision table is about lie in Install or in helpers of Install", w.InstrPos(anchor), "no single chain of calls leads from Install to this call")
			return
		}
		for _, v := range found[0].via {
			fr.expand[v] = true
			c.SeenFn(staticCallee(v).String())
		}
	}
	type scen struct {
		src        string // dir | file | err
		ov         bool
		get        string // nil | notexist | other
		md, cmpErr bool
		comp       int64
	}
	var cur scen
	errOf := func(v ssa.Value, call *ssa.Call) bool {
		ex, ok := v.(*ssa.Extract)
		return ok && ex.Tuple == ssa.Value(call) && isErrorType(ex.Type())
	}
	nilIf := func(b bool) AVal {
		if b {
			return AVal{Kind: aNil}
		}
		return AVal{Kind: aNonNil}
	}
	hook := func(in ssa.Instruction, env map[ssa.Value]AVal) (AVal, bool) {
		v, ok := in.(ssa.Value)
		if !ok {
			return AVal{}, false
		}
		if _, isPhi := in.(*ssa.Phi); isPhi {
			return AVal{}, false
		}
		if boolField != "" && desc(v) == optsP+"."+boolField {
			if _, isAddr := v.Type().Underlying().(*types.Pointer); !isAddr {
				return AVal{Kind: aBool, B: cur.ov}, true
			}
		}
		switch {
		case errOf(v, parseC):
			return nilIf(cur.src == "dir"), true
		case errOf(v, getC):
			return nilIf(cur.get == "nil"), true
		case errOf(v, oldMD):
			return nilIf(!cur.md), true
		case gateCall != nil && v == ssa.Value(gateCall):
			// the helper answers nil exactly when the comparison succeeded with new > existing (checked by c20GateHelper)
			return nilIf(!cur.cmpErr && cur.comp == 1), true
		case errOf(v, cmpC):
			return nilIf(!cur.cmpErr), true
		}
		if ex, ok := v.(*ssa.Extract); ok && ex.Tuple == ssa.Value(cmpC) && ex.Index == 0 {
			return AVal{Kind: aInt, Int: cur.comp}, true
		}
		if cc, ok := v.(*ssa.Call); ok && calleeName(cc) == "errors.Is" {
			a0, a1 := cc.Call.Args[0], desc(cc.Call.Args[1])
			switch {
			case errOf(a0, parseC) && a1 == "global:ngo/internal/file.ErrNotDirectory":
				return AVal{Kind: aBool, B: cur.src == "file"}, true
			case errOf(a0, getC) && (a1 == "global:os.ErrNotExist" || a1 == "global:io/fs.ErrNotExist"):
				return AVal{Kind: aBool, B: cur.get == "notexist"}, true
			case errOf(a0, parseC) && cur.src == "err", errOf(a0, getC) && cur.get == "other":
				// "some other error": whether it matches a third sentinel is not known
				return top, true
			case errOf(a0, parseC) || errOf(a0, getC):
				return AVal{Kind: aBool, B: false}, true
			}
		}
		return AVal{}, false
	}
	// the effects, in Install and in the helper frames below it: the helpers on the way to an effect are interpreted like
	// the helpers on the way to an anchor, and every abstract path reports the effects it passed, in order (runTraced)
	fr.effectful = map[*ssa.Function]bool{}
	for _, e := range effects {
		for _, h := range e.via {
			fr.expand[h] = true
			fr.effectful[staticCallee(h)] = true
		}
	}
	fr.items = c20ItemsOf(effects, fr.expand)
	var bad []string
	nScen, nPaths, nAllowed := 0, 0, 0
	reachedAllowed := 0
	for _, src := range []string{"dir", "file", "err"} {
		for _, ov := range []bool{false, true} {
			for _, get := range []string{"nil", "notexist", "other"} {
				for _, md := range []bool{false, true} {
					for _, ce := range []bool{false, true} {
						for _, comp := range []int64{-1, 0, 1} {
							cur = scen{src, ov, get, md, ce, comp}
							nScen++
							allowed := src != "err" && (ov || get == "notexist" || (get == "nil" && !md && !ce && comp == 1))
							if allowed {
								nAllowed++
							}
							hit := false
							over := false
							fr.base = hook
							cx := &c20Ctx{env0: map[ssa.Value]AVal{}}
							var ip *Interp
							ip = &Interp{Fn: INST, IntTypes: map[string]bool{"*": true}}
							ip.Hook = fr.hook(&ip, cx)
							fr.runTraced(ip, INST, cx, 0, func(_ Outcome, trace []c20Eff) {
								nPaths++
								if len(trace) == 0 {
									return
								}
								hit = true
								if !allowed {
									bad = append(bad, fmt.Sprintf("%+v reaches %s", cur, trace[0].name))
									return
								}
								if trace[0].kind != "cleanup" {
									bad = append(bad, fmt.Sprintf("%+v: first effect is %s (no clean-up before it)", cur, trace[0].name))
									return
								}
								// from the clean-up onwards
								for _, t := range trace[1:] {
									if t.kind == "cleanup" {
										continue
									}
									n := t.name
									fromDir := strings.Contains(n, "Dir") && strings.Count(n, "Dir") >= 2
									if (src == "dir") != fromDir {
										bad = append(bad, fmt.Sprintf("%+v: source kind %s reaches %s", cur, src, n))
									}
								}
							})
							if ip.Overflow || fr.over {
								over = true
							}
							if over {
								c.Unk("table/decision", "decision table of Install", w.FnPos(INST), "path budget exceeded")
								return
							}
							if allowed && hit {
								reachedAllowed++
							}
						}
					}
				}
			}
		}
	}
	c.Evals += nPaths + fr.paths
	bad = uniq(bad)
	sort.Strings(bad)
	if len(bad) > 0 {
		c.Bad("table/decision", fmt.Sprintf("decision table of Install (%d scenarios): the plugin directory is touched only if the source is usable and (overwrite, or no plugin of that name exists, or the comparison succeeded with new > existing); the first effect is the clean-up; each source kind reaches only its own copy routine", nScen), w.FnPos(INST),
			fmt.Sprintf("%d deviating scenario/path pairs, first: %s", len(bad), bad[0]), bad...)
	} else if reachedAllowed == 0 {
		c.Unk("table/decision", "decision table of Install", w.FnPos(INST), "no scenario reaches an effect: the table no longer matches the code")
	} else {
		c.OK("table/decision", fmt.Sprintf("decision table of Install (%d scenarios, %d abstract paths; %d of %d admissible scenarios reach the clean-up): the plugin directory is touched only if the source is usable and (overwrite, or no plugin of that name exists, or the comparison succeeded with new > existing); the first effect is the clean-up; each source kind reaches only its own copy routine", nScen, nPaths, reachedAllowed, nAllowed), w.FnPos(INST))
	}
}

// (d) ordering and provenance of the copies, success exits
func c20Order(c *Ctx, INST *ssa.Function, effects []c20Effect, newP, newMD *ssa.Call, optsP string) {
	w := c.W
	fi := w.Info(INST)
	var clean *c20Effect
	for i := range effects {
		if effects[i].kind == "cleanup" {
			clean = &effects[i]
		}
	}
	// "the clean-up returned nil or not-exist", as a selector of edges in the frame that holds the clean-up call
	cleanSel := func(es []c20Effect) EdgeSel {
		return func(l string, _ *ssa.If, _ bool) bool {
			for _, e := range es {
				cd := desc(e.call.(*ssa.Call))
				if l == "EQ("+cd+",nil)" || l == "EQ("+cd+"#err,nil)" {
					return true
				}
				if strings.HasPrefix(l, "T(call:errors.Is("+cd) && (strings.HasSuffix(l, ",global:os.ErrNotExist))") || strings.HasSuffix(l, ",global:io/fs.ErrNotExist))")) {
					return true
				}
			}
			return false
		}
	}
	var copies []c20Effect
	for i, e := range effects {
		if e.kind != "copy" {
			continue
		}
		copies = append(copies, e)
		cc := e.call.(*ssa.Call)
		// Decided in the innermost frame F that holds both the clean-up and the copy (Install itself when both are calls of
		// Install). In F the clean-up is its call, or the call of the helper that holds it; that helper call counts as
		// "clean-up succeeded" on its nil-error edge only if the helper answers nil only behind a success edge of the
		// clean-up in its own frame (c20DeepSel). The copy is its call, or the call of the helper on the way to it: the
		// copy runs only if that call runs. So: no path of F reaches the copy's site without passing a success edge of
		// the clean-up, and the clean-up's site dominates it.
		F, level, sa, sb := c20CommonFrame(INST, *clean, e)
		fF := w.Info(F)
		sel := c20DeepSel(w, level, []c20Effect{*clean}, cleanSel)
		cut := fF.edgesMatching(sel)
		dom := c20Dominates(sa, sb)
		c.Evals++
		blocked := !fF.reachHit(entryState(), cut, blocksOf(sb)) && sb.Block().Index != 0
		minCut := 2
		if sa != ssa.Instruction(clean.call) {
			minCut = 1 // the nil-error edge of the helper; the two edges (nil, not-exist) are required inside the helper
			_, n, _ := exitsBlocked(w.Info(clean.call.Parent()), Mode{Kind: mErr}, cleanSel([]c20Effect{*clean}), nil)
			if n < 2 {
				minCut = 1 << 30
			}
		}
		// destination and source, read in Install's frame; a field of a result object that a constructor fills with one of
		// its parameters is that argument (c20Origin; c20OriginW: also when the object travels by value)
		dv, dvia := c20OriginW(w, cc.Call.Args[len(cc.Call.Args)-1], e.via)
		dst := c20SubstVia(desc(dv), dvia)
		dstOK := strings.HasPrefix(dst, "call:invoke:ngo/dir.SysFS.SysPath(") && strings.HasSuffix(dst, "#0")
		g := fi.GuardsOf(cc)
		if len(e.via) > 0 {
			g = c20GuardsVia(w, cc, e.via)
		}
		_, sysOK := hasLabel(g, "EQ("+strings.TrimSuffix(dst, "#0")+"#err,nil)")
		sv, svia := c20OriginW(w, cc.Call.Args[0], e.via)
		src := c20SubstVia(desc(sv), svia)
		srcOK := src == optsP+".PluginPath" || src == desc(newP.Call.Args[2]) || strings.HasPrefix(src, optsP+".")
		if src2 := c20SubstVia(desc(cc.Call.Args[0]), e.via); src2 == desc(newP.Call.Args[2]) {
			srcOK = true
		}
		c.Check(dom && blocked && len(cut) >= minCut && dstOK && sysOK && srcOK, fmt.Sprintf("order/copy-after-cleanup#%d", i+1),
			"a copy into the plugin directory happens only after the clean-up of that plugin returned nil or not-exist, into SysPath(name) (error checked), from the source that was validated", w.InstrPos(cc),
			fmt.Sprintf("%s: clean-up dominates=%v blocked without clean-up success=%v destination ok=%v syspath error checked=%v source ok=%v (source %s)", e.name, dom, blocked, dstOK, sysOK, srcOK, trunc(src, 100)))
	}
	c20CopyErrors(c, copies)
	m := Mode{Kind: mErr}
	// a copy succeeded: the nil-error edge of a copy call of Install, or of a helper call on the way to copies that answers
	// nil only after one of its copies succeeded (c20DeepSel)
	copySel := c20DeepSel(w, 0, copies, func(es []c20Effect) EdgeSel {
		var calls []*ssa.Call
		for _, e := range es {
			calls = append(calls, e.call.(*ssa.Call))
		}
		return c20ErrNilSel(calls)
	})
	blocked, n, wit := exitsBlocked(fi, m, copySel, nil)
	c.slot(blocked, n, "order/success-only-after-copy", "Install returns nil error only after a copy into the plugin directory succeeded", w.FnPos(INST), "success without a successful copy", wit...)
	s := w.Summarize(INST, m)
	c.Evals += s.States
	okRet := len(s.Exits) > 0
	for _, e := range s.Exits {
		if desc(e.Ret.Results[1]) != desc(newMD)+"#0" {
			okRet = false
		}
	}
	c.Check(okRet, "order/returns-new-metadata", "the metadata returned as new is the metadata the source executable reported", w.FnPos(INST), "")
}

var c20SemverValid = []string{"0.0.4", "1.2.3", "10.20.30", "1.1.2-prerelease+meta", "1.1.2+meta", "1.1.2+meta-valid", "1.0.0-alpha", "1.0.0-beta", "1.0.0-alpha.beta", "1.0.0-alpha.beta.1", "1.0.0-alpha.1",
	"1.0.0-alpha0.valid", "1.0.0-alpha.0valid", "1.0.0-alpha-a.b-c-somethinglong+build.1-aef.1-its-okay", "1.0.0-rc.1+build.1", "2.0.0-rc.1+build.123", "1.2.3-beta", "10.2.3-DEV-SNAPSHOT", "1.2.3-SNAPSHOT-123",
	"1.0.0", "2.0.0", "1.1.7", "2.0.0+build.1848", "2.0.1-alpha.1227", "1.0.0-alpha+beta", "1.2.3----RC-SNAPSHOT.12.9.1--.12+788", "1.2.3----R-S.12.9.1--.12+meta", "1.2.3----RC-SNAPSHOT.12.9.1--.12",
	"1.0.0+0.build.1-rc.10000aaa-kk-0.1", "99999999999999999999999.999999999999999999.99999999999999999", "1.0.0-0A.is.legal", "0.0.0", "1.0.0-0", "1.0.0-a.0"}

var c20SemverInvalid = []string{"", "1", "1.2", "1.2.3-0123", "1.2.3-0123.0123", "1.1.2+.123", "+invalid", "-invalid", "-invalid+invalid", "-invalid.01", "alpha", "alpha.beta", "alpha.beta.1", "alpha.1", "alpha+beta",
	"alpha_beta", "alpha.", "alpha..", "beta", "1.0.0-alpha_beta", "-alpha.", "1.0.0-alpha..", "1.0.0-alpha..1", "1.0.0-alpha...1", "01.1.1", "1.01.1", "1.1.01", "1.2.3.DEV", "1.2-SNAPSHOT",
	"1.2.31.2.3----RC-SNAPSHOT.12.09.1--..12+788", "1.2-RC-SNAPSHOT", "-1.0.3-gamma+b7718", "+justmeta", "9.8.7+meta+meta", "9.8.7-whatever+meta+meta", "v1.2.3", "1.2.3 ", " 1.2.3", "1.2.3\n", "1.2.3-", "1.2.3+", "1.2.3-a.",
	"1.2.3-.a", "1.2.3-01", "1.2.x", "1..3", "1.2.3-é", "1.2.3+a_b"}

// (e) version comparison
func c20Semver(c *Ctx, cmpC, newMD, oldMD, gateCall *ssa.Call) {
	w := c.W
	// the arguments of the comparison and the metadata call of the existing plugin may live in helper frames below Install:
	// everything is rewritten into Install's frame (a parameter of a helper is what the call of the helper passes for it)
	INST := newMD.Parent()
	a0, a1 := c20DescInRoot(c.W, INST, cmpC, cmpC.Call.Args[0]), c20DescInRoot(c.W, INST, cmpC, cmpC.Call.Args[1])
	oldD := c20DescInRoot(c.W, INST, oldMD, oldMD)
	_ = gateCall
	okArgs := strings.HasPrefix(a0, desc(newMD)+"#0.") && strings.HasPrefix(a1, oldD+"#0.") && strings.TrimPrefix(a0, desc(newMD)+"#0") == strings.TrimPrefix(a1, oldD+"#0")
	if !okArgs {
		// the existing metadata may be read through the variable holding it
		okArgs = strings.HasPrefix(a0, desc(newMD)+"#0.") && strings.Contains(a1, oldD+"#0") && strings.HasSuffix(a1, a0[strings.LastIndex(a0, "."):])
	}
	c.Check(okArgs, "semver/argument-order", "the comparison receives (version reported by the new plugin, version reported by the existing plugin), in this order", w.InstrPos(cmpC), a0+" vs "+a1)
	CMP := staticCallee(cmpC)
	if CMP == nil {
		c.Unk("semver/anchor", "anchor: ComparePluginVersion", "-", "not static")
		return
	}
	c.SeenFn(CMP.String())
	s := w.Summarize(CMP, Mode{Kind: mErr})
	c.Evals += s.States
	pv, pw := "param:"+CMP.Params[0].Name(), "param:"+CMP.Params[1].Name()
	var V *ssa.Function
	for _, ci := range allCalls(CMP) {
		if g := staticCallee(ci); g != nil && w.IsProductFn(g) && len(ci.Common().Args) == 1 && desc(ci.Common().Args[0]) == pv {
			V = g
		}
	}
	if V == nil {
		c.Bad("semver/validated", "both versions pass the module's own validity predicate before they are compared", w.FnPos(CMP), "no module predicate is applied to the first version")
		return
	}
	c.requireOnExits("semver", CMP, s.Exits, []Need{
		{Name: "first-valid", What: "validity predicate on the first version", Subs: []string{"T(call:" + fnName(V) + "(" + pv + "))"}},
		{Name: "second-valid", What: "validity predicate on the second version", Subs: []string{"T(call:" + fnName(V) + "(" + pw + "))"}},
	})
	okRet := len(s.Exits) > 0
	for _, e := range s.Exits {
		d := desc(e.Ret.Results[0])
		if d != `call:xsemver.Compare((const:"v" + `+pv+`),(const:"v" + `+pw+`))` {
			okRet = false
		}
	}
	c.Check(okRet, "semver/compare", `the result is x/mod semver.Compare("v"+first, "v"+second) (precedence order, build metadata ignored)`, w.FnPos(CMP), func() string {
		if len(s.Exits) > 0 {
			return desc(s.Exits[0].Ret.Results[0])
		}
		return ""
	}())
	// the predicate: constant pattern classifies the corpus
	c.SeenFn(V.String())
	pat := ""
	okShape := false
	for _, b := range V.Blocks {
		if r, ok := blockTerm(b).(*ssa.Return); ok && len(V.Blocks) == 1 {
			d := desc(r.Results[0])
			const pre = "call:(*regexp.Regexp).MatchString(global:ngo/internal/semver."
			if strings.HasPrefix(d, pre) && strings.HasSuffix(d, ",param:"+V.Params[0].Name()+")") {
				gname := strings.TrimSuffix(strings.TrimPrefix(d, pre), ",param:"+V.Params[0].Name()+")")
				if e, p := w.pkgVarInit("internal/semver", gname); e != nil {
					if call, ok := e.(*ast.CallExpr); ok && len(call.Args) == 1 {
						if v, ok := constOfExpr(p, call.Args[0]); ok {
							pat, okShape = v, true
						}
					}
				}
				// never reassigned
				for _, fn := range w.FuncsOfPkg("internal/semver") {
					if fn.Name() == "init" {
						continue
					}
					for _, bb := range fn.Blocks {
						for _, in := range bb.Instrs {
							if st, ok := in.(*ssa.Store); ok && desc(st.Addr) == "global:ngo/internal/semver."+gname {
								okShape = false
							}
						}
					}
				}
			}
		}
	}
	if !okShape {
		c.Bad("semver/validity-pattern", "the validity predicate is a match of the whole string against a constant pattern", w.FnPos(V), "shape not recognised: the predicate is not `<constant regexp>.MatchString(version)`")
		return
	}
	re, err := regexp.Compile(pat)
	if err != nil {
		c.Bad("semver/validity-pattern", "the validity pattern compiles", w.FnPos(V), err.Error())
		return
	}
	var wrong []string
	for _, s := range c20SemverValid {
		if !re.MatchString(s) {
			wrong = append(wrong, "rejects valid "+fmt.Sprintf("%q", s))
		}
	}
	for _, s := range c20SemverInvalid {
		if re.MatchString(s) {
			wrong = append(wrong, "accepts invalid "+fmt.Sprintf("%q", s))
		}
	}
	c.Evals += len(c20SemverValid) + len(c20SemverInvalid)
	c.Check(len(wrong) == 0, "semver/validity-pattern", fmt.Sprintf("the constant validity pattern classifies the semver.org corpus (%d valid, %d invalid strings, incl. shorthand, leading zeros, empty identifiers, leading v, surrounding blanks) correctly", len(c20SemverValid), len(c20SemverInvalid)), w.FnPos(V), strings.Join(wrong, "; "))
}

// (f) discovery and directory copy
func c20Discovery(c *Ctx, INST *ssa.Function) {
	w := c.W
	// every WalkDir callback of the install tree
	n := 0
	for _, f := range c20Tree(w, INST) {
		for _, ci := range findCalls(f, "path/filepath.WalkDir") {
			k := c20ResolveWalk(w, f, ci)
			if k == nil {
				c.Unk("discovery/walk-callback", "the WalkDir callback is a function literal, a method value with pointer receiver or a function", w.InstrPos(ci), "not recognised")
				continue
			}
			n++
			c.SeenFn(k.cb.String())
			c20SkipDirW(c, k)
			c20WalkErrW(c, k)
			// fifth pass: the walk skeleton in a helper that hands every entry to a function its caller named (c20Delegates):
			// the walk clause (SkipDir) was just decided on the helper, once for all callers; the clauses about what is done
			// with an entry are decided on each caller's action, in the caller
			via, why := c20Delegates(k)
			if via == nil && why != "" {
				c.Bad("discovery/walk-callback", "a walk that hands its entries to a function it was given is nothing but a walk: the function is only called by the WalkDir callback, with the callback's path and entry, and its answer is returned", w.InstrPos(ci), why)
				continue
			}
			if via != nil {
				for _, g := range c20Tree(w, INST) {
					for _, site := range allCalls(g) {
						if staticCallee(site) != f {
							continue
						}
						k2 := c20ResolveVia(w, g, site, via)
						if k2 == nil {
							c.Unk("discovery/walk-callback", "the function handed to the walk helper is a function literal, a method value with pointer receiver or a function", w.InstrPos(site), "not recognised")
							continue
						}
						n++
						c.SeenFn(k2.cb.String())
						c20SkipOnlyDirs(c, k2)
						if g.Signature.Results().Len() == 3 {
							c20CandidatesW(c, k2)
						} else {
							c20DirCopyW(c, k2)
						}
					}
				}
				continue
			}
			if f.Signature.Results().Len() == 3 {
				c20CandidatesW(c, k)
			} else {
				c20DirCopyW(c, k)
			}
		}
	}
	if n < 2 {
		c.Unk("discovery#count", "vacuity guard: WalkDir callbacks in the install call tree (source parser, directory copy)", "-", fmt.Sprintf("%d", n))
	}
}

// c20SkipDir: for a directory entry other than the walk root the callback returns SkipDir.
// (Kept for callers that hold the parts of a walk; the rule itself is c20SkipDirW.)
func c20SkipDir(c *Ctx, outer, cl *ssa.Function, root ssa.Value, mc *ssa.MakeClosure) {
	for _, ci := range findCalls(outer, "path/filepath.WalkDir") {
		if k := c20ResolveWalk(c.W, outer, ci); k != nil && k.cb == cl && k.mc == mc && ci.Common().Args[0] == root {
			c20SkipDirW(c, k)
			return
		}
	}
	c.Bad("discovery/skip-sub-directories/"+fnName(outer), "the WalkDir callback returns SkipDir for every directory entry whose path differs from the walk root (sub-directories are never entered, whatever their name)", c.W.FnPos(cl), "the walk of this callback was not found")
}

// c20SkipDirW. The callback sees the walk root through a cell it shares with the function that started the walk (a
// captured variable, or a field of the object a method value is bound to): the cell holds, at the WalkDir call, the very
// value that is passed as the root, the callback never assigns it, and nothing else can (c20Walk.confined) — so a load
// of that cell inside the callback is the walk root in either form.
func c20SkipDirW(c *Ctx, k *c20Walk) {
	w := c.W
	outer, cl := k.outer, k.cb
	fi := w.Info(cl)
	key := "discovery/skip-sub-directories/" + fnName(outer)
	rule := "the WalkDir callback returns SkipDir for every directory entry whose path differs from the walk root (sub-directories are never entered, whatever their name)"
	// the root as seen inside the callback
	rd := desc(k.rootArg())
	rc := k.rootCell()
	if rc < 0 {
		c.Bad(key, rule, w.FnPos(cl), "the callback does not see the walk root "+rd)
		return
	}
	if ok, why := k.confined(); !ok {
		c.Bad(key, rule, w.FnPos(cl), "the state shared between "+fnName(outer)+" and the callback is not confined to them: "+why)
		return
	}
	rootIn := k.innerDesc(rc)
	p := "param:" + k.pathParam().Name()
	d := "param:" + k.entryParam().Name()
	// the edges on which the entry is known to be a directory — whichever way the test is spelled (`if d.IsDir()`, the
	// else edge of `if !d.IsDir()`, a case of a switch, the type bits of the entry)
	// (the tests on the entry itself; a test on its Info comes after the decision about sub-directories)
	isDirT := anyOf(c20EntryLabels(d, "dir", true)[:2]...)
	var starts []state
	for _, b := range cl.Blocks {
		iff, ok := blockTerm(b).(*ssa.If)
		if !ok || len(b.Succs) != 2 {
			continue
		}
		for j := 0; j < 2; j++ {
			if isDirT(condLabel(iff.Cond, j == 0), iff, j == 0) {
				starts = append(starts, state{b.Succs[j].Index, 0, -1})
			}
		}
	}
	if len(starts) == 0 {
		c.Bad(key, rule, w.FnPos(cl), "no `d.IsDir()` test in the callback")
		return
	}
	cut := fi.edgesMatching(anyOf("EQ("+p+","+rootIn+")", "EQ("+rootIn+","+p+")"))
	nRoot := len(cut)
	for e := range fi.edgesMatching(anyOf(c20EntryLabels(d, "dir", false)...)) {
		cut[e] = true // a later test that finds the entry not to be a directory contradicts the start: not a path of a directory
	}
	// every return reachable now must return SkipDir
	seen := map[int]bool{}
	var stack []int
	for _, s := range starts {
		stack = append(stack, s.b)
	}
	okAll := true
	detail := ""
	for len(stack) > 0 {
		bi := stack[len(stack)-1]
		stack = stack[:len(stack)-1]
		if seen[bi] {
			continue
		}
		seen[bi] = true
		b := cl.Blocks[bi]
		if r, ok := blockTerm(b).(*ssa.Return); ok {
			rd := desc(r.Results[0])
			if rd != "global:io/fs.SkipDir" && rd != "global:path/filepath.SkipDir" {
				okAll = false
				detail = "a directory entry that is not the root reaches `return " + rd + "` at " + w.InstrPos(r)
			}
		}
		for j, s := range b.Succs {
			if !cut[edgeKey{bi, j}] {
				stack = append(stack, s.Index)
			}
		}
	}
	c.Evals++
	if nRoot == 0 {
		okAll = false
		detail = "the callback never compares its path with the walk root (" + rootIn + "): " + detail
	}
	// sixth pass: and nothing else is reachable from the entry of the callback for such an entry — every path that does
	// not pass "not a directory" or "path == root" ends in SkipDir or fails the walk (c20SubDirsAnswered): a test that is
	// there but no longer decides (`cond && d.IsDir() && p != root`) lets sub-directories through
	if okAll {
		if why := c20SubDirsAnswered(w, cl, p, d, rootIn); why != "" {
			okAll, detail = false, why
		}
	}
	c.Check(okAll, key, rule, w.FnPos(cl), detail)
	c20SkipOnlyDirs(c, k)
}

// c20SkipOnlyDirs (fifth pass; the clause behind seed C20-6 decided for what it says instead of by the shape of the
// callback): SkipDir answered for an entry that is not a directory makes WalkDir skip the rest of the directory that
// holds the entry (and SkipAll ends the walk) without an error — the top-level files after that entry are then neither
// candidates nor copied, and the walk still succeeds. So every return of the per-entry function that can yield SkipDir
// or SkipAll must lie behind "this entry is a directory" (d.IsDir(), or the directory bit of the entry's own type or
// Info). For the action a walk helper runs, the facts the helper's callback established before the call count as well
// (guardsAt) — a helper that runs the action on regular files only leaves the action no return that may skip.
func c20SkipOnlyDirs(c *Ctx, k *c20Walk) {
	w := c.W
	cl := k.cb
	d := "param:" + k.entryParam().Name()
	info := "call:invoke:io/fs.DirEntry.Info(" + d + ")#0"
	isDir := []string{
		"T(call:invoke:io/fs.DirEntry.IsDir(" + d + "))",
		"T(call:(io/fs.FileMode).IsDir(call:invoke:io/fs.DirEntry.Type(" + d + ")))",
		"T(call:(io/fs.FileMode).IsDir(call:invoke:io/fs.FileInfo.Mode(" + info + ")))",
		"T(call:invoke:io/fs.FileInfo.IsDir(" + info + "))",
	}
	key := "discovery/skip-only-directories/" + fnName(k.outer)
	rule := "the per-entry function of a walk answers SkipDir / SkipAll only for an entry that is a directory (skipping at a file silently drops the files after it)"
	ok, site, detail := true, w.FnPos(cl), ""
	for _, b := range cl.Blocks {
		r, isRet := blockTerm(b).(*ssa.Return)
		if !isRet || len(r.Results) == 0 {
			continue
		}
		rd := desc(r.Results[len(r.Results)-1])
		if !strings.Contains(rd, "fs.SkipDir") && !strings.Contains(rd, "fs.SkipAll") && !strings.Contains(rd, "filepath.SkipDir") && !strings.Contains(rd, "filepath.SkipAll") {
			continue
		}
		g := k.guardsAt(r)
		has := false
		for _, l := range isDir {
			if labelHas(g, l) {
				has = true
			}
		}
		if !has {
			ok, site, detail = false, w.InstrPos(r), "`return "+trunc(rd, 80)+"` is reachable for an entry that is not known to be a directory"
		}
	}
	c.Evals++
	c.Check(ok, key, rule, site, detail)
}

// c20Candidates: the source parser. (Kept for callers that hold the parts of a walk; the rule itself is c20CandidatesW.)
func c20Candidates(c *Ctx, P, cl *ssa.Function) {
	for _, ci := range findCalls(P, "path/filepath.WalkDir") {
		if k := c20ResolveWalk(c.W, P, ci); k != nil && k.cb == cl {
			c20CandidatesW(c, k)
			return
		}
	}
	c.Bad("discovery/pair-from-same-entry", "the (executable, name) pair recorded for an executable entry is that entry's path and the name parsed from that entry's own file name", c.W.FnPos(cl), "the walk of this callback was not found")
}

// c20CandidatesW: the source parser, decided on the cells the callback shares with the parser (c20Walk) instead of on
// captured variables only. What a load of a cell yields is decided by reaching definitions: after the walk, and with
// no store of the parser in between, a cell holds what the callback left there; a cell the parser itself assigned
// (`name, err = parse(Base(candidate))` into an already declared variable) holds that assigned value — the cells are
// confined to the two functions, so no call in between can change them.
func c20CandidatesW(c *Ctx, k *c20Walk) {
	w := c.W
	P, cl := k.outer, k.cb
	p := "param:" + k.pathParam().Name()
	d := "param:" + k.entryParam().Name()
	parser := c20NameParser(w)
	// helpers by role, never by name: the file-name parser (string -> (string, error), cuts the binary prefix),
	// the executable test ((string) -> (bool, error), applied to the entry path), the chmod helper ((string) -> error)
	PN, EXE, SETX := "call:?", "call:?", "call:?"
	if parser != nil {
		PN = "call:" + fnName(parser)
	}
	for _, f := range []*ssa.Function{cl, P} {
		for _, ci := range allCalls(f) {
			g := staticCallee(ci)
			if g == nil || !w.IsProductFn(g) || g.Signature.Params().Len() != 1 {
				continue
			}
			if b, ok := g.Signature.Params().At(0).Type().Underlying().(*types.Basic); !ok || b.Kind() != types.String {
				continue
			}
			res := g.Signature.Results()
			switch {
			case res.Len() == 2 && res.At(0).Type().String() == "bool" && isErrorType(res.At(1).Type()):
				EXE = "call:" + fnName(g)
			case res.Len() == 1 && isErrorType(res.At(0).Type()) && f == P:
				SETX = "call:" + fnName(g)
			}
		}
	}
	conf, confWhy := k.confined()
	// stores to shared cells
	caps := k.stores(true)
	reg := "T(call:(io/fs.FileMode).IsRegular(call:invoke:io/fs.FileInfo.Mode(call:invoke:io/fs.DirEntry.Info(" + d + ")#0)))"
	okReg := len(caps) > 0
	for _, cp := range caps {
		// (an action run by a walk helper: what the helper's callback established before the call holds at its entry)
		if !labelHas(k.guardsAt(cp.st), reg) {
			okReg = false
		}
	}
	c.Check(okReg, "discovery/regular-files-only", "the callback records candidates only for entries whose own Info says regular file", w.FnPos(cl), "")
	// the exits of the parser: "found" exits return what the walk left — in two cells, or in the two fields of the record
	// one cell points to (c20Read); every other one is a fallback
	s := w.Summarize(P, Mode{Kind: mErr})
	c.Evals += s.States
	type pair struct{ fc, ff, nc, nf int } // (cell, field) of the file and of the name; field -1: the cell's content
	found := map[pair]bool{}
	var fallbacks []*ExitSum
	var odd []string
	for _, e := range s.Exits {
		if len(e.Ret.Results) < 3 {
			continue
		}
		fr, nr := k.readOf(e.Ret.Results[0], e.Ret), k.readOf(e.Ret.Results[1], e.Ret)
		switch {
		case fr.ok && nr.ok && fr.cell >= 0 && nr.cell >= 0 && !fr.elem && !nr.elem && ((fr.field < 0 && nr.field < 0) || (fr.field >= 0 && nr.field >= 0 && fr.cell == nr.cell)):
			found[pair{fr.cell, fr.field, nr.cell, nr.field}] = true
		case fr.ok && (fr.cell < 0 || fr.elem):
			fallbacks = append(fallbacks, e)
		default:
			odd = append(odd, w.InstrPos(e.Ret))
		}
	}
	parsedName := "call:invoke:io/fs.DirEntry.Name(" + d + ")"
	parsed := PN + "(" + parsedName + ")"
	parsed0 := callForm(parser, 0, parsedName)
	// what the callback leaves in (cell, field): the value it stores into the cell, or the value it put into that field of
	// the record it stores (a pointer to) — a record it built in this very invocation (c20RecordOf)
	leaves := func(cell, field int) (sts []*ssa.Store, vals []ssa.Value) {
		for _, cp := range caps {
			if cp.cell != cell {
				continue
			}
			v := cp.st.Val
			if field >= 0 {
				_, rv, ok := c20RecordOf(v)
				if v = nil; ok {
					v = rv[field]
				}
			}
			sts, vals = append(sts, cp.st), append(vals, v)
		}
		return sts, vals
	}
	// the name parsed from this entry's name, directly or through a cell assigned in this invocation on every path to the store
	isParsedName := func(nv ssa.Value) bool {
		if nv == nil {
			return false
		}
		if _, x, ok := k.value(nv, true); ok && x != nil {
			nv = x
		}
		return parser != nil && desc(nv) == parsed0
	}
	// the record types involved are written by nobody once a record is built
	quiet := func(T types.Type) (bool, string) {
		st, _ := c20StructOf(T)
		if st == nil {
			return true, ""
		}
		if pt, isPtr := T.Underlying().(*types.Pointer); isPtr {
			T = pt.Elem()
		}
		fns := append([]*ssa.Function{cl}, c20Tree(w, P)...)
		return c20RecordsQuiet(w, fns, T)
	}
	cellType := func(cell int) types.Type {
		var t types.Type
		if k.recv != nil {
			if f := fieldOf(k.recv.Type(), cell); f != nil {
				t = f.Type()
			}
		} else if pt, ok := k.cb.FreeVars[cell].Type().Underlying().(*types.Pointer); ok {
			t = pt.Elem()
		}
		return t
	}
	rule := "the (executable, name) pair recorded for an executable entry is that entry's path and the name parsed from that entry's own file name in the same callback invocation; a second executable is refused"
	// the cells that mark "an executable was recorded": a bool set to true together with the pair and tested false before;
	// or the cell holding the pointer to the executable's record itself — nil when the walk starts, tested nil before the
	// store, and the store puts the address of an object there (never nil)
	// or (fourth pass) the cell holding the executable's path — or its parsed name — itself: a string cell that is empty when
	// the walk starts, that the callback assigns only behind `cell == ""`, and only a value that is never empty (c20StrMark)
	marks := map[int]bool{}
	ptrMarks := map[int]bool{}
	strMarks := map[int]bool{}
	switch {
	case len(odd) > 0:
		c.Bad("discovery/pair-from-same-entry", rule, odd[0], "the values returned on this exit are not decided by one definition (a cell the walk filled in, or one assignment)")
	case len(found) != 1:
		c.Bad("discovery/pair-from-same-entry", rule, w.FnPos(cl), fmt.Sprintf("the values returned on the found-executable exit are not set by the callback (%d exits return what the walk left in two shared cells)", len(found)))
	case !conf:
		c.Bad("discovery/pair-from-same-entry", rule, w.FnPos(cl), "the state shared between the parser and the callback is not confined to them: "+confWhy)
	default:
		var pr pair
		for q := range found {
			pr = q
		}
		stsF, valsF := leaves(pr.fc, pr.ff)
		stsN, valsN := leaves(pr.nc, pr.nf)
		okFile, okName, gates, second := len(stsF) > 0 && len(stsN) > 0, true, true, true
		site := w.FnPos(cl)
		why := ""
		if pr.ff >= 0 {
			if ok, w2 := quiet(cellType(pr.fc)); !ok {
				okFile, why = false, "; "+w2
			}
		}
		for i, stF := range stsF {
			partner := false
			for _, stN := range stsN {
				if stN.Block() == stF.Block() {
					partner = true
				}
			}
			if !partner || valsF[i] != ssa.Value(k.pathParam()) {
				okFile = false
			}
		}
		for i, stN := range stsN {
			site = w.InstrPos(stN)
			partner := false
			for _, stF := range stsF {
				if stN.Block() == stF.Block() {
					partner = true
				}
			}
			if !partner {
				okFile = false
			}
			if !isParsedName(valsN[i]) {
				okName = false
			}
			g := k.guardsAt(stN)
			if !(labelHas(g, "EQ("+parsed+"#err,nil)") && labelHas(g, "T("+EXE+"("+p+")#0)") && labelHas(g, "EQ("+EXE+"("+p+")#err,nil)")) {
				gates = false
			}
			has := false
			for _, cp := range caps {
				if !k.cellIsBool(cp.cell) || desc(cp.st.Val) != "const:true" {
					continue
				}
				near := cp.st.Block() == stN.Block() || cp.st.Block().Dominates(stN.Block()) || stN.Block().Dominates(cp.st.Block())
				if near && labelHas(g, "F("+k.innerDesc(cp.cell)+")") && labelHas(k.guardsAt(cp.st), "F("+k.innerDesc(cp.cell)+")") {
					marks[cp.cell] = true
					has = true
				}
			}
			if pr.nf >= 0 && !has {
				// the pointer cell as its own mark
				_, isObj := stN.Val.(*ssa.Alloc)
				defs := k.defsBefore(k.call, pr.nc, false)
				startsNil := len(defs) == 1 && !defs[0].walk
				if startsNil && !defs[0].entry {
					v, zero, ok := k.defValue(defs[0], pr.nc)
					startsNil = ok && (zero || (v != nil && isNilConst(v)))
				}
				if isObj && startsNil && (labelHas(g, "EQ("+k.innerDesc(pr.nc)+",nil)") || labelHas(g, "EQ(nil,"+k.innerDesc(pr.nc)+")")) {
					ptrMarks[pr.nc] = true
					has = true
				}
			}
			if pr.ff < 0 && pr.nf < 0 && !has {
				// the path cell, or the name cell, as its own mark
				for _, cell := range []int{pr.fc, pr.nc} {
					if c20StrMark(k, cell, g, parser, parsed0) {
						strMarks[cell] = true
						has = true
					}
				}
			}
			if !has {
				second = false
			}
		}
		c.Check(okFile && okName && gates && second, "discovery/pair-from-same-entry", rule, site, fmt.Sprintf("path is the entry=%v name parsed from the entry=%v gates(parse ok, executable)=%v second-executable refused=%v%s", okFile, okName, gates, second, why))
	}
	// the fallback: single non-executable candidate
	rule = "the fallback (no executable found) is taken only with exactly one well-named regular file; it returns that file and the name parsed from that file's own base name, after setting its executable bit succeeded"
	if len(fallbacks) == 0 {
		c.OK("discovery/fallback-pair", rule+" (no fallback exit present)", w.FnPos(P))
	}
	for _, fallback := range fallbacks {
		r0 := fallback.Ret.Results[0]
		r1 := fallback.Ret.Results[1]
		fr := k.readOf(r0, fallback.Ret)
		nr := k.readOf(r1, fallback.Ret)
		if _, x, ok := k.value(r1, false); ok && x != nil && nr.cell < 0 {
			r1 = x // a variable the parser assigned and nothing could change since
		}
		f, n := desc(r0), desc(r1)
		// the list: the returned file is element 0 — or a field of the record that is element 0 — of what the walk left in
		// a shared cell
		L := -1
		if fr.ok && fr.elem {
			L = fr.cell
		}
		okN, okL, okSrc, parsedAtAppend := false, false, false, false
		if L >= 0 && conf {
			lst := k.outerDesc(L)
			okL = desc(fr.list) == lst && labelHas(fallback.Checked, "EQ(len("+lst+"),const:1)") && k.seesOnlyWalk(L)
			// the list holds the callback's well-named regular entries: every store to it appends this invocation's path —
			// or this invocation's record (path, name parsed from this entry's name) — behind a successful parse of the name
			cnt := 0
			okSrc = true
			for _, cp := range caps {
				if cp.cell != L {
					continue
				}
				cnt++
				lv, ev, isApp := c20AppendOne(cp.st.Val)
				if !isApp || desc(lv) != k.innerDesc(L) || !labelHas(k.guardsAt(cp.st), "EQ("+parsed+"#err,nil)") {
					okSrc = false
					continue
				}
				if c2, _, isLoad := k.loadOf(lv, true); !isLoad || c2 != L {
					okSrc = false
				}
				if fr.field < 0 {
					if ev != ssa.Value(k.pathParam()) {
						okSrc = false
					}
					continue
				}
				_, rv, isRec := c20RecordOf(ev)
				if !isRec || rv[fr.field] != ssa.Value(k.pathParam()) {
					okSrc = false
					continue
				}
				if nr.ok && nr.elem && nr.cell == L && nr.field >= 0 && isParsedName(rv[nr.field]) {
					parsedAtAppend = true
				} else if nr.elem {
					okSrc = false
				}
			}
			okSrc = okSrc && cnt > 0
			if fr.field >= 0 {
				T := cellType(L)
				if sl, isSlice := T.Underlying().(*types.Slice); isSlice {
					T = sl.Elem()
				}
				if ok, _ := quiet(T); !ok {
					okSrc = false
				}
			}
		}
		// the name: parsed again from the base name of the returned file (and that parse checked), or the name field of the
		// same list element, which the callback parsed from the entry's own name before it appended the record
		okParse := false
		switch {
		case nr.ok && nr.elem:
			okN = parsedAtAppend && okSrc
			okParse = okN
		default:
			okN = parser != nil && n == callForm(parser, 0, "call:path/filepath.Base("+f+")")
			okParse = labelHas(fallback.Checked, "EQ("+PN+"(call:path/filepath.Base("+f+"))#err,nil)")
		}
		okE := okParse && labelHas(fallback.Checked, "EQ("+SETX+"("+f+")#err,nil)")
		okF := false
		for _, b := range c20SortedInts(marks) {
			if labelHas(fallback.Checked, "F("+k.outerDesc(b)+")") && k.seesOnlyWalk(b) {
				okF = true
			}
		}
		for _, b := range c20SortedInts(ptrMarks) {
			if (labelHas(fallback.Checked, "EQ("+k.outerDesc(b)+",nil)") || labelHas(fallback.Checked, "EQ(nil,"+k.outerDesc(b)+")")) && k.seesOnlyWalk(b) {
				okF = true
			}
		}
		for _, b := range c20SortedInts(strMarks) {
			if (labelHas(fallback.Checked, "EQ("+k.outerDesc(b)+",const:\"\")") || labelHas(fallback.Checked, "EQ(const:\"\","+k.outerDesc(b)+")")) && k.seesOnlyWalk(b) {
				okF = true
			}
		}
		c.Check(okN && okL && okE && okF && okSrc, "discovery/fallback-pair", rule, w.InstrPos(fallback.Ret), fmt.Sprintf("name from that file=%v exactly one=%v errors checked=%v only without executable=%v list of well-named entries=%v (returns %s, %s)", okN, okL, okE, okF, okSrc, trunc(f, 60), trunc(n, 90)))
	}
	// source must be a directory, else the sentinel
	c.requireOnExits("discovery", P, s.Exits, []Need{
		{Name: "source-is-directory", What: "the source path is a directory (os.Stat ok, Mode().IsDir())", Subs: []string{"T(call:(io/fs.FileMode).IsDir(call:invoke:os.FileInfo.Mode(call:os.Stat("}},
		{Name: "walk-error", What: "WalkDir err == nil", Subs: []string{"EQ(call:path/filepath.WalkDir(", "#err,nil)"}},
	})
}

// c20DirCopy: the directory copy copies every regular top-level file with the single-file copy.
// (Kept for callers that hold the parts of a walk; the rule itself is c20DirCopyW.)
func c20DirCopy(c *Ctx, D, cl *ssa.Function) {
	for _, ci := range findCalls(D, "path/filepath.WalkDir") {
		if k := c20ResolveWalk(c.W, D, ci); k != nil && k.cb == cl {
			c20DirCopyW(c, k)
			return
		}
	}
	c.Bad("copy/directory", "the directory copy copies entries with the module's single-file copy", c.W.FnPos(cl), "the walk of this callback was not found")
}

// c20DirCopyW. The destination handed to the single-file copy is read from a cell the callback shares with the directory
// copy (captured variable or field of the bound object) that the callback never assigns and that holds, when the walk
// starts, a parameter of the directory copy other than the walk root — i.e. the destination directory the caller named.
func c20DirCopyW(c *Ctx, k *c20Walk) {
	w := c.W
	D, cl := k.outer, k.cb
	p := "param:" + k.pathParam().Name()
	d := "param:" + k.entryParam().Name()
	var cp *ssa.Call
	for _, ci := range allCalls(cl) {
		if cc, ok := ci.(*ssa.Call); ok {
			if g := staticCallee(cc); g != nil && w.IsProductFn(g) && c20Reach(w, g)["write"] {
				cp = cc
			}
		}
	}
	if cp == nil {
		c.Bad("copy/directory", "the directory copy copies entries with the module's single-file copy", w.FnPos(cl), "no copy call in the callback")
		return
	}
	g := k.guardsAt(cp)
	reg := "T(call:(io/fs.FileMode).IsRegular(call:invoke:io/fs.FileInfo.Mode(call:invoke:io/fs.DirEntry.Info(" + d + ")#0)))"
	okArgs := len(cp.Call.Args) == 2 && desc(cp.Call.Args[0]) == p && c20WalkSeesOuterParam(k, cp.Call.Args[1])
	// its error is returned: every return a path from the copy can reach returns the copy's result, or lies behind
	// `result == nil` (c20ReturnsResult — also when the copy and a `return nil` share one block, as in an action that is
	// nothing but the copy)
	okErr := c20ReturnsResult(w, cl, cp)
	// every regular entry is copied (sixth pass: asked from the entry of the per-entry function, not from the true edge of
	// the test — a test that no longer decides, `cond && IsRegular()`, leaves the `return nil` after it reachable for a
	// regular file): with the edges into the copy and the edges "not a regular file" / "a directory" removed, no return
	// that lets the walk go on is reachable (c20NoSuccessWithout). When the walk sits in a helper, the same holds for the
	// helper's callback and its calls of the action, and for the action and its copy; the helper's callback returns what
	// the action answers (c20Delegates)
	okAll := c20NoSuccessWithout(w, cl, d, []*ssa.Call{cp}) == ""
	if k.via != nil {
		hk := k.via.hk
		okAll = okAll && c20NoSuccessWithout(w, hk.cb, "param:"+hk.entryParam().Name(), k.via.calls) == ""
	}
	c.Evals += 2
	c.Check(labelHas(g, reg) && okArgs && okErr && okAll, "copy/directory", "the directory copy hands every regular top-level entry (judged on the entry's own Info), and nothing else, to the single-file copy with the destination directory, and returns its error", w.InstrPos(cp),
		fmt.Sprintf("regular only=%v arguments=%v error returned=%v every regular entry copied=%v", labelHas(g, reg), okArgs, okErr, okAll))
	// the single-file copy writes dst/Base(src)
	F := staticCallee(cp)
	c.SeenFn(F.String())
	var cr *ssa.Call
	for _, ci := range findCalls(F, "os.Create", "os.OpenFile") {
		cr = ci.(*ssa.Call)
	}
	if cr == nil {
		c.Bad("copy/file-destination", "the single-file copy creates dst/Base(src)", w.FnPos(F), "no os.Create")
		return
	}
	want := "call:path/filepath.Join({param:" + F.Params[1].Name() + ",call:path/filepath.Base(param:" + F.Params[0].Name() + ")})"
	s := w.Summarize(F, Mode{Kind: mErr})
	c.Evals += s.States
	okCopy := len(s.Exits) > 0
	for _, e := range s.Exits {
		rd := desc(spilledRet(e.Ret.Results[0]))
		viaRet := strings.HasPrefix(rd, "call:io.Copy("+desc(cr)+"#0,call:os.Open(param:"+F.Params[0].Name()+")#0)")
		if e.Tail != "io.Copy" && !viaRet {
			if _, ok := hasLabel(e.Checked, "EQ(call:io.Copy("+desc(cr)+"#0,call:os.Open(param:"+F.Params[0].Name()+")#0)", "#err,nil)"); !ok {
				okCopy = false
			}
		}
	}
	gs := w.Info(F).GuardsOf(cr)
	_, okRegSrc := hasLabel(gs, "T(call:(io/fs.FileMode).IsRegular(call:invoke:os.FileInfo.Mode(call:os.Stat(param:"+F.Params[0].Name()+")#0)))")
	c.Check(desc(cr.Call.Args[0]) == want && okCopy && okRegSrc, "copy/file-destination", "the single-file copy requires a regular source, creates exactly Join(dst, Base(src)) and succeeds only if io.Copy succeeded", w.InstrPos(cr), fmt.Sprintf("creates %s; copy error propagated=%v; regular source=%v", desc(cr.Call.Args[0]), okCopy, okRegSrc))
	_ = D
}

// (g) binName / parsePluginName agreement
func c20Names(c *Ctx) {
	w := c.W
	P := c20NameParser(w)
	// binName by role: the string -> string function Get joins under the plugin name
	var B *ssa.Function
	if get := w.Method("plugin", "CLIManager", "Get"); get != nil {
		for _, f := range w.moduleCallees(get) {
			for _, ci := range allCalls(f) {
				g := staticCallee(ci)
				if g == nil || !w.IsProductFn(g) || g.Signature.Recv() != nil || g.Signature.Params().Len() != 1 || g.Signature.Results().Len() != 1 || g.Signature.Results().At(0).Type().String() != "string" {
					continue
				}
				if b, ok := g.Signature.Params().At(0).Type().Underlying().(*types.Basic); ok && b.Kind() == types.String && fnPkg(g).Path() == modPath+"/plugin" {
					B = g
				}
			}
		}
	}
	if B == nil || P == nil {
		c.Unk("names/anchor", "anchor: binName and parsePluginName", "-", "not found")
		return
	}
	c.SeenFn(B.String())
	c.SeenFn(P.String())
	prefix, _ := w.depConstString("github.com/notaryproject/notation-plugin-framework-go/plugin", "BinaryPrefix")
	bd := ""
	for _, b := range B.Blocks {
		if r, ok := blockTerm(b).(*ssa.Return); ok {
			bd = desc(r.Results[0])
		}
	}
	q := fmt.Sprintf("const:%q", prefix)
	okB := prefix != "" && (bd == "("+q+" + param:"+B.Params[0].Name()+")" || bd == "(("+q+" + param:"+B.Params[0].Name()+") + const:\".exe\")")
	s := w.Summarize(P, Mode{Kind: mErr})
	c.Evals += s.States
	okP := len(s.Exits) > 0 && prefix != ""
	for _, e := range s.Exits {
		if !c20CutsPrefix(e, q, len(prefix)) {
			okP = false
		}
	}
	c.Check(okB && okP, "names/prefix-agreement", "binName(name) is the constant prefix + name (+ .exe on windows) and parsePluginName succeeds only by cutting that same constant prefix off a longer file name: the executable copied under its own base name is what Get(name) looks for", w.FnPos(P), fmt.Sprintf("binName returns %s; parse ok=%v", bd, okP))
}

// c20CutsPrefix: on this success exit the function returns its input X without the constant prefix q, and X is
// strictly longer than q. Three spellings of the same computation are accepted:
//
//	(a) after, found := strings.CutPrefix(X, q) behind `found` and `after != ""`;
//	(b) X[len(q):] behind strings.HasPrefix(X, q) and len(X) != len(q) (or > len(q), >= len(q)+1): HasPrefix says
//	    X = q·r, the slice from len(q) is r — what CutPrefix hands back — and a length different from len(q) says r != "";
//	(c) strings.TrimPrefix(X, q) behind strings.HasPrefix(X, q) (TrimPrefix then is X[len(q):]) and the same length
//	    test, or a non-empty test of the result.
//
// In every spelling the prefix is the same constant q that binName prepends, and the rest is non-empty.
func c20CutsPrefix(e *ExitSum, q string, n int) bool {
	r := e.Ret.Results[0]
	d := desc(r)
	longer := func(X string) bool {
		return labelHas(e.Checked, fmt.Sprintf("NE(len(%s),const:%d)", X, n)) || labelHas(e.Checked, fmt.Sprintf("GT(len(%s),const:%d)", X, n)) ||
			labelHas(e.Checked, fmt.Sprintf("GE(len(%s),const:%d)", X, n+1))
	}
	// (a)
	if strings.HasPrefix(d, "call:strings.CutPrefix(") && strings.HasSuffix(d, ","+q+")#0") {
		return labelHas(e.Checked, "T("+strings.TrimSuffix(d, "#0")+"#1)") && labelHas(e.Checked, "NE("+d+",const:\"\")")
	}
	// (b)
	if sl, ok := r.(*ssa.Slice); ok && sl.High == nil && sl.Max == nil && sl.Low != nil {
		if b, isStr := sl.X.Type().Underlying().(*types.Basic); !isStr || b.Info()&types.IsString == 0 {
			return false
		}
		X := desc(sl.X)
		return desc(sl.Low) == fmt.Sprintf("const:%d", n) && labelHas(e.Checked, "T(call:strings.HasPrefix("+X+","+q+"))") && longer(X)
	}
	// (c)
	if call, ok := r.(*ssa.Call); ok && calleeName(call) == "strings.TrimPrefix" && len(call.Call.Args) == 2 && desc(call.Call.Args[1]) == q {
		X := desc(call.Call.Args[0])
		return labelHas(e.Checked, "T(call:strings.HasPrefix("+X+","+q+"))") && (longer(X) || labelHas(e.Checked, "NE("+d+",const:\"\")"))
	}
	return false
}

// spilledRet resolves a defer-spilled result (`*r = v; rundefers; t = *r; return t`) to v.
func spilledRet(v ssa.Value) ssa.Value {
	un, ok := v.(*ssa.UnOp)
	if !ok {
		return v
	}
	al, ok := un.X.(*ssa.Alloc)
	if !ok {
		return v
	}
	b := un.Block()
	var last ssa.Value
	for _, in := range b.Instrs {
		if in == ssa.Instruction(un) {
			break
		}
		if st, ok := in.(*ssa.Store); ok && st.Addr == ssa.Value(al) {
			last = st.Val
		}
	}
	if last != nil {
		return last
	}
	return v
}

// c20NameParser: the function of the plugin package that turns an executable file name into a plugin name
// (string -> (string, error), cutting the framework's binary prefix).
func c20NameParser(w *World) *ssa.Function {
	for _, fn := range w.FuncsOfPkg("plugin") {
		sig := fn.Signature
		if sig.Recv() != nil || sig.Params().Len() != 1 || sig.Results().Len() != 2 || sig.Results().At(0).Type().String() != "string" || !isErrorType(sig.Results().At(1).Type()) {
			continue
		}
		if len(findCalls(fn, "strings.CutPrefix", "strings.TrimPrefix", "strings.HasPrefix")) > 0 {
			return fn
		}
	}
	return nil
}

// c20GateHelper: the helper that holds the version comparison returns nil exactly when the comparison returned no
// error and +1 (decided by abstract interpretation of the helper over error x {-1, 0, +1}).
func c20GateHelper(c *Ctx, gateCall, cmpC *ssa.Call) bool {
	w := c.W
	H := staticCallee(gateCall)
	c.SeenFn(H.String())
	hi := w.Info(H)
	var bad []string
	n := 0
	for _, ce := range []bool{false, true} {
		for _, comp := range []int64{-1, 0, 1} {
			hook := func(in ssa.Instruction, env map[ssa.Value]AVal) (AVal, bool) {
				v, ok := in.(ssa.Value)
				if !ok {
					return AVal{}, false
				}
				if ex, ok := v.(*ssa.Extract); ok && ex.Tuple == ssa.Value(cmpC) {
					if ex.Index == 0 {
						return AVal{Kind: aInt, Int: comp}, true
					}
					if ce {
						return AVal{Kind: aNonNil}, true
					}
					return AVal{Kind: aNil}, true
				}
				return AVal{}, false
			}
			ip := &Interp{Fn: H, Hook: hook, IntTypes: map[string]bool{"*": true}}
			for _, o := range ip.Run(H.Blocks[0], nil, map[ssa.Value]AVal{}, nil, nil) {
				n++
				if o.Ret == nil {
					continue
				}
				e := o.Ret.Results[len(o.Ret.Results)-1]
				isNil := isNilConst(e)
				nonNil := hi.nonNil(e, o.Ret.Block())
				wantNil := !ce && comp == 1
				if wantNil && !isNil {
					bad = append(bad, fmt.Sprintf("err=%v comp=%d: a refusal is possible although the new version is higher", ce, comp))
				}
				if !wantNil && !nonNil {
					bad = append(bad, fmt.Sprintf("err=%v comp=%d: the helper may answer nil", ce, comp))
				}
			}
		}
	}
	c.Evals += n
	c.Check(len(bad) == 0 && n > 0, "table/version-gate-helper", "the helper holding the version comparison answers nil exactly when the comparison returned no error and new > existing", w.FnPos(H), strings.Join(uniq(bad), "; "))
	return len(bad) == 0 && n > 0
}
