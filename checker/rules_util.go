package main

import (
	"strconv"
	"fmt"
	"go/ast"
	"go/constant"
	"go/token"
	"go/types"
	"regexp"
	"sort"
	"strings"
	"unicode/utf8"

	"golang.org/x/tools/go/packages"
	"golang.org/x/tools/go/ssa"
)

// implementers returns, for every named type of a product package that
// implements the interface rel.iface, its declared method `method`.
func (w *World) implementers(rel, iface, method string) []*ssa.Function {
	p := w.Pkg(rel)
	if p == nil {
		return nil
	}
	obj := p.Pkg.Scope().Lookup(iface)
	if obj == nil {
		return nil
	}
	it, ok := obj.Type().Underlying().(*types.Interface)
	if !ok {
		return nil
	}
	var out []*ssa.Function
	for _, sp := range w.Product {
		names := sp.Pkg.Scope().Names()
		for _, n := range names {
			tn, ok := sp.Pkg.Scope().Lookup(n).(*types.TypeName)
			if !ok || tn.IsAlias() {
				continue
			}
			if _, isIface := tn.Type().Underlying().(*types.Interface); isIface {
				continue
			}
			for _, recv := range []types.Type{types.NewPointer(tn.Type()), tn.Type()} {
				if !types.Implements(recv, it) {
					continue
				}
				sel := w.Prog.MethodSets.MethodSet(recv).Lookup(sp.Pkg, method)
				if sel == nil {
					// exported method of another package
					for i := 0; i < w.Prog.MethodSets.MethodSet(recv).Len(); i++ {
						s := w.Prog.MethodSets.MethodSet(recv).At(i)
						if s.Obj().Name() == method {
							sel = s
						}
					}
				}
				if sel == nil {
					continue
				}
				fn := w.Prog.MethodValue(sel)
				if fn == nil {
					continue
				}
				// prefer the declared function over wrappers
				if fn.Synthetic != "" {
					if d := w.declaredMethod(sel.Obj().(*types.Func)); d != nil {
						fn = d
					}
				}
				dup := false
				for _, o := range out {
					if o == fn {
						dup = true
					}
				}
				if !dup && fn.Blocks != nil && w.IsProductFn(fn) {
					out = append(out, fn)
				}
				break
			}
		}
	}
	sort.Slice(out, func(i, j int) bool { return out[i].String() < out[j].String() })
	return out
}

func (w *World) declaredMethod(f *types.Func) *ssa.Function {
	return w.Prog.FuncValue(f)
}

// constValue returns the string value of a package-level constant.
func (w *World) constString(rel, name string) (string, bool) {
	p := w.Pkg(rel)
	if p == nil {
		return "", false
	}
	c, ok := p.Pkg.Scope().Lookup(name).(*types.Const)
	if !ok || c.Val().Kind() != constant.String {
		return "", false
	}
	return constant.StringVal(c.Val()), true
}

func (w *World) depConstString(pkgPath, name string) (string, bool) {
	p := w.ByPath[pkgPath]
	if p == nil {
		return "", false
	}
	c, ok := p.Types.Scope().Lookup(name).(*types.Const)
	if !ok || c.Val().Kind() != constant.String {
		return "", false
	}
	return constant.StringVal(c.Val()), true
}

// Need is a label requirement: some label must contain all of Subs, or all of
// one of the Alt lists.
type Need struct {
	Name string
	What string
	Subs []string
	Alt  [][]string
	Re   *regexp.Regexp
}

func (n Need) match(labels map[string]string) (string, bool) {
	if n.Re != nil {
		for _, l := range labelList(labels) {
			if n.Re.MatchString(l) {
				return l, true
			}
		}
	}
	if len(n.Subs) > 0 {
		if l, ok := hasLabel(labels, n.Subs...); ok {
			return l, true
		}
	}
	for _, a := range n.Alt {
		if l, ok := hasLabel(labels, a...); ok {
			return l, true
		}
	}
	return "", false
}

// requireOnExits checks that every given exit carries every need.
func (c *Ctx) requireOnExits(prefix string, fn *ssa.Function, exits []*ExitSum, needs []Need) {
	w := c.W
	c.SeenFn(fn.String())
	for _, n := range needs {
		key := prefix + "/" + n.Name
		rule := "must-check: every success-capable exit of " + fnName(fn) + " is reachable only through the passing edge of: " + n.What
		if len(exits) == 0 {
			c.Unk(key, rule, w.FnPos(fn), "the function has no success-capable exit under this mode: rule does not recognise its shape")
			continue
		}
		okAll := true
		for _, ex := range exits {
			c.Evals++
			if l, ok := n.match(ex.Checked); ok {
				_ = l
				continue
			}
			okAll = false
			c.Bad(key, rule, w.InstrPos(ex.Ret),
				fmt.Sprintf("success-capable exit at %s (block b%d) is reachable without that check; facts that do hold on every path to it: %s",
					w.InstrPos(ex.Ret), ex.Ret.Block().Index, summarizeLabels(ex.Checked, 12)))
			break
		}
		if okAll {
			site := w.FnPos(fn)
			if l, ok := n.match(exits[0].Checked); ok {
				site = exits[0].Checked[l]
			}
			c.OK(key, rule, site)
		}
	}
}

func summarizeLabels(m map[string]string, max int) string {
	ls := labelList(m)
	var out []string
	for _, l := range ls {
		l = trunc(l, 160)
		out = append(out, l)
		if len(out) >= max {
			out = append(out, fmt.Sprintf("… (%d more)", len(ls)-max))
			break
		}
	}
	return "{" + strings.Join(out, "; ") + "}"
}

// findCalls returns the call instructions of fn (not closures) whose callee
// name matches one of the names.
func findCalls(fn *ssa.Function, names ...string) []ssa.CallInstruction {
	var out []ssa.CallInstruction
	for _, c := range allCalls(fn) {
		if isCallTo(c, names...) {
			out = append(out, c)
		}
	}
	return out
}

// findCallsDeep also searches closures.
func findCallsDeep(fn *ssa.Function, names ...string) []ssa.CallInstruction {
	out := findCalls(fn, names...)
	for _, a := range closuresOf(fn) {
		out = append(out, findCalls(a, names...)...)
	}
	return out
}

// moduleCallees returns the static product callees reachable from fn
// (including fn), depth-limited.
func (w *World) moduleCallees(fn *ssa.Function) []*ssa.Function {
	seen := map[*ssa.Function]bool{}
	var order []*ssa.Function
	var rec func(f *ssa.Function)
	rec = func(f *ssa.Function) {
		if seen[f] || f.Blocks == nil || !w.IsProductFn(f) {
			return
		}
		seen[f] = true
		order = append(order, f)
		for _, c := range allCalls(f) {
			if g := staticCallee(c); g != nil {
				rec(g)
			}
		}
		for _, a := range f.AnonFuncs {
			rec(a)
		}
	}
	rec(fn)
	return order
}

// astFuncDecl finds the syntax of a function.
func (w *World) funcSyntax(fn *ssa.Function) ast.Node {
	return fn.Syntax()
}

// pkgVarInit returns the initialiser expression of a package-level variable.
func (w *World) pkgVarInit(rel, name string) (ast.Expr, *packages.Package) {
	p := w.Pkg(rel)
	if p == nil {
		return nil, nil
	}
	pp := w.ByPath[p.Pkg.Path()]
	for _, f := range pp.Syntax {
		for _, d := range f.Decls {
			gd, ok := d.(*ast.GenDecl)
			if !ok || gd.Tok != token.VAR {
				continue
			}
			for _, s := range gd.Specs {
				vs := s.(*ast.ValueSpec)
				for i, n := range vs.Names {
					if n.Name == name && i < len(vs.Values) {
						return vs.Values[i], pp
					}
				}
			}
		}
	}
	return nil, nil
}

// constOfExpr evaluates a constant expression via type info.
func constOfExpr(p *packages.Package, e ast.Expr) (string, bool) {
	tv, ok := p.TypesInfo.Types[e]
	if !ok || tv.Value == nil {
		return "", false
	}
	if tv.Value.Kind() == constant.String {
		return constant.StringVal(tv.Value), true
	}
	return tv.Value.ExactString(), true
}

// mapLiteral extracts a constant map literal {k: v} (through &T{...Field: map{...}}).
func mapLiteral(p *packages.Package, e ast.Expr) (map[string]string, bool) {
	cl, ok := e.(*ast.CompositeLit)
	if !ok {
		return nil, false
	}
	out := map[string]string{}
	for _, el := range cl.Elts {
		kv, ok := el.(*ast.KeyValueExpr)
		if !ok {
			return nil, false
		}
		k, ok1 := constOfExpr(p, kv.Key)
		v, ok2 := constOfExpr(p, kv.Value)
		if !ok1 || !ok2 {
			// identifiers of non-constant values (e.g. digest.SHA256 var): use the qualified name
			if !ok1 {
				k = types.ExprString(kv.Key)
			}
			if !ok2 {
				v = types.ExprString(kv.Value)
			}
		}
		out[k] = v
	}
	return out, true
}

// structLitField returns the value expression of a field in a (pointer to)
// struct composite literal.
func structLitField(e ast.Expr, field string) ast.Expr {
	if u, ok := e.(*ast.UnaryExpr); ok && u.Op == token.AND {
		e = u.X
	}
	cl, ok := e.(*ast.CompositeLit)
	if !ok {
		return nil
	}
	for _, el := range cl.Elts {
		if kv, ok := el.(*ast.KeyValueExpr); ok {
			if id, ok := kv.Key.(*ast.Ident); ok && id.Name == field {
				return kv.Value
			}
		}
	}
	return nil
}

// rangeLoops returns, for each `range` loop in fn, the Next instruction, the
// ranged operand, the body entry block and the loop header block.
type rangeLoop struct {
	Next   *ssa.Next
	X      ssa.Value
	Header *ssa.BasicBlock // block containing Next
	Body   *ssa.BasicBlock // successor taken when an element exists
	Exit   *ssa.BasicBlock
}

func rangeLoops(fn *ssa.Function) []rangeLoop {
	var out []rangeLoop
	for _, b := range fn.Blocks {
		for _, in := range b.Instrs {
			n, ok := in.(*ssa.Next)
			if !ok {
				continue
			}
			iff, ok := blockTerm(b).(*ssa.If)
			if !ok {
				continue
			}
			// cond must be Extract(next, 0)
			ex, ok := iff.Cond.(*ssa.Extract)
			if !ok || ex.Tuple != n || ex.Index != 0 {
				continue
			}
			out = append(out, rangeLoop{Next: n, X: rangeOperand(n), Header: b, Body: b.Succs[0], Exit: b.Succs[1]})
		}
	}
	return out
}

// sliceLoops recognises the index loops go/ssa generates for `range` over
// slices/arrays: header block with phi index, `i < len(x)` test.
type sliceLoop struct {
	X      ssa.Value
	Header *ssa.BasicBlock
	Body   *ssa.BasicBlock
	Exit   *ssa.BasicBlock
	Elem   ssa.Value // the element value/address loaded in the body, if found
}

func sliceLoops(fn *ssa.Function) []sliceLoop {
	var out []sliceLoop
	for _, b := range fn.Blocks {
		iff, ok := blockTerm(b).(*ssa.If)
		if !ok {
			continue
		}
		bo, ok := iff.Cond.(*ssa.BinOp)
		if !ok || bo.Op != token.LSS {
			continue
		}
		// rangeindex loops: t = phi or t+1; cond t < len(x)
		if !strings.HasPrefix(b.Comment, "rangeindex.loop") && !strings.HasPrefix(b.Comment, "for.loop") {
			continue
		}
		if _, isK := bo.Y.(*ssa.Const); isK && strings.HasPrefix(b.Comment, "rangeindex.loop") {
			// range over an array: the bound is a constant; the ranged operand is what the body indexes with the loop index
			var x ssa.Value
			for bi := range loopBlocks(b) {
				for _, in := range fn.Blocks[bi].Instrs {
					switch ia := in.(type) {
					case *ssa.IndexAddr:
						if ia.Index == bo.X {
							x = ia.X
						}
					case *ssa.Index:
						if ia.Index == bo.X {
							x = ia.X
						}
					}
				}
			}
			if x != nil {
				out = append(out, sliceLoop{X: x, Header: b, Body: b.Succs[0], Exit: b.Succs[1]})
			}
			continue
		}
		lenCall, ok := bo.Y.(*ssa.Call)
		if !ok {
			continue
		}
		if bi, ok := lenCall.Call.Value.(*ssa.Builtin); !ok || bi.Name() != "len" {
			continue
		}
		out = append(out, sliceLoop{X: lenCall.Call.Args[0], Header: b, Body: b.Succs[0], Exit: b.Succs[1]})
	}
	return out
}

// loopBlocks returns the blocks of the natural loop with the given header
// (blocks that can reach the header without leaving through exit).
func loopBlocks(header *ssa.BasicBlock) map[int]bool {
	in := map[int]bool{header.Index: true}
	var stack []*ssa.BasicBlock
	for _, p := range header.Preds {
		if header.Dominates(p) {
			if !in[p.Index] {
				in[p.Index] = true
				stack = append(stack, p)
			}
		}
	}
	for len(stack) > 0 {
		b := stack[len(stack)-1]
		stack = stack[:len(stack)-1]
		for _, p := range b.Preds {
			if !in[p.Index] {
				in[p.Index] = true
				stack = append(stack, p)
			}
		}
	}
	return in
}

// trunc cuts a string at a rune boundary.
func trunc(s string, n int) string {
	if len(s) <= n {
		return s
	}
	for n > 0 && !utf8.RuneStart(s[n]) {
		n--
	}
	return s[:n] + "…"
}

// paramWhere returns "param:<name>" of the first parameter (receiver included) whose type satisfies pred;
// rules never spell parameter names: they are not part of the behaviour.
func paramWhere(fn *ssa.Function, pred func(types.Type) bool) string {
	for _, p := range fn.Params {
		if pred(p.Type()) {
			return "param:" + p.Name()
		}
	}
	return "param:?"
}

func isByteSlice(t types.Type) bool {
	sl, ok := t.Underlying().(*types.Slice)
	if !ok {
		return false
	}
	b, ok := sl.Elem().Underlying().(*types.Basic)
	return ok && b.Kind() == types.Byte
}

func isFuncType(t types.Type) bool {
	_, ok := t.Underlying().(*types.Signature)
	return ok
}

func isNamed(name string) func(types.Type) bool {
	return func(t types.Type) bool { return namedOf(t) == name }
}

// hasField: a struct (or pointer to struct) type with a field of that name, embedded structs included.
func hasField(field string) func(types.Type) bool {
	return func(t types.Type) bool {
		if p, ok := t.Underlying().(*types.Pointer); ok {
			t = p.Elem()
		}
		if _, ok := t.Underlying().(*types.Struct); !ok {
			return false
		}
		obj, _, _ := types.LookupFieldOrMethod(t, true, nil, field)
		if obj == nil {
			// unexported fields need the package; search by hand
			st := t.Underlying().(*types.Struct)
			for i := 0; i < st.NumFields(); i++ {
				if st.Field(i).Name() == field {
					return true
				}
			}
			return false
		}
		_, isVar := obj.(*types.Var)
		return isVar
	}
}

// paramFedBy returns "param:<name>" of the parameter of fn that every static caller in the product code feeds
// with a value whose access path ends in suffix (e.g. ".TrustedIdentities"): the role of a parameter is
// given by what callers pass, not by its name.
func (w *World) paramFedBy(fn *ssa.Function, suffix string) string {
	return w.paramFedByDepth(fn, suffix, 4)
}

func (w *World) paramFedByDepth(fn *ssa.Function, suffix string, depth int) string {
	idx := -1
	n := 0
	for _, g := range w.Funcs {
		for _, ci := range allCalls(g) {
			if staticCallee(ci) != fn {
				continue
			}
			n++
			args := ci.Common().Args
			found := -1
			for i, a := range args {
				if strings.HasSuffix(desc(a), suffix) {
					found = i
				} else if p, ok := a.(*ssa.Parameter); ok && depth > 0 && g != fn {
					// handed through: the caller's own parameter plays that role
					if w.paramFedByDepth(g, suffix, depth-1) == "param:"+p.Name() {
						found = i
					}
				}
			}
			if found < 0 || (idx >= 0 && idx != found) {
				return "param:?"
			}
			idx = found
		}
	}
	if n == 0 || idx < 0 || idx >= len(fn.Params) {
		return "param:?"
	}
	return "param:" + fn.Params[idx].Name()
}

// probeAgreement: optional-interface probes. For every comma-ok type assertion `v.(I)` in fn where I is an
// interface declared in the module and v has interface type J: every product type that implements J and has a
// method named like a method of I must implement I — otherwise the probe silently answers false for the
// library's own implementation (a signature drifted) and the optional behaviour is lost.
func probeAgreement(c *Ctx, fn *ssa.Function, prefix string) {
	w := c.W
	fns := []*ssa.Function{fn}
	fns = append(fns, closuresOf(fn)...)
	for _, f := range fns {
		for _, b := range f.Blocks {
			for _, in := range b.Instrs {
				ta, ok := in.(*ssa.TypeAssert)
				if !ok || !ta.CommaOk {
					continue
				}
				I, ok := ta.AssertedType.Underlying().(*types.Interface)
				if !ok || I.NumMethods() == 0 {
					continue
				}
				named, ok := ta.AssertedType.(*types.Named)
				if !ok || named.Obj().Pkg() == nil || !strings.HasPrefix(named.Obj().Pkg().Path(), modPath) {
					continue
				}
				J, ok := ta.X.Type().Underlying().(*types.Interface)
				if !ok {
					continue
				}
				rule := "optional-interface probe: every product type that implements " + abbrev(types.TypeString(ta.X.Type(), nil)) + " and has a method named like one of " + abbrev(types.TypeString(ta.AssertedType, nil)) + " implements that interface (the probe cannot silently miss the library's own implementation)"
				n := 0
				var bad []string
				for _, sp := range w.Product {
					for _, nm := range sp.Pkg.Scope().Names() {
						tn, ok := sp.Pkg.Scope().Lookup(nm).(*types.TypeName)
						if !ok || tn.IsAlias() {
							continue
						}
						if _, isI := tn.Type().Underlying().(*types.Interface); isI {
							continue
						}
						for _, T := range []types.Type{types.NewPointer(tn.Type()), tn.Type()} {
							if !types.Implements(T, J) {
								continue
							}
							ms := w.Prog.MethodSets.MethodSet(T)
							has := false
							for i := 0; i < I.NumMethods(); i++ {
								for k := 0; k < ms.Len(); k++ {
									if ms.At(k).Obj().Name() == I.Method(i).Name() {
										has = true
									}
								}
							}
							if !has {
								break
							}
							n++
							if !types.Implements(T, I) {
								bad = append(bad, abbrev(types.TypeString(T, nil)))
							}
							break
						}
					}
				}
				c.Evals++
				key := prefix + "/" + named.Obj().Name()
				if len(bad) > 0 {
					c.Bad(key, rule, w.InstrPos(ta), "has the method by name but does not implement the probed interface (signature mismatch): "+strings.Join(bad, ", "))
				} else {
					c.OK(key, rule+fmt.Sprintf(" [%d implementing types]", n), w.InstrPos(ta))
				}
			}
		}
	}
}

// isFormattingCall: fmt.* and logger calls — they render values into text and take no part in the behaviour a rule is about.
func isFormattingCall(ci ssa.CallInstruction) bool {
	n := calleeName(ci)
	return strings.HasPrefix(n, "fmt.") || strings.HasPrefix(n, "invoke:ngo/log.Logger.") || strings.HasPrefix(n, "log.") || strings.HasPrefix(n, "invoke:log.")
}

// onlyFormatted: this use of a value (one referrer) ends, through interface boxing and variadic argument
// slices, only in formatting / logging calls.
func onlyFormatted(r ssa.Instruction, depth int) bool {
	if depth > 6 {
		return false
	}
	all := func(v ssa.Value) bool {
		refs := v.Referrers()
		if refs == nil {
			return true
		}
		for _, rr := range *refs {
			if !onlyFormatted(rr, depth+1) {
				return false
			}
		}
		return true
	}
	switch x := r.(type) {
	case *ssa.DebugRef:
		return true
	case *ssa.MakeInterface:
		return all(x)
	case *ssa.ChangeInterface:
		return all(x)
	case *ssa.Slice:
		return all(x)
	case *ssa.Store:
		// element of a variadic argument array
		if ia, ok := x.Addr.(*ssa.IndexAddr); ok {
			if al, ok := ia.X.(*ssa.Alloc); ok {
				for _, ar := range *al.Referrers() {
					switch y := ar.(type) {
					case *ssa.IndexAddr:
					case *ssa.Slice:
						if !all(y) {
							return false
						}
					default:
						return false
					}
				}
				return true
			}
		}
		return false
	case ssa.CallInstruction:
		return isFormattingCall(x)
	}
	return false
}

// globalWhere returns the name ("algorithms") of the first package-level variable of the package whose type satisfies pred;
// unexported variables are identified by what they are, never by how they are called.
func (w *World) globalWhere(rel string, pred func(types.Type) bool) string {
	p := w.Pkg(rel)
	if p == nil {
		return "?"
	}
	for _, n := range p.Pkg.Scope().Names() {
		if v, ok := p.Pkg.Scope().Lookup(n).(*types.Var); ok && pred(v.Type()) {
			return v.Name()
		}
	}
	return "?"
}

// isHashDigestMap: map[crypto.Hash]digest.Algorithm
func isHashDigestMap(t types.Type) bool {
	m, ok := t.Underlying().(*types.Map)
	return ok && m.Key().String() == "crypto.Hash" && strings.HasSuffix(m.Elem().String(), "go-digest.Algorithm")
}

// errorGlobalsReturnedBy: the package-level error variables a function may return as its error result (sentinels).
func errorGlobalsReturnedBy(w *World, fn *ssa.Function) []string {
	var out []string
	for _, f := range w.moduleCallees(fn) {
		for _, b := range f.Blocks {
			if r, ok := blockTerm(b).(*ssa.Return); ok && len(r.Results) > 0 {
				d := desc(r.Results[len(r.Results)-1])
				if strings.HasPrefix(d, "global:") {
					out = append(out, d)
				}
			}
		}
	}
	return uniq(out)
}

// verifierTypeName: the (abbreviated) name of the product struct type implementing notation.Verifier.
func (w *World) verifierTypeName() string {
	for _, fn := range w.implementers("", "Verifier", "Verify") {
		if fn.Signature.Recv() != nil {
			return namedOf(fn.Signature.Recv().Type())
		}
	}
	return "?"
}

// freshDecodeTarget: the value json.Unmarshal decodes into is a local variable that nothing has written before the call
// (json.Unmarshal keeps every member the input omits: decoding over a filled struct merges the two).
func freshDecodeTarget(fi *FnInfo, call *ssa.Call) (bool, string) {
	tgt := unwrap(call.Call.Args[1])
	al, ok := tgt.(*ssa.Alloc)
	if !ok {
		return false, "the decode target " + desc(tgt) + " is not a local variable"
	}
	before := func(in ssa.Instruction) bool {
		if in.Block() == call.Block() {
			return instrIndex(in) < instrIndex(call)
		}
		return fi.reachHit([]state{{in.Block().Index, 0, -1}}, nil, blocksOf(call))
	}
	var walk func(addr ssa.Value, depth int) string
	walk = func(addr ssa.Value, depth int) string {
		if depth > 4 || addr.Referrers() == nil {
			return ""
		}
		for _, r := range *addr.Referrers() {
			switch x := r.(type) {
			case *ssa.Store:
				if x.Addr == addr && before(x) {
					if k, isK := x.Val.(*ssa.Const); isK && k.Value == nil {
						continue // zero value
					}
					return "it is written at " + fi.W.InstrPos(x) + " before the decode"
				}
			case *ssa.FieldAddr:
				if why := walk(x, depth+1); why != "" {
					return why
				}
			case *ssa.IndexAddr:
				if why := walk(x, depth+1); why != "" {
					return why
				}
			case *ssa.MakeInterface:
				for _, rr := range *x.Referrers() {
					if cc, ok := rr.(ssa.CallInstruction); ok && cc != ssa.CallInstruction(call) && before(cc.(ssa.Instruction)) && !isFormattingCall(cc) {
						if n := calleeName(cc); n != "encoding/json.Marshal" {
							return "it is handed to " + n + " before the decode"
						}
					}
				}
			case ssa.CallInstruction:
				if x != ssa.CallInstruction(call) && before(x.(ssa.Instruction)) && !isFormattingCall(x) {
					return "it is handed to " + calleeName(x) + " before the decode"
				}
			}
		}
		return ""
	}
	if why := walk(al, 0); why != "" {
		return false, "the decode target " + desc(al) + " is not fresh: " + why
	}
	return true, ""
}

// modeBits: what the facts say about the bits of a file mode value whose rendering starts with prefix.
// Understands `(M & mask) == val` / `!= 0` masks and the IsDir / IsRegular predicates.
//   dir / symlink: +1 known set, -1 known clear, 0 unknown; regular: the IsRegular predicate holds.
func modeBits(labels map[string]string, prefix string) (dir, symlink int, regular bool) {
	const bDir, bSym = uint64(1) << 31, uint64(1) << 27
	reMask := regexp.MustCompile(`^(EQ|NE)\(\((.*) & const:(\d+)\),const:(\d+)\)$`)
	for l := range labels {
		if strings.HasPrefix(l, "T(call:(io/fs.FileMode).IsDir("+prefix) {
			dir = 1
		}
		if strings.HasPrefix(l, "F(call:(io/fs.FileMode).IsDir("+prefix) {
			dir = -1
		}
		if strings.HasPrefix(l, "T(call:(io/fs.FileMode).IsRegular("+prefix) {
			regular, dir, symlink = true, -1, -1
		}
		m := reMask.FindStringSubmatch(l)
		if m == nil || !strings.HasPrefix(m[2], prefix) {
			continue
		}
		mask, _ := strconv.ParseUint(m[3], 10, 64)
		val, _ := strconv.ParseUint(m[4], 10, 64)
		if m[1] == "EQ" {
			for _, b := range []struct {
				bit uint64
				out *int
			}{{bDir, &dir}, {bSym, &symlink}} {
				if mask&b.bit != 0 {
					if val&b.bit != 0 {
						*b.out = 1
					} else {
						*b.out = -1
					}
				}
			}
		} else if val == 0 && mask&(mask-1) == 0 { // NE((M & bit),0): that single bit is set
			if mask == bDir {
				dir = 1
			}
			if mask == bSym {
				symlink = 1
			}
		}
	}
	return
}
