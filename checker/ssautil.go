package main

import (
	"fmt"
	"go/constant"
	"go/token"
	"go/types"
	"sort"
	"strings"

	"golang.org/x/tools/go/ssa"
)

var errorType = types.Universe.Lookup("error").Type()

func isErrorType(t types.Type) bool { return t != nil && types.Identical(t, errorType) }

func isNilConst(v ssa.Value) bool {
	c, ok := v.(*ssa.Const)
	return ok && c.IsNil()
}

var pathAbbrev = strings.NewReplacer(
	"github.com/notaryproject/notation-go/", "ngo/",
	"github.com/notaryproject/notation-go.", "ngo.",
	"github.com/notaryproject/notation-core-go/", "core/",
	"github.com/notaryproject/notation-plugin-framework-go/", "pfw/",
	"github.com/notaryproject/tspclient-go", "tspclient",
	"github.com/opencontainers/image-spec/specs-go/v1", "ocispec",
	"github.com/opencontainers/go-digest", "digest",
	"oras.land/oras-go/v2/", "oras/",
	"oras.land/oras-go/v2.", "oras.",
	"github.com/go-ldap/ldap/v3", "ldap",
	"golang.org/x/mod/semver", "xsemver",
)

func abbrev(s string) string { return pathAbbrev.Replace(s) }

// staticCallee returns the statically known callee of a call (following
// generic instances to their origin is left to the caller).
func staticCallee(c ssa.CallInstruction) *ssa.Function {
	return c.Common().StaticCallee()
}

// calleeName returns a canonical name for the callee of a call:
//   - static: the function's full name (generic instances: origin's name)
//   - interface invoke: "invoke:<pkg>.<Iface>.<Method>"
//   - builtin: "builtin:<name>"
//   - dynamic: "dyn:<desc of function value>"
func calleeName(c ssa.CallInstruction) string {
	cc := c.Common()
	if cc.IsInvoke() {
		recv := cc.Value.Type()
		return "invoke:" + abbrev(types.TypeString(recv, nil)) + "." + cc.Method.Name()
	}
	if f := cc.StaticCallee(); f != nil {
		n := fnName(f)
		// the module's own generic membership helper and the standard library's are the same predicate
		// (ContainsAny is the same loop over []any with interface equality: slices.Contains instantiated at any)
		if n == "ngo/internal/slices.Contains" || n == "ngo/internal/slices.ContainsAny" {
			return "slices.Contains"
		}
		return n
	}
	if b, ok := cc.Value.(*ssa.Builtin); ok {
		return "builtin:" + b.Name()
	}
	return "dyn:" + desc(cc.Value)
}

func fnName(f *ssa.Function) string {
	if o := f.Origin(); o != nil {
		f = o
	}
	return abbrev(f.String())
}

// isCallTo reports whether the call's static callee (or its generic origin)
// has the given full name, e.g. "encoding/json.Unmarshal" or
// "(*os.File).Close". Names are compared in abbreviated form.
func isCallTo(c ssa.CallInstruction, names ...string) bool {
	n := calleeName(c)
	for _, x := range names {
		if n == abbrev(x) {
			return true
		}
	}
	return false
}

// callArgs returns the arguments including the receiver for invoke calls.
func callArgs(c ssa.CallInstruction) []ssa.Value {
	cc := c.Common()
	if cc.IsInvoke() {
		return append([]ssa.Value{cc.Value}, cc.Args...)
	}
	return cc.Args
}

func fieldName(structPtrOrStruct types.Type, idx int) string {
	t := structPtrOrStruct.Underlying()
	if p, ok := t.(*types.Pointer); ok {
		t = p.Elem().Underlying()
	}
	if s, ok := t.(*types.Struct); ok && idx < s.NumFields() {
		return s.Field(idx).Name()
	}
	return fmt.Sprintf("f%d", idx)
}

func fieldOf(structPtrOrStruct types.Type, idx int) *types.Var {
	t := structPtrOrStruct.Underlying()
	if p, ok := t.(*types.Pointer); ok {
		t = p.Elem().Underlying()
	}
	if s, ok := t.(*types.Struct); ok && idx < s.NumFields() {
		return s.Field(idx)
	}
	return nil
}

// namedOf returns "pkgpath.Name" of a (pointer to) named type, abbreviated.
func namedOf(t types.Type) string {
	if p, ok := t.(*types.Pointer); ok {
		t = p.Elem()
	}
	if a, ok := t.(*types.Alias); ok {
		t = types.Unalias(a)
	}
	if n, ok := t.(*types.Named); ok {
		if n.Obj().Pkg() == nil {
			return n.Obj().Name()
		}
		return abbrev(n.Obj().Pkg().Path() + "." + n.Obj().Name())
	}
	return abbrev(types.TypeString(t, nil))
}

// singleStore returns the value stored into an Alloc if the Alloc is written
// by exactly one Store of the whole value and never through a field/index
// address or escaped into a call; otherwise nil.
func singleStore(a *ssa.Alloc) ssa.Value {
	refs := a.Referrers()
	if refs == nil {
		return nil
	}
	var st *ssa.Store
	for _, r := range *refs {
		switch x := r.(type) {
		case *ssa.Store:
			if x.Addr == a {
				if st != nil {
					return nil
				}
				st = x
			} else {
				return nil // address stored somewhere
			}
		case *ssa.UnOp: // load
		case *ssa.FieldAddr, *ssa.IndexAddr:
			if addrWritten(x.(ssa.Value), 0) {
				return nil
			}
		case *ssa.DebugRef:
		case *ssa.MakeClosure:
			// captured by a closure that only reads it: the variable still holds the one value stored
			if closureWrites(x, a, 0) {
				return nil
			}
		default:
			return nil // escapes (call argument, ...)
		}
	}
	if st == nil {
		return nil
	}
	return st.Val
}

// closureWrites: the closure (or one nested in it) may write the captured variable v, or lets its address escape.
func closureWrites(mc *ssa.MakeClosure, v ssa.Value, depth int) bool {
	fn, ok := mc.Fn.(*ssa.Function)
	if !ok || depth > 3 {
		return true
	}
	for k, b := range mc.Bindings {
		if b != v || k >= len(fn.FreeVars) {
			continue
		}
		fv := fn.FreeVars[k]
		if fv.Referrers() == nil {
			continue
		}
		for _, r := range *fv.Referrers() {
			switch y := r.(type) {
			case *ssa.UnOp, *ssa.DebugRef:
			case *ssa.FieldAddr, *ssa.IndexAddr:
				if addrWritten(y.(ssa.Value), 0) {
					return true
				}
			case *ssa.MakeClosure:
				if closureWrites(y, fv, depth+1) {
					return true
				}
			default:
				return true
			}
		}
	}
	return false
}

// addrWritten reports whether an address value (FieldAddr/IndexAddr chain) is
// stored through or escapes.
func addrWritten(v ssa.Value, depth int) bool {
	if depth > 6 {
		return true
	}
	refs := v.Referrers()
	if refs == nil {
		return false
	}
	for _, r := range *refs {
		switch x := r.(type) {
		case *ssa.Store:
			return true
		case *ssa.UnOp:
		case *ssa.FieldAddr:
			if addrWritten(x, depth+1) {
				return true
			}
		case *ssa.IndexAddr:
			if addrWritten(x, depth+1) {
				return true
			}
		case *ssa.DebugRef:
		default:
			return true
		}
	}
	return false
}

// unwrap strips value-preserving conversions.
func unwrap(v ssa.Value) ssa.Value {
	for {
		switch x := v.(type) {
		case *ssa.ChangeType:
			v = x.X
		case *ssa.Convert:
			v = x.X
		case *ssa.ChangeInterface:
			v = x.X
		case *ssa.MakeInterface:
			v = x.X
		default:
			return v
		}
	}
}

func constString(c *ssa.Const) string {
	if c.Value == nil {
		if c.IsNil() {
			return "nil"
		}
		return "zero:" + abbrev(types.TypeString(c.Type(), nil))
	}
	if c.Value.Kind() == constant.String {
		return fmt.Sprintf("%q", constant.StringVal(c.Value))
	}
	return c.Value.ExactString()
}

// desc describes a value by its access path / origin. It is used for
// labelling checks and for provenance matching.
func desc(v ssa.Value) string { return descDepth(v, 6) }

// Rendering is independent of the nesting context: the depth budget is only
// consumed by phi edges (which may be cyclic); an overall length cap keeps
// labels bounded.

func descDepth(v ssa.Value, depth int) string {
	if v == nil {
		return "?"
	}
	if depth <= 0 {
		return "…"
	}
	switch x := v.(type) {
	case *ssa.Const:
		return "const:" + constString(x)
	case *ssa.Parameter:
		return "param:" + x.Name()
	case *ssa.FreeVar:
		return "free:" + x.Name()
	case *ssa.Global:
		p := ""
		if x.Pkg != nil {
			p = x.Pkg.Pkg.Path() + "."
		}
		n := p + x.Name()
		// the os package re-exports the fs sentinels (os.ErrNotExist == fs.ErrNotExist, …): one name for one value
		switch n {
		case "os.ErrNotExist", "os.ErrExist", "os.ErrPermission", "os.ErrClosed", "os.ErrInvalid":
			n = "io/fs." + x.Name()
		}
		return "global:" + abbrev(n)
	case *ssa.Function:
		return "func:" + fnName(x)
	case *ssa.Builtin:
		return "builtin:" + x.Name()
	case *ssa.Alloc:
		if sv := singleStore(x); sv != nil {
			return descDepth(sv, depth)
		}
		name := x.Comment
		return "alloc:" + namedOf(x.Type()) + "<" + name + ">"
	case *ssa.FieldAddr:
		return descDepth(x.X, depth) + "." + fieldName(x.X.Type(), x.Field)
	case *ssa.Field:
		return descDepth(x.X, depth) + "." + fieldName(x.X.Type(), x.Field)
	case *ssa.UnOp:
		switch x.Op {
		case token.MUL:
			return descDepth(x.X, depth)
		case token.NOT:
			return "!" + descDepth(x.X, depth)
		case token.ARROW:
			return "<-" + descDepth(x.X, depth)
		default:
			return x.Op.String() + descDepth(x.X, depth)
		}
	case *ssa.IndexAddr:
		return descDepth(x.X, depth) + "[" + descIndex(x.Index) + "]"
	case *ssa.Index:
		return descDepth(x.X, depth) + "[" + descIndex(x.Index) + "]"
	case *ssa.Lookup:
		return descDepth(x.X, depth) + "[" + descDepth(x.Index, depth) + "]"
	case *ssa.Extract:
		if n, ok := x.Tuple.(*ssa.Next); ok {
			switch x.Index {
			case 0:
				return "rangeok(" + descDepth(rangeOperand(n), depth) + ")"
			case 1:
				return "rangekey(" + descDepth(rangeOperand(n), depth) + ")"
			default:
				return "rangeval(" + descDepth(rangeOperand(n), depth) + ")"
			}
		}
		if l, ok := x.Tuple.(*ssa.Lookup); ok && l.CommaOk {
			if x.Index == 1 {
				return "ok(" + descDepth(l, depth) + ")"
			}
			return descDepth(l, depth)
		}
		if ta, ok := x.Tuple.(*ssa.TypeAssert); ok && ta.CommaOk {
			if x.Index == 1 {
				return "ok(" + descDepth(ta, depth) + ")"
			}
			return descDepth(ta, depth)
		}
		if call, ok := x.Tuple.(*ssa.Call); ok && !isErrorType(x.Type()) {
			if s, ok := retExpr(call, x.Index, depth); ok {
				return s
			}
		}
		suffix := fmt.Sprintf("#%d", x.Index)
		if isErrorType(x.Type()) {
			suffix = "#err"
		}
		return descDepth(x.Tuple, depth) + suffix
	case *ssa.Call:
		name := calleeName(x)
		if name == "builtin:len" && len(x.Call.Args) == 1 {
			return "len(" + descDepth(x.Call.Args[0], depth) + ")"
		}
		if _, isTuple := x.Type().(*types.Tuple); !isTuple && !isErrorType(x.Type()) {
			if s, ok := retExpr(x, 0, depth); ok {
				return s
			}
		}
		var args []string
		for _, a := range callArgs(x) {
			args = append(args, descDepth(a, depth))
		}
		s := "call:" + name + "(" + strings.Join(args, ",") + ")"
		if isErrorType(x.Type()) {
			s += "#err"
		}
		return s
	case *ssa.MakeInterface:
		return descDepth(x.X, depth)
	case *ssa.ChangeType:
		return descDepth(x.X, depth)
	case *ssa.Convert:
		return descDepth(x.X, depth)
	case *ssa.ChangeInterface:
		return descDepth(x.X, depth)
	case *ssa.SliceToArrayPointer:
		return descDepth(x.X, depth)
	case *ssa.Phi:
		set := map[string]bool{}
		for _, e := range x.Edges {
			if e == v {
				continue
			}
			set[descDepth(e, depth-2)] = true
		}
		return "phi(" + strings.Join(sortedKeys(set), "|") + ")"
	case *ssa.BinOp:
		return "(" + descDepth(x.X, depth) + " " + x.Op.String() + " " + descDepth(x.Y, depth) + ")"
	case *ssa.Slice:
		// a slice literal / variadic argument list: render its elements
		if al, ok := x.X.(*ssa.Alloc); ok && x.Low == nil && x.High == nil && (al.Comment == "varargs" || al.Comment == "slicelit") {
			if els := orderedLitElems(al); els != nil {
				var parts []string
				for _, e := range els {
					parts = append(parts, descDepth(e, depth))
				}
				return "{" + strings.Join(parts, ",") + "}"
			}
		}
		// s[:strings.Index(s, sep)] and s[strings.Index(s, sep)+len(sep):] are the two halves strings.Cut(s, sep) returns
		if cut, ok := cutHalf(x, depth); ok {
			return cut
		}
		s := descDepth(x.X, depth) + "["
		if x.Low != nil {
			s += descDepth(x.Low, depth)
		}
		s += ":"
		if x.High != nil {
			s += descDepth(x.High, depth)
		}
		return s + "]"
	case *ssa.MakeClosure:
		return "closure:" + descDepth(x.Fn, depth)
	case *ssa.TypeAssert:
		return "assert(" + descDepth(x.X, depth) + "," + abbrev(types.TypeString(x.AssertedType, nil)) + ")"
	case *ssa.MakeMap:
		return "makemap:" + abbrev(types.TypeString(x.Type(), nil))
	case *ssa.MakeSlice:
		return "makeslice:" + abbrev(types.TypeString(x.Type(), nil))
	case *ssa.Range:
		return "range(" + descDepth(x.X, depth) + ")"
	case *ssa.Next:
		return "next(" + descDepth(rangeOperand(x), depth) + ")"
	}
	return fmt.Sprintf("%T", v)
}

// descIndex renders a slice/array/string index: constants by value, anything
// else by the identity of the SSA value ("@t7"), which is independent of the
// nesting depth at which the expression is rendered and distinguishes two
// induction variables of the same shape.
func descIndex(v ssa.Value) string {
	if c, ok := v.(*ssa.Const); ok {
		return "const:" + constString(c)
	}
	return "@" + v.Name()
}

// orderedLitElems returns the values stored at constant indices of a local
// array literal, in index order (nil if some element is missing).
func orderedLitElems(al *ssa.Alloc) []ssa.Value {
	pt, ok := al.Type().Underlying().(*types.Pointer)
	if !ok {
		return nil
	}
	arr, ok := pt.Elem().Underlying().(*types.Array)
	if !ok || arr.Len() > 8 {
		return nil
	}
	out := make([]ssa.Value, arr.Len())
	for _, r := range *al.Referrers() {
		ia, ok := r.(*ssa.IndexAddr)
		if !ok {
			continue
		}
		k, ok := ia.Index.(*ssa.Const)
		if !ok {
			return nil
		}
		var idx int64
		fmt.Sscan(constString(k), &idx)
		for _, rr := range *ia.Referrers() {
			if st, ok := rr.(*ssa.Store); ok && st.Addr == ia && idx >= 0 && idx < int64(len(out)) {
				out[idx] = st.Val
			}
		}
	}
	for _, e := range out {
		if e == nil {
			return nil
		}
	}
	return out
}

func rangeOperand(n *ssa.Next) ssa.Value {
	if r, ok := n.Iter.(*ssa.Range); ok {
		return r.X
	}
	return n.Iter
}

// negOp returns the comparison that holds when `x op y` is false.
func negOp(op token.Token) token.Token {
	switch op {
	case token.EQL:
		return token.NEQ
	case token.NEQ:
		return token.EQL
	case token.LSS:
		return token.GEQ
	case token.GEQ:
		return token.LSS
	case token.GTR:
		return token.LEQ
	case token.LEQ:
		return token.GTR
	}
	return token.ILLEGAL
}

func opName(op token.Token) string {
	switch op {
	case token.EQL:
		return "EQ"
	case token.NEQ:
		return "NE"
	case token.LSS:
		return "LT"
	case token.GEQ:
		return "GE"
	case token.GTR:
		return "GT"
	case token.LEQ:
		return "LE"
	}
	return op.String()
}

// condLabel returns the label of the fact that holds when cond evaluates to
// `want`. Comparisons are normalised so that the label states the relation
// that holds (e.g. cond `a != b`, want=false gives "EQ(a,b)").
func condLabel(cond ssa.Value, want bool) string {
	switch x := cond.(type) {
	case *ssa.UnOp:
		if x.Op == token.NOT {
			return condLabel(x.X, !want)
		}
	case *ssa.BinOp:
		op := x.Op
		switch op {
		case token.EQL, token.NEQ, token.LSS, token.GEQ, token.GTR, token.LEQ:
			if !want {
				op = negOp(op)
			}
			a, b := x.X, x.Y
			// constants on the right (`0 < x` is `x > 0`)
			if _, ak := a.(*ssa.Const); ak && !isNilConst(a) {
				if _, bk := b.(*ssa.Const); !bk {
					a, b = b, a
					switch op {
					case token.LSS:
						op = token.GTR
					case token.GTR:
						op = token.LSS
					case token.LEQ:
						op = token.GEQ
					case token.GEQ:
						op = token.LEQ
					}
				}
			}
			// lengths are never negative: `len(x) < 1` is `len(x) == 0`, `len(x) > 0` and `len(x) >= 1` are `len(x) != 0`
			if k, ok := b.(*ssa.Const); ok && k.Value != nil && k.Value.Kind() == constant.Int && strings.HasPrefix(desc(a), "len(") {
				if n, exact := constant.Int64Val(k.Value); exact {
					switch {
					case op == token.LSS && n == 1, op == token.LEQ && n == 0:
						return "EQ(" + desc(a) + ",const:0)"
					case op == token.GEQ && n == 1, op == token.GTR && n == 0:
						return "NE(" + desc(a) + ",const:0)"
					}
				}
			}
			// i := strings.Index(s, sep): `i >= 0` is the `found` answer of strings.Cut(s, sep), `i < 0` its negation
			if sd, sep, ok := indexCall(a); ok {
				if k, isK := b.(*ssa.Const); isK && k.Value != nil && k.Value.Kind() == constant.Int {
					if n, exact := constant.Int64Val(k.Value); exact {
						found := "call:strings.Cut(" + sd + "," + sep + ")#2"
						switch {
						case op == token.GEQ && n == 0, op == token.GTR && n == -1, op == token.NEQ && n == -1:
							return "T(" + found + ")"
						case op == token.LSS && n == 0, op == token.LEQ && n == -1, op == token.EQL && n == -1:
							return "F(" + found + ")"
						}
					}
				}
			}
			// nil tests
			if isNilConst(b) {
				return opName(op) + "(" + desc(a) + ",nil)"
			}
			if isNilConst(a) {
				return opName(op) + "(" + desc(b) + ",nil)"
			}
			return opName(op) + "(" + desc(a) + "," + desc(b) + ")"
		}
	case *ssa.Const:
		if x.Value != nil && x.Value.Kind() == constant.Bool {
			if constant.BoolVal(x.Value) == want {
				return "TRUE"
			}
			return "FALSE"
		}
	case *ssa.Phi:
		// the value of a short-circuit expression (`a && b`, `a || b`): it evaluates to `want` through one of its edges —
		// a constant edge stands for the branch fact that selected it, a value edge for the fact of that value
		if l, ok := phiCondLabel(x, want, 0); ok {
			return l
		}
	}
	if want {
		return "T(" + desc(cond) + ")"
	}
	return "F(" + desc(cond) + ")"
}

// phiCondBusy: phis whose label is being computed (a flag accumulated in a loop, `found = found || c`, refers to itself
// through the branch that tests it: such a value has no finite disjunction of branch facts)
var phiCondBusy = map[*ssa.Phi]bool{}

func phiCondLabel(p *ssa.Phi, want bool, depth int) (string, bool) {
	if depth > 3 || phiCondBusy[p] || len(phiCondBusy) > 6 {
		return "", false
	}
	phiCondBusy[p] = true
	defer delete(phiCondBusy, p)
	if b, ok := p.Type().Underlying().(*types.Basic); !ok || b.Kind() != types.Bool {
		return "", false
	}
	var alts []string
	for i, e := range p.Edges {
		pred := p.Block().Preds[i]
		if k, ok := e.(*ssa.Const); ok && k.Value != nil && k.Value.Kind() == constant.Bool {
			if constant.BoolVal(k.Value) != want {
				continue // this edge yields the other answer
			}
			// the branch that led here
			iff, ok := blockTerm(pred).(*ssa.If)
			if !ok {
				return "", false
			}
			truth := pred.Succs[0] == p.Block()
			if pred.Succs[0] == p.Block() && pred.Succs[1] == p.Block() {
				return "", false
			}
			alts = append(alts, condLabel(iff.Cond, truth))
			continue
		}
		if q, ok := e.(*ssa.Phi); ok {
			l, ok := phiCondLabel(q, want, depth+1)
			if !ok {
				return "", false
			}
			alts = append(alts, l)
			continue
		}
		alts = append(alts, condLabel(e, want))
	}
	if len(alts) == 0 {
		return "FALSE", true
	}
	alts = uniq(sortStrings(alts))
	if len(alts) == 1 {
		return alts[0], true
	}
	return "OR(" + strings.Join(alts, ",") + ")", true
}

// blockTerm returns the last instruction of a block.
func blockTerm(b *ssa.BasicBlock) ssa.Instruction {
	if len(b.Instrs) == 0 {
		return nil
	}
	return b.Instrs[len(b.Instrs)-1]
}

// instrIndex returns the index of an instruction in its block.
func instrIndex(in ssa.Instruction) int {
	for i, x := range in.Block().Instrs {
		if x == in {
			return i
		}
	}
	return -1
}

// allCalls returns all call instructions (Call, Defer, Go) in a function.
func allCalls(fn *ssa.Function) []ssa.CallInstruction {
	var out []ssa.CallInstruction
	for _, b := range fn.Blocks {
		for _, in := range b.Instrs {
			if c, ok := in.(ssa.CallInstruction); ok {
				out = append(out, c)
			}
		}
	}
	return out
}

// closuresOf returns anonymous functions nested (transitively) in fn.
func closuresOf(fn *ssa.Function) []*ssa.Function {
	var out []*ssa.Function
	var rec func(f *ssa.Function)
	rec = func(f *ssa.Function) {
		for _, a := range f.AnonFuncs {
			out = append(out, a)
			rec(a)
		}
	}
	rec(fn)
	return out
}

func sortStrings(s []string) []string { sort.Strings(s); return s }

func uniq(s []string) []string {
	m := map[string]bool{}
	for _, x := range s {
		m[x] = true
	}
	return sortedKeys(m)
}

// splitTopArgs splits "OP(a,b)" into its operator and top-level arguments (quotes and brackets respected).
func splitTopArgs(l string) (string, []string) {
	i := strings.IndexByte(l, '(')
	if i < 0 || !strings.HasSuffix(l, ")") {
		return "", nil
	}
	op, body := l[:i], l[i+1:len(l)-1]
	var args []string
	depth, start := 0, 0
	inQ := false
	for k := 0; k < len(body); k++ {
		ch := body[k]
		if inQ {
			if ch == '\\' {
				k++
			} else if ch == '"' {
				inQ = false
			}
			continue
		}
		switch ch {
		case '"':
			inQ = true
		case '(', '[', '{':
			depth++
		case ')', ']', '}':
			depth--
		case ',':
			if depth == 0 {
				args = append(args, body[start:k])
				start = k + 1
			}
		}
	}
	args = append(args, body[start:])
	return op, args
}

// labelTwin: equality and inequality are symmetric — the label with its operands exchanged states the same fact.
// Facts against nil or a constant keep the constant on the right and have no twin.
func labelTwin(l string) (string, bool) {
	if !strings.HasPrefix(l, "EQ(") && !strings.HasPrefix(l, "NE(") {
		return "", false
	}
	op, args := splitTopArgs(l)
	if len(args) != 2 || args[1] == "nil" || strings.HasPrefix(args[1], "const:") || args[0] == args[1] {
		return "", false
	}
	return op + "(" + args[1] + "," + args[0] + ")", true
}

// ---- transparent helpers ------------------------------------------------------
//
// An unexported function of the module is an implementation detail: extracting a computation into one, or inlining
// one, does not change behaviour. When such a helper hands back the same expression on every exit that delivers a
// value, a use of its result is rendered as that expression in the caller's frame (parameters replaced by the
// arguments), exactly as labels of its gates are substituted into the caller's frame. Boolean results are left to
// the gate composition (their value is a condition, not an object).

var retExprBusy = map[*ssa.Function]bool{}
var retExprMemo = map[*ssa.Function]map[int]string{}

func transparentHelper(g *ssa.Function) bool {
	if g == nil || g.Blocks == nil || g.Pkg == nil || g.Parent() != nil || g.Synthetic != "" {
		return false
	}
	if !strings.HasPrefix(g.Pkg.Pkg.Path(), modPath) || token.IsExported(g.Name()) {
		return false
	}
	return g.TypeParams().Len() == 0
}

// retTemplate: the expression (in the callee's frame) returned as result k on every value-delivering exit.
func retTemplate(g *ssa.Function, k int) (string, bool) {
	if m, ok := retExprMemo[g]; ok {
		if d, ok := m[k]; ok {
			return d, d != ""
		}
	} else {
		retExprMemo[g] = map[int]string{}
	}
	if retExprBusy[g] {
		return "", false
	}
	retExprBusy[g] = true
	defer delete(retExprBusy, g)
	res := g.Signature.Results()
	if k >= res.Len() {
		return "", false
	}
	if b, ok := res.At(k).Type().Underlying().(*types.Basic); ok && b.Kind() == types.Bool {
		retExprMemo[g][k] = ""
		return "", false
	}
	errIdx := -1
	if res.Len() > 0 && isErrorType(res.At(res.Len()-1).Type()) {
		errIdx = res.Len() - 1
	}
	D, n := "", 0
	okAll := true
	var first ssa.Value
	for _, b := range g.Blocks {
		r, ok := blockTerm(b).(*ssa.Return)
		if !ok || k >= len(r.Results) {
			continue
		}
		v := spilledRet(r.Results[k])
		if c, isK := v.(*ssa.Const); isK && errIdx >= 0 && errIdx != k {
			if !isNilConst(spilledRet(r.Results[errIdx])) && (c.Value == nil || c.Value.ExactString() == `""` || c.Value.ExactString() == "0" || c.Value.ExactString() == "false") {
				continue // failing exit: zero value next to an error
			}
		}
		d := descDepth(v, 5)
		if n > 0 && (d != D || (v != first && strings.Contains(d, "alloc:"))) {
			okAll = false // different expressions, or different objects that merely render alike
		}
		if n == 0 {
			first = v
		}
		D = d
		n++
	}
	if !okAll || n == 0 || strings.Contains(D, "…") || len(D) > 600 {
		retExprMemo[g][k] = ""
		return "", false
	}
	retExprMemo[g][k] = D
	return D, true
}

func retExpr(call *ssa.Call, k int, depth int) (string, bool) {
	g := staticCallee(call)
	if !transparentHelper(g) {
		return "", false
	}
	D, ok := retTemplate(g, k)
	if !ok {
		return "", false
	}
	var names, descs []string
	args := callArgs(call)
	for i, p := range g.Params {
		if i < len(args) {
			names = append(names, p.Name())
			descs = append(descs, descDepth(args[i], depth))
		}
	}
	return substParams(D, names, descs), true
}

// res renders result k of a call the way a use of it (an Extract) is rendered, transparent helpers included.
func res(call *ssa.Call, k int) string {
	if call == nil {
		return "?"
	}
	tup, isTuple := call.Type().(*types.Tuple)
	if !isTuple {
		return desc(call)
	}
	if k < tup.Len() && !isErrorType(tup.At(k).Type()) {
		if s, ok := retExpr(call, k, 6); ok {
			return s
		}
	}
	if k < tup.Len() && isErrorType(tup.At(k).Type()) {
		return desc(call) + "#err"
	}
	return desc(call) + fmt.Sprintf("#%d", k)
}

// callForm: how result k of a call of fn with arguments rendered as argDescs is rendered (transparent helpers included).
func callForm(fn *ssa.Function, k int, argDescs ...string) string {
	if fn == nil {
		return "?"
	}
	if transparentHelper(fn) {
		if D, ok := retTemplate(fn, k); ok {
			var names []string
			for i, p := range fn.Params {
				if i < len(argDescs) {
					names = append(names, p.Name())
				}
			}
			return substParams(D, names, argDescs[:len(names)])
		}
	}
	s := "call:" + fnName(fn) + "(" + strings.Join(argDescs, ",") + ")"
	if fn.Signature.Results().Len() > 1 {
		if isErrorType(fn.Signature.Results().At(k).Type()) {
			return s + "#err"
		}
		return s + fmt.Sprintf("#%d", k)
	}
	return s
}

// indexCall: v is strings.Index / IndexByte / IndexRune (first occurrence) of a constant separator in s.
// Returns the rendering of s and of the separator as a string constant.
func indexCall(v ssa.Value) (string, string, bool) {
	call, ok := v.(*ssa.Call)
	if !ok || len(call.Call.Args) != 2 {
		return "", "", false
	}
	k, ok := call.Call.Args[1].(*ssa.Const)
	if !ok || k.Value == nil {
		return "", "", false
	}
	switch calleeName(call) {
	case "strings.Index":
		if k.Value.Kind() != constant.String {
			return "", "", false
		}
		return desc(call.Call.Args[0]), "const:" + constString(k), true
	case "strings.IndexByte", "strings.IndexRune":
		n, exact := constant.Int64Val(constant.ToInt(k.Value))
		if !exact || n <= 0 || n > 127 {
			return "", "", false
		}
		return desc(call.Call.Args[0]), fmt.Sprintf("const:%q", string(rune(n))), true
	}
	return "", "", false
}

// cutHalf: the slice expression is one of the halves of strings.Cut.
func cutHalf(x *ssa.Slice, depth int) (string, bool) {
	if b, ok := x.X.Type().Underlying().(*types.Basic); !ok || b.Info()&types.IsString == 0 || x.Max != nil {
		return "", false
	}
	xd := descDepth(x.X, depth)
	if x.Low == nil && x.High != nil {
		if sd, sep, ok := indexCall(x.High); ok && sd == xd {
			return "call:strings.Cut(" + xd + "," + sep + ")#0", true
		}
	}
	if x.High == nil && x.Low != nil {
		if bo, ok := x.Low.(*ssa.BinOp); ok && bo.Op == token.ADD {
			if k, isK := bo.Y.(*ssa.Const); isK && k.Value != nil {
				if sd, sep, ok := indexCall(bo.X); ok && sd == xd {
					sepLen := int64(len(sep) - len(`const:""`))
					if n, exact := constant.Int64Val(constant.ToInt(k.Value)); exact && n == sepLen {
						return "call:strings.Cut(" + xd + "," + sep + ")#1", true
					}
				}
			}
		}
	}
	return "", false
}
