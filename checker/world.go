package main

import (
	"fmt"
	"go/ast"
	"go/token"
	"go/types"
	"os"
	"path/filepath"
	"sort"
	"strings"

	"golang.org/x/tools/go/callgraph"
	"golang.org/x/tools/go/callgraph/cha"
	"golang.org/x/tools/go/callgraph/vta"
	"golang.org/x/tools/go/packages"
	"golang.org/x/tools/go/ssa"
	"golang.org/x/tools/go/ssa/ssautil"
)

const modPath = "github.com/notaryproject/notation-go"

// excludedPkgs are test-support packages of the module: rules do not apply to
// them (one line of reason each).
var excludedPkgs = map[string]string{
	modPath + "/internal/mock":           "mock implementations used only by tests",
	modPath + "/internal/mock/mockfs":    "mock file system used only by tests",
	modPath + "/internal/mock/ocilayout": "test helper copying OCI layouts",
	modPath + "/plugin/testdata":         "sample plugin binary source used only by tests",
}

// expectedRootPkgs is the number of packages `./...` matches on the reference
// tree (tests excluded). Fewer means the load is incomplete.
const expectedRootPkgs = 24

// World is the loaded, type-checked program in SSA form.
type World struct {
	RepoDir  string
	GOOS     string
	GOARCH   string
	Fset     *token.FileSet
	Pkgs     []*packages.Package          // root packages
	ByPath   map[string]*packages.Package // all packages by path
	Prog     *ssa.Program
	SSA      map[string]*ssa.Package
	Product  []*ssa.Package  // product packages of the module
	Funcs    []*ssa.Function // all functions (incl. anonymous, methods) of product packages with bodies
	allFuncs map[*ssa.Function]bool
	cgCHA    *callgraph.Graph
	cgVTA    *callgraph.Graph
	fnInfo   map[*ssa.Function]*FnInfo
	sumMemo  map[sumKey]*Summary
	sumBusy  map[sumKey]bool
}

// LoadWorld loads /repo (or dir) with the given overlay.
func LoadWorld(dir, goos, goarch string, overlay map[string][]byte) (*World, error) {
	env := append(os.Environ(), "GOFLAGS=-mod=mod", "GOPROXY=off", "GOSUMDB=off", "GOTOOLCHAIN=local", "GOWORK=off", "CGO_ENABLED=0")
	if goos != "" {
		env = append(env, "GOOS="+goos)
	}
	if goarch != "" {
		env = append(env, "GOARCH="+goarch)
	}
	cfg := &packages.Config{
		Mode:    packages.LoadAllSyntax,
		Dir:     dir,
		Env:     env,
		Tests:   false,
		Overlay: overlay,
	}
	pkgs, err := packages.Load(cfg, "./...")
	if err != nil {
		return nil, fmt.Errorf("load: %w", err)
	}
	if len(pkgs) < expectedRootPkgs {
		return nil, fmt.Errorf("load: only %d root packages found, expected at least %d", len(pkgs), expectedRootPkgs)
	}
	var errs []string
	packages.Visit(pkgs, nil, func(p *packages.Package) {
		for _, e := range p.Errors {
			errs = append(errs, e.Error())
		}
	})
	if len(errs) > 0 {
		sort.Strings(errs)
		if len(errs) > 10 {
			errs = errs[:10]
		}
		return nil, fmt.Errorf("load: the tree does not type-check, cannot decide:\n  %s", strings.Join(errs, "\n  "))
	}
	w := &World{RepoDir: dir, GOOS: goos, GOARCH: goarch, Pkgs: pkgs, ByPath: map[string]*packages.Package{}, SSA: map[string]*ssa.Package{},
		fnInfo: map[*ssa.Function]*FnInfo{}, sumMemo: map[sumKey]*Summary{}, sumBusy: map[sumKey]bool{}}
	packages.Visit(pkgs, nil, func(p *packages.Package) { w.ByPath[p.PkgPath] = p })
	w.Fset = pkgs[0].Fset
	prog, _ := ssautil.AllPackages(pkgs, ssa.InstantiateGenerics)
	prog.Build()
	w.Prog = prog
	for _, p := range prog.AllPackages() {
		w.SSA[p.Pkg.Path()] = p
	}
	for _, p := range pkgs {
		if _, ex := excludedPkgs[p.PkgPath]; ex {
			continue
		}
		if !strings.HasPrefix(p.PkgPath, modPath) {
			continue
		}
		sp := w.SSA[p.PkgPath]
		if sp == nil {
			return nil, fmt.Errorf("load: no SSA for %s", p.PkgPath)
		}
		w.Product = append(w.Product, sp)
	}
	sort.Slice(w.Product, func(i, j int) bool { return w.Product[i].Pkg.Path() < w.Product[j].Pkg.Path() })
	w.allFuncs = ssautil.AllFunctions(prog)
	for fn := range w.allFuncs {
		if fn.Blocks == nil {
			continue
		}
		if w.IsProductFn(fn) {
			w.Funcs = append(w.Funcs, fn)
		}
	}
	sort.Slice(w.Funcs, func(i, j int) bool {
		a, b := w.Funcs[i], w.Funcs[j]
		if a.String() != b.String() {
			return a.String() < b.String()
		}
		return a.Pos() < b.Pos()
	})
	return w, nil
}

// fnPkg returns the package a function belongs to (following closures and
// generic instances to their origin).
func fnPkg(fn *ssa.Function) *types.Package {
	for fn != nil {
		if fn.Pkg != nil {
			return fn.Pkg.Pkg
		}
		if o := fn.Origin(); o != nil && o != fn {
			fn = o
			continue
		}
		if fn.Parent() != nil {
			fn = fn.Parent()
			continue
		}
		if obj := fn.Object(); obj != nil {
			return obj.Pkg()
		}
		return nil
	}
	return nil
}

func (w *World) IsProductFn(fn *ssa.Function) bool {
	p := fnPkg(fn)
	if p == nil {
		return false
	}
	return w.IsProductPkg(p.Path())
}

func (w *World) IsProductPkg(path string) bool {
	if !strings.HasPrefix(path, modPath) {
		return false
	}
	if _, ex := excludedPkgs[path]; ex {
		return false
	}
	return path == modPath || strings.HasPrefix(path, modPath+"/")
}

// Pkg returns the SSA package for a module-relative path ("" = root).
func (w *World) Pkg(rel string) *ssa.Package {
	p := modPath
	if rel != "" && rel != "." {
		p = modPath + "/" + rel
	}
	return w.SSA[p]
}

// Func finds a package-level function by module-relative package and name.
func (w *World) Func(rel, name string) *ssa.Function {
	p := w.Pkg(rel)
	if p == nil {
		return nil
	}
	return p.Func(name)
}

// Method finds a method (pointer or value receiver) by type name.
func (w *World) Method(rel, typeName, method string) *ssa.Function {
	p := w.Pkg(rel)
	if p == nil {
		return nil
	}
	t := p.Type(typeName)
	if t == nil {
		return nil
	}
	for _, recv := range []types.Type{types.NewPointer(t.Type()), t.Type()} {
		ms := w.Prog.MethodSets.MethodSet(recv)
		if sel := ms.Lookup(p.Pkg, method); sel != nil {
			if fn := w.Prog.MethodValue(sel); fn != nil {
				// unwrap synthetic wrappers: we want the declared method
				if fn.Synthetic != "" {
					continue
				}
				return fn
			}
		}
	}
	// fall back to scanning functions
	for _, fn := range w.Funcs {
		if fn.Signature.Recv() != nil && fn.Name() == method && fnPkg(fn) == p.Pkg {
			rt := fn.Signature.Recv().Type()
			if pt, ok := rt.(*types.Pointer); ok {
				rt = pt.Elem()
			}
			if n, ok := rt.(*types.Named); ok && n.Obj().Name() == typeName {
				return fn
			}
		}
	}
	return nil
}

// FuncsOfPkg returns all product functions (incl. closures) of a package.
func (w *World) FuncsOfPkg(rel string) []*ssa.Function {
	p := w.Pkg(rel)
	if p == nil {
		return nil
	}
	var out []*ssa.Function
	for _, fn := range w.Funcs {
		if fnPkg(fn) == p.Pkg {
			out = append(out, fn)
		}
	}
	return out
}

// Pos renders a position relative to the repository.
func (w *World) Pos(p token.Pos) string {
	if !p.IsValid() {
		return "-"
	}
	q := w.Fset.Position(p)
	f := q.Filename
	if rel, err := filepath.Rel(w.RepoDir, f); err == nil && !strings.HasPrefix(rel, "..") {
		f = rel
	}
	return fmt.Sprintf("%s:%d", f, q.Line)
}

// InstrPos finds the best position for an instruction.
func (w *World) InstrPos(in ssa.Instruction) string {
	if in == nil {
		return "-"
	}
	if p := in.Pos(); p.IsValid() {
		return w.Pos(p)
	}
	// search operands / neighbours in the block for a position
	if v, ok := in.(ssa.Value); ok {
		_ = v
	}
	b := in.Block()
	if b != nil {
		idx := -1
		for i, x := range b.Instrs {
			if x == in {
				idx = i
			}
		}
		for i := idx; i >= 0; i-- {
			if p := b.Instrs[i].Pos(); p.IsValid() {
				return w.Pos(p) + "~"
			}
		}
		for i := idx + 1; i >= 0 && i < len(b.Instrs); i++ {
			if p := b.Instrs[i].Pos(); p.IsValid() {
				return w.Pos(p) + "~"
			}
		}
	}
	if f := in.Parent(); f != nil {
		return w.Pos(f.Pos()) + "~"
	}
	return "-"
}

func (w *World) FnPos(fn *ssa.Function) string {
	if fn == nil {
		return "-"
	}
	return w.Pos(fn.Pos())
}

// CHA returns the class-hierarchy call graph.
func (w *World) CHA() *callgraph.Graph {
	if w.cgCHA == nil {
		w.cgCHA = cha.CallGraph(w.Prog)
	}
	return w.cgCHA
}

// VTA returns the variable-type-analysis call graph seeded by CHA.
func (w *World) VTA() *callgraph.Graph {
	if w.cgVTA == nil {
		w.cgVTA = vta.CallGraph(w.allFuncs, w.CHA())
	}
	return w.cgVTA
}

// Syntax returns the syntax file that contains pos.
func (w *World) FileOf(pos token.Pos) (*packages.Package, *ast.File) {
	for _, p := range w.ByPath {
		for _, f := range p.Syntax {
			if f.Pos() <= pos && pos <= f.End() {
				return p, f
			}
		}
	}
	return nil, nil
}

// ProductSyntax iterates over the syntax files of product packages.
func (w *World) ProductSyntax(fn func(p *packages.Package, f *ast.File)) {
	var paths []string
	for _, sp := range w.Product {
		paths = append(paths, sp.Pkg.Path())
	}
	sort.Strings(paths)
	for _, path := range paths {
		p := w.ByPath[path]
		for _, f := range p.Syntax {
			fn(p, f)
		}
	}
}
