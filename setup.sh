#!/bin/sh
# Builds the static checker from files on disk only (offline).
set -e
cd "$(dirname "$0")"
export GOFLAGS=-mod=mod GOPROXY=off GOSUMDB=off GOTOOLCHAIN=local
unset GOWORK
mkdir -p bin evidence/replay
cd checker
go build -o ../bin/notacheck .
go build -o ../bin/refactor ./cmd/refactor
