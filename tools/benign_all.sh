#!/bin/bash
# Runs every mechanical behaviour-preserving rewrite against every check (false-alarm regression).
cd /verif
rc=0
for m in locals funcs types globals reorder swapeq lencmp logparams idxloop negif; do
  tools/benign_global.sh $m "$@" | grep -v " silent$" | grep -v "^refactor " && rc=1
done
[ $rc -eq 0 ] && echo "all mechanical rewrites: every check silent"
exit $rc
