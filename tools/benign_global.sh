#!/bin/bash
# usage: tools/benign_global.sh <mode: locals|funcs|reorder> [ids...]
# Applies one mechanical behaviour-preserving rewrite to a scratch worktree of /repo HEAD (all product packages),
# checks that it still builds, and runs the checks on it (linux/amd64). Every check must stay silent.
export GOFLAGS=-mod=mod GOPROXY=off GOSUMDB=off GOTOOLCHAIN=local; unset GOWORK
MODE=$1; shift
cd /verif
[ -x bin/refactor ] || (cd checker && go build -o ../bin/refactor ./cmd/refactor)
D=$(mktemp -d /tmp/benign.XXXX)
git -C /repo worktree add -q --detach $D/wt HEAD || exit 2
# test files refer to the old names: remove them from the scratch copy (the analysis ignores tests anyway)
find $D/wt -name '*_test.go' -delete
bin/refactor -dir $D/wt -mode $MODE || { git -C /repo worktree remove --force $D/wt; rm -rf $D; exit 2; }
( cd $D/wt && go build ./... ) || { echo "rewritten tree does not build"; [ -n "$KEEP" ] || { git -C /repo worktree remove --force $D/wt; rm -rf $D; }; exit 2; }
ids="$@"; [ -z "$ids" ] && ids=$(python3 -c "import json;print(' '.join(c['property_id'] for c in json.load(open('MANIFEST.json'))['checks']))")
rc=0
for id in $ids; do
  out=$(${NOTACHECK:-bin/notacheck} -property $id -repo $D/wt -no-evidence 2>&1); r=$?
  if [ $r -ne 0 ]; then rc=1; echo "FALSE ALARM $MODE $id:"; echo "$out" | grep -E -A3 '^\s+\[(VIOLATED|UNDECIDED)\]' | cut -c1-400 | head -${LINES_MAX:-40}; else echo "$MODE $id silent"; fi
done
if [ -n "$KEEP" ]; then echo "kept $D/wt"; else git -C /repo worktree remove --force $D/wt; rm -rf $D; fi
exit $rc
