import glob, subprocess, sys, json, os
# usage: [NOTACHECK=<bin>] tools/cross_benign.py <property-id> : runs ONE property's rule set over the benign variants of ALL properties (cross-property false-alarm sweep; tooling)
from concurrent.futures import ThreadPoolExecutor
prop=sys.argv[1]
files=sorted(glob.glob('/verif/variants/*/benign*.json'))
def run(f):
    p=subprocess.run([os.environ.get('NOTACHECK','/verif/bin/notacheck'),'-property',prop,'-tier','quick','-repo','/repo','-overlay',f,'-no-evidence','-json'],capture_output=True,text=True,errors='replace')
    keys=[]
    for line in p.stdout.splitlines():
        if line.startswith('JSON '):
            try: keys=[o['key'] for o in json.loads(line[5:]) if o['status']!='discharged' and not o.get('known_finding')]
            except Exception: pass
    return f,p.returncode,keys
with ThreadPoolExecutor(8) as ex:
    res=list(ex.map(run,files))
bad=[(f,rc,k) for f,rc,k in res if rc not in (0,3)]
print(prop,'benign variants',len(res),'flagged',len(bad))
for f,rc,k in bad: print(' ',f.replace('/verif/variants/',''),rc,k[:4])
