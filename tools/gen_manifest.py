#!/usr/bin/env python3
"""Writes MANIFEST.json from the claim table below. A property is listed under `checks` once its
rule set is armed (an entry in CLAIMS); every other property stays under not_applicable with the reason."""
import json, os

here = os.path.dirname(os.path.dirname(os.path.abspath(__file__)))
ids = [json.loads(l)['id'] for l in open(os.path.join(here, 'properties.jsonl'))]

COMMON_NOTE = ("Trusted base: Go type checker and go/ssa (x/tools v0.29.0); the dependencies' bodies (notation-core-go, oras-go, "
               "tspclient-go, go-ldap, x/mod, std) are resolved by type but not analysed. Decides the structural clauses named in "
               "level_claimed.text, not the behaviour as a whole; the clauses not reached are listed per property in DESIGN.md section 5.")

# id -> (technique, text, design_ref, extra note)
CLAIMS = {}

def claim(pid, technique, text, ref, note=''):
    CLAIMS[pid] = (technique, text, ref, note)

claim('C01', 'interprocedural must-check / fail-closed gate analysis on SSA (edge cuts on the CFG x soft-failure-bit product) + label provenance',
      'Static, all-paths: every non-skip success exit of (*verifier).Verify / VerifyBlob (found through the interfaces they implement) is reachable only through the passing edges of envelope parsing, '
      'signature verification, payload-type equality, payload decode, descriptor equality (OCI) or algorithm lookup + generator + digest/size/media-type equality (blob) and the required-metadata check; '
      'notation.Verify hands the verifier the required-metadata map, artifact reference and plugin configuration of its own caller (option forwarding at the API boundary: no common field of the two option structs is left at its zero value); failures stored in outcome.Error are sticky; integrity is enforce in every non-skip level literal and cannot be overridden; no map update, delete or clear on the verification call tree targets a map of the caller (the required metadata checked for one signature is what is checked for the next). This is a necessary structural condition of the property for every envelope, '
      'descriptor, metadata map and level at once; the blob descriptor the comparison uses is made by a generator that digests the whole reader (C07 blob-descriptor/generator-body, re-decided under C01 keys); it does not establish cryptographic validity (trusted: notation-core-go).', 'DESIGN.md 2/C01')

claim('C02', 'typestate + must-check gate analysis on SSA, finite decision table of the predicate, who-may-read / who-may-write inventories (validation results), value provenance of the level, constant-table order',
      'Static, all-paths: the critical-failure predicate is exactly Action==enforce && Error!=nil; every validation result appended to the outcome (and every later store to its Error) is gated by that predicate on all '
      'paths to success; each result carries the action of its own type from the applicable level; the level stored into an outcome or returned is result 0 of GetVerificationLevel applied to the SignatureVerification of a statement that comes only from the document selection (no level looked up by statement name or fixed); overrides go into a fresh map behind the legality gates; a recorded failure is never erased (a validation result a function did not create is written only by a store of a provably non-nil error, never overwritten as a whole, and the list of results is only extended); every plugin situation (missing, too old, no capability, '
      'execution error, missing/failed verdict) is fail-closed; native identity/revocation checks are routed by capability and skip; critical extended attributes are accounted for when no plugin is named and when the '
      'plugin ran: the list the plugin must process leaves an attribute out only for being one of the two header constants, and a critical attribute whose key is not a string fails verification. The path "plugin named but not executed" is a known finding pinned by a stable test. Clause-wise structure implies the decision table and monotonicity; the table is not enumerated as values.', 'DESIGN.md 2/C02')

claim('C03', 'who-may-call inventory + effect-site gate analysis + provenance by access-path labels on SSA',
      'Static, all-paths: the trust store is read at exactly one product site; that site is reachable only for listed stores whose type prefix equals the wanted type, with the name taken from the listed entry; '
      'a load error or malformed entry fails the whole load with a nil slice; the wanted type is a constant selected by the verified envelope\'s signing scheme (ca/signingAuthority; tsa only from the timestamp path); '
      'the stores, identities, name and options handed down belong to the single selected statement; VerifyAuthenticity receives exactly the loaded certificates and an empty set or error is a failing result, and that recorded failure is never overwritten later (no store of a possibly-nil error or of a whole result into a validation result the function did not create); '
      'the store implementation returns for (type, name) exactly what it just read from the directory of that type and name (no cache keyed by name alone) and the statement whose stores are used is the one selected for the artifact (the exact-set rules of C13 and the selection rules of C08, re-decided under C03 keys). '
      'Necessary structural conditions for every placement of certificates in stores; certificate identity itself is trusted to notation-core-go.', 'DESIGN.md 2/C03')
claim('C04', 'instruction whitelist + per-iteration must-check gates + argument provenance on SSA',
      'Static, all-paths: the identity check reads the chain only at constant index 0; it succeeds only through the wildcard or a true subset test whose first argument is a parsed listed identity and whose second is the parsed subject of certs[0]; '
      'the subset function ranges over the identity, performs only comma-ok lookups and string equality (no call: no prefix/fold), and returns true only after the loop; every unparsable identity/subject, missing separator, empty value and '
      'missing x509 identity is fail-closed; the error the identity check hands back is recorded in a validation result on every path on which it is not nil (no path from the call to a success exit avoids both `error == nil` and the store); the DN parser rejects =#, multi-valued and duplicate RDNs, aliases S to ST and demands C, ST, O. RFC 4514 parsing is trusted to go-ldap.', 'DESIGN.md 2/C04')
claim('C05', 'abstract interpretation over a finite domain with loop fixpoint (aggregator) + must-check gates + argument provenance',
      'Static: the aggregation function is interpreted abstractly (per-certificate result in {OK, NonRevokable, Unknown, Revoked, other}, two-point counter abstraction, ghost bits) to a fixpoint: in every reachable abstract state a Revoked '
      'certificate makes the aggregate Revoked and any non-OK certificate makes it non-OK; the loop is cut by equal lengths, visits all indices and indexes results and chain alike; both validator interfaces get the unsliced chain and the same '
      'signing time (zero unless signing-authority); a validator error or any aggregate other than OK sets the result\'s Error; the native check runs iff the level does not skip revocation and no plugin declares the revocation capability (C02 routing/revocation, re-decided under C05 keys); the constructor leaves a non-nil validator or client, every delegating constructor forwards the validator/client option of its caller unchanged, and a default validator is installed only where the caller supplied neither. Covers all result vectors as abstract states, not as enumerated values; OCSP/CRL are trusted.', 'DESIGN.md 2/C05')

claim('C06', 'must-check gate analysis with operand provenance + finite decision table by abstract interpretation (regime) on SSA',
      'Static, all-paths: the expiry result is error-free only through expiry.IsZero() or time.Now().Before(expiry); under signing-authority every certificate of the whole chain is inside its window at SignedAttributes.SigningTime; '
      'under notary.x509 the choice between timestamp verification and valid-at-time.Now() equals the specified table over tsa-listed x option x chain-expired (abstract interpretation of the decision code); the timestamp path is cut by '
      'countersignature present, token parse, info, message imprint over SignerInfo.Signature, tsa stores (loaded by the tsa loader, non-empty, the only roots), token verification at the timestamp, timestamping chain rules, both bounded window tests '
      'for every signing certificate and revocation of the TSA chain. Which clock/operand each comparison uses is decided; RFC 3161 verification and equal-instant behaviour are trusted.', 'DESIGN.md 2/C06')
claim('C07', 'reader/writer type agreement + constant-table equality + abstract interpretation of codec functions (repo and dependency) + provenance',
      'Static: every decode of a verified payload targets *envelope.Payload (what both signers marshal) or a generic map, into a fresh variable (json.Unmarshal keeps what the input omits); notation.VerifyBlob and UserMetadata return fields of the payload decoded from the verified outcome; the signer and verifier hash->digest '
      'tables are equal and cover the hashes core-go binds to the six key specs; proto.HashAlgorithmFromKeySpec equals core-go KeySpec.SignatureAlgorithm().Hash() on all six (both interpreted abstractly); Encode/DecodeKeySpec are inverse; '
      'payload = Payload{Sanitize(desc)} with exactly four fields copied, the accepted content-type constant is the one written, expiry = SigningTime+duration only if non-zero and whenever non-zero (every path to the hand-over of the request of either signer writes its expiry field or passes the zero-duration edge), blob digest algorithm from the key spec with fail-closed miss; the blob descriptor generator (which drains a one-shot reader) is evaluated at most once on every path of signing and verification. '
      'These are necessary agreement conditions of the round trip; the round trip itself (cryptography, encoders) is not decidable statically.', 'DESIGN.md 2/C07')

claim('C08', 'effect-site gates on the selection loop + finite decision table by abstract interpretation (precedence) + ownership/deep-copy analysis on SSA',
      'Static, all-paths: a statement becomes the exact candidate only under generic == membership of the repository path (text before the last @, validated) in its own registryScopes and the wildcard candidate only under membership of "*"; '
      'the loop has no early exit; precedence exact > wildcard > error is decided over candidate nil-ness by abstract interpretation; blob selection is by string equality of the name or by the global flag, global iff no name is given; '
      'every statement handed out is a clone and each clone shares no slice/map/pointer with the document, recursively through struct-valued fields; selection errors surface as ErrorNoApplicableTrustPolicy at the three call sites. '
      'Uniqueness of scopes, the wildcard included (needed for order independence), is what validation guarantees: the scope obligations of C09 (every statement and scope visited and counted, unique, wildcard alone) are re-decided under C08 keys.', 'DESIGN.md 2/C08')

claim('C09', 'rule-slot inventory of fail-closed gates (per-exit and per-iteration edge cuts) + sibling agreement + certified sanitizer by regexp/syntax walk + abstract interpretation of the global-statement loop',
      'Static, all-paths: for each of ~60 structural rules of a policy document a fail-closed gate exists in the validation call tree (document, statement core, level/override, store entry, identity incl. overlap over every ordered pair, DN, scope incl. counting every scope, scope format); '
      'gates in loops hold for every completed iteration and loops cannot be bypassed; the two document validators agree; no reflect.DeepEqual compares different static types; the global-statement rules equal their decision table; verifiers are only built by the constructor, '
      'which validates every non-nil document; the file-name validator accepts no separator, NUL, empty or dot-only name. Decides the "only if" direction (every listed rule is enforced); completeness of the list against the specification is not decided.', 'DESIGN.md 2/C09')

claim('C10', 'effect-site gates across a closure (captured cells resolved to the outer allocation), per-iteration guards, typestate of the counter cell, reachability after the success edge',
      'Static, all-paths: every repository call is cut by the nil checks, the positive limit and (for skippers) skip == false, and every product type that has the probed skip method by name implements the probed interface (the probe cannot silently miss the library\'s own verifier); parse/empty/resolve/digest-pinning failures are fail-closed and listing/verification use the resolved descriptor; '
      'the attempt counter is one cell of the outer function starting at 0 and changed only by a single +1 in the callback, tested against the caller\'s MaxSignatureAttempts before each fetch and verify of the same iteration; after a successful '
      'verification no fetch, verification, iteration or nil return is reachable and the stored outcomes are exactly that outcome; fetch errors and nil outcomes end the callback with an error; the success exit needs the flag and a non-zero counter. '
      'Holds per callback invocation and for the shared cell, hence for every paging; behaviour of concrete repositories is trusted.', 'DESIGN.md 2/C10')

claim('C11', 'interprocedural ownership/origin analysis of every write on the signing call tree + argument provenance + effect-site gates',
      'Static, all-paths: every map update, element store and store through a pointer reachable from SignOCI/SignBlob (closures included) targets fresh or signer-owned storage, never storage reachable from the caller\'s options or from the descriptor '
      'Repository.Resolve returned; Signer.Sign gets merge(resolved descriptor, UserMetadata), PushSignature gets the caller\'s media type, Sign\'s bytes, the resolved descriptor itself as subject and annotations generated from Sign\'s SignerInfo '
      '(hex sha256 of every chain certificate, signing time, and nothing written into the returned map afterwards can replace them); digest pinning on the very string resolved, reserved-prefix and existing-key refusals and the merge error gate precede Sign; the repository is used for exactly one Resolve and one PushSignature; PushSignature is reachable only after Signer.Sign and the annotation generator succeeded (every fallible source of the thumbprint / created annotations error-checked) and SignOCI reports success only after PushSignature did. '
      'Necessary conditions for "signing twice succeeds twice" for every descriptor, metadata map and reference; repository and signer internals are trusted.', 'DESIGN.md 2/C11')

claim('C12', 'panic-site inventory with local discharge proofs (guards, filter/producer summaries, correlated nil-check tracking, label-consistent path search for nil-edged pointer phis) + outcome/error consistency + size-cap gates + error-discipline lint',
      'Static: every non-comma-ok type assertion, slice/string index and slice expression, dereference of the nilable-by-API pointers and of pointers that come out of decoded external data (elements of maps/slices of pointers to JSON structs, pointer fields of JSON structs: nil test required, comma-ok does not count) and of pointer/interface parameters that the function itself compares with nil, dereference of a local pointer that is nil on one way in (a pointer phi with a nil-constant edge: no dereference reachable from that edge on a path consistent with the facts of the edge; a search that cannot come back empty is discharged at the call sites), call through a nilable verifier field, MustCompile, map update and explicit panic in the product packages is '
      'enumerated and discharged by a proof visible in the code (dominating guard, loop induction over the same/equal-length slice, producer filter summary, constructor post-condition) or by a table line with reason; the two verifier methods '
      'return (outcome, nil) only on paths no error store reaches and otherwise the error just stored; every FetchAll / ReadAll of fetched content is cut by a positive cap on the descriptor fetched (also when the fetch sits in a helper); the compiler-inserted range-over-func misuse panics are exempt only when every ranged iterator comes from outside the module; no decoder error is dropped. '
      'Covers the enumerated panic classes of the module\'s own code for all inputs and configurations; panics and allocations inside dependencies are not analysed.', 'DESIGN.md 2/C12')

claim('C13', 'must-check gates per exit and per completed loop iteration + certified sanitizer + exact-set provenance on SSA',
      'Static, all-paths: GetCertificates (found through the interface it implements; a directory-loader helper is followed) succeeds only through known type, certified single-component name, SysPath/Lstat/ReadDir success, real directory, '
      'and for every entry: regular file judged on the entry itself (never a symlink-following Stat), read success, at least one certificate, every certificate CA or self-signed, and self-signed roots for tsa stores; the returned slice is appended only from '
      'ReadCertificateFile(Join(SysPath(truststore/x509/type/name), entry.Name())) and is what success exits return (nothing cached or shared); every failing exit returns nil and no failing edge continues the loop; an empty result fails. '
      'Certificate parsing is trusted to notation-core-go / crypto/x509.', 'DESIGN.md 2/C13')

claim('C14', 'typestate of the temp-file protocol + who-may-write inventory + parameter-use confinement + constant analysis (key / temp alphabets)',
      'Static: decides the structural preconditions under which POSIX rename makes an entry absent-or-complete — the entry is written only by a writer that creates a fresh file with os.CreateTemp in the cache root, writes the whole content, closes, '
      'then renames it over Join(root, key(url)), each step only after the previous succeeded, the destination path reaching nothing but Rename; the bytes handed to the writer belong to the call alone (never a view of a pooled or shared buffer); nothing else in verifier/crl mutates files; keys are the full hex SHA-256 of the URL and temp names contain a non-hex rune; '
      'the reader performs exactly one whole-file read per Get; Set reports success only after the entry was written (C15 set/write-error, re-decided under C14 keys: no read after a returned write sees an older bundle because the write was skipped). This is the clause the record\'s own mutation (in-place write) breaks. NOT decided: the interleavings and crash points themselves, which are reduced to the trusted atomicity of rename(2) within one directory; no durability claim.', 'DESIGN.md 2/C14',
      'The hook proposed in the property record (pausing WriteFile at step boundaries) belongs to a dynamic technique and is not used.')
claim('C15', 'reader/writer field agreement + must-check gates (incl. disjunctive delta gates) + path provenance (URL confinement) on SSA',
      'Static, all-paths: Set stores bundle.X.Raw into entry field X and Get parses field X into bundle.X under distinct JSON names; Get succeeds only through read, decode, base parse, delta parse when stored, base expiry and delta expiry when present; '
      'the expiry helper fails on zero NextUpdate and maps time.Now().After(nextUpdate) to the miss sentinel; a missing file is a miss and, once the read failed, no error other than the miss sentinel is returned except behind the failing edge of the not-exist test; every file-system path of Get and Set is Join(root, hex(sha256(url))) of the full unsliced hash of exactly the URL string; '
      'Set refuses nil bundle/base and propagates marshal and write errors, writing the marshalled entry. Byte fidelity through std parsers and SHA-256 collision freedom are trusted.', 'DESIGN.md 2/C15')

claim('C16', 'taint analysis with certified sanitizers (regexp/syntax certification, leaf decomposition through concatenation/Join/module helpers, value-identity of the validated leaf) + who-may-call + forward-use inventory',
      'Static, all-paths: every path handed to the plugin file system by the manager (Get, Install, Uninstall) has as non-constant leaves exactly the SSA values that a dominating, fail-closed validation accepted, where a validator counts only if its success implies the '
      'certified single-component file-name predicate (no separator, NUL, empty, ".", ".."); deletion only happens on such a path; the verifier passes the signature-supplied name only to Manager.Get; listing reports an entry only for a non-root, directory, non-symlink '
      'DirEntry type, and conversely every way through the listing callback records the name of an entry that is a real directory other than the root, and the callback answers fs.SkipDir only for a directory and never fs.SkipAll (no plugin directory is dropped from the listing), and a walk error other than not-exist is handed back: a failed walk is never reported as a complete listing. Holds for every name string at once; also analysed under GOOS=windows in the thorough tier. What the OS does with a validated single component is trusted.', 'DESIGN.md 2/C16')
claim('C17', 'typestate of the exec.Cmd object (dominating unconditional stores) + must-check gates + guarded error-mapping table + who-may-call + effect denylist over the process runner call tree',
      'Static: decides the structural preconditions of containment — the only process start is exec.CommandContext with the caller\'s context; before Run, unconditionally, Stdout and Stderr are the module\'s limited writer with a positive constant cap, WaitDelay is a positive constant '
      'and Stdin is the request; the limited writer forwards only with a positive remaining budget, at most that budget, and accounts every forwarded byte (remaining counter or written counter); the runner succeeds only on process success and a whole-buffer json.Unmarshal of stdout; the three failure mappings and all metadata gates (incl. name == plugin name) are fail-closed, and every failing exit of the process runner after Run hands on the captured stderr (Bytes() of the buffer behind cmd.Stderr) so that the structured error the plugin printed can be reported; the runner\'s call tree performs no operation os/exec does not bound (no pipe of its own, no Read/Write on files or reader/writer interfaces, no io.Copy family, no sleep, no bare channel receive, no select without the context\'s Done channel); a one-step helper that runs the command it is handed stands for Run when its success lies behind the nil result of the run. '
      'NOT decided: real timing and memory, which follow from os/exec semantics (trusted).', 'DESIGN.md 2/C17')

claim('C18', 'must-check gates per success exit (composed through helpers, parameter-substituted) + per-iteration loop gates + returned-value provenance + request-field stores + decision tables',
      'Static, all-paths: the envelope path (the function calling SignPlugin.GenerateEnvelope) returns success only through plugin success, response type == requested type, ParseEnvelope of the response bytes, Envelope.Verify, payload type, payload decode into a fresh variable, '
      'content.Equal(requested descriptor, signed target), the completed preservation loop over the REQUESTED annotations (comma-ok lookup and value equality per pair) and an empty unknown-field scan of the verified bytes (scan removes only ocispec.Descriptor JSON names, reports both levels, '
      'key-set helper unconditional); it returns exactly the parsed-and-verified bytes and the verified SignerInfo and stores plugin annotations only after all checks; the raw path accepts describe-key / generate-signature answers only under string equality of the key id, '
      'sends key id, EncodeKeySpec/HashAlgorithmFromKeySpec of the described spec and the payload, parses every certificate fail-closed, and the generic signer returns only after Envelope.Sign, Envelope.Verify on the same object and the payload-type check; Sign/SignBlob return only those results, chosen by capability; '
      'codec tables total and inverse; no type assertion, index or slice expression of the signer package can panic on plugin output. Consistency of key, chain and signature is trusted to notation-core-go Sign/Verify.', 'DESIGN.md 2/C18')

claim('C19', 'effect-site gates (size cap on the fetched descriptor, per loop iteration) + must-check gates per exit and per media-type branch + decode-target freshness + reader/writer agreement (config media type) + argument/option provenance on SSA',
      'Static, all-paths: decides the structural clauses of the round-trip property — every content.FetchAll of the registry package is reachable only through a positive constant cap on the very descriptor it fetches; FetchSignatureBlob returns the fetch of the looked-up descriptor, '
      'the lookup admits only the two manifest media types, decodes into the manifest type of that media type and requires exactly one layer/blob, returning element 0 of the decoded list; the listing appends an element only, per iteration and per branch, through cap, fetch, decode into a per-iteration '
      'fresh target, non-nil subject content.Equal to the requested descriptor, and the notation artifact type read from the manifest decoded in that iteration, returning nothing on failure; PushSignature pushes the caller\'s media type and bytes and packs subject, annotations, the pushed blob as the single layer '
      'and the immutable notation config whose media type is the type the listing filters on, the config helper succeeding only if the config blob is known to be in the store (Exists true, Push nil or already-exists); the two size caps are followed through the limit parameter of a fetch helper to the constant at each call site and pinned by class (bytes decoded as a manifest: at most 4 MiB, the envelope blob: at most 32 MiB). NOT decided: byte equality itself (content addressing of oras-go is trusted) and histories in a real layout.', 'DESIGN.md 2/C19')

claim('C20', 'effect inventory + effect-site gates + finite decision table by abstract interpretation of Install (216 scenarios) + ordering (dominance and cut sets) + constant-pattern classification + closure analysis of the WalkDir callbacks + sibling agreement (binName / parsePluginName)',
      'Static, all-paths: every call of CLIManager.Install that can modify the plugin directory is reachable only after non-empty source, certified name validation, NewCLIPlugin and GetMetadata success of the new plugin, on that one name; the decision table over '
      'source kind x overwrite x existence x metadata error x comparison error x comparison result shows an effect is reachable exactly when the source is usable and (overwrite, or nothing installed, or comparison succeeded with new > existing), the first effect always being the clean-up and each source kind reaching only its own copy routine; '
      'copies happen only after the clean-up returned nil or not-exist, into SysPath(name); success only after a successful copy; ComparePluginVersion validates both versions with the constant pattern (classified against the semver.org corpus) before x/mod Compare in (new, existing) order; '
      'both WalkDir callbacks return SkipDir for every directory whose path differs from the walk root; candidates are regular files; the (executable, name) pair comes from one entry; the directory copy copies exactly the regular top-level entries to Join(dst, Base(src)); binName and parsePluginName share the prefix constant. '
      'NOT decided: a copy failing half-way after the clean-up (file-system behaviour), operation histories.', 'DESIGN.md 2/C20')

NA_REASON = {}

def main():
    checks = []
    for pid in ids:
        if pid not in CLAIMS:
            continue
        tech, text, ref, note = CLAIMS[pid]
        checks.append({
            "property_id": pid,
            "quick_cmd": "./check %s quick" % pid,
            "thorough_cmd": "./check %s thorough" % pid,
            "evidence_file": "/verif/evidence/%s.json" % pid,
            "replay_cmd_template": "./check %s --replay {path}" % pid,
            "engine": "notacheck",
            "level_claimed": {"category": "other", "text": text, "design_ref": ref},
            "level_note": (note + " " if note else "") + COMMON_NOTE,
            "technique": "static analysis: " + tech,
        })
    na = []
    for pid in ids:
        if pid in CLAIMS:
            continue
        na.append({"property_id": pid, "reason": NA_REASON.get(pid, "static rule set designed (DESIGN.md section 2) but not armed yet in this revision; no verdict is claimed")})
    m = {
        "version": 1,
        "setup_cmd": "./setup.sh",
        "hooks": {
            "guard": "verif",
            "enable": "none needed: every check is a static analysis of /repo's source (go/packages + go/ssa); no guarded code exists in /repo",
            "baseline_off_cmd": "cd /repo && go test -json -vet=off -count=1 -timeout 25m ./...",
            "source_commits": [],
            "add_only": True,
        },
        "engines": [{
            "name": "notacheck",
            "path": "checker/",
            "serves_properties": sorted(CLAIMS),
            "kind_free_text": "repository-specific static analyser over the type-checked program in SSA form: interprocedural must-check/fail-closed gate analysis (edge cuts on CFG x soft-failure bits), "
                              "provenance by access-path labels rewritten into the entry point's frame, who-may-call inventories, ownership/deep-copy, finite decision tables, typestate, reader/writer agreement, panic-site inventory",
        }],
        "checks": checks,
        "notes": "Static analysis only (see DESIGN.md). quick = reference build configuration linux/amd64; thorough adds windows/amd64 and linux/386 and the self-validation variant corpus (variants/<id>/: "
                 "source rewrites applied in memory that must be flagged / must stay silent). Known findings and repaired defects: known_findings.txt.",
        "not_applicable": na,
    }
    json.dump(m, open(os.path.join(here, 'MANIFEST.json'), 'w'), indent=1)
    print('checks:', len(checks), 'not_applicable:', len(na))

main()
