#!/usr/bin/env python3
"""Mutation coverage of the rule sets (tooling, not a registered check).
usage: tools/guard_mutants.py <repo> <out.json> [workers]
Every guard of the product packages (an `if` / tagless `switch` case whose body leaves the normal flow; listed by
bin/guardmut) is disabled in memory (`if C {` -> `if false && (C) {`) and all 20 rule sets are run over the changed
tree in one process (`notacheck -property all -overlay ...`). A mutant that no check flags is a guard no obligation
protects; the list is read by hand: most survivors are argument validation, logging and error decoration outside the
twenty properties, the others are candidate gaps."""
import json, os, subprocess, sys, tempfile
from concurrent.futures import ThreadPoolExecutor
repo, out = sys.argv[1], sys.argv[2]
workers = int(sys.argv[3]) if len(sys.argv) > 3 else 8
here = os.path.dirname(os.path.dirname(os.path.abspath(__file__)))
nota = os.environ.get('NOTACHECK', os.path.join(here, 'bin', 'notacheck'))
kinds = os.environ.get('KINDS')  # e.g. KINDS=if-stay,case-stay: the tests whose body stays in the flow (needs -stay)
guards = json.loads(subprocess.check_output([os.path.join(here, 'bin', 'guardmut'), '-dir', repo] + (['-stay'] if kinds else [])))
if kinds:
    guards = [g for g in guards if g['kind'] in kinds.split(',')]
tmp = tempfile.mkdtemp(prefix='guardmut.')
def run(i):
    g = guards[i]
    src = open(os.path.join(repo, g['file'])).read().encode()
    pre, cond = src[:g['start']].decode(), src[g['start']:g['end']].decode()
    spec = {"name": "guard-%d" % i, "edits": [{"file": g['file'], "find": pre + cond, "replace": pre + "false && (" + cond + ")"}]}
    p = os.path.join(tmp, '%d.json' % i)
    json.dump(spec, open(p, 'w'))
    r = subprocess.run([nota, '-property', 'all', '-repo', repo, '-overlay', p, '-no-evidence'], capture_output=True, text=True)
    os.remove(p)
    flagged = {}
    for l in r.stdout.splitlines():
        if l.startswith('ALL ') and ' flagged ' in l:
            parts = l.split()
            flagged[parts[1]] = parts[4:][:6]
    err = ''
    if not any(l.startswith('ALL ') for l in r.stdout.splitlines()):
        err = (r.stdout + r.stderr)[-300:]
    return dict(g, index=i, flagged_by=flagged, error=err)
with ThreadPoolExecutor(workers) as ex:
    res = list(ex.map(run, range(len(guards))))
os.rmdir(tmp)
killed = [r for r in res if r['flagged_by']]
errors = [r for r in res if r['error']]
surv = [r for r in res if not r['flagged_by'] and not r['error']]
json.dump({"guards": len(res), "flagged": len(killed), "not_flagged": len(surv), "errors": len(errors), "results": res}, open(out, 'w'), indent=1)
print("guards %d: disabled guard flagged by some check %d, by none %d, errors %d" % (len(res), len(killed), len(surv), len(errors)))
