#!/usr/bin/env python3
"""Generates variants/<id>/<name>.json from the compact tables in tools/variants_src/*.py.
Each variant is a source rewrite {file, find, replace} (or a list of edits) applied in memory to the
current tree, with the expected outcome: "flagged(<substring of obligation key>)" or "silent"."""
import json, os, sys, glob, importlib.util, shutil

here = os.path.dirname(os.path.dirname(os.path.abspath(__file__)))

def main():
    for src in sorted(glob.glob(os.path.join(here, 'tools', 'variants_src', 'C*.py'))):
        pid = os.path.basename(src)[:-3]
        if len(sys.argv) > 1 and pid not in sys.argv[1:]:
            continue
        spec = importlib.util.spec_from_file_location(pid, src)
        mod = importlib.util.module_from_spec(spec)
        spec.loader.exec_module(mod)
        d = os.path.join(here, 'variants', pid)
        shutil.rmtree(d, ignore_errors=True)
        os.makedirs(d)
        for v in mod.VARIANTS:
            out = dict(name=v['name'], expect=v['expect'])
            if 'edits' in v:
                out['edits'] = [dict(file=e[0], find=e[1], replace=e[2]) for e in v['edits']]
            if 'find' in v:
                out.update(file=v['file'], find=v['find'], replace=v['replace'])
            if v.get('all'):
                out['all'] = True
            if 'why' in v:
                out['why'] = v['why']
            json.dump(out, open(os.path.join(d, v['name'] + '.json'), 'w'), indent=1)
        print(pid, len(mod.VARIANTS), 'variants')

main()
