#!/bin/bash
# usage: tools/patch_check.sh <patch.diff> [ids...]  — applies the patch to a scratch worktree of /repo HEAD, checks that it
# builds, and prints for every armed check either "silent" or the violated/undecided obligations with their detail.
export GOFLAGS=-mod=mod GOPROXY=off GOSUMDB=off GOTOOLCHAIN=local; unset GOWORK
P=$1; shift
D=$(mktemp -d /tmp/pchk.XXXX)
git -C /repo worktree add -q --detach $D/wt HEAD || exit 2
( cd $D/wt && git apply $P ) || { echo "PATCH-DOES-NOT-APPLY"; git -C /repo worktree remove --force $D/wt; rm -rf $D; exit 2; }
( cd $D/wt && go build ./... ) || { echo "DOES-NOT-BUILD"; git -C /repo worktree remove --force $D/wt; rm -rf $D; exit 2; }
cd /verif
ids="$@"; [ -z "$ids" ] && ids=$(python3 -c "import json;print(' '.join(c['property_id'] for c in json.load(open('MANIFEST.json'))['checks']))")
rc=0
for id in $ids; do
  out=$(${NOTACHECK:-bin/notacheck} -property $id -repo $D/wt -no-evidence 2>&1); r=$?
  if [ $r -ne 0 ]; then rc=1; echo "FLAGS $id:"; echo "$out" | grep -E -A3 '^\s+\[(VIOLATED|UNDECIDED)\]' | cut -c1-${W:-420}; fi
done
[ $rc -eq 0 ] && echo "all checks silent"
git -C /repo worktree remove --force $D/wt; rm -rf $D
exit $rc
