#!/usr/bin/env python3
"""Self-validation of the checker (thorough tier), false-alarm direction: applies each mechanical behaviour-preserving
rewrite of checker/cmd/refactor to a scratch copy of the CURRENT tree (all product packages) and records whether the
property's check stays silent. The verdict on /repo never depends on this: results are merged into the variants report
(rewrites_*) and only recorded in the evidence. Scratch copies live in a fresh temporary directory and are removed."""
import json, os, shutil, subprocess, sys, tempfile
from concurrent.futures import ThreadPoolExecutor

MODES = ['locals', 'funcs', 'types', 'globals', 'reorder', 'swapeq', 'lencmp', 'logparams', 'idxloop', 'negif']

def main():
    pid, repo, out = sys.argv[1], sys.argv[2], sys.argv[3]
    here = os.path.dirname(os.path.dirname(os.path.abspath(__file__)))
    rep = json.load(open(out)) if os.path.exists(out) else {}
    base = tempfile.mkdtemp(prefix='notacheck-rw-')
    env = dict(os.environ, GOFLAGS='-mod=mod', GOPROXY='off', GOSUMDB='off', GOTOOLCHAIN='local')
    env.pop('GOWORK', None)
    def run(mode):
        d = os.path.join(base, mode)
        try:
            shutil.copytree(repo, d, ignore=shutil.ignore_patterns('.git', '*_test.go'), symlinks=True)
            p = subprocess.run([os.path.join(here, 'bin', 'refactor'), '-dir', d, '-mode', mode], capture_output=True, text=True, env=env)
            if p.returncode != 0:
                return mode, 'skipped', 'rewriter: ' + (p.stdout + p.stderr)[-200:]
            p = subprocess.run(['go', 'build', './...'], cwd=d, capture_output=True, text=True, env=env)
            if p.returncode != 0:
                return mode, 'skipped', 'rewritten tree does not build: ' + p.stderr[-200:]
            p = subprocess.run([os.environ.get('NOTACHECK', os.path.join(here, 'bin', 'notacheck')), '-property', pid, '-tier', 'quick', '-repo', d, '-no-evidence', '-json'],
                               capture_output=True, text=True, errors='replace', env=env)
            keys = []
            for line in p.stdout.splitlines():
                if line.startswith('JSON '):
                    try:
                        keys = [o['key'] for o in json.loads(line[5:]) if o['status'] != 'discharged' and not o.get('known_finding')]
                    except Exception:
                        pass
            if p.returncode == 0:
                return mode, 'silent', ''
            return mode, 'flagged', ','.join(keys[:6])
        finally:
            shutil.rmtree(d, ignore_errors=True)
    try:
        with ThreadPoolExecutor(max_workers=5) as ex:
            res = list(ex.map(run, MODES))
    finally:
        shutil.rmtree(base, ignore_errors=True)
    rep['rewrites_applied'] = sum(1 for _, s, _ in res if s != 'skipped')
    rep['rewrites_silent'] = sum(1 for _, s, _ in res if s == 'silent')
    rep['rewrites_flagged'] = ['%s: %s' % (m, k) for m, s, k in res if s == 'flagged']
    rep['rewrites_skipped'] = ['%s: %s' % (m, k) for m, s, k in res if s == 'skipped']
    json.dump(rep, open(out, 'w'), indent=1)
    print('rewrites %s: %d/%d silent, flagged=%s skipped=%s' % (pid, rep['rewrites_silent'], rep['rewrites_applied'], rep['rewrites_flagged'], [x.split(':')[0] for x in rep['rewrites_skipped']]))

main()
