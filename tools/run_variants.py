#!/usr/bin/env python3
"""Self-validation of the checker (thorough tier): applies each source rewrite of
variants/<id>/*.json in memory (go/packages overlay) to the CURRENT tree and records whether
the checker reports it. The verdict on /repo never depends on this corpus: a variant whose
`find` text no longer occurs is skipped; an unexpected outcome is reported in the evidence
(mutants_missed / benign_flagged) but does not fail the property check."""
import json, os, subprocess, sys, glob, random
from concurrent.futures import ThreadPoolExecutor

def main():
    pid, repo, out = sys.argv[1], sys.argv[2], sys.argv[3]
    here = os.path.dirname(os.path.dirname(os.path.abspath(__file__)))
    files = sorted(glob.glob(os.path.join(here, 'variants', pid, '*.json')))
    seed = int(os.environ.get('VERIF_SEED', '0') or 0)
    random.Random(seed).shuffle(files)
    def run(f):
        spec = json.load(open(f))
        p = subprocess.run([os.environ.get('NOTACHECK', os.path.join(here, 'bin', 'notacheck')), '-property', pid, '-tier', 'quick', '-repo', repo,
                            '-overlay', f, '-no-evidence', '-json'], capture_output=True, text=True, errors='replace')
        keys = []
        for line in p.stdout.splitlines():
            if line.startswith('JSON '):
                try:
                    keys = [o['key'] for o in json.loads(line[5:]) if o['status'] != 'discharged' and not o.get('known_finding')]
                except Exception:
                    pass
        status = 'error'
        if p.returncode == 3: status = 'skipped'
        elif p.returncode == 0: status = 'silent'
        elif p.returncode == 1: status = 'flagged'
        loaderr = 'ERROR load' in p.stdout
        return dict(name=os.path.basename(f)[:-5], expect=spec.get('expect', ''), status=status, keys=keys, load_error=loaderr,
                    tail=p.stdout[-400:] if status == 'error' or loaderr else '')
    with ThreadPoolExecutor(max_workers=int(os.environ.get('VARIANT_WORKERS', '6'))) as ex:
        res = list(ex.map(run, files))
    rep = dict(property_id=pid, mutants_applied=0, mutants_flagged=0, benign_applied=0, benign_silent=0, skipped=0,
               mutants_missed=[], benign_flagged=[], wrong_obligation=[], errors=[], results=res)
    for r in sorted(res, key=lambda r: r['name']):
        e = r['expect']
        if r['status'] == 'skipped':
            rep['skipped'] += 1; continue
        if r['status'] == 'error' or r['load_error']:
            rep['errors'].append(r['name']); continue
        if e.startswith('flagged'):
            rep['mutants_applied'] += 1
            want = e[len('flagged'):].strip('()')
            if r['status'] == 'flagged':
                if want and not any(want in k for k in r['keys']):
                    rep['wrong_obligation'].append(r['name'])
                else:
                    rep['mutants_flagged'] += 1
            else:
                rep['mutants_missed'].append(r['name'])
        elif e == 'silent':
            rep['benign_applied'] += 1
            if r['status'] == 'silent': rep['benign_silent'] += 1
            else: rep['benign_flagged'].append(r['name'])
    json.dump(rep, open(out, 'w'), indent=1)
    print('variants %s: %d/%d mutants flagged, %d/%d benign silent, %d skipped, missed=%s benign_flagged=%s wrong=%s errors=%s' % (
        pid, rep['mutants_flagged'], rep['mutants_applied'], rep['benign_silent'], rep['benign_applied'], rep['skipped'],
        rep['mutants_missed'], rep['benign_flagged'], rep['wrong_obligation'], rep['errors']))

main()
