#!/bin/bash
# usage: tools/seed_caught.sh <ID> <N>  — prints the comma separated obligation keys (all armed checks) that flag /tmp/seed/out-<ID>/<N>/patch.diff
export GOFLAGS=-mod=mod GOPROXY=off GOSUMDB=off GOTOOLCHAIN=local; unset GOWORK
ID=$1; N=$2
D=$(mktemp -d /tmp/seedchk.XXXX)
git -C /repo worktree add -q --detach $D/wt HEAD || exit 2
( cd $D/wt && git apply /tmp/seed/out-$ID/$N/patch.diff ) || { echo "PATCH-DOES-NOT-APPLY"; git -C /repo worktree remove --force $D/wt; exit 2; }
cd /verif
keys=""
for id in $(python3 -c "import json;print(' '.join(c['property_id'] for c in json.load(open('MANIFEST.json'))['checks']))"); do
  out=$(bin/notacheck -property $id -repo $D/wt -no-evidence 2>&1)
  k=$(echo "$out" | grep -E '^\s+\[(VIOLATED|UNDECIDED)\]' | sed -E 's/^\s+\[[A-Z]+\] //' | grep -v '#count$' | paste -sd, )
  [ -n "$k" ] && keys="$keys${keys:+,}$k"
done
git -C /repo worktree remove --force $D/wt; rm -rf $D
echo "${keys:-MISSED}"
