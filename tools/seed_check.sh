#!/bin/bash
# usage: tools/seed_check.sh <patch.diff> [ids...]  — runs the armed checks on a scratch copy of /repo's HEAD with the patch applied
export GOFLAGS=-mod=mod GOPROXY=off GOSUMDB=off GOTOOLCHAIN=local; unset GOWORK
P=$1; shift
D=$(mktemp -d /tmp/seedchk.XXXX)
git -C /repo worktree add -q --detach $D/wt HEAD || exit 2
( cd $D/wt && git apply $P ) || { echo "patch does not apply"; git -C /repo worktree remove --force $D/wt; exit 2; }
cd /verif
ids="$@"; [ -z "$ids" ] && ids=$(python3 -c "import json;print(' '.join(c['property_id'] for c in json.load(open('MANIFEST.json'))['checks']))")
for id in $ids; do
  out=$(bin/notacheck -property $id -repo $D/wt -no-evidence 2>&1); rc=$?
  if [ $rc -ne 0 ]; then echo "CHECK $id FLAGS:"; echo "$out" | grep -E '^\s+\[(VIOLATED|UNDECIDED)\]' | head -8; else echo "check $id silent"; fi
done
git -C /repo worktree remove --force $D/wt; rm -rf $D
