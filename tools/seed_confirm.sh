#!/bin/bash
# usage: tools/seed_confirm.sh <ID> <N> <demo package dir>   — confirms a seeded change in its scratch worktree
export GOFLAGS=-mod=mod GOPROXY=off GOSUMDB=off GOTOOLCHAIN=local; unset GOWORK
ID=$1; N=$2; PKG=$3
OUT=/tmp/seed/out-$ID/$N; WT=/tmp/seed/wt-$ID
cd $WT && git checkout -q -- . && git clean -fdq
cp $OUT/*_test.go $WT/$PKG/
names=$(grep -ho '^func Test[A-Za-z0-9_]*' $OUT/*_test.go | sed 's/func //' | paste -sd'|')
( cd $WT/$PKG && go test -vet=off -count=1 -run "^($names)\$" . > /tmp/seed/pristine-$ID-$N.log 2>&1; echo "$ID/$N pristine demo exit=$?" )
git apply $OUT/patch.diff || { echo "$ID/$N patch does not apply"; exit 2; }
( cd $WT && go build ./... && echo "$ID/$N changed tree builds" )
( cd $WT/$PKG && go test -vet=off -count=1 -run "^($names)\$" . > /tmp/seed/changed-$ID-$N.log 2>&1; echo "$ID/$N changed demo exit=$?" )
for f in $OUT/*_test.go; do rm -f $WT/$PKG/$(basename $f); done
( cd $WT && go test -json -vet=off -count=1 -timeout 25m ./... > /tmp/seed/suite-$ID-$N.json 2>/dev/null )
python3 - <<PY
import json
bl=json.load(open('/root/.vp/BASELINE.json')); stable=set(bl['stable_pass']); res={}
for l in open('/tmp/seed/suite-$ID-$N.json'):
    try: e=json.loads(l)
    except: continue
    if e.get('Action') in('pass','fail','skip') and e.get('Test'): res[e['Package']+'::'+e['Test']]=e['Action']
missing=[t for t in stable if res.get(t)!='pass']
print('$ID/$N stable tests not passing with the change:',len(missing),missing[:5])
PY
cd $WT && git checkout -q -- . && git clean -fdq
