#!/bin/bash
# usage: tools/seed_eval.sh <ID> <N> [demo package dir relative to repo]
# 1. confirms the seeded change in the scratch worktree /tmp/seed/wt-<ID>: pristine demo passes, changed demo fails,
#    changed tree builds and the stable baseline tests still pass;
# 2. applies the patch to /repo, runs every armed check, undoes the patch.
export GOFLAGS=-mod=mod GOPROXY=off GOSUMDB=off GOTOOLCHAIN=local; unset GOWORK
ID=$1; N=$2; PKG=${3:-}
OUT=/tmp/seed/out-$ID/$N; WT=/tmp/seed/wt-$ID
[ -f $OUT/patch.diff ] || { echo "no patch"; exit 2; }
if [ -z "$PKG" ]; then PKG=$(grep -ho 'package [a-z_]*' $OUT/*_test.go | head -1 | awk '{print $2}' | sed 's/_test$//'); fi
cd $WT && git checkout -q -- . && git clean -fdq
echo "== demo package dir: $PKG"
cp $OUT/*_test.go $WT/$PKG/ 2>/dev/null
names=$(grep -ho '^func Test[A-Za-z0-9_]*' $OUT/*_test.go | sed 's/func //' | paste -sd'|')
( cd $WT/$PKG && go test -vet=off -count=1 -run "^($names)\$" . > /tmp/seed/pristine-$ID-$N.log 2>&1; echo "pristine demo exit=$?" )
git apply $OUT/patch.diff || { echo "patch does not apply"; exit 2; }
( cd $WT && go build ./... && echo "changed tree builds" )
( cd $WT/$PKG && go test -vet=off -count=1 -run "^($names)\$" . > /tmp/seed/changed-$ID-$N.log 2>&1; echo "changed demo exit=$?" )
rm -f $WT/$PKG/$(basename -a $OUT/*_test.go | paste -sd' ' | sed "s| | $WT/$PKG/|g")
for f in $OUT/*_test.go; do rm -f $WT/$PKG/$(basename $f); done
( cd $WT && go test -json -vet=off -count=1 -timeout 25m ./... > /tmp/seed/suite-$ID-$N.json 2>/dev/null )
python3 - <<PY
import json
bl=json.load(open('/root/.vp/BASELINE.json')); stable=set(bl['stable_pass']); res={}
for l in open('/tmp/seed/suite-$ID-$N.json'):
    try: e=json.loads(l)
    except: continue
    if e.get('Action') in('pass','fail','skip') and e.get('Test'): res[e['Package']+'::'+e['Test']]=e['Action']
missing=[t for t in stable if res.get(t)!='pass']
print('stable tests not passing with the change:',len(missing),missing[:5])
PY
cd $WT && git checkout -q -- . && git clean -fdq
# run the armed checks against /repo with the patch
cd /repo && git apply $OUT/patch.diff || { echo "patch does not apply to /repo"; exit 2; }
cd /verif
for id in $(python3 -c "import json;print(' '.join(c['property_id'] for c in json.load(open('MANIFEST.json'))['checks']))"); do
  out=$(bin/notacheck -property $id -no-evidence 2>&1); rc=$?
  if [ $rc -ne 0 ]; then echo "CHECK $id FLAGS:"; echo "$out" | grep -E '^\s+\[(VIOLATED|UNDECIDED)\]' | head -8; else echo "check $id silent"; fi
done
git -C /repo checkout -- . 
git -C /repo status --short | head -3
