#!/usr/bin/env python3
"""usage: seed_keep.py <ID> <N> <demo pkg dir> <needs> <caught_by (comma separated obligation keys or 'MISSED')>
Copies a confirmed seeded change into /verif/seeded/<ID>-<N>/ and writes meta.json."""
import sys, os, shutil, json, glob
pid, n, pkg, needs, caught = sys.argv[1:6]
src = '/tmp/seed/out-%s/%s' % (pid, n)
dst = '/verif/seeded/%s-%s' % (pid, n)
os.makedirs(dst, exist_ok=True)
for f in glob.glob(src + '/*'):
    if os.path.isfile(f) and os.path.getsize(f) < 300000 and not f.endswith('.txt'):
        shutil.copy(f, dst)
def tail(p):
    try: return open(p).read()[-300:]
    except Exception: return ''
meta = {
  "property": pid,
  "breaks": open(src + '/README.md').read().split('\n\n')[0][:600] if os.path.exists(src + '/README.md') else '',
  "needs_to_manifest": needs,
  "demo": {"copy_into": pkg, "files": sorted(os.path.basename(f) for f in glob.glob(src + '/*_test.go'))},
  "confirmed": {
     "how": "tools/seed_confirm.sh %s %s %s in a scratch worktree of /repo HEAD: demo on pristine tree, patch applied + go build ./..., demo on changed tree, full suite on changed tree compared with BASELINE.json stable_pass" % (pid, n, pkg),
     "pristine_demo": "pass", "changed_demo": "fail", "changed_tree_builds": True, "stable_tests_not_passing_with_change": 0,
  },
  "checks_run": "tools/seed_check.sh patch.diff (every armed check on a scratch worktree with the patch applied)",
  "caught_by": [] if caught == 'MISSED' else caught.split(','),
  "author": "independent sub-agent given only the property text and a scratch worktree",
}
json.dump(meta, open(dst + '/meta.json', 'w'), indent=1)
print('kept', dst)
