V = 'verifier/verifier.go'
VARIANTS = [
 dict(name='drop-size-compare', file=V, expect='flagged(blob/size-equal)',
      find='desc.Digest != payload.TargetArtifact.Digest || desc.Size != payload.TargetArtifact.Size ||',
      replace='desc.Digest != payload.TargetArtifact.Digest ||'),
 dict(name='drop-digest-compare', file=V, expect='flagged(blob/digest-equal)',
      find='desc.Digest != payload.TargetArtifact.Digest || desc.Size != payload.TargetArtifact.Size ||',
      replace='desc.Size != payload.TargetArtifact.Size ||'),
 dict(name='or-to-and', file=V, expect='flagged(blob/)',
      find='desc.Digest != payload.TargetArtifact.Digest || desc.Size != payload.TargetArtifact.Size ||',
      replace='desc.Digest != payload.TargetArtifact.Digest && desc.Size != payload.TargetArtifact.Size ||'),
 dict(name='drop-mediatype-compare', file=V, expect='flagged(blob/mediatype-equal)',
      find='desc.Size != payload.TargetArtifact.Size ||\n\t\t(desc.MediaType != "" && desc.MediaType != payload.TargetArtifact.MediaType) {',
      replace='desc.Size != payload.TargetArtifact.Size {'),
 dict(name='mediatype-guard-on-payload', file=V, expect='flagged(blob/mediatype-equal)',
      find='(desc.MediaType != "" && desc.MediaType != payload.TargetArtifact.MediaType)',
      replace='(payload.TargetArtifact.MediaType != "" && desc.MediaType != payload.TargetArtifact.MediaType)'),
 dict(name='metadata-overwrites-failure-oci', file=V, expect='flagged(oci/)',
      find='''		err := verifyUserMetadata(logger, payload, opts.UserMetadata)
		if err != nil {
			outcome.Error = err
		}
	}

	return outcome, outcome.Error
}

func (v *verifier) processSignature''',
      replace='''		err := verifyUserMetadata(logger, payload, opts.UserMetadata)
		outcome.Error = err
	}

	return outcome, outcome.Error
}

func (v *verifier) processSignature'''),
 dict(name='payload-type-check-removed', file=V, expect='flagged(payload-type)',
      find='if err := envelope.ValidatePayloadContentType(&envContent.Payload); err != nil {',
      replace='if err := envelope.ValidatePayloadContentType(&envContent.Payload); err != nil && false {'),
 dict(name='payload-type-any', file='internal/envelope/envelope.go', expect='flagged(payload-type)',
      find='\tcase MediaTypePayloadV1:\n\t\treturn nil\n\tdefault:', replace='\tcase MediaTypePayloadV1, "application/json":\n\t\treturn nil\n\tdefault:'),
 dict(name='sigenv-verify-skipped', file=V, expect='flagged(envelope-verify)',
      find='\tenvContent, err := sigEnv.Verify()\n\tif err != nil {\n\t\tswitch err.(type) {',
      replace='\tenvContent, err := sigEnv.Content()\n\tif err != nil {\n\t\tswitch err.(type) {'),
 dict(name='integrity-gate-through-action', file=V, expect='flagged(parse-envelope)',
      find='\tif integrityResult.Error != nil {\n\t\tlogVerificationResult(logger, integrityResult)',
      replace='\tif isCriticalFailure(integrityResult) {\n\t\tlogVerificationResult(logger, integrityResult)'),
 dict(name='digest-algorithm-hardcoded', file=V, expect='flagged(blob/)',
      find='desc, err := descGenFunc(digestAlgo)', replace='_ = digestAlgo\n\tdesc, err := descGenFunc(digest.SHA256)'),
 dict(name='descriptor-compared-with-itself', file=V, expect='flagged(oci/descriptor-equal)',
      find='if !content.Equal(payload.TargetArtifact, desc) {', replace='if !content.Equal(desc, desc) {'),
 dict(name='content-equal-removed', file=V, expect='flagged(oci/descriptor-equal)',
      find='if !content.Equal(payload.TargetArtifact, desc) {', replace='if !content.Equal(payload.TargetArtifact, desc) && len(opts.UserMetadata) == 0 {'),
 dict(name='metadata-early-success', file=V, expect='flagged(metadata-loop)',
      find='''			return notation.ErrorUserMetadataVerificationFailed{}
		}
	}
''', replace='''			return notation.ErrorUserMetadataVerificationFailed{}
		}
		return nil
	}
'''),
 dict(name='metadata-missing-key-accepted', file=V, expect='flagged(metadata-loop)',
      find='if got, ok := payload.TargetArtifact.Annotations[k]; !ok || got != v {',
      replace='if got, ok := payload.TargetArtifact.Annotations[k]; ok && got != v {'),
 dict(name='metadata-not-checked-blob', file=V, expect='flagged(blob/metadata-gate)',
      find='''	if len(opts.UserMetadata) > 0 {
		err := verifyUserMetadata(logger, payload, opts.UserMetadata)
		if err != nil {
			outcome.Error = err
		}
	}

	return outcome, outcome.Error
}

// Verify verifies''', replace='''	if len(opts.UserMetadata) > 1 {
		err := verifyUserMetadata(logger, payload, opts.UserMetadata)
		if err != nil {
			outcome.Error = err
		}
	}

	return outcome, outcome.Error
}

// Verify verifies'''),
 dict(name='integrity-log-in-audit', file='verifier/trustpolicy/trustpolicy.go', expect='flagged(levels/LevelAudit)',
      find='''		Name: "audit",
		Enforcement: map[ValidationType]ValidationAction{
			TypeIntegrity:          ActionEnforce,''', replace='''		Name: "audit",
		Enforcement: map[ValidationType]ValidationAction{
			TypeIntegrity:          ActionLog,'''),
 dict(name='integrity-override-allowed', file='verifier/trustpolicy/trustpolicy.go', expect='flagged(levels/custom)',
      find='if validationType == TypeIntegrity {\n\t\t\treturn nil, fmt.Errorf("%q verification can not be overridden in custom signature verification", key)\n\t\t} else if',
      replace='if'),
 dict(name='wrapper-ignores-error', file='notation.go', expect='flagged(wrapper)',
      find='vo, err := blobVerifier.VerifyBlob(ctx, getDescFunc, signature, verifyBlobOpts.BlobVerifierVerifyOptions)\n\tif err != nil {',
      replace='vo, err := blobVerifier.VerifyBlob(ctx, getDescFunc, signature, verifyBlobOpts.BlobVerifierVerifyOptions)\n\tif err != nil && vo == nil {'),
 # benign
 dict(name='benign-three-field-compare', file=V, expect='silent',
      find='if !content.Equal(payload.TargetArtifact, desc) {', replace='if !content.Equal(desc, payload.TargetArtifact) {'),
 dict(name='benign-helper-renamed', file=V, expect='silent', all=True,
      find='verifyIntegrity(', replace='checkEnvelopeIntegrity('),
 dict(name='benign-early-return', file=V, expect='silent',
      find='''	if !content.Equal(payload.TargetArtifact, desc) {
		logger.Infof("Target artifact in signature payload: %+v", payload.TargetArtifact)
		logger.Infof("Target artifact that want to be verified: %+v", desc)
		outcome.Error = errors.New("content descriptor mismatch")
	}
''', replace='''	if !content.Equal(payload.TargetArtifact, desc) {
		outcome.Error = errors.New("content descriptor mismatch")
		return outcome, outcome.Error
	}
'''),
 dict(name='benign-len-lt-1', file=V, expect='silent', all=True,
      find='if len(opts.UserMetadata) > 0 {', replace='if len(opts.UserMetadata) >= 1 {'),
 dict(name='benign-metadata-unconditional-call', file=V, expect='silent',
      find='''	if len(opts.UserMetadata) > 0 {
		err := verifyUserMetadata(logger, payload, opts.UserMetadata)
		if err != nil {
			outcome.Error = err
		}
	}

	return outcome, outcome.Error
}

func (v *verifier) processSignature''', replace='''	if err := verifyUserMetadata(logger, payload, opts.UserMetadata); err != nil {
		outcome.Error = err
	}

	return outcome, outcome.Error
}

func (v *verifier) processSignature'''),
 dict(name='benign-error-text', file=V, expect='silent',
      find='errors.New("content descriptor mismatch")', replace='fmt.Errorf("content descriptor mismatch: %v", desc.Digest)'),
 dict(name='benign-inline-payload-type', file=V, expect='silent',
      find='if err := envelope.ValidatePayloadContentType(&envContent.Payload); err != nil {',
      replace='if err := envelope.ValidatePayloadContentType(&envContent.Payload); err != nil || envContent.Payload.ContentType != envelope.MediaTypePayloadV1 {'),
]

# the comparison kept in a boolean variable (short-circuit value), then tested once
BM_OLD = '\tif desc.Digest != payload.TargetArtifact.Digest || desc.Size != payload.TargetArtifact.Size ||\n\t\t(desc.MediaType != "" && desc.MediaType != payload.TargetArtifact.MediaType) {\n'
def bm(expr):
    return '\tblobMatches := ' + expr + '\n\tif !blobMatches {\n'
VARIANTS += [
 dict(name='benign-blob-match-in-a-variable', file=V, expect='silent', find=BM_OLD,
      replace=bm('desc.Digest == payload.TargetArtifact.Digest &&\n\t\tdesc.Size == payload.TargetArtifact.Size &&\n\t\t(desc.MediaType == "" || desc.MediaType == payload.TargetArtifact.MediaType)')),
 dict(name='blob-match-variable-without-size', file=V, expect='flagged(blob/size-equal)', find=BM_OLD,
      replace=bm('desc.Digest == payload.TargetArtifact.Digest &&\n\t\t(desc.MediaType == "" || desc.MediaType == payload.TargetArtifact.MediaType)')),
 dict(name='blob-match-variable-digest-or-size', file=V, expect='flagged(blob/)', find=BM_OLD,
      replace=bm('(desc.Digest == payload.TargetArtifact.Digest || desc.Size == payload.TargetArtifact.Size) &&\n\t\t(desc.MediaType == "" || desc.MediaType == payload.TargetArtifact.MediaType)')),
 dict(name='blob-match-variable-tested-the-wrong-way', file=V, expect='flagged(blob/)', find=BM_OLD,
      replace='\tblobMatches := desc.Digest == payload.TargetArtifact.Digest &&\n\t\tdesc.Size == payload.TargetArtifact.Size &&\n\t\t(desc.MediaType == "" || desc.MediaType == payload.TargetArtifact.MediaType)\n\tif blobMatches {\n'),
]
