V = 'verifier/verifier.go'
VARIANTS = [
 dict(name='drop-size-compare', file=V, expect='flagged(blob/size-equal)',
      find='desc.Digest != payload.TargetArtifact.Digest || desc.Size != payload.TargetArtifact.Size ||',
      replace='desc.Digest != payload.TargetArtifact.Digest ||'),
 dict(name='drop-digest-compare', file=V, expect='flagged(blob/digest-equal)',
      find='desc.Digest != payload.TargetArtifact.Digest || desc.Size != payload.TargetArtifact.Size ||',
      replace='desc.Size != payload.TargetArtifact.Size ||'),
 dict(name='or-to-and', file=V, expect='flagged(blob/)',
      find='desc.Digest != payload.TargetArtifact.Digest || desc.Size != payload.TargetArtifact.Size ||',
      replace='desc.Digest != payload.TargetArtifact.Digest && desc.Size != payload.TargetArtifact.Size ||'),
 dict(name='drop-mediatype-compare', file=V, expect='flagged(blob/mediatype-equal)',
      find='desc.Size != payload.TargetArtifact.Size ||\n\t\t(desc.MediaType != "" && desc.MediaType != payload.TargetArtifact.MediaType) {',
      replace='desc.Size != payload.TargetArtifact.Size {'),
 dict(name='mediatype-guard-on-payload', file=V, expect='flagged(blob/mediatype-equal)',
      find='(desc.MediaType != "" && desc.MediaType != payload.TargetArtifact.MediaType)',
      replace='(payload.TargetArtifact.MediaType != "" && desc.MediaType != payload.TargetArtifact.MediaType)'),
 dict(name='metadata-overwrites-failure-oci', file=V, expect='flagged(oci/)',
      find='''		err := verifyUserMetadata(logger, payload, opts.UserMetadata)
		if err != nil {
			outcome.Error = err
		}
	}

	return outcome, outcome.Error
}

func (v *verifier) processSignature''',
      replace='''		err := verifyUserMetadata(logger, payload, opts.UserMetadata)
		outcome.Error = err
	}

	return outcome, outcome.Error
}

func (v *verifier) processSignature'''),
 dict(name='payload-type-check-removed', file=V, expect='flagged(payload-type)',
      find='if err := envelope.ValidatePayloadContentType(&envContent.Payload); err != nil {',
      replace='if err := envelope.ValidatePayloadContentType(&envContent.Payload); err != nil && false {'),
 dict(name='payload-type-any', file='internal/envelope/envelope.go', expect='flagged(payload-type)',
      find='\tcase MediaTypePayloadV1:\n\t\treturn nil\n\tdefault:', replace='\tcase MediaTypePayloadV1, "application/json":\n\t\treturn nil\n\tdefault:'),
 dict(name='sigenv-verify-skipped', file=V, expect='flagged(envelope-verify)',
      find='\tenvContent, err := sigEnv.Verify()\n\tif err != nil {\n\t\tswitch err.(type) {',
      replace='\tenvContent, err := sigEnv.Content()\n\tif err != nil {\n\t\tswitch err.(type) {'),
 dict(name='integrity-gate-through-action', file=V, expect='flagged(parse-envelope)',
      find='\tif integrityResult.Error != nil {\n\t\tlogVerificationResult(logger, integrityResult)',
      replace='\tif isCriticalFailure(integrityResult) {\n\t\tlogVerificationResult(logger, integrityResult)'),
 dict(name='digest-algorithm-hardcoded', file=V, expect='flagged(blob/)',
      find='desc, err := descGenFunc(digestAlgo)', replace='_ = digestAlgo\n\tdesc, err := descGenFunc(digest.SHA256)'),
 dict(name='descriptor-compared-with-itself', file=V, expect='flagged(oci/descriptor-equal)',
      find='if !content.Equal(payload.TargetArtifact, desc) {', replace='if !content.Equal(desc, desc) {'),
 dict(name='content-equal-removed', file=V, expect='flagged(oci/descriptor-equal)',
      find='if !content.Equal(payload.TargetArtifact, desc) {', replace='if !content.Equal(payload.TargetArtifact, desc) && len(opts.UserMetadata) == 0 {'),
 dict(name='metadata-early-success', file=V, expect='flagged(metadata-loop)',
      find='''			return notation.ErrorUserMetadataVerificationFailed{}
		}
	}
''', replace='''			return notation.ErrorUserMetadataVerificationFailed{}
		}
		return nil
	}
'''),
 dict(name='metadata-missing-key-accepted', file=V, expect='flagged(metadata-loop)',
      find='if got, ok := payload.TargetArtifact.Annotations[k]; !ok || got != v {',
      replace='if got, ok := payload.TargetArtifact.Annotations[k]; ok && got != v {'),
 dict(name='metadata-not-checked-blob', file=V, expect='flagged(blob/metadata-gate)',
      find='''	if len(opts.UserMetadata) > 0 {
		err := verifyUserMetadata(logger, payload, opts.UserMetadata)
		if err != nil {
			outcome.Error = err
		}
	}

	return outcome, outcome.Error
}

// Verify verifies''', replace='''	if len(opts.UserMetadata) > 1 {
		err := verifyUserMetadata(logger, payload, opts.UserMetadata)
		if err != nil {
			outcome.Error = err
		}
	}

	return outcome, outcome.Error
}

// Verify verifies'''),
 dict(name='integrity-log-in-audit', file='verifier/trustpolicy/trustpolicy.go', expect='flagged(levels/LevelAudit)',
      find='''		Name: "audit",
		Enforcement: map[ValidationType]ValidationAction{
			TypeIntegrity:          ActionEnforce,''', replace='''		Name: "audit",
		Enforcement: map[ValidationType]ValidationAction{
			TypeIntegrity:          ActionLog,'''),
 dict(name='integrity-override-allowed', file='verifier/trustpolicy/trustpolicy.go', expect='flagged(levels/custom)',
      find='if validationType == TypeIntegrity {\n\t\t\treturn nil, fmt.Errorf("%q verification can not be overridden in custom signature verification", key)\n\t\t} else if',
      replace='if'),
 dict(name='wrapper-ignores-error', file='notation.go', expect='flagged(wrapper)',
      find='vo, err := blobVerifier.VerifyBlob(ctx, getDescFunc, signature, verifyBlobOpts.BlobVerifierVerifyOptions)\n\tif err != nil {',
      replace='vo, err := blobVerifier.VerifyBlob(ctx, getDescFunc, signature, verifyBlobOpts.BlobVerifierVerifyOptions)\n\tif err != nil && vo == nil {'),
 # benign
 dict(name='benign-three-field-compare', file=V, expect='silent',
      find='if !content.Equal(payload.TargetArtifact, desc) {', replace='if !content.Equal(desc, payload.TargetArtifact) {'),
 dict(name='benign-helper-renamed', file=V, expect='silent', all=True,
      find='verifyIntegrity(', replace='checkEnvelopeIntegrity('),
 dict(name='benign-early-return', file=V, expect='silent',
      find='''	if !content.Equal(payload.TargetArtifact, desc) {
		logger.Infof("Target artifact in signature payload: %+v", payload.TargetArtifact)
		logger.Infof("Target artifact that want to be verified: %+v", desc)
		outcome.Error = errors.New("content descriptor mismatch")
	}
''', replace='''	if !content.Equal(payload.TargetArtifact, desc) {
		outcome.Error = errors.New("content descriptor mismatch")
		return outcome, outcome.Error
	}
'''),
 dict(name='benign-len-lt-1', file=V, expect='silent', all=True,
      find='if len(opts.UserMetadata) > 0 {', replace='if len(opts.UserMetadata) >= 1 {'),
 dict(name='benign-metadata-unconditional-call', file=V, expect='silent',
      find='''	if len(opts.UserMetadata) > 0 {
		err := verifyUserMetadata(logger, payload, opts.UserMetadata)
		if err != nil {
			outcome.Error = err
		}
	}

	return outcome, outcome.Error
}

func (v *verifier) processSignature''', replace='''	if err := verifyUserMetadata(logger, payload, opts.UserMetadata); err != nil {
		outcome.Error = err
	}

	return outcome, outcome.Error
}

func (v *verifier) processSignature'''),
 dict(name='benign-error-text', file=V, expect='silent',
      find='errors.New("content descriptor mismatch")', replace='fmt.Errorf("content descriptor mismatch: %v", desc.Digest)'),
 dict(name='benign-inline-payload-type', file=V, expect='silent',
      find='if err := envelope.ValidatePayloadContentType(&envContent.Payload); err != nil {',
      replace='if err := envelope.ValidatePayloadContentType(&envContent.Payload); err != nil || envContent.Payload.ContentType != envelope.MediaTypePayloadV1 {'),
]

# the comparison kept in a boolean variable (short-circuit value), then tested once
BM_OLD = '\tif desc.Digest != payload.TargetArtifact.Digest || desc.Size != payload.TargetArtifact.Size ||\n\t\t(desc.MediaType != "" && desc.MediaType != payload.TargetArtifact.MediaType) {\n'
def bm(expr):
    return '\tblobMatches := ' + expr + '\n\tif !blobMatches {\n'
VARIANTS += [
 dict(name='benign-blob-match-in-a-variable', file=V, expect='silent', find=BM_OLD,
      replace=bm('desc.Digest == payload.TargetArtifact.Digest &&\n\t\tdesc.Size == payload.TargetArtifact.Size &&\n\t\t(desc.MediaType == "" || desc.MediaType == payload.TargetArtifact.MediaType)')),
 dict(name='blob-match-variable-without-size', file=V, expect='flagged(blob/size-equal)', find=BM_OLD,
      replace=bm('desc.Digest == payload.TargetArtifact.Digest &&\n\t\t(desc.MediaType == "" || desc.MediaType == payload.TargetArtifact.MediaType)')),
 dict(name='blob-match-variable-digest-or-size', file=V, expect='flagged(blob/)', find=BM_OLD,
      replace=bm('(desc.Digest == payload.TargetArtifact.Digest || desc.Size == payload.TargetArtifact.Size) &&\n\t\t(desc.MediaType == "" || desc.MediaType == payload.TargetArtifact.MediaType)')),
 dict(name='blob-match-variable-tested-the-wrong-way', file=V, expect='flagged(blob/)', find=BM_OLD,
      replace='\tblobMatches := desc.Digest == payload.TargetArtifact.Digest &&\n\t\tdesc.Size == payload.TargetArtifact.Size &&\n\t\t(desc.MediaType == "" || desc.MediaType == payload.TargetArtifact.MediaType)\n\tif blobMatches {\n'),
]

# ======================================================================================================================
# second pass: classes of behaviour-preserving rewrites (each class: the shape(s) as `silent`, the shape with the
# property broken as `flagged`)
# ======================================================================================================================

# ---- class A: the validation results are built by a constructor function (verdict forwarder, mObj) -------------------
VI_OLD = '''func verifyIntegrity(sigBlob []byte, envelopeMediaType string, outcome *notation.VerificationOutcome) (*signature.EnvelopeContent, *notation.ValidationResult) {
	// parse the signature
	sigEnv, err := signature.ParseEnvelope(envelopeMediaType, sigBlob)
	if err != nil {
		return nil, &notation.ValidationResult{
			Error:  fmt.Errorf("unable to parse the digital signature, error : %s", err),
			Type:   trustpolicy.TypeIntegrity,
			Action: outcome.VerificationLevel.Enforcement[trustpolicy.TypeIntegrity],
		}
	}

	// verify integrity
	envContent, err := sigEnv.Verify()
	if err != nil {
		switch err.(type) {
		case *signature.SignatureEnvelopeNotFoundError, *signature.InvalidSignatureError, *signature.SignatureIntegrityError:
			return nil, &notation.ValidationResult{
				Error:  err,
				Type:   trustpolicy.TypeIntegrity,
				Action: outcome.VerificationLevel.Enforcement[trustpolicy.TypeIntegrity],
			}
		default:
			// unexpected error
			return nil, &notation.ValidationResult{
				Error:  notation.ErrorVerificationInconclusive{Msg: err.Error()},
				Type:   trustpolicy.TypeIntegrity,
				Action: outcome.VerificationLevel.Enforcement[trustpolicy.TypeIntegrity],
			}
		}
	}

	if err := envelope.ValidatePayloadContentType(&envContent.Payload); err != nil {
		return nil, &notation.ValidationResult{
			Error:  err,
			Type:   trustpolicy.TypeIntegrity,
			Action: outcome.VerificationLevel.Enforcement[trustpolicy.TypeIntegrity],
		}
	}

	// integrity has been verified successfully
	return envContent, &notation.ValidationResult{
		Type:   trustpolicy.TypeIntegrity,
		Action: outcome.VerificationLevel.Enforcement[trustpolicy.TypeIntegrity],
	}
}
'''

CTOR = '''func newValidationResult(outcome *notation.VerificationOutcome, resultType trustpolicy.ValidationType, err error) *notation.ValidationResult {
	return &notation.ValidationResult{
		Error:  err,
		Type:   resultType,
		Action: outcome.VerificationLevel.Enforcement[resultType],
	}
}

'''
# other parameter order, object filled in by assignments
CTOR_ASSIGN = '''func makeResult(failure error, level *trustpolicy.VerificationLevel, kind trustpolicy.ValidationType) *notation.ValidationResult {
	r := new(notation.ValidationResult)
	r.Type = kind
	r.Action = level.Enforcement[kind]
	r.Error = failure
	return r
}

'''
# two levels: a constructor for the integrity step on top of the general one
CTOR_TWO = CTOR + '''func integrityOutcome(outcome *notation.VerificationOutcome, err error) *notation.ValidationResult {
	return newValidationResult(outcome, trustpolicy.TypeIntegrity, err)
}

'''

def vi(mk, prelude='', default_arm='err = notation.ErrorVerificationInconclusive{Msg: err.Error()}', type_err='err', ok='nil'):
    """verifyIntegrity with every result built by mk(<error expression>)"""
    return '''func verifyIntegrity(sigBlob []byte, envelopeMediaType string, outcome *notation.VerificationOutcome) (*signature.EnvelopeContent, *notation.ValidationResult) {
''' + prelude + '''	sigEnv, err := signature.ParseEnvelope(envelopeMediaType, sigBlob)
	if err != nil {
		return nil, ''' + mk('fmt.Errorf("unable to parse the digital signature, error : %s", err)') + '''
	}
	envContent, err := sigEnv.Verify()
	if err != nil {
		switch err.(type) {
		case *signature.SignatureEnvelopeNotFoundError, *signature.InvalidSignatureError, *signature.SignatureIntegrityError:
			// reported as it is
		default:
			''' + default_arm + '''
		}
		return nil, ''' + mk('err') + '''
	}
	if err := envelope.ValidatePayloadContentType(&envContent.Payload); err != nil {
		return nil, ''' + mk(type_err) + '''
	}
	return envContent, ''' + mk(ok) + '''
}
'''

mkA = lambda e: 'newValidationResult(outcome, trustpolicy.TypeIntegrity, ' + e + ')'
mkAssign = lambda e: 'makeResult(' + e + ', outcome.VerificationLevel, trustpolicy.TypeIntegrity)'
mkTwo = lambda e: 'integrityOutcome(outcome, ' + e + ')'
mkClosure = lambda e: 'result(' + e + ')'
CLOSURE = '''	result := func(failure error) *notation.ValidationResult {
		return &notation.ValidationResult{
			Type:   trustpolicy.TypeIntegrity,
			Action: outcome.VerificationLevel.Enforcement[trustpolicy.TypeIntegrity],
			Error:  failure,
		}
	}
'''
# the work split from the result building: a worker that returns (content, error), one constructor call on the single exit
VI_SPLIT = '''func verifyIntegrity(sigBlob []byte, envelopeMediaType string, outcome *notation.VerificationOutcome) (*signature.EnvelopeContent, *notation.ValidationResult) {
	envContent, err := openEnvelope(envelopeMediaType, sigBlob)
	return envContent, newValidationResult(outcome, trustpolicy.TypeIntegrity, err)
}

func openEnvelope(envelopeMediaType string, sigBlob []byte) (*signature.EnvelopeContent, error) {
	sigEnv, err := signature.ParseEnvelope(envelopeMediaType, sigBlob)
	if err != nil {
		return nil, fmt.Errorf("unable to parse the digital signature, error : %s", err)
	}
	envContent, err := sigEnv.Verify()
	switch err.(type) {
	case nil:
	case *signature.SignatureEnvelopeNotFoundError, *signature.InvalidSignatureError, *signature.SignatureIntegrityError:
		return nil, err
	default:
		return nil, notation.ErrorVerificationInconclusive{Msg: err.Error()}
	}
	if err := envelope.ValidatePayloadContentType(&envContent.Payload); err != nil {
		return nil, PAYLOADERR
	}
	return envContent, nil
}
'''

VARIANTS += [
 dict(name='benign-result-constructor', file=V, expect='silent', find=VI_OLD, replace=CTOR + vi(mkA)),
 dict(name='benign-result-constructor-assignments-other-order', file=V, expect='silent', find=VI_OLD, replace=CTOR_ASSIGN + vi(mkAssign)),
 dict(name='benign-result-constructor-two-levels', file=V, expect='silent', find=VI_OLD, replace=CTOR_TWO + vi(mkTwo)),
 dict(name='benign-result-constructor-closure', file=V, expect='silent', find=VI_OLD, replace=vi(mkClosure, prelude=CLOSURE)),
 dict(name='benign-result-constructor-worker-split', file=V, expect='silent', find=VI_OLD, replace=CTOR + VI_SPLIT.replace('PAYLOADERR', 'err')),
 # broken counterparts
 dict(name='result-constructor-unexpected-verify-error-dropped', file=V, expect='flagged(envelope-verify)', find=VI_OLD,
      replace=CTOR + vi(mkA, default_arm='err = nil')),
 dict(name='result-constructor-payload-type-error-dropped', file=V, expect='flagged(payload-type)', find=VI_OLD,
      replace=CTOR + vi(mkA, type_err='nil')),
 dict(name='result-constructor-ignores-error', file=V, expect='flagged(parse-envelope)', find=VI_OLD,
      replace=CTOR.replace('Error:  err,', 'Error:  nil,') + vi(mkA)),
 dict(name='result-constructor-error-only-for-other-types', file=V, expect='flagged(parse-envelope)', find=VI_OLD,
      replace='''func newValidationResult(outcome *notation.VerificationOutcome, resultType trustpolicy.ValidationType, err error) *notation.ValidationResult {
	r := &notation.ValidationResult{Type: resultType, Action: outcome.VerificationLevel.Enforcement[resultType]}
	if resultType != trustpolicy.TypeIntegrity {
		r.Error = err
	}
	return r
}

''' + vi(mkA)),
 dict(name='result-constructor-two-errors-wrong-one-stored', file=V, expect='flagged(parse-envelope)', find=VI_OLD,
      replace='''func newValidationResult(outcome *notation.VerificationOutcome, resultType trustpolicy.ValidationType, err, cause error) *notation.ValidationResult {
	_ = err
	return &notation.ValidationResult{Error: cause, Type: resultType, Action: outcome.VerificationLevel.Enforcement[resultType]}
}

''' + vi(lambda e: 'newValidationResult(outcome, trustpolicy.TypeIntegrity, ' + e + ', nil)')),
 dict(name='result-constructor-closure-reset-afterwards', file=V, expect='flagged(parse-envelope)', find=VI_OLD,
      replace=vi(mkClosure, prelude=CLOSURE.replace('		return &notation.ValidationResult{', '		r := &notation.ValidationResult{').replace('			Error:  failure,\n		}\n', '			Error:  failure,\n		}\n		if outcome.VerificationLevel.Name != "strict" {\n			r.Error = nil\n		}\n		return r\n'))),
 dict(name='result-constructor-worker-split-payload-type-dropped', file=V, expect='flagged(payload-type)', find=VI_OLD,
      replace=CTOR + VI_SPLIT.replace('		return nil, PAYLOADERR\n', '		_ = err\n')),
]

# ---- class B: one failure exit (closure / helper that records the error and hands it back), error local -------------
OCI_OLD = '''	err = v.processSignature(ctx, signature, envelopeMediaType, trustPolicy.Name, trustPolicy.TrustedIdentities, trustPolicy.TrustStores, trustPolicy.SignatureVerification, pluginConfig, outcome)

	if err != nil {
		outcome.Error = err
		return outcome, err
	}

	payload := &envelope.Payload{}
	err = json.Unmarshal(outcome.EnvelopeContent.Payload.Content, payload)
	if err != nil {
		logger.Error("Failed to unmarshal the payload content in the signature blob to envelope.Payload")
		outcome.Error = err
		return outcome, err
	}

	if !content.Equal(payload.TargetArtifact, desc) {
		logger.Infof("Target artifact in signature payload: %+v", payload.TargetArtifact)
		logger.Infof("Target artifact that want to be verified: %+v", desc)
		outcome.Error = errors.New("content descriptor mismatch")
	}

	if len(opts.UserMetadata) > 0 {
		err := verifyUserMetadata(logger, payload, opts.UserMetadata)
		if err != nil {
			outcome.Error = err
		}
	}

	return outcome, outcome.Error
}
'''

def oci(fail, prelude='', mismatch='verificationErr = errors.New("content descriptor mismatch")',
        meta='''		if err := verifyUserMetadata(logger, payload, opts.UserMetadata); err != nil {
			verificationErr = err
		}
''', tail=None, after=''):
    if tail is None:
        tail = '''	if verificationErr != nil {
		return ''' + fail('verificationErr') + '''
	}
	return outcome, nil
'''
    return prelude + '''	err = v.processSignature(ctx, signature, envelopeMediaType, trustPolicy.Name, trustPolicy.TrustedIdentities, trustPolicy.TrustStores, trustPolicy.SignatureVerification, pluginConfig, outcome)
	if err != nil {
		return ''' + fail('err') + '''
	}

	payload := &envelope.Payload{}
	err = json.Unmarshal(outcome.EnvelopeContent.Payload.Content, payload)
	if err != nil {
		logger.Error("Failed to unmarshal the payload content in the signature blob to envelope.Payload")
		return ''' + fail('err') + '''
	}

	var verificationErr error
	if !content.Equal(payload.TargetArtifact, desc) {
		logger.Infof("Target artifact in signature payload: %+v", payload.TargetArtifact)
		logger.Infof("Target artifact that want to be verified: %+v", desc)
		''' + mismatch + '''
	}

	if len(opts.UserMetadata) > 0 {
''' + meta + '''	}

''' + tail + '''}
''' + after

FAILED_CLOSURE = '''	failed := func(err error) (*notation.VerificationOutcome, error) {
		outcome.Error = err
		return outcome, err
	}
'''
FAIL_FUNC = '''
func rejected(failure error, outcome *notation.VerificationOutcome) (*notation.VerificationOutcome, error) {
	outcome.Error = failure
	return outcome, failure
}
'''
failC = lambda e: 'failed(' + e + ')'
failF = lambda e: 'rejected(' + e + ', outcome)'
SINGLE_EXIT = '''	outcome.Error = verificationErr
	return outcome, verificationErr
'''

VARIANTS += [
 dict(name='benign-failure-exit-closure', file=V, expect='silent', find=OCI_OLD, replace=oci(failC, prelude=FAILED_CLOSURE)),
 dict(name='benign-failure-exit-function', file=V, expect='silent', find=OCI_OLD, replace=oci(failF, after=FAIL_FUNC)),
 dict(name='benign-error-local-single-exit', file=V, expect='silent', find=OCI_OLD, replace=oci(failC, prelude=FAILED_CLOSURE, tail=SINGLE_EXIT)),
 # broken counterparts
 dict(name='failure-exit-closure-metadata-overwrites-mismatch', file=V, expect='flagged(oci/descriptor-equal)', find=OCI_OLD,
      replace=oci(failC, prelude=FAILED_CLOSURE, meta='		verificationErr = verifyUserMetadata(logger, payload, opts.UserMetadata)\n')),
 dict(name='failure-exit-closure-mismatch-only-logged', file=V, expect='flagged(oci/descriptor-equal)', find=OCI_OLD,
      replace=oci(failC, prelude=FAILED_CLOSURE, mismatch='logger.Warn("content descriptor mismatch")')),
 dict(name='failure-exit-function-swallows-error', file=V, expect='flagged(oci/)', find=OCI_OLD,
      replace=oci(failF, after=FAIL_FUNC.replace('return outcome, failure', 'return outcome, nil'))),
 dict(name='failure-exit-closure-guarded-by-metadata', file=V, expect='flagged(oci/descriptor-equal)', find=OCI_OLD,
      replace=oci(failC, prelude=FAILED_CLOSURE, tail='''	if verificationErr != nil && len(opts.UserMetadata) > 0 {
		return failed(verificationErr)
	}
	return outcome, nil
''')),
 dict(name='error-local-single-exit-metadata-overwrites', file=V, expect='flagged(oci/descriptor-equal)', find=OCI_OLD,
      replace=oci(failC, prelude=FAILED_CLOSURE, tail=SINGLE_EXIT, meta='		verificationErr = verifyUserMetadata(logger, payload, opts.UserMetadata)\n')),
]

# ---- class C: the blob comparison lives in a predicate / checking helper -----------------------------------------------
BLOB_IF = BM_OLD
BLOB_FN_ANCHOR = 'func verifyUserMetadata(logger log.Logger, payload *envelope.Payload, userMetadata map[string]string) error {\n'
def blob_helper(cond, helper):
    return dict(edits=[(V, BLOB_IF, cond), (V, BLOB_FN_ANCHOR, helper + '\n' + BLOB_FN_ANCHOR)])

IS_SIGNED = '''func isSignedBlob(blobDesc, signedDesc ocispec.Descriptor) bool {
	if blobDesc.MediaType != "" && blobDesc.MediaType != signedDesc.MediaType {
		return false
	}
	return blobDesc.Digest == signedDesc.Digest && blobDesc.Size == signedDesc.Size
}
'''
CHECK_ERR = '''func checkBlobDescriptor(derived, signed ocispec.Descriptor) error {
	if derived.Digest != signed.Digest || derived.Size != signed.Size {
		return errors.New("digest or size mismatch")
	}
	if derived.MediaType == "" {
		return nil
	}
	if derived.MediaType != signed.MediaType {
		return errors.New("media type mismatch")
	}
	return nil
}
'''
TWO_LEVEL = '''func isSignedBlob(blobDesc, signedDesc ocispec.Descriptor) bool {
	return blobDesc.Digest == signedDesc.Digest && blobDesc.Size == signedDesc.Size && mediaTypeAgrees(blobDesc.MediaType, signedDesc.MediaType)
}

func mediaTypeAgrees(stated, signed string) bool {
	return stated == "" || stated == signed
}
'''
IF_PRED = '\tif !isSignedBlob(desc, payload.TargetArtifact) {\n'
IF_ERR = '\tif err := checkBlobDescriptor(desc, payload.TargetArtifact); err != nil {\n'

VARIANTS += [
 dict(name='benign-blob-predicate-early-return', expect='silent', **blob_helper(IF_PRED, IS_SIGNED)),
 dict(name='benign-blob-check-returns-error', expect='silent', **blob_helper(IF_ERR, CHECK_ERR)),
 dict(name='benign-blob-predicate-two-levels', expect='silent', **blob_helper(IF_PRED, TWO_LEVEL)),
 # broken counterparts
 dict(name='blob-predicate-guard-on-signed-side', expect='flagged(blob/mediatype-equal)',
      **blob_helper(IF_PRED, IS_SIGNED.replace('if blobDesc.MediaType != "" &&', 'if signedDesc.MediaType != "" &&'))),
 dict(name='blob-predicate-without-mediatype', expect='flagged(blob/mediatype-equal)',
      **blob_helper(IF_PRED, IS_SIGNED.replace('	if blobDesc.MediaType != "" && blobDesc.MediaType != signedDesc.MediaType {\n		return false\n	}\n', ''))),
 dict(name='blob-predicate-applied-to-itself', expect='flagged(blob/)',
      **blob_helper('\tif !isSignedBlob(desc, desc) {\n', IS_SIGNED)),
 dict(name='blob-check-error-empty-signed-type-accepted', expect='flagged(blob/mediatype-equal)',
      **blob_helper(IF_ERR, CHECK_ERR.replace('if derived.MediaType == "" {', 'if derived.MediaType == "" || signed.MediaType == "" {'))),
 dict(name='blob-check-error-without-size', expect='flagged(blob/size-equal)',
      **blob_helper(IF_ERR, CHECK_ERR.replace(' || derived.Size != signed.Size', ''))),
 dict(name='blob-predicate-two-levels-inner-compares-itself', expect='flagged(blob/mediatype-equal)',
      **blob_helper(IF_PRED, TWO_LEVEL.replace('mediaTypeAgrees(blobDesc.MediaType, signedDesc.MediaType)', 'mediaTypeAgrees(blobDesc.MediaType, blobDesc.MediaType)'))),
 dict(name='blob-predicate-two-levels-inner-accepts-prefix', expect='flagged(blob/mediatype-equal)',
      **blob_helper(IF_PRED, TWO_LEVEL.replace('stated == "" || stated == signed', 'stated == "" || strings.HasPrefix(signed, stated)'))),
]
