V = 'verifier/verifier.go'
VARIANTS = [
 dict(name='drop-size-compare', file=V, expect='flagged(blob/size-equal)',
      find='desc.Digest != payload.TargetArtifact.Digest || desc.Size != payload.TargetArtifact.Size ||',
      replace='desc.Digest != payload.TargetArtifact.Digest ||'),
 dict(name='drop-digest-compare', file=V, expect='flagged(blob/digest-equal)',
      find='desc.Digest != payload.TargetArtifact.Digest || desc.Size != payload.TargetArtifact.Size ||',
      replace='desc.Size != payload.TargetArtifact.Size ||'),
 dict(name='or-to-and', file=V, expect='flagged(blob/)',
      find='desc.Digest != payload.TargetArtifact.Digest || desc.Size != payload.TargetArtifact.Size ||',
      replace='desc.Digest != payload.TargetArtifact.Digest && desc.Size != payload.TargetArtifact.Size ||'),
 dict(name='drop-mediatype-compare', file=V, expect='flagged(blob/mediatype-equal)',
      find='desc.Size != payload.TargetArtifact.Size ||\n\t\t(desc.MediaType != "" && desc.MediaType != payload.TargetArtifact.MediaType) {',
      replace='desc.Size != payload.TargetArtifact.Size {'),
 dict(name='mediatype-guard-on-payload', file=V, expect='flagged(blob/mediatype-equal)',
      find='(desc.MediaType != "" && desc.MediaType != payload.TargetArtifact.MediaType)',
      replace='(payload.TargetArtifact.MediaType != "" && desc.MediaType != payload.TargetArtifact.MediaType)'),
 dict(name='metadata-overwrites-failure-oci', file=V, expect='flagged(oci/)',
      find='''		err := verifyUserMetadata(logger, payload, opts.UserMetadata)
		if err != nil {
			outcome.Error = err
		}
	}

	return outcome, outcome.Error
}

func (v *verifier) processSignature''',
      replace='''		err := verifyUserMetadata(logger, payload, opts.UserMetadata)
		outcome.Error = err
	}

	return outcome, outcome.Error
}

func (v *verifier) processSignature'''),
 dict(name='payload-type-check-removed', file=V, expect='flagged(payload-type)',
      find='if err := envelope.ValidatePayloadContentType(&envContent.Payload); err != nil {',
      replace='if err := envelope.ValidatePayloadContentType(&envContent.Payload); err != nil && false {'),
 dict(name='payload-type-any', file='internal/envelope/envelope.go', expect='flagged(payload-type)',
      find='\tcase MediaTypePayloadV1:\n\t\treturn nil\n\tdefault:', replace='\tcase MediaTypePayloadV1, "application/json":\n\t\treturn nil\n\tdefault:'),
 dict(name='sigenv-verify-skipped', file=V, expect='flagged(envelope-verify)',
      find='\tenvContent, err := sigEnv.Verify()\n\tif err != nil {\n\t\tswitch err.(type) {',
      replace='\tenvContent, err := sigEnv.Content()\n\tif err != nil {\n\t\tswitch err.(type) {'),
 dict(name='integrity-gate-through-action', file=V, expect='flagged(parse-envelope)',
      find='\tif integrityResult.Error != nil {\n\t\tlogVerificationResult(logger, integrityResult)',
      replace='\tif isCriticalFailure(integrityResult) {\n\t\tlogVerificationResult(logger, integrityResult)'),
 dict(name='digest-algorithm-hardcoded', file=V, expect='flagged(blob/)',
      find='desc, err := descGenFunc(digestAlgo)', replace='_ = digestAlgo\n\tdesc, err := descGenFunc(digest.SHA256)'),
 dict(name='descriptor-compared-with-itself', file=V, expect='flagged(oci/descriptor-equal)',
      find='if !content.Equal(payload.TargetArtifact, desc) {', replace='if !content.Equal(desc, desc) {'),
 dict(name='content-equal-removed', file=V, expect='flagged(oci/descriptor-equal)',
      find='if !content.Equal(payload.TargetArtifact, desc) {', replace='if !content.Equal(payload.TargetArtifact, desc) && len(opts.UserMetadata) == 0 {'),
 dict(name='metadata-early-success', file=V, expect='flagged(metadata-loop)',
      find='''			return notation.ErrorUserMetadataVerificationFailed{}
		}
	}
''', replace='''			return notation.ErrorUserMetadataVerificationFailed{}
		}
		return nil
	}
'''),
 dict(name='metadata-missing-key-accepted', file=V, expect='flagged(metadata-loop)',
      find='if got, ok := payload.TargetArtifact.Annotations[k]; !ok || got != v {',
      replace='if got, ok := payload.TargetArtifact.Annotations[k]; ok && got != v {'),
 dict(name='metadata-not-checked-blob', file=V, expect='flagged(blob/metadata-gate)',
      find='''	if len(opts.UserMetadata) > 0 {
		err := verifyUserMetadata(logger, payload, opts.UserMetadata)
		if err != nil {
			outcome.Error = err
		}
	}

	return outcome, outcome.Error
}

// Verify verifies''', replace='''	if len(opts.UserMetadata) > 1 {
		err := verifyUserMetadata(logger, payload, opts.UserMetadata)
		if err != nil {
			outcome.Error = err
		}
	}

	return outcome, outcome.Error
}

// Verify verifies'''),
 dict(name='integrity-log-in-audit', file='verifier/trustpolicy/trustpolicy.go', expect='flagged(levels/LevelAudit)',
      find='''		Name: "audit",
		Enforcement: map[ValidationType]ValidationAction{
			TypeIntegrity:          ActionEnforce,''', replace='''		Name: "audit",
		Enforcement: map[ValidationType]ValidationAction{
			TypeIntegrity:          ActionLog,'''),
 dict(name='integrity-override-allowed', file='verifier/trustpolicy/trustpolicy.go', expect='flagged(levels/custom)',
      find='if validationType == TypeIntegrity {\n\t\t\treturn nil, fmt.Errorf("%q verification can not be overridden in custom signature verification", key)\n\t\t} else if',
      replace='if'),
 dict(name='wrapper-ignores-error', file='notation.go', expect='flagged(wrapper)',
      find='vo, err := blobVerifier.VerifyBlob(ctx, getDescFunc, signature, verifyBlobOpts.BlobVerifierVerifyOptions)\n\tif err != nil {',
      replace='vo, err := blobVerifier.VerifyBlob(ctx, getDescFunc, signature, verifyBlobOpts.BlobVerifierVerifyOptions)\n\tif err != nil && vo == nil {'),
 # benign
 dict(name='benign-three-field-compare', file=V, expect='silent',
      find='if !content.Equal(payload.TargetArtifact, desc) {', replace='if !content.Equal(desc, payload.TargetArtifact) {'),
 dict(name='benign-helper-renamed', file=V, expect='silent', all=True,
      find='verifyIntegrity(', replace='checkEnvelopeIntegrity('),
 dict(name='benign-early-return', file=V, expect='silent',
      find='''	if !content.Equal(payload.TargetArtifact, desc) {
		logger.Infof("Target artifact in signature payload: %+v", payload.TargetArtifact)
		logger.Infof("Target artifact that want to be verified: %+v", desc)
		outcome.Error = errors.New("content descriptor mismatch")
	}
''', replace='''	if !content.Equal(payload.TargetArtifact, desc) {
		outcome.Error = errors.New("content descriptor mismatch")
		return outcome, outcome.Error
	}
'''),
 dict(name='benign-len-lt-1', file=V, expect='silent', all=True,
      find='if len(opts.UserMetadata) > 0 {', replace='if len(opts.UserMetadata) >= 1 {'),
 dict(name='benign-metadata-unconditional-call', file=V, expect='silent',
      find='''	if len(opts.UserMetadata) > 0 {
		err := verifyUserMetadata(logger, payload, opts.UserMetadata)
		if err != nil {
			outcome.Error = err
		}
	}

	return outcome, outcome.Error
}

func (v *verifier) processSignature''', replace='''	if err := verifyUserMetadata(logger, payload, opts.UserMetadata); err != nil {
		outcome.Error = err
	}

	return outcome, outcome.Error
}

func (v *verifier) processSignature'''),
 dict(name='benign-error-text', file=V, expect='silent',
      find='errors.New("content descriptor mismatch")', replace='fmt.Errorf("content descriptor mismatch: %v", desc.Digest)'),
 dict(name='benign-inline-payload-type', file=V, expect='silent',
      find='if err := envelope.ValidatePayloadContentType(&envContent.Payload); err != nil {',
      replace='if err := envelope.ValidatePayloadContentType(&envContent.Payload); err != nil || envContent.Payload.ContentType != envelope.MediaTypePayloadV1 {'),
]

# the comparison kept in a boolean variable (short-circuit value), then tested once
BM_OLD = '\tif desc.Digest != payload.TargetArtifact.Digest || desc.Size != payload.TargetArtifact.Size ||\n\t\t(desc.MediaType != "" && desc.MediaType != payload.TargetArtifact.MediaType) {\n'
def bm(expr):
    return '\tblobMatches := ' + expr + '\n\tif !blobMatches {\n'
VARIANTS += [
 dict(name='benign-blob-match-in-a-variable', file=V, expect='silent', find=BM_OLD,
      replace=bm('desc.Digest == payload.TargetArtifact.Digest &&\n\t\tdesc.Size == payload.TargetArtifact.Size &&\n\t\t(desc.MediaType == "" || desc.MediaType == payload.TargetArtifact.MediaType)')),
 dict(name='blob-match-variable-without-size', file=V, expect='flagged(blob/size-equal)', find=BM_OLD,
      replace=bm('desc.Digest == payload.TargetArtifact.Digest &&\n\t\t(desc.MediaType == "" || desc.MediaType == payload.TargetArtifact.MediaType)')),
 dict(name='blob-match-variable-digest-or-size', file=V, expect='flagged(blob/)', find=BM_OLD,
      replace=bm('(desc.Digest == payload.TargetArtifact.Digest || desc.Size == payload.TargetArtifact.Size) &&\n\t\t(desc.MediaType == "" || desc.MediaType == payload.TargetArtifact.MediaType)')),
 dict(name='blob-match-variable-tested-the-wrong-way', file=V, expect='flagged(blob/)', find=BM_OLD,
      replace='\tblobMatches := desc.Digest == payload.TargetArtifact.Digest &&\n\t\tdesc.Size == payload.TargetArtifact.Size &&\n\t\t(desc.MediaType == "" || desc.MediaType == payload.TargetArtifact.MediaType)\n\tif blobMatches {\n'),
]

# ======================================================================================================================
# second pass: classes of behaviour-preserving rewrites (each class: the shape(s) as `silent`, the shape with the
# property broken as `flagged`)
# ======================================================================================================================

# ---- class A: the validation results are built by a constructor function (verdict forwarder, mObj) -------------------
VI_OLD = '''func verifyIntegrity(sigBlob []byte, envelopeMediaType string, outcome *notation.VerificationOutcome) (*signature.EnvelopeContent, *notation.ValidationResult) {
	// parse the signature
	sigEnv, err := signature.ParseEnvelope(envelopeMediaType, sigBlob)
	if err != nil {
		return nil, &notation.ValidationResult{
			Error:  fmt.Errorf("unable to parse the digital signature, error : %s", err),
			Type:   trustpolicy.TypeIntegrity,
			Action: outcome.VerificationLevel.Enforcement[trustpolicy.TypeIntegrity],
		}
	}

	// verify integrity
	envContent, err := sigEnv.Verify()
	if err != nil {
		switch err.(type) {
		case *signature.SignatureEnvelopeNotFoundError, *signature.InvalidSignatureError, *signature.SignatureIntegrityError:
			return nil, &notation.ValidationResult{
				Error:  err,
				Type:   trustpolicy.TypeIntegrity,
				Action: outcome.VerificationLevel.Enforcement[trustpolicy.TypeIntegrity],
			}
		default:
			// unexpected error
			return nil, &notation.ValidationResult{
				Error:  notation.ErrorVerificationInconclusive{Msg: err.Error()},
				Type:   trustpolicy.TypeIntegrity,
				Action: outcome.VerificationLevel.Enforcement[trustpolicy.TypeIntegrity],
			}
		}
	}

	if err := envelope.ValidatePayloadContentType(&envContent.Payload); err != nil {
		return nil, &notation.ValidationResult{
			Error:  err,
			Type:   trustpolicy.TypeIntegrity,
			Action: outcome.VerificationLevel.Enforcement[trustpolicy.TypeIntegrity],
		}
	}

	// integrity has been verified successfully
	return envContent, &notation.ValidationResult{
		Type:   trustpolicy.TypeIntegrity,
		Action: outcome.VerificationLevel.Enforcement[trustpolicy.TypeIntegrity],
	}
}
'''

CTOR = '''func newValidationResult(outcome *notation.VerificationOutcome, resultType trustpolicy.ValidationType, err error) *notation.ValidationResult {
	return &notation.ValidationResult{
		Error:  err,
		Type:   resultType,
		Action: outcome.VerificationLevel.Enforcement[resultType],
	}
}

'''
# other parameter order, object filled in by assignments
CTOR_ASSIGN = '''func makeResult(failure error, level *trustpolicy.VerificationLevel, kind trustpolicy.ValidationType) *notation.ValidationResult {
	r := new(notation.ValidationResult)
	r.Type = kind
	r.Action = level.Enforcement[kind]
	r.Error = failure
	return r
}

'''
# two levels: a constructor for the integrity step on top of the general one
CTOR_TWO = CTOR + '''func integrityOutcome(outcome *notation.VerificationOutcome, err error) *notation.ValidationResult {
	return newValidationResult(outcome, trustpolicy.TypeIntegrity, err)
}

'''

def vi(mk, prelude='', default_arm='err = notation.ErrorVerificationInconclusive{Msg: err.Error()}', type_err='err', ok='nil'):
    """verifyIntegrity with every result built by mk(<error expression>)"""
    return '''func verifyIntegrity(sigBlob []byte, envelopeMediaType string, outcome *notation.VerificationOutcome) (*signature.EnvelopeContent, *notation.ValidationResult) {
''' + prelude + '''	sigEnv, err := signature.ParseEnvelope(envelopeMediaType, sigBlob)
	if err != nil {
		return nil, ''' + mk('fmt.Errorf("unable to parse the digital signature, error : %s", err)') + '''
	}
	envContent, err := sigEnv.Verify()
	if err != nil {
		switch err.(type) {
		case *signature.SignatureEnvelopeNotFoundError, *signature.InvalidSignatureError, *signature.SignatureIntegrityError:
			// reported as it is
		default:
			''' + default_arm + '''
		}
		return nil, ''' + mk('err') + '''
	}
	if err := envelope.ValidatePayloadContentType(&envContent.Payload); err != nil {
		return nil, ''' + mk(type_err) + '''
	}
	return envContent, ''' + mk(ok) + '''
}
'''

mkA = lambda e: 'newValidationResult(outcome, trustpolicy.TypeIntegrity, ' + e + ')'
mkAssign = lambda e: 'makeResult(' + e + ', outcome.VerificationLevel, trustpolicy.TypeIntegrity)'
mkTwo = lambda e: 'integrityOutcome(outcome, ' + e + ')'
mkClosure = lambda e: 'result(' + e + ')'
CLOSURE = '''	result := func(failure error) *notation.ValidationResult {
		return &notation.ValidationResult{
			Type:   trustpolicy.TypeIntegrity,
			Action: outcome.VerificationLevel.Enforcement[trustpolicy.TypeIntegrity],
			Error:  failure,
		}
	}
'''
# the work split from the result building: a worker that returns (content, error), one constructor call on the single exit
VI_SPLIT = '''func verifyIntegrity(sigBlob []byte, envelopeMediaType string, outcome *notation.VerificationOutcome) (*signature.EnvelopeContent, *notation.ValidationResult) {
	envContent, err := openEnvelope(envelopeMediaType, sigBlob)
	return envContent, newValidationResult(outcome, trustpolicy.TypeIntegrity, err)
}

func openEnvelope(envelopeMediaType string, sigBlob []byte) (*signature.EnvelopeContent, error) {
	sigEnv, err := signature.ParseEnvelope(envelopeMediaType, sigBlob)
	if err != nil {
		return nil, fmt.Errorf("unable to parse the digital signature, error : %s", err)
	}
	envContent, err := sigEnv.Verify()
	switch err.(type) {
	case nil:
	case *signature.SignatureEnvelopeNotFoundError, *signature.InvalidSignatureError, *signature.SignatureIntegrityError:
		return nil, err
	default:
		return nil, notation.ErrorVerificationInconclusive{Msg: err.Error()}
	}
	if err := envelope.ValidatePayloadContentType(&envContent.Payload); err != nil {
		return nil, PAYLOADERR
	}
	return envContent, nil
}
'''

VARIANTS += [
 dict(name='benign-result-constructor', file=V, expect='silent', find=VI_OLD, replace=CTOR + vi(mkA)),
 dict(name='benign-result-constructor-assignments-other-order', file=V, expect='silent', find=VI_OLD, replace=CTOR_ASSIGN + vi(mkAssign)),
 dict(name='benign-result-constructor-two-levels', file=V, expect='silent', find=VI_OLD, replace=CTOR_TWO + vi(mkTwo)),
 dict(name='benign-result-constructor-closure', file=V, expect='silent', find=VI_OLD, replace=vi(mkClosure, prelude=CLOSURE)),
 dict(name='benign-result-constructor-worker-split', file=V, expect='silent', find=VI_OLD, replace=CTOR + VI_SPLIT.replace('PAYLOADERR', 'err')),
 # broken counterparts
 dict(name='result-constructor-unexpected-verify-error-dropped', file=V, expect='flagged(envelope-verify)', find=VI_OLD,
      replace=CTOR + vi(mkA, default_arm='err = nil')),
 dict(name='result-constructor-payload-type-error-dropped', file=V, expect='flagged(payload-type)', find=VI_OLD,
      replace=CTOR + vi(mkA, type_err='nil')),
 dict(name='result-constructor-ignores-error', file=V, expect='flagged(parse-envelope)', find=VI_OLD,
      replace=CTOR.replace('Error:  err,', 'Error:  nil,') + vi(mkA)),
 dict(name='result-constructor-error-only-for-other-types', file=V, expect='flagged(parse-envelope)', find=VI_OLD,
      replace='''func newValidationResult(outcome *notation.VerificationOutcome, resultType trustpolicy.ValidationType, err error) *notation.ValidationResult {
	r := &notation.ValidationResult{Type: resultType, Action: outcome.VerificationLevel.Enforcement[resultType]}
	if resultType != trustpolicy.TypeIntegrity {
		r.Error = err
	}
	return r
}

''' + vi(mkA)),
 dict(name='result-constructor-two-errors-wrong-one-stored', file=V, expect='flagged(parse-envelope)', find=VI_OLD,
      replace='''func newValidationResult(outcome *notation.VerificationOutcome, resultType trustpolicy.ValidationType, err, cause error) *notation.ValidationResult {
	_ = err
	return &notation.ValidationResult{Error: cause, Type: resultType, Action: outcome.VerificationLevel.Enforcement[resultType]}
}

''' + vi(lambda e: 'newValidationResult(outcome, trustpolicy.TypeIntegrity, ' + e + ', nil)')),
 dict(name='result-constructor-closure-reset-afterwards', file=V, expect='flagged(parse-envelope)', find=VI_OLD,
      replace=vi(mkClosure, prelude=CLOSURE.replace('		return &notation.ValidationResult{', '		r := &notation.ValidationResult{').replace('			Error:  failure,\n		}\n', '			Error:  failure,\n		}\n		if outcome.VerificationLevel.Name != "strict" {\n			r.Error = nil\n		}\n		return r\n'))),
 dict(name='result-constructor-worker-split-payload-type-dropped', file=V, expect='flagged(payload-type)', find=VI_OLD,
      replace=CTOR + VI_SPLIT.replace('		return nil, PAYLOADERR\n', '		_ = err\n')),
]

# ---- class B: one failure exit (closure / helper that records the error and hands it back), error local -------------
OCI_OLD = '''	err = v.processSignature(ctx, signature, envelopeMediaType, trustPolicy.Name, trustPolicy.TrustedIdentities, trustPolicy.TrustStores, trustPolicy.SignatureVerification, pluginConfig, outcome)

	if err != nil {
		outcome.Error = err
		return outcome, err
	}

	payload := &envelope.Payload{}
	err = json.Unmarshal(outcome.EnvelopeContent.Payload.Content, payload)
	if err != nil {
		logger.Error("Failed to unmarshal the payload content in the signature blob to envelope.Payload")
		outcome.Error = err
		return outcome, err
	}

	if !content.Equal(payload.TargetArtifact, desc) {
		logger.Infof("Target artifact in signature payload: %+v", payload.TargetArtifact)
		logger.Infof("Target artifact that want to be verified: %+v", desc)
		outcome.Error = errors.New("content descriptor mismatch")
	}

	if len(opts.UserMetadata) > 0 {
		err := verifyUserMetadata(logger, payload, opts.UserMetadata)
		if err != nil {
			outcome.Error = err
		}
	}

	return outcome, outcome.Error
}
'''

def oci(fail, prelude='', mismatch='verificationErr = errors.New("content descriptor mismatch")',
        meta='''		if err := verifyUserMetadata(logger, payload, opts.UserMetadata); err != nil {
			verificationErr = err
		}
''', tail=None, after=''):
    if tail is None:
        tail = '''	if verificationErr != nil {
		return ''' + fail('verificationErr') + '''
	}
	return outcome, nil
'''
    return prelude + '''	err = v.processSignature(ctx, signature, envelopeMediaType, trustPolicy.Name, trustPolicy.TrustedIdentities, trustPolicy.TrustStores, trustPolicy.SignatureVerification, pluginConfig, outcome)
	if err != nil {
		return ''' + fail('err') + '''
	}

	payload := &envelope.Payload{}
	err = json.Unmarshal(outcome.EnvelopeContent.Payload.Content, payload)
	if err != nil {
		logger.Error("Failed to unmarshal the payload content in the signature blob to envelope.Payload")
		return ''' + fail('err') + '''
	}

	var verificationErr error
	if !content.Equal(payload.TargetArtifact, desc) {
		logger.Infof("Target artifact in signature payload: %+v", payload.TargetArtifact)
		logger.Infof("Target artifact that want to be verified: %+v", desc)
		''' + mismatch + '''
	}

	if len(opts.UserMetadata) > 0 {
''' + meta + '''	}

''' + tail + '''}
''' + after

FAILED_CLOSURE = '''	failed := func(err error) (*notation.VerificationOutcome, error) {
		outcome.Error = err
		return outcome, err
	}
'''
FAIL_FUNC = '''
func rejected(failure error, outcome *notation.VerificationOutcome) (*notation.VerificationOutcome, error) {
	outcome.Error = failure
	return outcome, failure
}
'''
failC = lambda e: 'failed(' + e + ')'
failF = lambda e: 'rejected(' + e + ', outcome)'
SINGLE_EXIT = '''	outcome.Error = verificationErr
	return outcome, verificationErr
'''

VARIANTS += [
 dict(name='benign-failure-exit-closure', file=V, expect='silent', find=OCI_OLD, replace=oci(failC, prelude=FAILED_CLOSURE)),
 dict(name='benign-failure-exit-function', file=V, expect='silent', find=OCI_OLD, replace=oci(failF, after=FAIL_FUNC)),
 dict(name='benign-error-local-single-exit', file=V, expect='silent', find=OCI_OLD, replace=oci(failC, prelude=FAILED_CLOSURE, tail=SINGLE_EXIT)),
 # broken counterparts
 dict(name='failure-exit-closure-metadata-overwrites-mismatch', file=V, expect='flagged(oci/descriptor-equal)', find=OCI_OLD,
      replace=oci(failC, prelude=FAILED_CLOSURE, meta='		verificationErr = verifyUserMetadata(logger, payload, opts.UserMetadata)\n')),
 dict(name='failure-exit-closure-mismatch-only-logged', file=V, expect='flagged(oci/descriptor-equal)', find=OCI_OLD,
      replace=oci(failC, prelude=FAILED_CLOSURE, mismatch='logger.Warn("content descriptor mismatch")')),
 dict(name='failure-exit-function-swallows-error', file=V, expect='flagged(oci/)', find=OCI_OLD,
      replace=oci(failF, after=FAIL_FUNC.replace('return outcome, failure', 'return outcome, nil'))),
 dict(name='failure-exit-closure-guarded-by-metadata', file=V, expect='flagged(oci/descriptor-equal)', find=OCI_OLD,
      replace=oci(failC, prelude=FAILED_CLOSURE, tail='''	if verificationErr != nil && len(opts.UserMetadata) > 0 {
		return failed(verificationErr)
	}
	return outcome, nil
''')),
 dict(name='error-local-single-exit-metadata-overwrites', file=V, expect='flagged(oci/descriptor-equal)', find=OCI_OLD,
      replace=oci(failC, prelude=FAILED_CLOSURE, tail=SINGLE_EXIT, meta='		verificationErr = verifyUserMetadata(logger, payload, opts.UserMetadata)\n')),
]

# ---- class C: the blob comparison lives in a predicate / checking helper -----------------------------------------------
BLOB_IF = BM_OLD
BLOB_FN_ANCHOR = 'func verifyUserMetadata(logger log.Logger, payload *envelope.Payload, userMetadata map[string]string) error {\n'
def blob_helper(cond, helper):
    return dict(edits=[(V, BLOB_IF, cond), (V, BLOB_FN_ANCHOR, helper + '\n' + BLOB_FN_ANCHOR)])

IS_SIGNED = '''func isSignedBlob(blobDesc, signedDesc ocispec.Descriptor) bool {
	if blobDesc.MediaType != "" && blobDesc.MediaType != signedDesc.MediaType {
		return false
	}
	return blobDesc.Digest == signedDesc.Digest && blobDesc.Size == signedDesc.Size
}
'''
CHECK_ERR = '''func checkBlobDescriptor(derived, signed ocispec.Descriptor) error {
	if derived.Digest != signed.Digest || derived.Size != signed.Size {
		return errors.New("digest or size mismatch")
	}
	if derived.MediaType == "" {
		return nil
	}
	if derived.MediaType != signed.MediaType {
		return errors.New("media type mismatch")
	}
	return nil
}
'''
TWO_LEVEL = '''func isSignedBlob(blobDesc, signedDesc ocispec.Descriptor) bool {
	return blobDesc.Digest == signedDesc.Digest && blobDesc.Size == signedDesc.Size && mediaTypeAgrees(blobDesc.MediaType, signedDesc.MediaType)
}

func mediaTypeAgrees(stated, signed string) bool {
	return stated == "" || stated == signed
}
'''
IF_PRED = '\tif !isSignedBlob(desc, payload.TargetArtifact) {\n'
IF_ERR = '\tif err := checkBlobDescriptor(desc, payload.TargetArtifact); err != nil {\n'

VARIANTS += [
 dict(name='benign-blob-predicate-early-return', expect='silent', **blob_helper(IF_PRED, IS_SIGNED)),
 dict(name='benign-blob-check-returns-error', expect='silent', **blob_helper(IF_ERR, CHECK_ERR)),
 dict(name='benign-blob-predicate-two-levels', expect='silent', **blob_helper(IF_PRED, TWO_LEVEL)),
 # broken counterparts
 dict(name='blob-predicate-guard-on-signed-side', expect='flagged(blob/mediatype-equal)',
      **blob_helper(IF_PRED, IS_SIGNED.replace('if blobDesc.MediaType != "" &&', 'if signedDesc.MediaType != "" &&'))),
 dict(name='blob-predicate-without-mediatype', expect='flagged(blob/mediatype-equal)',
      **blob_helper(IF_PRED, IS_SIGNED.replace('	if blobDesc.MediaType != "" && blobDesc.MediaType != signedDesc.MediaType {\n		return false\n	}\n', ''))),
 dict(name='blob-predicate-applied-to-itself', expect='flagged(blob/)',
      **blob_helper('\tif !isSignedBlob(desc, desc) {\n', IS_SIGNED)),
 dict(name='blob-check-error-empty-signed-type-accepted', expect='flagged(blob/mediatype-equal)',
      **blob_helper(IF_ERR, CHECK_ERR.replace('if derived.MediaType == "" {', 'if derived.MediaType == "" || signed.MediaType == "" {'))),
 dict(name='blob-check-error-without-size', expect='flagged(blob/size-equal)',
      **blob_helper(IF_ERR, CHECK_ERR.replace(' || derived.Size != signed.Size', ''))),
 dict(name='blob-predicate-two-levels-inner-compares-itself', expect='flagged(blob/mediatype-equal)',
      **blob_helper(IF_PRED, TWO_LEVEL.replace('mediaTypeAgrees(blobDesc.MediaType, signedDesc.MediaType)', 'mediaTypeAgrees(blobDesc.MediaType, blobDesc.MediaType)'))),
 dict(name='blob-predicate-two-levels-inner-accepts-prefix', expect='flagged(blob/mediatype-equal)',
      **blob_helper(IF_PRED, TWO_LEVEL.replace('stated == "" || stated == signed', 'stated == "" || strings.HasPrefix(signed, stated)'))),
]

# ---- class D: the metadata check is handed something narrower / wider, or answers with a boolean ---------------------
META_CALL_OCI = '''	if len(opts.UserMetadata) > 0 {
		err := verifyUserMetadata(logger, payload, opts.UserMetadata)
		if err != nil {
			outcome.Error = err
		}
	}

	return outcome, outcome.Error
}

func (v *verifier) processSignature'''
META_CALL_BLOB = '''	if len(opts.UserMetadata) > 0 {
		err := verifyUserMetadata(logger, payload, opts.UserMetadata)
		if err != nil {
			outcome.Error = err
		}
	}

	return outcome, outcome.Error
}

// Verify verifies'''
VUM_OLD = '''func verifyUserMetadata(logger log.Logger, payload *envelope.Payload, userMetadata map[string]string) error {
	logger.Debugf("Verifying that metadata %v is present in signature", userMetadata)
	logger.Debugf("Signature metadata: %v", payload.TargetArtifact.Annotations)

	for k, v := range userMetadata {
		if got, ok := payload.TargetArtifact.Annotations[k]; !ok || got != v {
			logger.Errorf("User required metadata %s=%s is not present in the signature", k, v)
			return notation.ErrorUserMetadataVerificationFailed{}
		}
	}

	return nil
}
'''
META_CALL = 'verifyUserMetadata(logger, payload, opts.UserMetadata)'
def meta_calls(new_oci, new_blob=None):
    new_blob = new_oci if new_blob is None else new_blob
    return [(V, META_CALL_OCI, META_CALL_OCI.replace(META_CALL, new_oci)), (V, META_CALL_BLOB, META_CALL_BLOB.replace(META_CALL, new_blob))]
def vum(param, lookup, ranged='userMetadata', pre=''):
    return '''func verifyUserMetadata(logger log.Logger, ''' + param + ''', userMetadata map[string]string) error {
''' + pre + '''	for k, v := range ''' + ranged + ''' {
		if got, ok := ''' + lookup + '''[k]; !ok || got != v {
			logger.Errorf("User required metadata %s=%s is not present in the signature", k, v)
			return notation.ErrorUserMetadataVerificationFailed{}
		}
	}
	return nil
}
'''
BOOL_IF = '''		err := verifyUserMetadata(logger, payload, opts.UserMetadata)
		if err != nil {
			outcome.Error = err
		}'''
def bool_calls(cond):
    new = '\t\tif ' + cond + ' {\n\t\t\toutcome.Error = notation.ErrorUserMetadataVerificationFailed{}\n\t\t}'
    return [(V, META_CALL_OCI, META_CALL_OCI.replace(BOOL_IF, new)), (V, META_CALL_BLOB, META_CALL_BLOB.replace(BOOL_IF, new))]
HAS_META = '''func hasUserMetadata(logger log.Logger, payload *envelope.Payload, userMetadata map[string]string) bool {
	for k, v := range userMetadata {
		if got, ok := payload.TargetArtifact.Annotations[k]; !ok || got != v {
			logger.Errorf("User required metadata %s=%s is not present in the signature", k, v)
			return false
		}
	}
	return true
}
'''
WIDE = '''func verifyRequiredMetadata(logger log.Logger, outcome *notation.VerificationOutcome, opts notation.VerifierVerifyOptions) error {
	if len(opts.UserMetadata) == 0 {
		return nil
	}
	signed := &envelope.Payload{}
	if err := json.Unmarshal(outcome.EnvelopeContent.Payload.Content, signed); err != nil {
		return err
	}
	return verifyUserMetadata(logger, signed, RANGED)
}

'''
WIDE_CALL = '''	if len(opts.UserMetadata) > 0 {
		err := verifyUserMetadata(logger, payload, opts.UserMetadata)
		if err != nil {
			outcome.Error = err
		}
	}

	return outcome, outcome.Error
}

func (v *verifier) processSignature'''
WIDE_NEW = '''	if err := verifyRequiredMetadata(logger, outcome, opts); err != nil {
		outcome.Error = err
	}

	return outcome, outcome.Error
}

func (v *verifier) processSignature'''

VARIANTS += [
 dict(name='benign-metadata-handed-the-annotations', expect='silent',
      edits=meta_calls('verifyUserMetadata(logger, payload.TargetArtifact.Annotations, opts.UserMetadata)') + [(V, VUM_OLD, vum('signed map[string]string', 'signed'))]),
 dict(name='benign-metadata-handed-the-descriptor', expect='silent',
      edits=meta_calls('verifyUserMetadata(logger, payload.TargetArtifact, opts.UserMetadata)') + [(V, VUM_OLD, vum('signed ocispec.Descriptor', 'signed.Annotations'))]),
 dict(name='benign-metadata-boolean-answer', expect='silent',
      edits=bool_calls('!hasUserMetadata(logger, payload, opts.UserMetadata)') + [(V, VUM_OLD, HAS_META)]),
 dict(name='benign-metadata-handed-outcome-and-options', expect='silent',
      edits=[(V, WIDE_CALL, WIDE_NEW), (V, VUM_OLD, WIDE.replace('RANGED', 'opts.UserMetadata') + VUM_OLD)]),
 # broken counterparts
 dict(name='metadata-annotations-of-the-wrong-descriptor', expect='flagged(oci/metadata)',
      edits=meta_calls('verifyUserMetadata(logger, desc.Annotations, opts.UserMetadata)', 'verifyUserMetadata(logger, payload.TargetArtifact.Annotations, opts.UserMetadata)') + [(V, VUM_OLD, vum('signed map[string]string', 'signed'))]),
 dict(name='metadata-required-map-compared-with-itself', expect='flagged(metadata)',
      edits=meta_calls('verifyUserMetadata(logger, opts.UserMetadata, opts.UserMetadata)') + [(V, VUM_OLD, vum('signed map[string]string', 'signed'))]),
 dict(name='metadata-descriptor-loop-over-signed-annotations', expect='flagged(metadata)',
      edits=meta_calls('verifyUserMetadata(logger, payload.TargetArtifact, opts.UserMetadata)') + [(V, VUM_OLD, vum('signed ocispec.Descriptor', 'userMetadata', ranged='signed.Annotations'))]),
 dict(name='metadata-boolean-answer-tested-the-wrong-way', expect='flagged(metadata-gate)',
      edits=bool_calls('hasUserMetadata(logger, payload, opts.UserMetadata)') + [(V, VUM_OLD, HAS_META)]),
 dict(name='metadata-boolean-answer-early-true', expect='flagged(metadata-loop)',
      edits=bool_calls('!hasUserMetadata(logger, payload, opts.UserMetadata)') + [(V, VUM_OLD, HAS_META.replace('			return false\n		}\n', '			return false\n		}\n		return true\n'))]),
 dict(name='metadata-options-wrong-map-checked', expect='flagged(oci/metadata)',
      edits=[(V, WIDE_CALL, WIDE_NEW), (V, VUM_OLD, WIDE.replace('RANGED', 'opts.PluginConfig') + VUM_OLD)]),
 dict(name='metadata-options-decodes-the-raw-signature', expect='flagged(oci/metadata)',
      edits=[(V, WIDE_CALL, WIDE_NEW), (V, VUM_OLD, WIDE.replace('RANGED', 'opts.UserMetadata').replace('outcome.EnvelopeContent.Payload.Content, signed', 'outcome.RawSignature, signed') + VUM_OLD)]),
]

# a helper's own look-alike object is not the entry point's decoded payload
VARIANTS += [
 dict(name='blob-predicate-compares-with-its-own-empty-payload', expect='flagged(blob/mediatype-equal)',
      **blob_helper('\tif !isSignedBlob(desc) {\n', '''func isSignedBlob(blobDesc ocispec.Descriptor) bool {
	signed := &envelope.Payload{}
	if blobDesc.MediaType != "" && blobDesc.MediaType != signed.TargetArtifact.MediaType {
		return false
	}
	return blobDesc.Digest == payloadDigest(signed) && blobDesc.Size == signed.TargetArtifact.Size
}

func payloadDigest(p *envelope.Payload) digest.Digest { return p.TargetArtifact.Digest }
''')),
]

# ---- class A/B, one-directional: callees that decide more than they forward (conditional store, error wrapper) -------
CTOR_COND = '''func newValidationResult(outcome *notation.VerificationOutcome, resultType trustpolicy.ValidationType, err error) *notation.ValidationResult {
	r := &notation.ValidationResult{Type: resultType, Action: outcome.VerificationLevel.Enforcement[resultType]}
	if COND {
		r.Error = err
	}
	return r
}

'''
WRAP = '''
func describeFailure(step string, err error) error {
	if COND {
		return nil
	}
	return fmt.Errorf("%s: %w", step, err)
}
'''
OCI_WRAPPED = OCI_OLD.replace('''	if err != nil {
		logger.Error("Failed to unmarshal the payload content in the signature blob to envelope.Payload")
		outcome.Error = err
		return outcome, err
	}''', '''	if err != nil {
		err = describeFailure("decode payload", err)
		outcome.Error = err
		return outcome, err
	}''')
GUARDS_OLD = BM_OLD + '''		logger.Infof("payload present in the signature: %+v", payload.TargetArtifact)
		logger.Infof("payload derived from the blob: %+v", desc)
		outcome.Error = errors.New("integrity check failed. signature does not match the given blob")
	}
'''
GUARD_SIZE = '''	if desc.Size != payload.TargetArtifact.Size {
		outcome.Error = mismatch
		return outcome, mismatch
	}
'''
GUARDS = '''	mismatch := errors.New("integrity check failed. signature does not match the given blob")
	if desc.Digest != payload.TargetArtifact.Digest {
		outcome.Error = mismatch
		return outcome, mismatch
	}
''' + GUARD_SIZE + '''	if desc.MediaType != "" {
		if desc.MediaType != payload.TargetArtifact.MediaType {
			outcome.Error = mismatch
			return outcome, mismatch
		}
	}
'''
DESCRIBE = '''func describeBlob(generate notation.BlobDescriptorGenerator, algorithm digest.Algorithm) (ocispec.Descriptor, error) {
	return generate(ALG)
}

'''
def describe(alg):
    return [(V, '\tdesc, err := descGenFunc(digestAlgo)\n', '\tdesc, err := describeBlob(descGenFunc, digestAlgo)\n'),
            (V, BLOB_FN_ANCHOR, DESCRIBE.replace('ALG', alg) + BLOB_FN_ANCHOR)]
SWITCH_MT = '''func isSignedBlob(blobDesc, signedDesc ocispec.Descriptor) bool {
	switch blobDesc.MediaType {
	case "", signedDesc.MediaType:
	default:
		return false
	}
	return blobDesc.Digest == signedDesc.Digest && blobDesc.Size == signedDesc.Size
}
'''
VARIANTS += [
 dict(name='benign-result-constructor-conditional-store', file=V, expect='silent', find=VI_OLD, replace=CTOR_COND.replace('COND', 'err != nil') + vi(mkA)),
 dict(name='benign-error-wrapper-on-failure-exit', file=V, expect='silent', find=OCI_OLD, replace=OCI_WRAPPED + WRAP.replace('COND', 'err == nil')),
 dict(name='benign-blob-guard-clauses', file=V, expect='silent', find=GUARDS_OLD, replace=GUARDS),
 dict(name='benign-blob-generator-through-helper', expect='silent', edits=describe('algorithm')),
 dict(name='benign-blob-predicate-switch', expect='silent', **blob_helper(IF_PRED, SWITCH_MT)),
 # broken counterparts
 dict(name='result-constructor-conditional-store-not-for-integrity', file=V, expect='flagged(parse-envelope)', find=VI_OLD,
      replace=CTOR_COND.replace('COND', 'err != nil && resultType != trustpolicy.TypeIntegrity') + vi(mkA)),
 dict(name='error-wrapper-swallows-decode-failure', file=V, expect='flagged(oci/)', find=OCI_OLD,
      replace=OCI_WRAPPED + WRAP.replace('COND', 'err == nil || step == "decode payload"')),
 dict(name='blob-guard-clauses-without-size', file=V, expect='flagged(blob/size-equal)', find=GUARDS_OLD, replace=GUARDS.replace(GUARD_SIZE, '')),
 dict(name='blob-generator-helper-hardcodes-algorithm', expect='flagged(blob/)', edits=describe('digest.SHA256')),
 dict(name='blob-predicate-switch-any-signed-type', expect='flagged(blob/mediatype-equal)',
      **blob_helper(IF_PRED, SWITCH_MT.replace('	default:\n		return false\n', '	default:\n		return signedDesc.MediaType != ""\n'))),
]

# the media type equality alone in a one-expression helper (the fact is the condition the helper returns)
MT_OLD = '(desc.MediaType != "" && desc.MediaType != payload.TargetArtifact.MediaType)'
SAME = 'func sameString(a, b string) bool {\n\treturn a == b\n}\n'
VARIANTS += [
 dict(name='benign-mediatype-equality-helper', expect='silent',
      edits=[(V, MT_OLD, '(desc.MediaType != "" && !sameString(desc.MediaType, payload.TargetArtifact.MediaType))'), (V, BLOB_FN_ANCHOR, SAME + '\n' + BLOB_FN_ANCHOR)]),
 dict(name='mediatype-equality-helper-applied-to-itself', expect='flagged(blob/mediatype-equal)',
      edits=[(V, MT_OLD, '(desc.MediaType != "" && !sameString(desc.MediaType, desc.MediaType))'), (V, BLOB_FN_ANCHOR, SAME + '\n' + BLOB_FN_ANCHOR)]),
 dict(name='mediatype-equality-helper-case-insensitive', expect='flagged(blob/mediatype-equal)',
      edits=[(V, MT_OLD, '(desc.MediaType != "" && !sameString(desc.MediaType, payload.TargetArtifact.MediaType))'), (V, BLOB_FN_ANCHOR, SAME.replace('a == b', 'strings.EqualFold(a, b)') + '\n' + BLOB_FN_ANCHOR)]),
]

# ---- third pass: the hash→digest table in another representation (class: package-level table vs function, comma-ok vs
# error vs zero value, helper boundary around the lookup, parameter narrowed/widened, single exit fed by locals) ----
ALG_MAP = '''var algorithms = map[crypto.Hash]digest.Algorithm{
	crypto.SHA256: digest.SHA256,
	crypto.SHA384: digest.SHA384,
	crypto.SHA512: digest.SHA512,
}
'''
ALG_USE = '''	digestAlgo, ok := algorithms[cryptoHash]
	if !ok {
		logger.Error("Unsupported hashing algorithm: %v", cryptoHash)
		err := fmt.Errorf("unsupported hashing algorithm: %v", cryptoHash)
		outcome.Error = err
		return outcome, err
	}
'''
def alg_use(call, test='!ok', lhs='digestAlgo, ok'):
    return ALG_USE.replace('digestAlgo, ok := algorithms[cryptoHash]', lhs + ' := ' + call).replace('if !ok {', 'if ' + test + ' {').replace('\t\terr := fmt.Errorf', '\t\terr = fmt.Errorf')
ALG_SWITCH = '''func digestAlgorithm(hash crypto.Hash) (digest.Algorithm, bool) {
	switch hash {
	case crypto.SHA256:
		return digest.SHA256, true
	case crypto.SHA384:
		return digest.SHA384, true
	case crypto.SHA512:
		return digest.SHA512, true
	}
	return "", false
}
'''
# if chain, error answer
ALG_IF_ERR = '''func digestAlgorithm(hash crypto.Hash) (digest.Algorithm, error) {
	if hash == crypto.SHA256 {
		return digest.SHA256, nil
	}
	if hash == crypto.SHA384 {
		return digest.SHA384, nil
	}
	if hash == crypto.SHA512 {
		return digest.SHA512, nil
	}
	return "", fmt.Errorf("unsupported hashing algorithm: %v", hash)
}
'''
# single exit fed by two locals
ALG_SINGLE_EXIT = '''func digestAlgorithm(hash crypto.Hash) (digest.Algorithm, bool) {
	var algorithm digest.Algorithm
	known := true
	switch hash {
	case crypto.SHA256:
		algorithm = digest.SHA256
	case crypto.SHA384:
		algorithm = digest.SHA384
	case crypto.SHA512:
		algorithm = digest.SHA512
	default:
		known = false
	}
	return algorithm, known
}
'''
# the table handed the signature algorithm (parameter widened), zero value as the miss answer
ALG_OF_SIGALG = '''func digestAlgorithmOf(signatureAlgorithm signature.Algorithm) digest.Algorithm {
	switch signatureAlgorithm.Hash() {
	case crypto.SHA256:
		return digest.SHA256
	case crypto.SHA384:
		return digest.SHA384
	case crypto.SHA512:
		return digest.SHA512
	default:
		return ""
	}
}
'''
# the map kept, looked up behind a helper boundary (two results: the value is transparent, the ok is the helper's answer)
ALG_WRAP = ALG_MAP + '''
func lookupDigestAlgorithm(content *signature.EnvelopeContent) (digest.Algorithm, bool) {
	algorithm, known := algorithms[content.SignerInfo.SignatureAlgorithm.Hash()]
	return algorithm, known
}
'''
# a table on top of a table: the error answer built from the inner table's boolean answer
ALG_TWO_LEVEL = ALG_SWITCH + '''
func requireDigestAlgorithm(hash crypto.Hash) (digest.Algorithm, error) {
	algorithm, known := digestAlgorithm(hash)
	if !known {
		return "", fmt.Errorf("unsupported hashing algorithm: %v", hash)
	}
	return algorithm, nil
}
'''
ZERO_USE = ALG_USE.replace('digestAlgo, ok := algorithms[cryptoHash]', 'digestAlgo := algorithms[cryptoHash]').replace('if !ok {', 'if digestAlgo == "" {')
def alg_fn(decl, use):
    return [(V, ALG_MAP, decl), (V, ALG_USE, use)]
ERR_USE = alg_use('digestAlgorithm(cryptoHash)', 'err != nil', 'digestAlgo, err').replace('\t\terr = fmt.Errorf("unsupported hashing algorithm: %v", cryptoHash)\n', '')
VARIANTS += [
 dict(name='benign-algorithm-table-switch-function', expect='silent', edits=alg_fn(ALG_SWITCH, alg_use('digestAlgorithm(cryptoHash)'))),
 dict(name='benign-algorithm-table-if-chain-error', expect='silent', edits=alg_fn(ALG_IF_ERR, ERR_USE)),
 dict(name='benign-algorithm-table-single-exit', expect='silent', edits=alg_fn(ALG_SINGLE_EXIT, alg_use('digestAlgorithm(cryptoHash)'))),
 dict(name='benign-algorithm-table-of-signature-algorithm-zero-miss', expect='silent',
      edits=alg_fn(ALG_OF_SIGALG, alg_use('digestAlgorithmOf(outcome.EnvelopeContent.SignerInfo.SignatureAlgorithm)', 'digestAlgo == ""', 'digestAlgo'))),
 dict(name='benign-algorithm-map-behind-helper', expect='silent', edits=alg_fn(ALG_WRAP, alg_use('lookupDigestAlgorithm(outcome.EnvelopeContent)'))),
 dict(name='benign-algorithm-table-two-level', expect='silent', edits=alg_fn(ALG_TWO_LEVEL, alg_use('requireDigestAlgorithm(cryptoHash)', 'err != nil', 'digestAlgo, err').replace('\t\terr = fmt.Errorf("unsupported hashing algorithm: %v", cryptoHash)\n', ''))),
 dict(name='benign-algorithm-map-zero-value-test', expect='silent', file=V, find=ALG_USE, replace=ZERO_USE),
 # broken counterparts
 dict(name='algorithm-table-function-default-sha256', expect='flagged(blob/)',
      edits=alg_fn(ALG_SWITCH.replace('\treturn "", false\n', '\treturn digest.SHA256, true\n'), alg_use('digestAlgorithm(cryptoHash)'))),
 dict(name='algorithm-table-function-ignores-hash', expect='flagged(blob/)',
      edits=alg_fn('func digestAlgorithm(hash crypto.Hash) (digest.Algorithm, bool) {\n\treturn digest.SHA256, hash.Available()\n}\n', alg_use('digestAlgorithm(cryptoHash)'))),
 dict(name='algorithm-table-function-mispaired', expect='flagged(blob/)',
      edits=alg_fn(ALG_SWITCH.replace('return digest.SHA384, true', 'return digest.SHA256, true'), alg_use('digestAlgorithm(cryptoHash)'))),
 dict(name='algorithm-table-function-miss-ignored', expect='flagged(blob/algorithm-lookup)',
      edits=alg_fn(ALG_SWITCH, alg_use('digestAlgorithm(cryptoHash)', '!ok && cryptoHash == 0'))),
 dict(name='algorithm-table-function-of-constant-hash', expect='flagged(blob/)',
      edits=alg_fn(ALG_SWITCH, alg_use('digestAlgorithm(crypto.SHA256)'))),
 dict(name='algorithm-table-if-chain-error-default-nil', expect='flagged(blob/)',
      edits=alg_fn(ALG_IF_ERR.replace('\treturn "", fmt.Errorf("unsupported hashing algorithm: %v", hash)\n', '\treturn digest.SHA512, nil\n'), ERR_USE)),
 dict(name='algorithm-table-single-exit-default-known', expect='flagged(blob/)',
      edits=alg_fn(ALG_SINGLE_EXIT.replace('\tdefault:\n\t\tknown = false\n', '\tdefault:\n\t\talgorithm = digest.SHA256\n'), alg_use('digestAlgorithm(cryptoHash)'))),
 dict(name='algorithm-map-behind-helper-miss-not-reported', expect='flagged(blob/algorithm-lookup)',
      edits=alg_fn(ALG_WRAP.replace('\treturn algorithm, known\n', '\treturn algorithm, known || algorithm == ""\n'), alg_use('lookupDigestAlgorithm(outcome.EnvelopeContent)'))),
 dict(name='algorithm-table-two-level-miss-swallowed', expect='flagged(blob/)',
      edits=alg_fn(ALG_TWO_LEVEL.replace('\tif !known {\n', '\tif !known && hash == 0 {\n'), alg_use('requireDigestAlgorithm(cryptoHash)', 'err != nil', 'digestAlgo, err').replace('\t\terr = fmt.Errorf("unsupported hashing algorithm: %v", cryptoHash)\n', ''))),
 dict(name='algorithm-map-zero-value-test-dropped', expect='flagged(blob/algorithm-lookup)', file=V, find=ALG_USE,
      replace=ZERO_USE.replace('if digestAlgo == "" {', 'if digestAlgo == "" && cryptoHash == 0 {')),
]

# further members of the class: the boolean answer spelled as a comparison, lookup and generator call behind one helper
# boundary, the table as a closure / as a method handed the whole outcome, the map declared in another package
ALG_HASH_LINE = '\tcryptoHash := outcome.EnvelopeContent.SignerInfo.SignatureAlgorithm.Hash()\n'
GEN_OLD = ALG_HASH_LINE + ALG_USE + '''
	desc, err := descGenFunc(digestAlgo)
	if err != nil {
'''
GEN_NEW = '''	desc, err := describeSignedBlob(outcome.EnvelopeContent, descGenFunc)
	if err != nil {
'''
DESCRIBE_SIGNED = '''func describeSignedBlob(content *signature.EnvelopeContent, generate notation.BlobDescriptorGenerator) (ocispec.Descriptor, error) {
	hash := content.SignerInfo.SignatureAlgorithm.Hash()
	algorithm, ok := algorithms[hash]
	if !ok {
		return ocispec.Descriptor{}, fmt.Errorf("unsupported hashing algorithm: %v", hash)
	}
	return generate(algorithm)
}

'''
def describe_signed(body=DESCRIBE_SIGNED):
    return [(V, GEN_OLD, GEN_NEW), (V, BLOB_FN_ANCHOR, body + BLOB_FN_ANCHOR)]
ALG_CLOSURE = '''	lookup := func(hash crypto.Hash) (digest.Algorithm, bool) {
		algorithm, known := algorithms[hash]
		return algorithm, known
	}
'''
ALG_METHOD = '''func (v *verifier) blobDigestAlgorithm(outcome *notation.VerificationOutcome) (digest.Algorithm, error) {
	switch hash := outcome.EnvelopeContent.SignerInfo.SignatureAlgorithm.Hash(); hash {
	case crypto.SHA256:
		return digest.SHA256, nil
	case crypto.SHA384:
		return digest.SHA384, nil
	case crypto.SHA512:
		return digest.SHA512, nil
	default:
		return "", fmt.Errorf("unsupported hashing algorithm: %v", hash)
	}
}

'''
METHOD_USE = alg_use('v.blobDigestAlgorithm(outcome)', 'err != nil', 'digestAlgo, err').replace('\t\terr = fmt.Errorf("unsupported hashing algorithm: %v", cryptoHash)\n', '')
def alg_method(body=ALG_METHOD):
    return [(V, ALG_USE, METHOD_USE), (V, BLOB_FN_ANCHOR, body + BLOB_FN_ANCHOR)]
ENV = 'internal/envelope/envelope.go'
def alg_other_package(index='cryptoHash', test='!ok'):
    return [(V, ALG_MAP, ''), (V, '\t"crypto"\n', ''), (V, '\t"github.com/opencontainers/go-digest"\n', ''),
            (V, ALG_USE, alg_use('envelope.DigestAlgorithms[' + index + ']', test)),
            (ENV, '\t"errors"\n', '\t"crypto"\n\t"errors"\n'),
            (ENV, '\tocispec "github.com/opencontainers/image-spec/specs-go/v1"\n', '\t"github.com/opencontainers/go-digest"\n\tocispec "github.com/opencontainers/image-spec/specs-go/v1"\n'),
            (ENV, '// Payload describes the content that gets signed.\n', '// DigestAlgorithms maps the hash of a signature algorithm to the digest algorithm of signed blobs.\nvar DigestAlgorithms = map[crypto.Hash]digest.Algorithm{\n\tcrypto.SHA256: digest.SHA256,\n\tcrypto.SHA384: digest.SHA384,\n\tcrypto.SHA512: digest.SHA512,\n}\n\n// Payload describes the content that gets signed.\n')]
VARIANTS += [
 dict(name='benign-algorithm-table-answer-compared-with-false', expect='silent', edits=alg_fn(ALG_SWITCH, alg_use('digestAlgorithm(cryptoHash)', 'ok == false'))),
 dict(name='benign-algorithm-lookup-and-generator-behind-one-helper', expect='silent', edits=describe_signed()),
 dict(name='benign-algorithm-table-closure', expect='silent', file=V, find=ALG_USE, replace=ALG_CLOSURE + alg_use('lookup(cryptoHash)')),
 dict(name='benign-algorithm-table-method-of-outcome', expect='silent', edits=alg_method()),
 dict(name='benign-algorithm-map-in-another-package', expect='silent', edits=alg_other_package()),
 # broken counterparts
 dict(name='algorithm-table-answer-compared-with-true', expect='flagged(blob/algorithm-lookup)', edits=alg_fn(ALG_SWITCH, alg_use('digestAlgorithm(cryptoHash)', 'ok == true'))),
 dict(name='algorithm-helper-miss-swallowed', expect='flagged(blob/algorithm-lookup)', edits=describe_signed(DESCRIBE_SIGNED.replace('\tif !ok {\n', '\tif !ok && hash == 0 {\n'))),
 dict(name='algorithm-helper-generates-with-sha256', expect='flagged(blob/)', edits=describe_signed(DESCRIBE_SIGNED.replace('\treturn generate(algorithm)\n', '\t_ = algorithm\n\treturn generate(digest.SHA256)\n'))),
 dict(name='algorithm-helper-looks-up-constant-hash', expect='flagged(blob/)', edits=describe_signed(DESCRIBE_SIGNED.replace('algorithms[hash]', 'algorithms[crypto.SHA256]'))),
 dict(name='algorithm-table-closure-always-known', expect='flagged(blob/)', file=V, find=ALG_USE,
      replace=ALG_CLOSURE.replace('\t\treturn algorithm, known\n', '\t\t_ = known\n\t\treturn algorithm, true\n') + alg_use('lookup(cryptoHash)')),
 dict(name='algorithm-table-method-default-sha256', expect='flagged(blob/)',
      edits=alg_method(ALG_METHOD.replace('\t\treturn "", fmt.Errorf("unsupported hashing algorithm: %v", hash)\n', '\t\treturn digest.SHA256, nil\n'))),
 dict(name='algorithm-table-method-switches-on-constant', expect='flagged(blob/)',
      edits=alg_method(ALG_METHOD.replace('switch hash := outcome.EnvelopeContent.SignerInfo.SignatureAlgorithm.Hash(); hash {', 'switch hash := crypto.SHA256; hash {'))),
 dict(name='algorithm-map-in-another-package-miss-ignored', expect='flagged(blob/algorithm-lookup)', edits=alg_other_package(test='!ok && cryptoHash == 0')),
]

# ---- fourth pass: the front part of both entry points (outcome allocation, skip gate, signature processing, payload
# decoding) behind ONE helper that hands back a tuple and signals its skip exit through a sentinel result
_SRC = open('/repo/' + V).read()
_OCI_START = '\t// ignore the error since we already validated the policy document\n\tverificationLevel, _ := trustPolicy.SignatureVerification.GetVerificationLevel()\n\n\toutcome := '
_BLOB_START = '\t// ignore the error since we already validated the policy document\n\tverificationLevel, _ := trustPolicy.SignatureVerification.GetVerificationLevel()\n\toutcome := '
OCI_FRONT = _SRC[_SRC.index(_OCI_START):_SRC.index('\tif !content.Equal(payload.TargetArtifact, desc) {')]
BLOB_FRONT = _SRC[_SRC.index(_BLOB_START):_SRC.index('\tcryptoHash := outcome.EnvelopeContent.SignerInfo.SignatureAlgorithm.Hash()\n')]
PIPE_ANCHOR = 'func (v *verifier) processSignature(ctx context.Context, sigBlob []byte,'
PIPE_SIG = 'func (v *verifier) verifyEnvelope(ctx context.Context, sigBlob []byte, envelopeMediaType, policyName string, trustedIdentities, trustStores []string, signatureVerification trustpolicy.SignatureVerification, pluginConfig map[string]string) '
PIPE_HELPER = PIPE_SIG + '''(*notation.VerificationOutcome, *envelope.Payload, error) {
	logger := log.GetLogger(ctx)
	verificationLevel, _ := signatureVerification.GetVerificationLevel()
	outcome := &notation.VerificationOutcome{
		RawSignature:      sigBlob,
		VerificationLevel: verificationLevel,
	}
	if reflect.DeepEqual(verificationLevel, trustpolicy.LevelSkip) {
		logger.Debug("Skipping signature verification")
		return outcome, nil, nil
	}
	if err := v.processSignature(ctx, sigBlob, envelopeMediaType, policyName, trustedIdentities, trustStores, signatureVerification, pluginConfig, outcome); err != nil {
		outcome.Error = err
		return outcome, nil, err
	}
	payload := &envelope.Payload{}
	if err := json.Unmarshal(outcome.EnvelopeContent.Payload.Content, payload); err != nil {
		logger.Error("Failed to unmarshal the payload content in the signature blob to envelope.Payload")
		outcome.Error = err
		return outcome, nil, err
	}
	return outcome, payload, nil
}

'''
PIPE_GUARD = '\tif err != nil || payload == nil {\n\t\treturn outcome, err\n\t}\n\n'
def pipe_call(mt, cfg, lhs='outcome, payload, err'):
    return '\t' + lhs + ' := v.verifyEnvelope(ctx, signature, ' + mt + ', trustPolicy.Name, trustPolicy.TrustedIdentities, trustPolicy.TrustStores, trustPolicy.SignatureVerification, ' + cfg + ')\n'
def pipeline(helper=PIPE_HELPER, guard=PIPE_GUARD, lhs='outcome, payload, err'):
    return [(V, OCI_FRONT, pipe_call('envelopeMediaType', 'pluginConfig', lhs) + guard),
            (V, BLOB_FRONT, pipe_call('opts.SignatureMediaType', 'opts.PluginConfig', lhs) + guard),
            (V, PIPE_ANCHOR, helper + PIPE_ANCHOR)]
# the sentinel is a flag instead of the nil payload
PIPE_FLAG_HELPER = (PIPE_HELPER.replace('(*notation.VerificationOutcome, *envelope.Payload, error) {', '(*notation.VerificationOutcome, *envelope.Payload, bool, error) {')
    .replace('return outcome, nil, nil\n', 'return outcome, nil, true, nil\n').replace('return outcome, nil, err\n', 'return outcome, nil, false, err\n')
    .replace('return outcome, payload, nil\n', 'return outcome, payload, false, nil\n'))
PIPE_FLAG_GUARD = '\tif err != nil || skipped {\n\t\treturn outcome, err\n\t}\n\n'
# the results in another order
PIPE_SWAP_HELPER = (PIPE_HELPER.replace('(*notation.VerificationOutcome, *envelope.Payload, error) {', '(*envelope.Payload, *notation.VerificationOutcome, error) {')
    .replace('return outcome, nil, nil\n', 'return nil, outcome, nil\n').replace('return outcome, nil, err\n', 'return nil, outcome, err\n')
    .replace('return outcome, payload, nil\n', 'return payload, outcome, nil\n'))
PIPE_PROC_FAIL = '\t\toutcome.Error = err\n\t\treturn outcome, nil, err\n\t}\n\tpayload := &envelope.Payload{}\n'
VARIANTS += [
 dict(name='benign-pipeline-helper-nil-payload-sentinel', expect='silent', edits=pipeline()),
 dict(name='benign-pipeline-helper-two-guards', expect='silent',
      edits=pipeline(guard='\tif err != nil {\n\t\treturn outcome, err\n\t}\n\tif payload == nil {\n\t\treturn outcome, nil\n\t}\n\n')),
 dict(name='benign-pipeline-helper-skipped-flag', expect='silent', edits=pipeline(PIPE_FLAG_HELPER, PIPE_FLAG_GUARD, 'outcome, payload, skipped, err')),
 dict(name='benign-pipeline-helper-results-reordered', expect='silent', edits=pipeline(PIPE_SWAP_HELPER, lhs='payload, outcome, err')),
 # broken counterparts
 dict(name='pipeline-helper-failed-processing-reads-as-skip', expect='flagged(oci/)',
      edits=pipeline(PIPE_HELPER.replace(PIPE_PROC_FAIL, PIPE_PROC_FAIL.replace('return outcome, nil, err\n', 'return outcome, nil, nil\n')))),
 dict(name='pipeline-helper-nil-payload-accepted-before-error-check', expect='flagged(oci/)',
      edits=pipeline(guard='\tif payload == nil {\n\t\treturn outcome, nil\n\t}\n\tif err != nil {\n\t\treturn outcome, err\n\t}\n\n')),
 dict(name='pipeline-helper-decode-failure-swallowed', expect='flagged(oci/payload-decode)',
      edits=pipeline(PIPE_HELPER.replace('\t\tlogger.Error("Failed to unmarshal the payload content in the signature blob to envelope.Payload")\n\t\toutcome.Error = err\n\t\treturn outcome, nil, err\n',
                                         '\t\tlogger.Error("Failed to unmarshal the payload content in the signature blob to envelope.Payload")\n\t\treturn outcome, payload, nil\n'))),
 dict(name='pipeline-helper-skipped-flag-set-on-failed-processing', expect='flagged(blob/)',
      edits=pipeline(PIPE_FLAG_HELPER.replace('\t\toutcome.Error = err\n\t\treturn outcome, nil, false, err\n\t}\n\tpayload := ', '\t\treturn outcome, nil, true, nil\n\t}\n\tpayload := '),
                     PIPE_FLAG_GUARD, 'outcome, payload, skipped, err')),
 dict(name='pipeline-helper-skipped-flag-inverted-in-caller', expect='flagged(oci/)',
      edits=pipeline(PIPE_FLAG_HELPER, '\tif err != nil || !skipped {\n\t\treturn outcome, err\n\t}\n\n', 'outcome, payload, skipped, err')),
 dict(name='pipeline-helper-skips-without-level-test', expect='flagged(oci/)',
      edits=pipeline(PIPE_HELPER.replace('\tif reflect.DeepEqual(verificationLevel, trustpolicy.LevelSkip) {', '\tif reflect.DeepEqual(verificationLevel, trustpolicy.LevelSkip) || len(trustStores) == 0 {'))),
 dict(name='pipeline-helper-without-envelope-processing', expect='flagged(oci/parse-envelope)',
      edits=pipeline(PIPE_HELPER.replace('\tif err := v.processSignature(ctx, sigBlob, envelopeMediaType, policyName, trustedIdentities, trustStores, signatureVerification, pluginConfig, outcome); err != nil {',
                                         '\tif err := v.processSignature(ctx, sigBlob, envelopeMediaType, policyName, trustedIdentities, trustStores, signatureVerification, pluginConfig, outcome); err != nil && len(trustStores) > 0 {'))),
]
# the object the helper hands back must be the one it decoded into (descriptions name allocations by type and syntax only)
VARIANTS += [
 dict(name='pipeline-helper-returns-undecoded-payload', expect='flagged(oci/descriptor-equal)',
      edits=pipeline(PIPE_HELPER.replace('\treturn outcome, payload, nil\n', '\tpayload = &envelope.Payload{}\n\treturn outcome, payload, nil\n'))),
 dict(name='pipeline-caller-compares-another-payload', expect='flagged(oci/)',
      edits=pipeline() + [(V, '\tif !content.Equal(payload.TargetArtifact, desc) {', '\tother := &envelope.Payload{}\n\tif !content.Equal(other.TargetArtifact, desc) {')]),
 dict(name='pipeline-helper-returns-fresh-outcome', expect='flagged(oci/same-outcome)',
      edits=pipeline(PIPE_HELPER.replace('\treturn outcome, payload, nil\n', '\treturn &notation.VerificationOutcome{RawSignature: sigBlob, VerificationLevel: verificationLevel}, payload, nil\n'))),
]

# ---- fifth pass, class E: a step that has no verdict among its results and reports through the outcome it is handed ------
REC_SIG = 'func recordMetadataMismatch(logger log.Logger, signed *envelope.Payload, required map[string]string, result *notation.VerificationOutcome) {\n'
REC_HELPER = REC_SIG + '''	if len(required) == 0 {
		return
	}
	if err := verifyUserMetadata(logger, signed, required); err != nil {
		result.Error = err
	}
}

'''
REC_CALL = '\trecordMetadataMismatch(logger, payload, opts.UserMetadata, outcome)\n'
def recorder(helper=REC_HELPER, call=REC_CALL, call_blob=None, tail='\n\treturn outcome, outcome.Error\n}\n\n'):
    return [(V, META_CALL_OCI, call + tail + helper + 'func (v *verifier) processSignature'),
            (V, META_CALL_BLOB, (call_blob or call) + tail + '// Verify verifies')]
# the helper is handed the outcome only and decodes the signed payload again itself
REC_WHOLE = '''func recordMetadataMismatch(logger log.Logger, result *notation.VerificationOutcome, required map[string]string) {
	if len(required) > 0 {
		signed := &envelope.Payload{}
		if err := json.Unmarshal(result.EnvelopeContent.Payload.Content, signed); err != nil {
			result.Error = err
			return
		}
		if err := verifyUserMetadata(logger, signed, required); err != nil {
			result.Error = err
		}
	}
}

'''
VARIANTS += [
 dict(name='benign-metadata-recorded-in-outcome-by-void-helper', expect='silent', edits=recorder()),
 dict(name='benign-metadata-void-helper-nested-guard', expect='silent',
      edits=recorder(REC_SIG + '\tif len(required) > 0 {\n\t\terr := verifyUserMetadata(logger, signed, required)\n\t\tif err != nil {\n\t\t\tresult.Error = err\n\t\t}\n\t}\n}\n\n')),
 dict(name='benign-metadata-void-helper-handed-whole-outcome', expect='silent',
      edits=recorder(REC_WHOLE, '\trecordMetadataMismatch(logger, outcome, opts.UserMetadata)\n')),
 dict(name='benign-metadata-void-helper-log-line-before-return', expect='silent',
      edits=recorder(tail='\tlogger.Debug("verification finished")\n\treturn outcome, outcome.Error\n}\n\n')),
 # broken counterparts
 dict(name='metadata-void-helper-only-logs-the-failure', expect='flagged(metadata-gate)',
      edits=recorder(REC_HELPER.replace('\t\tresult.Error = err\n', '\t\tlogger.Error(err)\n'))),
 dict(name='metadata-void-helper-handed-another-outcome', expect='flagged(oci/metadata-gate)',
      edits=recorder(call='\trecordMetadataMismatch(logger, payload, opts.UserMetadata, &notation.VerificationOutcome{})\n')),
 dict(name='metadata-void-helper-bypassed-when-signature-has-no-annotations', expect='flagged(metadata-gate)',
      edits=recorder(REC_HELPER.replace('if len(required) == 0 {', 'if len(required) == 0 || len(signed.TargetArtifact.Annotations) == 0 {'))),
 dict(name='metadata-void-helper-overwrites-earlier-failure', expect='flagged(oci/)',
      edits=recorder(REC_HELPER.replace('\tif err := verifyUserMetadata(logger, signed, required); err != nil {\n\t\tresult.Error = err\n\t}\n', '\tresult.Error = verifyUserMetadata(logger, signed, required)\n'))),
 dict(name='metadata-void-helper-verdict-cleared-after-the-call', expect='flagged(oci/)',
      edits=recorder(tail='\tif len(opts.UserMetadata) > 0 && outcome.Error != nil {\n\t\tlogger.Warn(outcome.Error)\n\t\toutcome.Error = nil\n\t}\n\treturn outcome, outcome.Error\n}\n\n')),
 dict(name='metadata-void-helper-returns-before-recording', expect='flagged(metadata-gate)',
      edits=recorder(REC_HELPER.replace('\t\tresult.Error = err\n', '\t\tif result.VerificationLevel.Name != "strict" {\n\t\t\treturn\n\t\t}\n\t\tresult.Error = err\n'))),
]

# ---- fifth pass, class F: the verification proper in an inner method that returns the error; the entry point stores it
# into the outcome at one place; the signature bytes are read back from the outcome literal
_OCI_BODY = _SRC[_SRC.index(OCI_OLD):_SRC.index(OCI_OLD) + len(OCI_OLD)]
_BLOB_OLD_START = '\terr = v.processSignature(ctx, signature, opts.SignatureMediaType, trustPolicy.Name,'
BLOB_OLD = _SRC[_SRC.index(_BLOB_OLD_START):_SRC.index('// Verify verifies the signature associated to the target OCI')]
def inner_body(old, sigarg='outcome.RawSignature'):
    b = old.replace('ctx, signature, ', 'ctx, ' + sigarg + ', ')
    b = b.replace('\terr = v.processSignature(', '\tlogger := log.GetLogger(ctx)\n\terr := v.processSignature(', 1)
    b = b.replace('\t\toutcome.Error = err\n\t\treturn outcome, err\n', '\t\treturn err\n')
    b = b.replace('\t\toutcome.Error = descErr\n\t\treturn outcome, descErr\n', '\t\treturn descErr\n')
    b = b.replace('\t\toutcome.Error = errors.New(', '\t\tverificationErr = errors.New(')
    b = b.replace('\t\t\toutcome.Error = err\n', '\t\t\tverificationErr = err\n')
    b = b.replace('\treturn outcome, outcome.Error\n', '\treturn verificationErr\n')
    b = b.replace('\tif !content.Equal(', '\tvar verificationErr error\n\tif !content.Equal(').replace('\tif desc.Digest != ', '\tvar verificationErr error\n\tif desc.Digest != ')
    return b
OCI_INNER_SIG = 'func (v *verifier) verifyOCIEnvelope(ctx context.Context, desc ocispec.Descriptor, trustPolicy *trustpolicy.TrustPolicy, opts notation.VerifierVerifyOptions, outcome *notation.VerificationOutcome) error {\n\tenvelopeMediaType, pluginConfig := opts.SignatureMediaType, opts.PluginConfig\n'
BLOB_INNER_SIG = 'func (v *verifier) verifyBlobEnvelope(ctx context.Context, descGenFunc notation.BlobDescriptorGenerator, trustPolicy *trustpolicy.BlobTrustPolicy, opts notation.BlobVerifierVerifyOptions, outcome *notation.VerificationOutcome) error {\n'
OCI_OUTER = '\toutcome.Error = v.verifyOCIEnvelope(ctx, desc, trustPolicy, opts, outcome)\n\treturn outcome, outcome.Error\n}\n\n'
BLOB_OUTER = '\toutcome.Error = v.verifyBlobEnvelope(ctx, descGenFunc, trustPolicy, opts, outcome)\n\treturn outcome, outcome.Error\n}\n\n'
def split(oci_inner=None, blob_inner=None, oci_outer=OCI_OUTER, blob_outer=BLOB_OUTER, extra=()):
    oi = oci_inner if oci_inner is not None else inner_body(OCI_OLD)
    bi = blob_inner if blob_inner is not None else inner_body(BLOB_OLD)
    return [(V, OCI_OLD, oci_outer + OCI_INNER_SIG + oi), (V, BLOB_OLD, blob_outer + BLOB_INNER_SIG + bi),
            (V, '\tpluginConfig := opts.PluginConfig\n', '')] + list(extra)
VARIANTS += [
 dict(name='benign-inner-method-returns-verdict-stored-once', expect='silent', edits=split()),
 dict(name='benign-inner-method-verdict-in-local-then-stored', expect='silent',
      edits=split(oci_outer='\terr = v.verifyOCIEnvelope(ctx, desc, trustPolicy, opts, outcome)\n\toutcome.Error = err\n\treturn outcome, err\n}\n\n',
                  blob_outer='\terr = v.verifyBlobEnvelope(ctx, descGenFunc, trustPolicy, opts, outcome)\n\toutcome.Error = err\n\treturn outcome, err\n}\n\n')),
 dict(name='benign-signature-read-back-from-outcome-inline', expect='silent', all=True, file=V,
      find='processSignature(ctx, signature, ', replace='processSignature(ctx, outcome.RawSignature, '),
 # broken counterparts
 dict(name='inner-method-parses-another-field-of-the-outcome', expect='flagged(parse-envelope)',
      edits=split(oci_inner=inner_body(OCI_OLD, 'outcome.EnvelopeContent.Payload.Content'))),
 dict(name='inner-method-outcome-signature-overwritten', expect='flagged(parse-envelope)',
      edits=split(oci_inner=inner_body(OCI_OLD).replace('\tlogger := log.GetLogger(ctx)\n', '\tlogger := log.GetLogger(ctx)\n\tif sig, ok := opts.PluginConfig["signature"]; ok {\n\t\toutcome.RawSignature = []byte(sig)\n\t}\n', 1))),
 dict(name='inner-method-outcome-literal-holds-other-bytes', expect='flagged(oci/parse-envelope)',
      edits=split(extra=[(V, _OCI_START + '&notation.VerificationOutcome{\n\t\tRawSignature:      signature,', _OCI_START + '&notation.VerificationOutcome{\n\t\tRawSignature:      []byte(opts.ArtifactReference),')])),
 dict(name='inner-method-mediatype-compare-dropped', expect='flagged(blob/mediatype-equal)',
      edits=split(blob_inner=inner_body(BLOB_OLD).replace(' ||\n\t\t(desc.MediaType != "" && desc.MediaType != payload.TargetArtifact.MediaType) {', ' {'))),
 dict(name='inner-method-mediatype-compared-with-undecoded-payload', expect='flagged(blob/mediatype-equal)',
      edits=split(blob_inner=inner_body(BLOB_OLD).replace('(desc.MediaType != "" && desc.MediaType != payload.TargetArtifact.MediaType)', '(desc.MediaType != "" && desc.MediaType != (&envelope.Payload{}).TargetArtifact.MediaType)'))),
 dict(name='inner-method-verdict-dropped-by-entry-point', expect='flagged(oci/)',
      edits=split(oci_outer='\tif err := v.verifyOCIEnvelope(ctx, desc, trustPolicy, opts, outcome); err != nil {\n\t\tlogger.Warn(err)\n\t}\n\treturn outcome, outcome.Error\n}\n\n')),
 dict(name='inner-method-metadata-overwrites-mismatch', expect='flagged(oci/descriptor-equal)',
      edits=split(oci_inner=inner_body(OCI_OLD).replace('\t\terr := verifyUserMetadata(logger, payload, opts.UserMetadata)\n\t\tif err != nil {\n\t\t\tverificationErr = err\n\t\t}\n', '\t\tverificationErr = verifyUserMetadata(logger, payload, opts.UserMetadata)\n'))),
]

# API option forwarding (forward.go): notation.Verify rebuilds the caller's options for the verifier
N_ = 'notation.go'
FW_OLD = '\topts := VerifierVerifyOptions{\n\t\tArtifactReference: verifyOpts.ArtifactReference,\n\t\tPluginConfig:      verifyOpts.PluginConfig,\n\t\tUserMetadata:      verifyOpts.UserMetadata,\n\t}\n'
VARIANTS += [
 dict(name='api-verify-drops-required-metadata', file=N_, expect='flagged(api/options-forwarded/ngo.Verify/VerifierVerifyOptions.UserMetadata)', find=FW_OLD,
      replace='\topts := VerifierVerifyOptions{\n\t\tArtifactReference: verifyOpts.ArtifactReference,\n\t\tPluginConfig:      verifyOpts.PluginConfig,\n\t}\n'),
 dict(name='api-verify-drops-artifact-reference', file=N_, expect='flagged(api/options-forwarded/ngo.Verify/VerifierVerifyOptions.ArtifactReference)', find=FW_OLD,
      replace='\topts := VerifierVerifyOptions{\n\t\tPluginConfig: verifyOpts.PluginConfig,\n\t\tUserMetadata: verifyOpts.UserMetadata,\n\t}\n'),
 dict(name='api-verify-metadata-taken-from-plugin-config', file=N_, expect='flagged(api/options-forwarded/ngo.Verify/VerifierVerifyOptions.UserMetadata)', find=FW_OLD,
      replace='\topts := VerifierVerifyOptions{\n\t\tArtifactReference: verifyOpts.ArtifactReference,\n\t\tPluginConfig:      verifyOpts.PluginConfig,\n\t\tUserMetadata:      verifyOpts.PluginConfig,\n\t}\n'),
 dict(name='api-verify-metadata-only-without-skip-check', file=N_, expect='flagged(api/options-forwarded/ngo.Verify/VerifierVerifyOptions.UserMetadata)', find=FW_OLD,
      replace='\topts := VerifierVerifyOptions{\n\t\tArtifactReference: verifyOpts.ArtifactReference,\n\t\tPluginConfig:      verifyOpts.PluginConfig,\n\t}\n\tif _, ok := verifier.(verifySkipper); !ok {\n\t\topts.UserMetadata = verifyOpts.UserMetadata\n\t}\n'),
 dict(name='api-verify-helper-builds-options-without-metadata', file=N_, expect='flagged(api/options-forwarded/ngo.Verify/VerifierVerifyOptions.UserMetadata)', find=FW_OLD,
      replace='\topts := verifierOptionsOf(verifyOpts)\n',
      edits=[(N_, '// Verify performs signature verification on each of the notation supported', 'func verifierOptionsOf(o VerifyOptions) VerifierVerifyOptions {\n\treturn VerifierVerifyOptions{\n\t\tArtifactReference: o.ArtifactReference,\n\t\tPluginConfig:      o.PluginConfig,\n\t}\n}\n\n// Verify performs signature verification on each of the notation supported')]),
 dict(name='benign-api-verify-options-filled-in-field-by-field', file=N_, expect='silent', find=FW_OLD,
      replace='\tvar opts VerifierVerifyOptions\n\topts.UserMetadata = verifyOpts.UserMetadata\n\topts.PluginConfig = verifyOpts.PluginConfig\n\topts.ArtifactReference = verifyOpts.ArtifactReference\n'),
 dict(name='benign-api-verify-options-through-locals', file=N_, expect='silent', find=FW_OLD,
      replace='\trequired, callerRef := verifyOpts.UserMetadata, verifyOpts.ArtifactReference\n\topts := VerifierVerifyOptions{\n\t\tArtifactReference: callerRef,\n\t\tPluginConfig:      verifyOpts.PluginConfig,\n\t\tUserMetadata:      required,\n\t}\n'),
 dict(name='benign-api-verify-helper-builds-options', file=N_, expect='silent', find=FW_OLD,
      replace='\topts := verifierOptionsOf(verifyOpts)\n',
      edits=[(N_, '// Verify performs signature verification on each of the notation supported', 'func verifierOptionsOf(o VerifyOptions) VerifierVerifyOptions {\n\treturn VerifierVerifyOptions{\n\t\tArtifactReference: o.ArtifactReference,\n\t\tPluginConfig:      o.PluginConfig,\n\t\tUserMetadata:      o.UserMetadata,\n\t}\n}\n\n// Verify performs signature verification on each of the notation supported')]),
]
