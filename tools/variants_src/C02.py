V = 'verifier/verifier.go'
H = 'verifier/helpers.go'
T = 'verifier/trustpolicy/trustpolicy.go'
VARIANTS = [
 dict(name='predicate-or', file=H, expect='flagged(predicate)',
      find='return result.Action == trustpolicy.ActionEnforce && result.Error != nil',
      replace='return result.Action == trustpolicy.ActionEnforce || result.Error != nil'),
 dict(name='predicate-log-rejects', file=H, expect='flagged(predicate)',
      find='return result.Action == trustpolicy.ActionEnforce && result.Error != nil',
      replace='return result.Action != trustpolicy.ActionSkip && result.Error != nil'),
 dict(name='expiry-gate-dropped', file=V, expect='flagged(gated/)',
      find='\tif isCriticalFailure(expiryResult) {\n\t\treturn expiryResult.Error\n\t}\n', replace=''),
 dict(name='identity-second-gate-dropped', file=V, expect='flagged(gated/)',
      find='''			logVerificationResult(logger, authenticityResult)
		}
		if isCriticalFailure(authenticityResult) {
			return authenticityResult.Error
		}
	}''', replace='''			logVerificationResult(logger, authenticityResult)
		}
	}'''),
 dict(name='gate-moved-before-store', file=V, expect='flagged(gated/)',
      find='''		err = verifyX509TrustedIdentities(policyName, trustedIdentities, outcome.EnvelopeContent.SignerInfo.CertificateChain)
		if err != nil {
			authenticityResult.Error = err
			logVerificationResult(logger, authenticityResult)
		}
		if isCriticalFailure(authenticityResult) {
			return authenticityResult.Error
		}''', replace='''		err = verifyX509TrustedIdentities(policyName, trustedIdentities, outcome.EnvelopeContent.SignerInfo.CertificateChain)
		if isCriticalFailure(authenticityResult) {
			return authenticityResult.Error
		}
		if err != nil {
			authenticityResult.Error = err
			logVerificationResult(logger, authenticityResult)
		}'''),
 dict(name='revocation-gate-dropped', file=V, expect='flagged(gated/)',
      find='\t\tif isCriticalFailure(revocationResult) {\n\t\t\treturn revocationResult.Error\n\t\t}\n\t}\n\n\t// perform extended', replace='\t}\n\n\t// perform extended'),
 dict(name='plugin-revocation-verdict-ungated', file=V, expect='flagged(gated/)',
      find='\t\t\tif isCriticalFailure(revocationResult) {\n\t\t\t\treturn revocationResult.Error\n\t\t\t}\n\t\t}\n\t}\n\n\treturn nil', replace='\t\t}\n\t}\n\n\treturn nil'),
 dict(name='action-from-other-type', file=V, expect='flagged(pairing/)',
      find='''			Type:   trustpolicy.TypeExpiry,
			Action: outcome.VerificationLevel.Enforcement[trustpolicy.TypeExpiry],
		}
	}
''', replace='''			Type:   trustpolicy.TypeExpiry,
			Action: outcome.VerificationLevel.Enforcement[trustpolicy.TypeAuthenticTimestamp],
		}
	}
'''),
 dict(name='action-constant', file=V, expect='flagged(pairing/)',
      find='''	result := &notation.ValidationResult{
		Type:   trustpolicy.TypeRevocation,
		Action: outcome.VerificationLevel.Enforcement[trustpolicy.TypeRevocation],
	}''', replace='''	result := &notation.ValidationResult{
		Type:   trustpolicy.TypeRevocation,
		Action: trustpolicy.ActionLog,
	}'''),
 dict(name='override-into-shared-level', file=T, expect='flagged(custom/fresh-map)',
      find='''	customVerificationLevel := &VerificationLevel{
		Name:        "custom",
		Enforcement: make(map[ValidationType]ValidationAction),
	}''', replace='''	customVerificationLevel := &VerificationLevel{
		Name:        "custom",
		Enforcement: baseLevel.Enforcement,
	}'''),
 dict(name='skip-allowed-for-expiry', file=T, expect='flagged(custom/skip-only-revocation)',
      find='} else if validationType != TypeRevocation && validationAction == ActionSkip {',
      replace='} else if validationType != TypeRevocation && validationType != TypeExpiry && validationAction == ActionSkip {'),
 dict(name='unknown-action-accepted', file=T, expect='flagged(custom/unsupported-action)',
      find='''		if validationAction == "" {
			return nil, fmt.Errorf("verification action %q in custom signature verification is not supported, supported values are %q", value, ValidationActions)
		}''', replace='''		if validationAction == "" {
			validationAction = value
		}'''),
 dict(name='revocation-sent-under-skip', file=V, expect='flagged(routing/request-omits-skipped-revocation)',
      find='if outcome.VerificationLevel.Enforcement[trustpolicy.TypeRevocation] == trustpolicy.ActionSkip && pc == pluginframework.CapabilityRevocationCheckVerifier {',
      replace='if outcome.VerificationLevel.Enforcement[trustpolicy.TypeRevocation] == trustpolicy.ActionSkip && pc == pluginframework.CapabilityTrustedIdentityVerifier {'),
 dict(name='native-identity-unguarded', file=V, expect='flagged(routing/identity)',
      find='if !slices.Contains(pluginCapabilities, pluginframework.CapabilityTrustedIdentityVerifier) {',
      replace='if !slices.Contains(pluginCapabilities, pluginframework.CapabilityRevocationCheckVerifier) {'),
 dict(name='native-identity-skipped-when-any-plugin', file=V, expect='flagged(routing/identity)',
      find='if !slices.Contains(pluginCapabilities, pluginframework.CapabilityTrustedIdentityVerifier) {',
      replace='if !slices.Contains(pluginCapabilities, pluginframework.CapabilityTrustedIdentityVerifier) && installedPlugin == nil {'),
 dict(name='native-revocation-when-plugin-owns', file=V, expect='flagged(routing/revocation)',
      find='''	if outcome.VerificationLevel.Enforcement[trustpolicy.TypeRevocation] != trustpolicy.ActionSkip &&
		!slices.Contains(pluginCapabilities, pluginframework.CapabilityRevocationCheckVerifier) {''',
      replace='''	if outcome.VerificationLevel.Enforcement[trustpolicy.TypeRevocation] != trustpolicy.ActionSkip {'''),
 dict(name='revocation-skipped-under-log', file=V, expect='flagged(routing/revocation)',
      find='''	if outcome.VerificationLevel.Enforcement[trustpolicy.TypeRevocation] != trustpolicy.ActionSkip &&
		!slices.Contains(pluginCapabilities, pluginframework.CapabilityRevocationCheckVerifier) {''',
      replace='''	if outcome.VerificationLevel.Enforcement[trustpolicy.TypeRevocation] == trustpolicy.ActionEnforce &&
		!slices.Contains(pluginCapabilities, pluginframework.CapabilityRevocationCheckVerifier) {'''),
 dict(name='version-args-swapped', file=V, expect='flagged(plugin/min-version)',
      find='if !isRequiredVerificationPluginVer(pluginVersion, verificationPluginMinVersion) {',
      replace='if !isRequiredVerificationPluginVer(verificationPluginMinVersion, pluginVersion) {'),
 dict(name='version-compare-weakened', file=V, expect='flagged(plugin/min-version)',
      find='return semver.Compare("v"+pluginVer, "v"+minPluginVer) != -1', replace='return semver.Compare("v"+pluginVer, "v"+minPluginVer) != 2'),
 dict(name='plugin-get-error-ignored', file=V, expect='flagged(plugin/get-error)',
      find='\t\tinstalledPlugin, err = v.pluginManager.Get(ctx, verificationPluginName)\n\t\tif err != nil {',
      replace='\t\tinstalledPlugin, err = v.pluginManager.Get(ctx, verificationPluginName)\n\t\tif err != nil && installedPlugin == nil {'),
 dict(name='no-capability-accepted', file=V, expect='flagged(plugin/no-capability)',
      find='\t\tif len(pluginCapabilities) == 0 {\n', replace='\t\tif len(pluginCapabilities) == 0 && pluginConfig != nil {\n'),
 dict(name='missing-verdict-accepted', file=V, expect='flagged(plugin/missing-verdict)',
      find='''		if pluginResult == nil {
			// verification result is empty for this capability
			return notation.ErrorVerificationInconclusive{Msg: fmt.Sprintf("verification plugin %q failed to verify %q", verificationPluginName, capability)}
		}''', replace='''		if pluginResult == nil {
			continue
		}'''),
 dict(name='unprocessed-attr-accepted', file=V, expect='flagged(critical-attr-accounting/plugin-executed)',
      find='if !slices.ContainsAny(response.ProcessedAttributes, attr.Key) {', replace='if !slices.ContainsAny(response.ProcessedAttributes, attr.Key) && attr.Key == nil {'),
 dict(name='F8a-reintroduced', file=V, expect='flagged(critical-attr-accounting/no-plugin-named)',
      find='''	if installedPlugin == nil {
		// the signature does not name a verification plugin: extended critical
		// attributes cannot be processed by notation itself
		for _, attr := range outcome.EnvelopeContent.SignerInfo.SignedAttributes.ExtendedAttributes {
			if attr.Critical {
				return fmt.Errorf("extended critical attribute %v is not supported: it must be processed by a verification plugin", attr.Key)
			}
		}
	}
	return nil''', replace='''	return nil'''),
 dict(name='strict-revocation-log', file=T, expect='flagged(tables/order)',
      find='''			TypeExpiry:             ActionEnforce,
			TypeRevocation:         ActionEnforce,''', replace='''			TypeExpiry:             ActionEnforce,
			TypeRevocation:         ActionSkip,'''),
 dict(name='minversion-error-ignored', file=V, expect='flagged(plugin/min-version-attr)',
      find='''		if err != nil && err != errExtendedAttributeNotExist {
			return notation.ErrorVerificationInconclusive{Msg: fmt.Sprintf("error while getting plugin minimum version, error: %s", err)}
		}''', replace=''),
 dict(name='plugin-trusted-identity-failure-ignored', file=V, expect='flagged(plugin/verdict-trusted-identity)',
      find='\t\t\tif !pluginResult.Success {\n\t\t\t\t// find the Authenticity', replace='\t\t\tif !pluginResult.Success && pluginResult.Reason != "" {\n\t\t\t\t// find the Authenticity'),
 # benign
 dict(name='benign-predicate-if-form', file=H, expect='silent',
      find='return result.Action == trustpolicy.ActionEnforce && result.Error != nil',
      replace='if result.Error == nil {\n\t\treturn false\n\t}\n\treturn result.Action == trustpolicy.ActionEnforce'),
 dict(name='benign-direct-gate', file=V, expect='silent',
      find='\tif isCriticalFailure(expiryResult) {\n\t\treturn expiryResult.Error\n\t}\n',
      replace='\tif expiryResult.Error != nil && expiryResult.Action == trustpolicy.ActionEnforce {\n\t\treturn expiryResult.Error\n\t}\n\tif isCriticalFailure(expiryResult) {\n\t\treturn expiryResult.Error\n\t}\n'),
 dict(name='benign-log-line', file=V, expect='silent',
      find='\tlogger.Debug("Validating expiry")', replace='\tlogger.Debugf("Validating expiry of %v", policyName)'),
 dict(name='benign-rename-predicate', expect='silent', edits=[
      (H, 'func isCriticalFailure(', 'func failsVerification('),
      ], file=V, find='isCriticalFailure(', replace='failsVerification(', all=True),
 dict(name='F15-reintroduced', file=V, expect='flagged(critical-attr-accounting/non-string-key)',
      find='\t\tif _, ok := attr.Key.(string); !ok && attr.Critical {\n\t\t\treturn fmt.Errorf("extended critical attribute %v is not supported: only attributes with a string key can be processed by the verification plugin %q", attr.Key, verificationPluginName)\n\t\t}\n', replace='\t\t_ = attr\n'),
 dict(name='non-string-check-ignores-critical-flag-inverted', file=V, expect='flagged(critical-attr-accounting/non-string-key)',
      find='\t\tif _, ok := attr.Key.(string); !ok && attr.Critical {', replace='\t\tif _, ok := attr.Key.(string); !ok && !attr.Critical {'),
 dict(name='header-filter-by-prefix', file=H, expect='flagged(critical-attr-accounting/enumerator-exact)',
      edits=[(H, '\t"github.com/notaryproject/notation-go/internal/slices"\n', '')],
      find='\t\tif ok && !slices.Contains(VerificationPluginHeaders, attrStrKey) {', replace='\t\tif ok && !strings.HasPrefix(attrStrKey, HeaderVerificationPlugin) {'),
 dict(name='header-filter-case-insensitive', file=H, expect='flagged(critical-attr-accounting/enumerator-exact)',
      find='\t\tif ok && !slices.Contains(VerificationPluginHeaders, attrStrKey) {', replace='\t\tif ok && !strings.EqualFold(attrStrKey, HeaderVerificationPlugin) && !slices.Contains(VerificationPluginHeaders, attrStrKey) {'),
 dict(name='header-list-extended', file=H, expect='flagged(critical-attr-accounting/enumerator-exact)',
      find='\tHeaderVerificationPluginMinVersion,\n}', replace='\tHeaderVerificationPluginMinVersion,\n\t"io.cncf.notary.verificationPluginConfig",\n}'),
 dict(name='benign-header-filter-by-equality', file=H, expect='silent',
      edits=[(H, '\t"github.com/notaryproject/notation-go/internal/slices"\n', '')],
      find='\t\tif ok && !slices.Contains(VerificationPluginHeaders, attrStrKey) {', replace='\t\tif ok && attrStrKey != HeaderVerificationPlugin && attrStrKey != HeaderVerificationPluginMinVersion {'),
]

# the standard library's slices.Contains instead of the module's ContainsAny, and a selector predicate on ValidationResult
STD = [(V, '\t"github.com/notaryproject/notation-go/internal/slices"\n', '\t"github.com/notaryproject/notation-go/internal/slices"\n\tstdslices "slices"\n')]
VARIANTS += [
 dict(name='benign-std-contains-for-processed-attributes', file=V, expect='silent',
      find='\t\tif !slices.ContainsAny(response.ProcessedAttributes, attr.Key) {', replace='\t\tif !stdslices.Contains(response.ProcessedAttributes, attr.Key) {', edits=STD),
 dict(name='std-contains-inverted', file=V, expect='flagged(critical-attr-accounting/plugin-executed)',
      find='\t\tif !slices.ContainsAny(response.ProcessedAttributes, attr.Key) {', replace='\t\tif stdslices.Contains(response.ProcessedAttributes, attr.Key) {', edits=STD),
 dict(name='benign-selector-predicate-on-result', file=V, expect='silent',
      find='func verifyX509TrustedIdentities(', replace='func isAuthenticityResult(r *notation.ValidationResult) bool {\n\treturn r.Type == trustpolicy.TypeAuthenticity\n}\n\nvar _ = isAuthenticityResult\n\nfunc verifyX509TrustedIdentities('),
]
