V = 'verifier/verifier.go'
H = 'verifier/helpers.go'
T = 'verifier/trustpolicy/trustpolicy.go'
VARIANTS = [
 dict(name='predicate-or', file=H, expect='flagged(predicate)',
      find='return result.Action == trustpolicy.ActionEnforce && result.Error != nil',
      replace='return result.Action == trustpolicy.ActionEnforce || result.Error != nil'),
 dict(name='predicate-log-rejects', file=H, expect='flagged(predicate)',
      find='return result.Action == trustpolicy.ActionEnforce && result.Error != nil',
      replace='return result.Action != trustpolicy.ActionSkip && result.Error != nil'),
 dict(name='expiry-gate-dropped', file=V, expect='flagged(gated/)',
      find='\tif isCriticalFailure(expiryResult) {\n\t\treturn expiryResult.Error\n\t}\n', replace=''),
 dict(name='identity-second-gate-dropped', file=V, expect='flagged(gated/)',
      find='''			logVerificationResult(logger, authenticityResult)
		}
		if isCriticalFailure(authenticityResult) {
			return authenticityResult.Error
		}
	}''', replace='''			logVerificationResult(logger, authenticityResult)
		}
	}'''),
 dict(name='gate-moved-before-store', file=V, expect='flagged(gated/)',
      find='''		err = verifyX509TrustedIdentities(policyName, trustedIdentities, outcome.EnvelopeContent.SignerInfo.CertificateChain)
		if err != nil {
			authenticityResult.Error = err
			logVerificationResult(logger, authenticityResult)
		}
		if isCriticalFailure(authenticityResult) {
			return authenticityResult.Error
		}''', replace='''		err = verifyX509TrustedIdentities(policyName, trustedIdentities, outcome.EnvelopeContent.SignerInfo.CertificateChain)
		if isCriticalFailure(authenticityResult) {
			return authenticityResult.Error
		}
		if err != nil {
			authenticityResult.Error = err
			logVerificationResult(logger, authenticityResult)
		}'''),
 dict(name='revocation-gate-dropped', file=V, expect='flagged(gated/)',
      find='\t\tif isCriticalFailure(revocationResult) {\n\t\t\treturn revocationResult.Error\n\t\t}\n\t}\n\n\t// perform extended', replace='\t}\n\n\t// perform extended'),
 dict(name='plugin-revocation-verdict-ungated', file=V, expect='flagged(gated/)',
      find='\t\t\tif isCriticalFailure(revocationResult) {\n\t\t\t\treturn revocationResult.Error\n\t\t\t}\n\t\t}\n\t}\n\n\treturn nil', replace='\t\t}\n\t}\n\n\treturn nil'),
 dict(name='action-from-other-type', file=V, expect='flagged(pairing/)',
      find='''			Type:   trustpolicy.TypeExpiry,
			Action: outcome.VerificationLevel.Enforcement[trustpolicy.TypeExpiry],
		}
	}
''', replace='''			Type:   trustpolicy.TypeExpiry,
			Action: outcome.VerificationLevel.Enforcement[trustpolicy.TypeAuthenticTimestamp],
		}
	}
'''),
 dict(name='action-constant', file=V, expect='flagged(pairing/)',
      find='''	result := &notation.ValidationResult{
		Type:   trustpolicy.TypeRevocation,
		Action: outcome.VerificationLevel.Enforcement[trustpolicy.TypeRevocation],
	}''', replace='''	result := &notation.ValidationResult{
		Type:   trustpolicy.TypeRevocation,
		Action: trustpolicy.ActionLog,
	}'''),
 dict(name='override-into-shared-level', file=T, expect='flagged(custom/fresh-map)',
      find='''	customVerificationLevel := &VerificationLevel{
		Name:        "custom",
		Enforcement: make(map[ValidationType]ValidationAction),
	}''', replace='''	customVerificationLevel := &VerificationLevel{
		Name:        "custom",
		Enforcement: baseLevel.Enforcement,
	}'''),
 dict(name='skip-allowed-for-expiry', file=T, expect='flagged(custom/skip-only-revocation)',
      find='} else if validationType != TypeRevocation && validationAction == ActionSkip {',
      replace='} else if validationType != TypeRevocation && validationType != TypeExpiry && validationAction == ActionSkip {'),
 dict(name='unknown-action-accepted', file=T, expect='flagged(custom/unsupported-action)',
      find='''		if validationAction == "" {
			return nil, fmt.Errorf("verification action %q in custom signature verification is not supported, supported values are %q", value, ValidationActions)
		}''', replace='''		if validationAction == "" {
			validationAction = value
		}'''),
 dict(name='revocation-sent-under-skip', file=V, expect='flagged(routing/request-omits-skipped-revocation)',
      find='if outcome.VerificationLevel.Enforcement[trustpolicy.TypeRevocation] == trustpolicy.ActionSkip && pc == pluginframework.CapabilityRevocationCheckVerifier {',
      replace='if outcome.VerificationLevel.Enforcement[trustpolicy.TypeRevocation] == trustpolicy.ActionSkip && pc == pluginframework.CapabilityTrustedIdentityVerifier {'),
 dict(name='native-identity-unguarded', file=V, expect='flagged(routing/identity)',
      find='if !slices.Contains(pluginCapabilities, pluginframework.CapabilityTrustedIdentityVerifier) {',
      replace='if !slices.Contains(pluginCapabilities, pluginframework.CapabilityRevocationCheckVerifier) {'),
 dict(name='native-identity-skipped-when-any-plugin', file=V, expect='flagged(routing/identity)',
      find='if !slices.Contains(pluginCapabilities, pluginframework.CapabilityTrustedIdentityVerifier) {',
      replace='if !slices.Contains(pluginCapabilities, pluginframework.CapabilityTrustedIdentityVerifier) && installedPlugin == nil {'),
 dict(name='native-revocation-when-plugin-owns', file=V, expect='flagged(routing/revocation)',
      find='''	if outcome.VerificationLevel.Enforcement[trustpolicy.TypeRevocation] != trustpolicy.ActionSkip &&
		!slices.Contains(pluginCapabilities, pluginframework.CapabilityRevocationCheckVerifier) {''',
      replace='''	if outcome.VerificationLevel.Enforcement[trustpolicy.TypeRevocation] != trustpolicy.ActionSkip {'''),
 dict(name='revocation-skipped-under-log', file=V, expect='flagged(routing/revocation)',
      find='''	if outcome.VerificationLevel.Enforcement[trustpolicy.TypeRevocation] != trustpolicy.ActionSkip &&
		!slices.Contains(pluginCapabilities, pluginframework.CapabilityRevocationCheckVerifier) {''',
      replace='''	if outcome.VerificationLevel.Enforcement[trustpolicy.TypeRevocation] == trustpolicy.ActionEnforce &&
		!slices.Contains(pluginCapabilities, pluginframework.CapabilityRevocationCheckVerifier) {'''),
 dict(name='version-args-swapped', file=V, expect='flagged(plugin/min-version)',
      find='if !isRequiredVerificationPluginVer(pluginVersion, verificationPluginMinVersion) {',
      replace='if !isRequiredVerificationPluginVer(verificationPluginMinVersion, pluginVersion) {'),
 dict(name='version-compare-weakened', file=V, expect='flagged(plugin/min-version)',
      find='return semver.Compare("v"+pluginVer, "v"+minPluginVer) != -1', replace='return semver.Compare("v"+pluginVer, "v"+minPluginVer) != 2'),
 dict(name='plugin-get-error-ignored', file=V, expect='flagged(plugin/get-error)',
      find='\t\tinstalledPlugin, err = v.pluginManager.Get(ctx, verificationPluginName)\n\t\tif err != nil {',
      replace='\t\tinstalledPlugin, err = v.pluginManager.Get(ctx, verificationPluginName)\n\t\tif err != nil && installedPlugin == nil {'),
 dict(name='no-capability-accepted', file=V, expect='flagged(plugin/no-capability)',
      find='\t\tif len(pluginCapabilities) == 0 {\n', replace='\t\tif len(pluginCapabilities) == 0 && pluginConfig != nil {\n'),
 dict(name='missing-verdict-accepted', file=V, expect='flagged(plugin/missing-verdict)',
      find='''		if pluginResult == nil {
			// verification result is empty for this capability
			return notation.ErrorVerificationInconclusive{Msg: fmt.Sprintf("verification plugin %q failed to verify %q", verificationPluginName, capability)}
		}''', replace='''		if pluginResult == nil {
			continue
		}'''),
 dict(name='unprocessed-attr-accepted', file=V, expect='flagged(critical-attr-accounting/plugin-executed)',
      find='if !slices.ContainsAny(response.ProcessedAttributes, attr.Key) {', replace='if !slices.ContainsAny(response.ProcessedAttributes, attr.Key) && attr.Key == nil {'),
 dict(name='F8a-reintroduced', file=V, expect='flagged(critical-attr-accounting/no-plugin-named)',
      find='''	if installedPlugin == nil {
		// the signature does not name a verification plugin: extended critical
		// attributes cannot be processed by notation itself
		for _, attr := range outcome.EnvelopeContent.SignerInfo.SignedAttributes.ExtendedAttributes {
			if attr.Critical {
				return fmt.Errorf("extended critical attribute %v is not supported: it must be processed by a verification plugin", attr.Key)
			}
		}
	}
	return nil''', replace='''	return nil'''),
 dict(name='strict-revocation-log', file=T, expect='flagged(tables/order)',
      find='''			TypeExpiry:             ActionEnforce,
			TypeRevocation:         ActionEnforce,''', replace='''			TypeExpiry:             ActionEnforce,
			TypeRevocation:         ActionSkip,'''),
 dict(name='minversion-error-ignored', file=V, expect='flagged(plugin/min-version-attr)',
      find='''		if err != nil && err != errExtendedAttributeNotExist {
			return notation.ErrorVerificationInconclusive{Msg: fmt.Sprintf("error while getting plugin minimum version, error: %s", err)}
		}''', replace=''),
 dict(name='plugin-trusted-identity-failure-ignored', file=V, expect='flagged(plugin/verdict-trusted-identity)',
      find='\t\t\tif !pluginResult.Success {\n\t\t\t\t// find the Authenticity', replace='\t\t\tif !pluginResult.Success && pluginResult.Reason != "" {\n\t\t\t\t// find the Authenticity'),
 # benign
 dict(name='benign-predicate-if-form', file=H, expect='silent',
      find='return result.Action == trustpolicy.ActionEnforce && result.Error != nil',
      replace='if result.Error == nil {\n\t\treturn false\n\t}\n\treturn result.Action == trustpolicy.ActionEnforce'),
 dict(name='benign-direct-gate', file=V, expect='silent',
      find='\tif isCriticalFailure(expiryResult) {\n\t\treturn expiryResult.Error\n\t}\n',
      replace='\tif expiryResult.Error != nil && expiryResult.Action == trustpolicy.ActionEnforce {\n\t\treturn expiryResult.Error\n\t}\n\tif isCriticalFailure(expiryResult) {\n\t\treturn expiryResult.Error\n\t}\n'),
 dict(name='benign-log-line', file=V, expect='silent',
      find='\tlogger.Debug("Validating expiry")', replace='\tlogger.Debugf("Validating expiry of %v", policyName)'),
 dict(name='benign-rename-predicate', expect='silent', edits=[
      (H, 'func isCriticalFailure(', 'func failsVerification('),
      ], file=V, find='isCriticalFailure(', replace='failsVerification(', all=True),
 dict(name='F15-reintroduced', file=V, expect='flagged(critical-attr-accounting/non-string-key)',
      find='\t\tif _, ok := attr.Key.(string); !ok && attr.Critical {\n\t\t\treturn fmt.Errorf("extended critical attribute %v is not supported: only attributes with a string key can be processed by the verification plugin %q", attr.Key, verificationPluginName)\n\t\t}\n', replace='\t\t_ = attr\n'),
 dict(name='non-string-check-ignores-critical-flag-inverted', file=V, expect='flagged(critical-attr-accounting/non-string-key)',
      find='\t\tif _, ok := attr.Key.(string); !ok && attr.Critical {', replace='\t\tif _, ok := attr.Key.(string); !ok && !attr.Critical {'),
 dict(name='header-filter-by-prefix', file=H, expect='flagged(critical-attr-accounting/enumerator-exact)',
      edits=[(H, '\t"github.com/notaryproject/notation-go/internal/slices"\n', '')],
      find='\t\tif ok && !slices.Contains(VerificationPluginHeaders, attrStrKey) {', replace='\t\tif ok && !strings.HasPrefix(attrStrKey, HeaderVerificationPlugin) {'),
 dict(name='header-filter-case-insensitive', file=H, expect='flagged(critical-attr-accounting/enumerator-exact)',
      find='\t\tif ok && !slices.Contains(VerificationPluginHeaders, attrStrKey) {', replace='\t\tif ok && !strings.EqualFold(attrStrKey, HeaderVerificationPlugin) && !slices.Contains(VerificationPluginHeaders, attrStrKey) {'),
 dict(name='header-list-extended', file=H, expect='flagged(critical-attr-accounting/enumerator-exact)',
      find='\tHeaderVerificationPluginMinVersion,\n}', replace='\tHeaderVerificationPluginMinVersion,\n\t"io.cncf.notary.verificationPluginConfig",\n}'),
 dict(name='benign-header-filter-by-equality', file=H, expect='silent',
      edits=[(H, '\t"github.com/notaryproject/notation-go/internal/slices"\n', '')],
      find='\t\tif ok && !slices.Contains(VerificationPluginHeaders, attrStrKey) {', replace='\t\tif ok && attrStrKey != HeaderVerificationPlugin && attrStrKey != HeaderVerificationPluginMinVersion {'),
]

# the standard library's slices.Contains instead of the module's ContainsAny, and a selector predicate on ValidationResult
STD = [(V, '\t"github.com/notaryproject/notation-go/internal/slices"\n', '\t"github.com/notaryproject/notation-go/internal/slices"\n\tstdslices "slices"\n')]
VARIANTS += [
 dict(name='benign-std-contains-for-processed-attributes', file=V, expect='silent',
      find='\t\tif !slices.ContainsAny(response.ProcessedAttributes, attr.Key) {', replace='\t\tif !stdslices.Contains(response.ProcessedAttributes, attr.Key) {', edits=STD),
 dict(name='std-contains-inverted', file=V, expect='flagged(critical-attr-accounting/plugin-executed)',
      find='\t\tif !slices.ContainsAny(response.ProcessedAttributes, attr.Key) {', replace='\t\tif stdslices.Contains(response.ProcessedAttributes, attr.Key) {', edits=STD),
 dict(name='benign-selector-predicate-on-result', file=V, expect='silent',
      find='func verifyX509TrustedIdentities(', replace='func isAuthenticityResult(r *notation.ValidationResult) bool {\n\treturn r.Type == trustpolicy.TypeAuthenticity\n}\n\nvar _ = isAuthenticityResult\n\nfunc verifyX509TrustedIdentities('),
]

# ---- the plugin lookup extracted into a helper (guard clause on the name); capability filters and the rejection of critical
# ---- attributes extracted into further helpers (shapes of the benign refactorings C12-1 and C02-1)
OLD_LOOKUP = r'''	// check if we need to verify using a plugin
	var pluginCapabilities []pluginframework.Capability
	verificationPluginName, err := getVerificationPlugin(&outcome.EnvelopeContent.SignerInfo)
	// use plugin, but getPluginName returns an error
	if err != nil && err != errExtendedAttributeNotExist {
		return err
	}

	var installedPlugin pluginframework.VerifyPlugin
	if verificationPluginName != "" {
		logger.Debugf("Finding verification plugin %q", verificationPluginName)
		verificationPluginMinVersion, err := getVerificationPluginMinVersion(&outcome.EnvelopeContent.SignerInfo)
		if err != nil && err != errExtendedAttributeNotExist {
			return notation.ErrorVerificationInconclusive{Msg: fmt.Sprintf("error while getting plugin minimum version, error: %s", err)}
		}

		if v.pluginManager == nil {
			return notation.ErrorVerificationInconclusive{Msg: "plugin unsupported due to nil verifier.pluginManager"}
		}
		installedPlugin, err = v.pluginManager.Get(ctx, verificationPluginName)
		if err != nil {
			return notation.ErrorVerificationInconclusive{Msg: fmt.Sprintf("error while locating the verification plugin %q, make sure the plugin is installed successfully before verifying the signature. error: %s", verificationPluginName, err)}
		}

		// filter the "verification" capabilities supported by the installed
		// plugin
		metadata, err := installedPlugin.GetMetadata(ctx, &pluginframework.GetMetadataRequest{PluginConfig: pluginConfig})
		if err != nil {
			return err
		}

		pluginVersion := metadata.Version

		//checking if the plugin version is in valid semver format
		if !notationsemver.IsValid(pluginVersion) {
			return notation.ErrorVerificationInconclusive{Msg: fmt.Sprintf("plugin %s has pluginVersion %s which is not in valid semver format", verificationPluginName, pluginVersion)}
		}

		if !isRequiredVerificationPluginVer(pluginVersion, verificationPluginMinVersion) {
			return notation.ErrorVerificationInconclusive{Msg: fmt.Sprintf("found plugin %s with version %s but signature verification needs plugin version greater than or equal to %s", verificationPluginName, pluginVersion, verificationPluginMinVersion)}
		}

		for _, capability := range metadata.Capabilities {
			if capability == pluginframework.CapabilityRevocationCheckVerifier || capability == pluginframework.CapabilityTrustedIdentityVerifier {
				pluginCapabilities = append(pluginCapabilities, capability)
			}
		}

		if len(pluginCapabilities) == 0 {
			return notation.ErrorVerificationInconclusive{Msg: fmt.Sprintf("digital signature requires plugin %q with signature verification capabilities (%q and/or %q) installed", verificationPluginName, pluginframework.CapabilityTrustedIdentityVerifier, pluginframework.CapabilityRevocationCheckVerifier)}
		}
	}
'''
LOOKUP_HELPER = r'''func (v *verifier) lookupVerificationPlugin(ctx context.Context, signerInfo *signature.SignerInfo, pluginConfig map[string]string) (string, pluginframework.VerifyPlugin, []pluginframework.Capability, error) {
	logger := log.GetLogger(ctx)

	verificationPluginName, err := getVerificationPlugin(signerInfo)
	// use plugin, but getPluginName returns an error
	if err != nil && err != errExtendedAttributeNotExist {
		return "", nil, nil, err
	}
	if verificationPluginName == "" {
		// the signature does not require a verification plugin
		return "", nil, nil, nil
	}

	logger.Debugf("Finding verification plugin %q", verificationPluginName)
	verificationPluginMinVersion, err := getVerificationPluginMinVersion(signerInfo)
	if err != nil && err != errExtendedAttributeNotExist {
		return "", nil, nil, notation.ErrorVerificationInconclusive{Msg: fmt.Sprintf("error while getting plugin minimum version, error: %s", err)}
	}

	if v.pluginManager == nil {
		return "", nil, nil, notation.ErrorVerificationInconclusive{Msg: "plugin unsupported due to nil verifier.pluginManager"}
	}
	installedPlugin, err := v.pluginManager.Get(ctx, verificationPluginName)
	if err != nil {
		return "", nil, nil, notation.ErrorVerificationInconclusive{Msg: fmt.Sprintf("error while locating the verification plugin %q, make sure the plugin is installed successfully before verifying the signature. error: %s", verificationPluginName, err)}
	}

	// filter the "verification" capabilities supported by the installed
	// plugin
	metadata, err := installedPlugin.GetMetadata(ctx, &pluginframework.GetMetadataRequest{PluginConfig: pluginConfig})
	if err != nil {
		return "", nil, nil, err
	}

	pluginVersion := metadata.Version

	//checking if the plugin version is in valid semver format
	if !notationsemver.IsValid(pluginVersion) {
		return "", nil, nil, notation.ErrorVerificationInconclusive{Msg: fmt.Sprintf("plugin %s has pluginVersion %s which is not in valid semver format", verificationPluginName, pluginVersion)}
	}

	if !isRequiredVerificationPluginVer(pluginVersion, verificationPluginMinVersion) {
		return "", nil, nil, notation.ErrorVerificationInconclusive{Msg: fmt.Sprintf("found plugin %s with version %s but signature verification needs plugin version greater than or equal to %s", verificationPluginName, pluginVersion, verificationPluginMinVersion)}
	}

	var pluginCapabilities []pluginframework.Capability
	for _, capability := range metadata.Capabilities {
		if capability == pluginframework.CapabilityRevocationCheckVerifier || capability == pluginframework.CapabilityTrustedIdentityVerifier {
			pluginCapabilities = append(pluginCapabilities, capability)
		}
	}

	if len(pluginCapabilities) == 0 {
		return "", nil, nil, notation.ErrorVerificationInconclusive{Msg: fmt.Sprintf("digital signature requires plugin %q with signature verification capabilities (%q and/or %q) installed", verificationPluginName, pluginframework.CapabilityTrustedIdentityVerifier, pluginframework.CapabilityRevocationCheckVerifier)}
	}
	return verificationPluginName, installedPlugin, pluginCapabilities, nil
}

'''
CAPS_HELPER = r'''func verificationCapabilities(capabilities []pluginframework.Capability) []pluginframework.Capability {
	var pluginCapabilities []pluginframework.Capability
	for _, capability := range capabilities {
		if capability == pluginframework.CapabilityRevocationCheckVerifier || capability == pluginframework.CapabilityTrustedIdentityVerifier {
			pluginCapabilities = append(pluginCapabilities, capability)
		}
	}
	return pluginCapabilities
}

'''
SELECT_HELPER = r'''func selectCapabilitiesToVerify(logger log.Logger, pluginCapabilities []pluginframework.Capability, verificationLevel *trustpolicy.VerificationLevel) []pluginframework.Capability {
	var capabilitiesToVerify []pluginframework.Capability
	for _, pc := range pluginCapabilities {
		// skip the revocation capability if the trust policy is configured
		// to skip it
		if verificationLevel.Enforcement[trustpolicy.TypeRevocation] == trustpolicy.ActionSkip && pc == pluginframework.CapabilityRevocationCheckVerifier {
			logger.Debugf("Skipping the %v validation", pc)
			continue
		}
		capabilitiesToVerify = append(capabilitiesToVerify, pc)
	}
	return capabilitiesToVerify
}

'''
REJECT_HELPER = r'''func rejectCriticalExtendedAttributes(signerInfo *signature.SignerInfo) error {
	for _, attr := range signerInfo.SignedAttributes.ExtendedAttributes {
		if attr.Critical {
			return fmt.Errorf("extended critical attribute %v is not supported: it must be processed by a verification plugin", attr.Key)
		}
	}
	return nil
}

'''
OLD_REQUEST_LOOP = r'''		var capabilitiesToVerify []pluginframework.Capability
		for _, pc := range pluginCapabilities {
			// skip the revocation capability if the trust policy is configured
			// to skip it
			if outcome.VerificationLevel.Enforcement[trustpolicy.TypeRevocation] == trustpolicy.ActionSkip && pc == pluginframework.CapabilityRevocationCheckVerifier {
				logger.Debugf("Skipping the %v validation", pc)
				continue
			}
			capabilitiesToVerify = append(capabilitiesToVerify, pc)
		}

'''
OLD_CRITICAL_LOOP = r'''		for _, attr := range outcome.EnvelopeContent.SignerInfo.SignedAttributes.ExtendedAttributes {
			if attr.Critical {
				return fmt.Errorf("extended critical attribute %v is not supported: it must be processed by a verification plugin", attr.Key)
			}
		}
'''
ANCHOR = 'func (v *verifier) verifyRevocation('
NEW_LOOKUP_CALL = '''	// check if we need to verify using a plugin
	verificationPluginName, installedPlugin, pluginCapabilities, err := v.lookupVerificationPlugin(ctx, &outcome.EnvelopeContent.SignerInfo, pluginConfig)
	if err != nil {
		return err
	}
'''
FILTER_LOOP = '''	var pluginCapabilities []pluginframework.Capability
	for _, capability := range metadata.Capabilities {
		if capability == pluginframework.CapabilityRevocationCheckVerifier || capability == pluginframework.CapabilityTrustedIdentityVerifier {
			pluginCapabilities = append(pluginCapabilities, capability)
		}
	}
'''
assert FILTER_LOOP in LOOKUP_HELPER

def lookup_shape(helper=LOOKUP_HELPER, call=NEW_LOOKUP_CALL, more=()):
    """the base tree with the lookup block of processSignature moved into a helper; `more`: further edits applied afterwards"""
    return [(V, OLD_LOOKUP, call), (V, ANCHOR, helper + ANCHOR)] + list(more)

def sub(text, find, replace):
    assert text.count(find) == 1, find
    return text.replace(find, replace)

# shape of C02-1: the object is kept in a variable of type VerifyPlugin, the capability filter, the request filter and the
# rejection of critical attributes are helpers of their own
LOOKUP_HELPER_B = sub(sub(LOOKUP_HELPER,
    '\tinstalledPlugin, err := v.pluginManager.Get(ctx, verificationPluginName)\n',
    '\tvar installedPlugin pluginframework.VerifyPlugin\n\tinstalledPlugin, err = v.pluginManager.Get(ctx, verificationPluginName)\n'),
    FILTER_LOOP, '\tpluginCapabilities := verificationCapabilities(metadata.Capabilities)\n')
NEW_REQUEST = '\t\tcapabilitiesToVerify := selectCapabilitiesToVerify(logger, pluginCapabilities, outcome.VerificationLevel)\n'
NEW_CRITICAL = '\t\treturn rejectCriticalExtendedAttributes(&outcome.EnvelopeContent.SignerInfo)\n'

def helpers_shape(lookup=LOOKUP_HELPER_B, caps=CAPS_HELPER, select=SELECT_HELPER, reject=REJECT_HELPER, request=NEW_REQUEST, critical=NEW_CRITICAL, more=()):
    return [(V, OLD_LOOKUP, NEW_LOOKUP_CALL), (V, OLD_REQUEST_LOOP, request), (V, OLD_CRITICAL_LOOP, critical),
            (V, ANCHOR, lookup + caps + select + reject + ANCHOR)] + list(more)

VARIANTS += [
 # silent: the two shapes
 dict(name='benign-lookup-helper', expect='silent', edits=lookup_shape(),
      why='plugin lookup moved into a helper with a guard clause on the name; the object is kept as plugin.Plugin (refactoring C12-1)'),
 dict(name='benign-lookup-and-filter-helpers', expect='silent', edits=helpers_shape(),
      why='lookup, capability filter, request filter and critical-attribute rejection are helpers (refactoring C02-1)'),
 dict(name='benign-get-result-kept-as-plugin-interface', expect='silent', file=V,
      find='\t\tinstalledPlugin, err = v.pluginManager.Get(ctx, verificationPluginName)\n',
      replace='\t\tfound, err := v.pluginManager.Get(ctx, verificationPluginName)\n\t\tinstalledPlugin = found\n',
      edits=[(V, '\t\tmetadata, err := installedPlugin.GetMetadata(', '\t\tmetadata, err := found.GetMetadata(')],
      why='GetMetadata invoked through the plugin.Plugin interface: same method of the same object'),
 # the lookup helper with the property broken
 dict(name='lookup-helper-error-dropped', expect='flagged(plugin/lookup-error)',
      edits=lookup_shape(call=sub(NEW_LOOKUP_CALL, 'pluginCapabilities, err := v.lookup', 'pluginCapabilities, _ := v.lookup').replace('\tif err != nil {\n\t\treturn err\n\t}\n', ''))),
 dict(name='lookup-helper-get-error-ignored', expect='flagged(plugin/get-error)',
      edits=lookup_shape(helper=sub(LOOKUP_HELPER, 'Get(ctx, verificationPluginName)\n\tif err != nil {', 'Get(ctx, verificationPluginName)\n\tif err != nil && installedPlugin == nil {'))),
 dict(name='lookup-helper-metadata-error-ignored', expect='flagged(plugin/metadata-error)',
      edits=lookup_shape(helper=sub(LOOKUP_HELPER, '\tif err != nil {\n\t\treturn "", nil, nil, err\n\t}\n\n\tpluginVersion', '\tif err != nil && metadata == nil {\n\t\treturn "", nil, nil, err\n\t}\n\n\tpluginVersion'))),
 dict(name='lookup-helper-min-version-unchecked', expect='flagged(plugin/min-version)',
      edits=lookup_shape(helper=sub(LOOKUP_HELPER, '\tif !isRequiredVerificationPluginVer(pluginVersion, verificationPluginMinVersion) {', '\tif !isRequiredVerificationPluginVer(pluginVersion, verificationPluginMinVersion) && pluginConfig != nil {'))),
 dict(name='lookup-helper-manager-nil-unchecked', expect='flagged(plugin/manager-nil)',
      edits=lookup_shape(helper=sub(LOOKUP_HELPER, '\tif v.pluginManager == nil {', '\tif v.pluginManager == nil && pluginConfig != nil {'))),
 dict(name='lookup-helper-no-capability-accepted', expect='flagged(plugin/no-capability)',
      edits=lookup_shape(helper=sub(LOOKUP_HELPER, '\tif len(pluginCapabilities) == 0 {', '\tif len(pluginCapabilities) == 0 && pluginConfig != nil {'))),
 dict(name='lookup-helper-hands-back-nil-plugin', expect='flagged(plugin/lookup-results)',
      edits=lookup_shape(helper=sub(LOOKUP_HELPER, '\treturn verificationPluginName, installedPlugin, pluginCapabilities, nil\n', '\treturn verificationPluginName, nil, pluginCapabilities, nil\n')),
      why='a plugin is named and found but the processing function is told there is none: it is never executed'),
 dict(name='lookup-helper-capabilities-without-plugin', expect='flagged(plugin/lookup-results)',
      edits=lookup_shape(helper=sub(LOOKUP_HELPER, '\t\treturn "", nil, nil, nil\n', '\t\treturn "", nil, []pluginframework.Capability{pluginframework.CapabilityTrustedIdentityVerifier}, nil\n')),
      why='no plugin named, yet the native identity check is routed away'),
 dict(name='lookup-helper-early-success-exit', expect='flagged(plugin/lookup-results)',
      edits=lookup_shape(helper=sub(LOOKUP_HELPER, '\tif v.pluginManager == nil {\n', '\tif pluginConfig == nil {\n\t\treturn "", nil, nil, nil\n\t}\n\tif v.pluginManager == nil {\n')),
      why='with a plugin named and no plugin config the helper answers "no plugin": the named plugin is silently ignored'),
 dict(name='lookup-helper-unfiltered-capabilities', expect='flagged(routing/declared-capabilities)',
      edits=lookup_shape(helper=sub(LOOKUP_HELPER, '\treturn verificationPluginName, installedPlugin, pluginCapabilities, nil\n', '\treturn verificationPluginName, installedPlugin, metadata.Capabilities, nil\n'))),
 dict(name='lookup-helper-name-attr-error-ignored', expect='flagged(plugin/name-attr)',
      edits=lookup_shape(helper=sub(LOOKUP_HELPER, '\tif err != nil && err != errExtendedAttributeNotExist {\n\t\treturn "", nil, nil, err\n\t}\n', '\tif err != nil && err != errExtendedAttributeNotExist && pluginConfig != nil {\n\t\treturn "", nil, nil, err\n\t}\n'))),
 # the further helpers with the property broken
 dict(name='filter-helper-keeps-every-capability', expect='flagged(routing/declared-capabilities)',
      edits=helpers_shape(caps=sub(CAPS_HELPER, 'if capability == pluginframework.CapabilityRevocationCheckVerifier || capability == pluginframework.CapabilityTrustedIdentityVerifier {', 'if capability != "" {'))),
 dict(name='filter-helper-fed-other-list', expect='flagged(routing/declared-capabilities)',
      edits=helpers_shape(lookup=sub(LOOKUP_HELPER_B, 'verificationCapabilities(metadata.Capabilities)', 'verificationCapabilities([]pluginframework.Capability{pluginframework.CapabilityTrustedIdentityVerifier, pluginframework.CapabilityRevocationCheckVerifier})')),
      why='the routing list no longer says what the installed plugin declares'),
 dict(name='request-helper-sends-revocation-under-skip', expect='flagged(routing/request-omits-skipped-revocation)',
      edits=helpers_shape(select=sub(SELECT_HELPER, '&& pc == pluginframework.CapabilityRevocationCheckVerifier {', '&& pc == pluginframework.CapabilityTrustedIdentityVerifier {'))),
 dict(name='request-helper-reads-other-level', expect='flagged(routing/request-omits-skipped-revocation)',
      edits=helpers_shape(request=sub(NEW_REQUEST, 'outcome.VerificationLevel)', 'trustpolicy.LevelStrict)')),
      why='the helper is handed a level other than the one in force: revocation is requested although the policy skips it'),
 dict(name='request-helper-fed-other-list', expect='flagged(routing/request-from-declared)',
      edits=helpers_shape(request=sub(NEW_REQUEST, 'logger, pluginCapabilities,', 'logger, []pluginframework.Capability{pluginframework.CapabilityTrustedIdentityVerifier, pluginframework.CapabilityRevocationCheckVerifier},'))),
 dict(name='reject-helper-result-dropped', expect='flagged(critical-attr-accounting/no-plugin-named)',
      edits=helpers_shape(critical='\t\t_ = rejectCriticalExtendedAttributes(&outcome.EnvelopeContent.SignerInfo)\n')),
 dict(name='reject-helper-tolerates-single-attribute', expect='flagged(critical-attr-accounting/no-plugin-named)',
      edits=helpers_shape(reject=sub(REJECT_HELPER, '\t\tif attr.Critical {', '\t\tif attr.Critical && len(signerInfo.SignedAttributes.ExtendedAttributes) > 1 {'))),
 dict(name='reject-helper-stops-after-first', expect='flagged(critical-attr-accounting/no-plugin-named)',
      edits=helpers_shape(reject=sub(REJECT_HELPER, '\t\tif attr.Critical {', '\t\tif !attr.Critical {\n\t\t\treturn nil\n\t\t}\n\t\tif attr.Critical {')),
      why='a non-critical first attribute ends the scan: a critical one behind it is accepted'),
]

# ---- further shapes of the same kind
OLD_EXEC = '''			response, err := executePlugin(ctx, installedPlugin, capabilitiesToVerify, outcome.EnvelopeContent, trustedIdentities, pluginConfig)
			if err != nil {
				return fmt.Errorf("failed to verify with plugin %s: %w", verificationPluginName, err)
			}

			return processPluginResponse(capabilitiesToVerify, response, outcome)
'''
NEW_EXEC = '\t\t\treturn runVerificationPlugin(ctx, installedPlugin, verificationPluginName, capabilitiesToVerify, outcome, trustedIdentities, pluginConfig)\n'
RUN_HELPER = '''func runVerificationPlugin(ctx context.Context, installedPlugin pluginframework.VerifyPlugin, verificationPluginName string, capabilitiesToVerify []pluginframework.Capability, outcome *notation.VerificationOutcome, trustedIdentities []string, pluginConfig map[string]string) error {
	response, err := executePlugin(ctx, installedPlugin, capabilitiesToVerify, outcome.EnvelopeContent, trustedIdentities, pluginConfig)
	if err != nil {
		return fmt.Errorf("failed to verify with plugin %s: %w", verificationPluginName, err)
	}
	return processPluginResponse(capabilitiesToVerify, response, outcome)
}

'''
def run_shape(helper=RUN_HELPER, call=NEW_EXEC):
    return [(V, OLD_EXEC, call), (V, ANCHOR, helper + ANCHOR)]

GUARD = '''	if verificationPluginName == "" {
		// the signature does not require a verification plugin
		return "", nil, nil, nil
	}
'''
LOOKUP_HELPER_NESTED = sub(sub(LOOKUP_HELPER, GUARD, '\tif verificationPluginName != "" {\n'),
    '\treturn verificationPluginName, installedPlugin, pluginCapabilities, nil\n}\n', '\treturn verificationPluginName, installedPlugin, pluginCapabilities, nil\n\t}\n\treturn "", nil, nil, nil\n}\n')
LOOKUP_FUNC = sub(sub(sub(LOOKUP_HELPER, 'func (v *verifier) lookupVerificationPlugin(ctx context.Context, ', 'func lookupVerificationPlugin(ctx context.Context, manager plugin.Manager, '),
    '\tif v.pluginManager == nil {', '\tif manager == nil {'), 'v.pluginManager.Get(', 'manager.Get(')

VARIANTS += [
 dict(name='benign-lookup-helper-nested-form', expect='silent', edits=lookup_shape(helper=LOOKUP_HELPER_NESTED),
      why='the helper keeps the `if name != "" {…}` nesting instead of the guard clause'),
 dict(name='benign-lookup-plain-function', expect='silent',
      edits=lookup_shape(helper=LOOKUP_FUNC, call=sub(NEW_LOOKUP_CALL, 'v.lookupVerificationPlugin(ctx, ', 'lookupVerificationPlugin(ctx, v.pluginManager, ')),
      why='the helper is a plain function that is handed the plugin manager'),
 dict(name='benign-run-plugin-helper', expect='silent', edits=run_shape(),
      why='plugin execution and response processing wrapped in one helper the processing function returns'),
 dict(name='benign-lookup-and-run-helpers', expect='silent', edits=helpers_shape(more=run_shape())),
 dict(name='run-plugin-helper-execution-error-dropped', expect='flagged(plugin/verify-signature-error)',
      edits=run_shape(helper=sub(RUN_HELPER, '\tif err != nil {\n\t\treturn fmt.Errorf("failed to verify with plugin %s: %w", verificationPluginName, err)\n\t}\n', '\tif err != nil && response == nil {\n\t\treturn fmt.Errorf("failed to verify with plugin %s: %w", verificationPluginName, err)\n\t}\n'))),
 dict(name='run-plugin-helper-result-dropped', expect='flagged(plugin/execute-error)',
      edits=run_shape(call='\t\t\t_ = runVerificationPlugin(ctx, installedPlugin, verificationPluginName, capabilitiesToVerify, outcome, trustedIdentities, pluginConfig)\n')),
 dict(name='run-plugin-helper-missing-verdict-accepted', expect='flagged(plugin/missing-verdict)',
      edits=run_shape() + [(V, '''		if pluginResult == nil {
			// verification result is empty for this capability
			return notation.ErrorVerificationInconclusive{Msg: fmt.Sprintf("verification plugin %q failed to verify %q", verificationPluginName, capability)}
		}''', '''		if pluginResult == nil {
			continue
		}''')]),
 dict(name='reject-helper-fed-other-signer-info', expect='flagged(critical-attr-accounting/no-plugin-named)',
      edits=helpers_shape(critical='\t\treturn rejectCriticalExtendedAttributes(&signature.SignerInfo{})\n'),
      why='the helper scans an empty signer info instead of the one under verification'),
 dict(name='F8a-reintroduced-in-helper-shape', expect='flagged(critical-attr-accounting/no-plugin-named)',
      edits=helpers_shape(critical='\t\treturn nil\n')),
 dict(name='early-return-in-accounting-loop', expect='flagged(critical-attr-accounting/no-plugin-named)', file=V,
      find='''		for _, attr := range outcome.EnvelopeContent.SignerInfo.SignedAttributes.ExtendedAttributes {
			if attr.Critical {
				return fmt.Errorf("extended critical attribute %v is not supported: it must be processed by a verification plugin", attr.Key)''',
      replace='''		for _, attr := range outcome.EnvelopeContent.SignerInfo.SignedAttributes.ExtendedAttributes {
			if !attr.Critical {
				return nil
			}
			if attr.Critical {
				return fmt.Errorf("extended critical attribute %v is not supported: it must be processed by a verification plugin", attr.Key)''',
      why='a non-critical first attribute ends the scan: a critical one behind it is accepted (reference shape)'),
]

# the block moved verbatim ("extract method"): nesting kept, one success return at the end, results through variables
_body = OLD_LOOKUP.replace('\t// check if we need to verify using a plugin\n', '').replace('&outcome.EnvelopeContent.SignerInfo', 'signerInfo')
_body = _body.replace('return err\n', 'return "", nil, nil, err\n').replace('return notation.ErrorVerificationInconclusive', 'return "", nil, nil, notation.ErrorVerificationInconclusive')
LOOKUP_HELPER_SINGLE_EXIT = ('func (v *verifier) lookupVerificationPlugin(ctx context.Context, signerInfo *signature.SignerInfo, pluginConfig map[string]string) (string, pluginframework.VerifyPlugin, []pluginframework.Capability, error) {\n'
    '\tlogger := log.GetLogger(ctx)\n' + _body + '\treturn verificationPluginName, installedPlugin, pluginCapabilities, nil\n}\n\n')

VARIANTS += [
 dict(name='benign-lookup-helper-single-exit', expect='silent', edits=lookup_shape(helper=LOOKUP_HELPER_SINGLE_EXIT),
      why='the block moved verbatim into the helper: one success return behind the `if name != ""` nesting, the results merge in phis'),
 dict(name='lookup-helper-single-exit-plugin-kept-conditionally', expect='flagged(plugin/lookup-results)',
      edits=lookup_shape(helper=sub(LOOKUP_HELPER_SINGLE_EXIT, '\t\tif len(pluginCapabilities) == 0 {', '\t\tif pluginConfig == nil {\n\t\t\tinstalledPlugin = nil\n\t\t}\n\t\tif len(pluginCapabilities) == 0 {')),
      why='with a plugin named the helper may hand back nil: the plugin would not be executed'),
 dict(name='lookup-helper-single-exit-get-error-ignored', expect='flagged(plugin/get-error)',
      edits=lookup_shape(helper=sub(LOOKUP_HELPER_SINGLE_EXIT, 'Get(ctx, verificationPluginName)\n\t\tif err != nil {', 'Get(ctx, verificationPluginName)\n\t\tif err != nil && installedPlugin == nil {'))),
 dict(name='lookup-helper-single-exit-unfiltered', expect='flagged(routing/declared-capabilities)',
      edits=lookup_shape(helper=sub(LOOKUP_HELPER_SINGLE_EXIT, '\t\t\tif capability == pluginframework.CapabilityRevocationCheckVerifier || capability == pluginframework.CapabilityTrustedIdentityVerifier {', '\t\t\tif capability != "" {'))),
]

# ---- a native check written as a stage helper of the processing function
OLD_ID_STAGE = '''		logger.Debug("Validating trust identity")
		err = verifyX509TrustedIdentities(policyName, trustedIdentities, outcome.EnvelopeContent.SignerInfo.CertificateChain)
		if err != nil {
			authenticityResult.Error = err
			logVerificationResult(logger, authenticityResult)
		}
		if isCriticalFailure(authenticityResult) {
			return authenticityResult.Error
		}
'''
NEW_ID_STAGE = '''		if err := verifyTrustedIdentityNatively(logger, policyName, trustedIdentities, outcome, authenticityResult); err != nil {
			return err
		}
'''
ID_STAGE_HELPER = '''func verifyTrustedIdentityNatively(logger log.Logger, policyName string, trustedIdentities []string, outcome *notation.VerificationOutcome, authenticityResult *notation.ValidationResult) error {
	logger.Debug("Validating trust identity")
	err := verifyX509TrustedIdentities(policyName, trustedIdentities, outcome.EnvelopeContent.SignerInfo.CertificateChain)
	if err != nil {
		authenticityResult.Error = err
		logVerificationResult(logger, authenticityResult)
	}
	if isCriticalFailure(authenticityResult) {
		return authenticityResult.Error
	}
	return nil
}

'''
OLD_REV_STAGE = '''		logger.Debug("Validating revocation")
		revocationResult := v.verifyRevocation(ctx, outcome)
		outcome.VerificationResults = append(outcome.VerificationResults, revocationResult)
		logVerificationResult(logger, revocationResult)
		if isCriticalFailure(revocationResult) {
			return revocationResult.Error
		}
'''
NEW_REV_STAGE = '''		if err := v.verifyRevocationNatively(ctx, logger, outcome); err != nil {
			return err
		}
'''
REV_STAGE_HELPER = '''func (v *verifier) verifyRevocationNatively(ctx context.Context, logger log.Logger, outcome *notation.VerificationOutcome) error {
	logger.Debug("Validating revocation")
	revocationResult := v.verifyRevocation(ctx, outcome)
	outcome.VerificationResults = append(outcome.VerificationResults, revocationResult)
	logVerificationResult(logger, revocationResult)
	if isCriticalFailure(revocationResult) {
		return revocationResult.Error
	}
	return nil
}

'''
def id_stage(helper=ID_STAGE_HELPER, call=NEW_ID_STAGE):
    return [(V, OLD_ID_STAGE, call), (V, ANCHOR, helper + ANCHOR)]
def rev_stage(helper=REV_STAGE_HELPER, call=NEW_REV_STAGE):
    return [(V, OLD_REV_STAGE, call), (V, ANCHOR, helper + ANCHOR)]

VARIANTS += [
 dict(name='benign-identity-stage-helper', expect='silent', edits=id_stage()),
 dict(name='benign-revocation-stage-helper', expect='silent', edits=rev_stage()),
 dict(name='benign-all-helpers', expect='silent', edits=helpers_shape(more=run_shape() + id_stage() + rev_stage()),
      why='lookup, filters, native identity stage, native revocation stage, plugin run and critical-attribute rejection are all helpers'),
 dict(name='identity-stage-result-dropped', expect='flagged(routing/identity)',
      edits=id_stage(call='\t\t_ = verifyTrustedIdentityNatively(logger, policyName, trustedIdentities, outcome, authenticityResult)\n')),
 dict(name='identity-stage-routes-around-check', expect='flagged(routing/identity)',
      edits=id_stage(helper=sub(ID_STAGE_HELPER, '\tlogger.Debug("Validating trust identity")\n', '\tif policyName == "" {\n\t\treturn nil\n\t}\n\tlogger.Debug("Validating trust identity")\n'))),
 dict(name='identity-stage-error-not-recorded', expect='flagged(routing/identity-result)',
      edits=id_stage(helper=sub(ID_STAGE_HELPER, '\t\tauthenticityResult.Error = err\n', ''))),
 dict(name='identity-stage-ungated', expect='flagged(gated/)',
      edits=id_stage(helper=sub(ID_STAGE_HELPER, '\tif isCriticalFailure(authenticityResult) {\n\t\treturn authenticityResult.Error\n\t}\n', ''))),
 dict(name='identity-stage-unguarded', expect='flagged(routing/identity)',
      edits=id_stage() + [(V, 'if !slices.Contains(pluginCapabilities, pluginframework.CapabilityTrustedIdentityVerifier) {', 'if !slices.Contains(pluginCapabilities, pluginframework.CapabilityRevocationCheckVerifier) {')]),
 dict(name='revocation-stage-result-dropped', expect='flagged(routing/revocation)',
      edits=rev_stage(call='\t\t_ = v.verifyRevocationNatively(ctx, logger, outcome)\n')),
 dict(name='revocation-stage-routes-around-check', expect='flagged(routing/revocation)',
      edits=rev_stage(helper=sub(REV_STAGE_HELPER, '\tlogger.Debug("Validating revocation")\n', '\tif v.revocationClient == nil {\n\t\treturn nil\n\t}\n\tlogger.Debug("Validating revocation")\n'))),
 dict(name='revocation-stage-ungated', expect='flagged(gated/)',
      edits=rev_stage(helper=sub(REV_STAGE_HELPER, '\tif isCriticalFailure(revocationResult) {\n\t\treturn revocationResult.Error\n\t}\n', ''))),
 dict(name='revocation-stage-when-plugin-owns', expect='flagged(routing/revocation)',
      edits=rev_stage() + [(V, '''	if outcome.VerificationLevel.Enforcement[trustpolicy.TypeRevocation] != trustpolicy.ActionSkip &&
		!slices.Contains(pluginCapabilities, pluginframework.CapabilityRevocationCheckVerifier) {''', '''	if outcome.VerificationLevel.Enforcement[trustpolicy.TypeRevocation] != trustpolicy.ActionSkip {''')]),
]

# ==== second pass: classes of rewrite met in the held-out batch ============================================================
import re as _re

# ---- class "result object": the lookup helper hands back ONE struct value instead of several results
def struct_helper(helper=LOOKUP_HELPER, order=('name', 'installed', 'capabilities'), tname='signaturePlugin'):
    h = helper.replace('(string, pluginframework.VerifyPlugin, []pluginframework.Capability, error) {', '(%s, error) {' % tname)
    h = h.replace('return "", nil, nil, ', 'return %s{}, ' % tname)
    h = sub(h, 'return verificationPluginName, installedPlugin, pluginCapabilities, nil\n',
            'return %s{name: verificationPluginName, installed: installedPlugin, capabilities: pluginCapabilities}, nil\n' % tname)
    fields = dict(name='\tname         string\n', installed='\tinstalled    pluginframework.VerifyPlugin\n', capabilities='\tcapabilities []pluginframework.Capability\n')
    return 'type %s struct {\n%s}\n\n' % (tname, ''.join(fields[f] for f in order)) + h

STRUCT_CALL = '''	// check if we need to verify using a plugin
	sigPlugin, err := v.lookupVerificationPlugin(ctx, &outcome.EnvelopeContent.SignerInfo, pluginConfig)
	if err != nil {
		return err
	}
'''
def struct_uses(text):
    return (text.replace('pluginCapabilities', 'sigPlugin.capabilities').replace('installedPlugin', 'sigPlugin.installed')
                .replace('verificationPluginName', 'sigPlugin.name'))

# everything of processSignature behind the lookup block that names one of the three locals
_SRC_V = open('/repo/' + V).read()
_TAIL_A = _SRC_V.index('\t// verify x509 trust store based authenticity\n')
_TAIL_B = _SRC_V.index('func (v *verifier) verifyRevocation(')
OLD_TAIL = _SRC_V[_TAIL_A:_TAIL_B]
assert OLD_LOOKUP in _SRC_V and _SRC_V.index(OLD_LOOKUP) < _TAIL_A

def struct_shape(helper=None, call=STRUCT_CALL, tail=None, more=()):
    helper = helper if helper is not None else struct_helper()
    tail = tail if tail is not None else struct_uses(OLD_TAIL)
    return [(V, OLD_LOOKUP, call), (V, OLD_TAIL, tail + helper)] + list(more)

# the request list: the declared list as it is unless the level skips revocation (guard-clause tail of refactoring C02-1)
OLD_REQ_BLOCK = '''		var capabilitiesToVerify []pluginframework.Capability
		for _, pc := range pluginCapabilities {
			// skip the revocation capability if the trust policy is configured
			// to skip it
			if outcome.VerificationLevel.Enforcement[trustpolicy.TypeRevocation] == trustpolicy.ActionSkip && pc == pluginframework.CapabilityRevocationCheckVerifier {
				logger.Debugf("Skipping the %v validation", pc)
				continue
			}
			capabilitiesToVerify = append(capabilitiesToVerify, pc)
		}
'''
assert OLD_REQ_BLOCK in _SRC_V
REUSE_REQ_BLOCK = '''		capabilitiesToVerify := pluginCapabilities
		if outcome.VerificationLevel.Enforcement[trustpolicy.TypeRevocation] == trustpolicy.ActionSkip {
			capabilitiesToVerify = nil
			for _, pc := range pluginCapabilities {
				if pc == pluginframework.CapabilityRevocationCheckVerifier {
					logger.Debugf("Skipping the %v validation", pc)
					continue
				}
				capabilitiesToVerify = append(capabilitiesToVerify, pc)
			}
		}
'''
REUSE_SELECT_HELPER = '''func selectCapabilitiesToVerify(logger log.Logger, pluginCapabilities []pluginframework.Capability, verificationLevel *trustpolicy.VerificationLevel) []pluginframework.Capability {
	if verificationLevel.Enforcement[trustpolicy.TypeRevocation] != trustpolicy.ActionSkip {
		// nothing to leave out
		return pluginCapabilities
	}
	var capabilitiesToVerify []pluginframework.Capability
	for _, pc := range pluginCapabilities {
		if pc == pluginframework.CapabilityRevocationCheckVerifier {
			logger.Debugf("Skipping the %v validation", pc)
			continue
		}
		capabilitiesToVerify = append(capabilitiesToVerify, pc)
	}
	return capabilitiesToVerify
}

'''

VARIANTS += [
 dict(name='benign-lookup-result-struct', expect='silent', edits=struct_shape(),
      why='the lookup helper returns one struct value {name, installed, capabilities}; the processing function reads its fields (held-out refactoring C02-1)'),
 dict(name='benign-lookup-result-struct-other-field-order', expect='silent',
      edits=struct_shape(helper=struct_helper(order=('capabilities', 'name', 'installed'), tname='pluginLookup')),
      why='same, fields declared in another order, another type name'),
 dict(name='benign-lookup-result-struct-nested-form', expect='silent', edits=struct_shape(helper=struct_helper(helper=LOOKUP_HELPER_NESTED)),
      why='result struct + the name test as a nesting if instead of a guard clause'),
 dict(name='benign-lookup-result-struct-and-helpers', expect='silent',
      edits=struct_shape(tail=struct_uses(sub(sub(OLD_TAIL, OLD_REQUEST_LOOP, NEW_REQUEST), OLD_CRITICAL_LOOP, NEW_CRITICAL)),
                         helper=struct_helper() + SELECT_HELPER + REJECT_HELPER),
      why='result struct + request filter and critical-attribute rejection in helpers fed from the struct fields'),
 dict(name='benign-lookup-result-struct-assembled-fieldwise', expect='silent',
      edits=struct_shape(helper=sub(struct_helper(), '\treturn signaturePlugin{name: verificationPluginName, installed: installedPlugin, capabilities: pluginCapabilities}, nil\n',
                                    '\tvar found signaturePlugin\n\tfound.name = verificationPluginName\n\tfound.installed = installedPlugin\n\tfound.capabilities = pluginCapabilities\n\treturn found, nil\n')),
      why='the result object is filled field by field, each field once, before the return'),
 dict(name='lookup-result-struct-plugin-dropped', expect='flagged(plugin/lookup-results)',
      edits=struct_shape(helper=sub(struct_helper(), 'installed: installedPlugin, ', '')),
      why='a plugin is named and found but the result object carries none: it is never executed'),
 dict(name='lookup-result-struct-plugin-set-conditionally', expect='flagged(plugin/lookup-results)',
      edits=struct_shape(helper=sub(struct_helper(), '\treturn signaturePlugin{name: verificationPluginName, installed: installedPlugin, capabilities: pluginCapabilities}, nil\n',
                                    '\tfound := signaturePlugin{name: verificationPluginName, capabilities: pluginCapabilities}\n\tif len(pluginCapabilities) > 1 {\n\t\tfound.installed = installedPlugin\n\t}\n\treturn found, nil\n')),
      why='the plugin object is put into the result object on some paths only'),
 dict(name='lookup-result-struct-capabilities-without-plugin', expect='flagged(plugin/lookup-results)',
      edits=struct_shape(helper=sub(struct_helper(), '\t\treturn signaturePlugin{}, nil\n', '\t\treturn signaturePlugin{capabilities: []pluginframework.Capability{pluginframework.CapabilityTrustedIdentityVerifier}}, nil\n')),
      why='no plugin named, yet the native identity check is routed away'),
 dict(name='lookup-result-struct-unfiltered-capabilities', expect='flagged(routing/declared-capabilities)',
      edits=struct_shape(helper=sub(struct_helper(), 'capabilities: pluginCapabilities}, nil', 'capabilities: metadata.Capabilities}, nil'))),
 dict(name='lookup-result-struct-capabilities-overwritten', expect='flagged(routing/declared-capabilities)',
      edits=struct_shape(call=STRUCT_CALL + '\tif pluginConfig == nil {\n\t\tsigPlugin.capabilities = nil\n\t}\n'),
      why='the processing function empties the capability list of the result object on some paths: the declared capabilities no longer decide the routing'),
 dict(name='lookup-result-struct-error-dropped', expect='flagged(plugin/lookup-error)',
      edits=struct_shape(call=sub(STRUCT_CALL, 'sigPlugin, err := v.lookup', 'sigPlugin, _ := v.lookup').replace('\tif err != nil {\n\t\treturn err\n\t}\n', ''))),
 dict(name='lookup-result-struct-get-error-ignored', expect='flagged(plugin/get-error)',
      edits=struct_shape(helper=sub(struct_helper(), 'Get(ctx, verificationPluginName)\n\tif err != nil {', 'Get(ctx, verificationPluginName)\n\tif err != nil && installedPlugin == nil {'))),
 dict(name='lookup-result-struct-F8a-reintroduced', expect='flagged(critical-attr-accounting/no-plugin-named)',
      edits=struct_shape(tail=struct_uses(sub(OLD_TAIL, '\tif installedPlugin == nil {\n\t\t// the signature does not name', '\tif installedPlugin == nil && len(trustedIdentities) == 0 {\n\t\t// the signature does not name'))),
      why='with no plugin named the critical-attribute loop is skipped on some paths'),
 # the request list reuses the declared list where nothing has to be left out
 dict(name='benign-request-reuses-declared-list-unless-skip', expect='silent', file=V, find=OLD_REQ_BLOCK, replace=REUSE_REQ_BLOCK,
      why='request := declared list; rebuilt without the revocation capability only if the level skips revocation (merged condition split)'),
 dict(name='benign-request-helper-returns-declared-list-unless-skip', expect='silent', edits=helpers_shape(select=REUSE_SELECT_HELPER),
      why='the same in a helper: early return of the declared list when the level does not skip revocation'),
 dict(name='benign-lookup-result-struct-request-reuses-declared-list', expect='silent',
      edits=struct_shape(tail=struct_uses(sub(OLD_TAIL, OLD_REQ_BLOCK, REUSE_REQ_BLOCK))),
      why='result struct + reused declared list (both rewrites of held-out refactoring C02-1)'),
 dict(name='request-reuses-declared-list-under-wrong-action', expect='flagged(routing/request-omits-skipped-revocation)', file=V, find=OLD_REQ_BLOCK,
      replace=sub(REUSE_REQ_BLOCK, 'Enforcement[trustpolicy.TypeRevocation] == trustpolicy.ActionSkip {', 'Enforcement[trustpolicy.TypeRevocation] == trustpolicy.ActionLog {'),
      why='the declared list, revocation capability included, is sent as it is when the level skips revocation'),
 dict(name='request-reuses-declared-list-always', expect='flagged(routing/request-omits-skipped-revocation)', file=V, find=OLD_REQ_BLOCK,
      replace='\t\tcapabilitiesToVerify := pluginCapabilities\n'),
 dict(name='request-helper-returns-declared-list-under-skip', expect='flagged(routing/request-omits-skipped-revocation)',
      edits=helpers_shape(select=sub(REUSE_SELECT_HELPER, 'Enforcement[trustpolicy.TypeRevocation] != trustpolicy.ActionSkip {', 'Enforcement[trustpolicy.TypeRevocation] != trustpolicy.ActionEnforce {'))),
 dict(name='request-reuse-filter-drops-wrong-capability', expect='flagged(routing/request-omits-skipped-revocation)', file=V, find=OLD_REQ_BLOCK,
      replace=sub(REUSE_REQ_BLOCK, '\t\t\t\tif pc == pluginframework.CapabilityRevocationCheckVerifier {', '\t\t\t\tif pc == pluginframework.CapabilityTrustedIdentityVerifier {')),
]

# ---- class "result built by a constructor": every ValidationResult literal becomes newValidationResult(outcome, T, err)
CTOR = '''func newValidationResult(outcome *notation.VerificationOutcome, validationType trustpolicy.ValidationType, err error) *notation.ValidationResult {
	return &notation.ValidationResult{
		Type:   validationType,
		Action: outcome.VerificationLevel.Enforcement[validationType],
		Error:  err,
	}
}

'''
CTOR_OTHER_ORDER = '''func newValidationResult(err error, validationType trustpolicy.ValidationType, outcome *notation.VerificationOutcome) *notation.ValidationResult {
	result := new(notation.ValidationResult)
	result.Error = err
	result.Action = outcome.VerificationLevel.Enforcement[validationType]
	result.Type = validationType
	return result
}

'''
CTOR_LEVEL = '''func newValidationResult(level *trustpolicy.VerificationLevel, validationType trustpolicy.ValidationType, err error) *notation.ValidationResult {
	return &notation.ValidationResult{
		Type:   validationType,
		Action: level.Enforcement[validationType],
		Error:  err,
	}
}

'''
_LIT = _re.compile(r'&notation\.ValidationResult\{\n(?:\s+Error:\s+(?P<e1>.*),\n)?\s+Type:\s+(?P<t>trustpolicy\.\w+),\n\s+Action:\s+outcome\.VerificationLevel\.Enforcement\[(?P<t2>trustpolicy\.\w+)\],\n(?:\s+Error:\s+(?P<e2>.*),\n)?\s+\}')
CTOR_ANCHOR = 'func getNonPluginExtendedCriticalAttributes('
assert CTOR_ANCHOR in open('/repo/' + H).read()

def ctor_shape(ctor=CTOR, fmt='newValidationResult(outcome, %(t)s, %(e)s)', only=None, more=()):
    """every (or: the k-th, k in only) ValidationResult literal of verifier.go replaced by a constructor call"""
    edits = []
    for k, m in enumerate(_LIT.finditer(_SRC_V)):
        assert m.group('t') == m.group('t2')
        if only is not None and k not in only:
            continue
        edits.append((V, m.group(0), fmt % dict(t=m.group('t'), e=m.group('e1') or m.group('e2') or 'nil')))
    assert edits
    return edits + [(H, CTOR_ANCHOR, ctor + CTOR_ANCHOR)] + list(more)

_NLIT = len(list(_LIT.finditer(_SRC_V)))
assert _NLIT >= 18, _NLIT

# the plugin's revocation verdict: an error local, one constructor call (refactoring C02-2)
OLD_PLUGIN_REV = '''			var revocationResult *notation.ValidationResult
			if !pluginResult.Success {
				revocationResult = &notation.ValidationResult{
					Error:  fmt.Errorf("revocation check by verification plugin %q failed with reason %q", verificationPluginName, pluginResult.Reason),
					Type:   trustpolicy.TypeRevocation,
					Action: outcome.VerificationLevel.Enforcement[trustpolicy.TypeRevocation],
				}
			} else {
				revocationResult = &notation.ValidationResult{
					Type:   trustpolicy.TypeRevocation,
					Action: outcome.VerificationLevel.Enforcement[trustpolicy.TypeRevocation],
				}
			}
'''
assert OLD_PLUGIN_REV in _SRC_V
NEW_PLUGIN_REV = '''			var revocationErr error
			if !pluginResult.Success {
				revocationErr = fmt.Errorf("revocation check by verification plugin %q failed with reason %q", verificationPluginName, pluginResult.Reason)
			}
			revocationResult := newValidationResult(outcome, trustpolicy.TypeRevocation, revocationErr)
'''
NEW_PLUGIN_REV_LITERAL = '''			var revocationErr error
			if !pluginResult.Success {
				revocationErr = fmt.Errorf("revocation check by verification plugin %q failed with reason %q", verificationPluginName, pluginResult.Reason)
			}
			revocationResult := &notation.ValidationResult{
				Error:  revocationErr,
				Type:   trustpolicy.TypeRevocation,
				Action: outcome.VerificationLevel.Enforcement[trustpolicy.TypeRevocation],
			}
'''
def plugin_rev_shape(new=NEW_PLUGIN_REV, ctor=CTOR):
    return [(V, OLD_PLUGIN_REV, new), (H, CTOR_ANCHOR, ctor + CTOR_ANCHOR)]

# the append / log / gate sequence written once: closure, function, append-only helper
def _seq(r):
    return '''	outcome.VerificationResults = append(outcome.VerificationResults, %(r)s)
	logVerificationResult(logger, %(r)s)
	if isCriticalFailure(%(r)s) {
		return %(r)s.Error
	}
''' % dict(r=r)
SEQ_AUTH, SEQ_EXP, SEQ_TS = _seq('authenticityResult'), _seq('expiryResult'), _seq('authenticTimestampResult')
SEQ_REV = _seq('revocationResult').replace('\n\t', '\n\t\t').replace('\toutcome.Verif', '\t\toutcome.Verif', 1)
for _s in (SEQ_AUTH, SEQ_EXP, SEQ_TS, SEQ_REV):
    assert _SRC_V.count(_s) == 1, _s
RECORD_CLOSURE = '''	record := func(result *notation.ValidationResult) error {
		outcome.VerificationResults = append(outcome.VerificationResults, result)
		logVerificationResult(logger, result)
		if isCriticalFailure(result) {
			return result.Error
		}
		return nil
	}

'''
RECORD_FUNC = '''func recordResult(logger log.Logger, outcome *notation.VerificationOutcome, result *notation.ValidationResult) error {
	outcome.VerificationResults = append(outcome.VerificationResults, result)
	logVerificationResult(logger, result)
	if isCriticalFailure(result) {
		return result.Error
	}
	return nil
}

'''
ADD_FUNC = '''func addResult(logger log.Logger, outcome *notation.VerificationOutcome, result *notation.ValidationResult) {
	outcome.VerificationResults = append(outcome.VerificationResults, result)
	logVerificationResult(logger, result)
}

'''
LOOKUP_COMMENT = '\t// check if we need to verify using a plugin\n\tvar pluginCapabilities []pluginframework.Capability\n'
assert _SRC_V.count(LOOKUP_COMMENT) == 1
def _use(call, r, indent='\t'):
    return '%sif err := %s; err != nil {\n%s\treturn err\n%s}\n' % (indent, call % r, indent, indent)
def record_shape(call='record(%s)', decl=(V, LOOKUP_COMMENT, RECORD_CLOSURE + LOOKUP_COMMENT), drop=None, use=_use):
    ed = [decl]
    for k, (seq, r, ind) in enumerate([(SEQ_AUTH, 'authenticityResult', '\t'), (SEQ_EXP, 'expiryResult', '\t'), (SEQ_TS, 'authenticTimestampResult', '\t'), (SEQ_REV, 'revocationResult', '\t\t')]):
        if drop == k:
            ed.append((V, seq, '%s_ = %s\n' % (ind, call % r)))
        else:
            ed.append((V, seq, use(call, r, ind)))
    return ed
def _use_add(call, r, indent='\t'):
    return '%s%s\n%sif isCriticalFailure(%s) {\n%s\treturn %s.Error\n%s}\n' % (indent, call % r, indent, r, indent, r, indent)

# the native revocation check builds its results by a constructor of its own (refactoring C05-1)
REV_CTOR = '''func newRevocationResult(outcome *notation.VerificationOutcome, err error) *notation.ValidationResult {
	return &notation.ValidationResult{
		Type:   trustpolicy.TypeRevocation,
		Action: outcome.VerificationLevel.Enforcement[trustpolicy.TypeRevocation],
		Error:  err,
	}
}

'''
def rev_ctor_shape(ctor=REV_CTOR, more=()):
    a, b = _SRC_V.index('func (v *verifier) verifyRevocation('), _SRC_V.index('func processPluginResponse(')
    edits = []
    for m in _LIT.finditer(_SRC_V, a, b):
        edits.append((V, m.group(0), 'newRevocationResult(outcome, %s)' % (m.group('e1') or m.group('e2') or 'nil')))
    assert len(edits) == 3
    return edits + [(V, 'func processPluginResponse(', ctor + 'func processPluginResponse(')] + list(more)

NATIVE_REV_GATE = '!slices.Contains(pluginCapabilities, pluginframework.CapabilityRevocationCheckVerifier) {\n'
assert _SRC_V.count(NATIVE_REV_GATE) == 1

VARIANTS += [
 dict(name='benign-results-by-constructor', expect='silent', edits=ctor_shape(),
      why='every ValidationResult literal replaced by newValidationResult(outcome, T, err) (held-out refactorings C02-2, C01-2)'),
 dict(name='benign-results-by-constructor-other-parameter-order', expect='silent',
      edits=ctor_shape(ctor=CTOR_OTHER_ORDER, fmt='newValidationResult(%(e)s, %(t)s, outcome)'),
      why='same, parameters in another order, the object filled by assignments instead of a literal'),
 dict(name='benign-results-by-constructor-handed-the-level', expect='silent',
      edits=ctor_shape(ctor=CTOR_LEVEL, fmt='newValidationResult(outcome.VerificationLevel, %(t)s, %(e)s)'),
      why='same, the constructor is handed the level instead of the outcome (parameter narrowed)'),
 dict(name='benign-some-results-by-constructor', expect='silent', edits=ctor_shape(only=(0, 5, 6, 7)),
      why='constructor used at a few sites only, literals elsewhere'),
 dict(name='benign-native-revocation-results-by-own-constructor', expect='silent', edits=rev_ctor_shape(),
      why='verifyRevocation builds its three results by newRevocationResult(outcome, err) (held-out refactoring C05-1)'),
 dict(name='constructor-looks-up-fixed-type', expect='flagged(pairing/)',
      edits=ctor_shape(ctor=sub(CTOR, 'Enforcement[validationType]', 'Enforcement[trustpolicy.TypeExpiry]')),
      why='every result carries the action of the expiry validation'),
 dict(name='constructor-reads-another-level', expect='flagged(pairing/)',
      edits=ctor_shape(ctor=sub(CTOR, 'outcome.VerificationLevel.Enforcement[validationType]', 'trustpolicy.LevelPermissive.Enforcement[validationType]'))),
 dict(name='constructor-handed-another-level', expect='flagged(pairing/)',
      edits=ctor_shape(ctor=CTOR_LEVEL, fmt='newValidationResult(outcome.VerificationLevel, %(t)s, %(e)s)',
                       more=[(V, 'newValidationResult(outcome.VerificationLevel, trustpolicy.TypeExpiry, nil)', 'newValidationResult(trustpolicy.LevelAudit, trustpolicy.TypeExpiry, nil)')]),
      why='one caller hands the constructor a level other than the one in force'),
 dict(name='constructor-call-with-computed-type', expect='flagged(pairing/)',
      edits=ctor_shape(more=[(V, 'newValidationResult(outcome, trustpolicy.TypeAuthenticity, err)', 'newValidationResult(outcome, trustpolicy.ValidationType(policyName), err)')]),
      why='the type of a result is not a constant at one call of the constructor'),
 dict(name='constructor-swaps-type-for-one-caller', expect='flagged(pairing/)',
      edits=ctor_shape(ctor=sub(CTOR, '\treturn &notation', '\tkey := validationType\n\tif err != nil {\n\t\tkey = trustpolicy.TypeAuthenticTimestamp\n\t}\n\treturn &notation').replace('Enforcement[validationType]', 'Enforcement[key]')),
      why='a failed validation is given the action of another type'),
 dict(name='native-revocation-by-constructor-when-plugin-owns', expect='flagged(routing/revocation)',
      edits=rev_ctor_shape(more=[(V, NATIVE_REV_GATE, 'pluginConfig != nil {\n')]),
      why='constructor shape + the native revocation check no longer depends on the plugin capability'),
 dict(name='results-by-constructor-native-revocation-under-skip', expect='flagged(routing/revocation)',
      edits=ctor_shape(more=[(V, '\tif outcome.VerificationLevel.Enforcement[trustpolicy.TypeRevocation] != trustpolicy.ActionSkip &&\n\t\t!slices', '\tif outcome.VerificationLevel.Enforcement[trustpolicy.TypeRevocation] != trustpolicy.ActionLog &&\n\t\t!slices')])),
 # the plugin's verdict kept in an error local
 dict(name='benign-plugin-revocation-verdict-error-local-constructor', expect='silent', edits=plugin_rev_shape(),
      why='revocationErr (nil on success) + one constructor call instead of two literals'),
 dict(name='benign-plugin-revocation-verdict-error-local-literal', expect='silent', file=V, find=OLD_PLUGIN_REV, replace=NEW_PLUGIN_REV_LITERAL,
      why='revocationErr (nil on success) + one literal'),
 dict(name='plugin-revocation-verdict-error-local-never-set', expect='flagged(plugin/verdict-revocation)',
      edits=plugin_rev_shape(new=sub(NEW_PLUGIN_REV, '\t\t\t\trevocationErr = fmt.Errorf(', '\t\t\t\t_ = fmt.Errorf(')),
      why='a failed revocation verdict of the plugin leaves the error local nil'),
 dict(name='plugin-revocation-verdict-error-local-set-on-success', expect='flagged(plugin/verdict-revocation)', file=V, find=OLD_PLUGIN_REV,
      replace=sub(NEW_PLUGIN_REV_LITERAL, '\t\t\tif !pluginResult.Success {', '\t\t\tif pluginResult.Success {'),
      why='inverted: the error is recorded for a successful verdict, a failed one passes'),
 dict(name='plugin-revocation-verdict-constructor-drops-error', expect='flagged(plugin/verdict-revocation)',
      edits=plugin_rev_shape(ctor=sub(CTOR, '\t\tError:  err,\n', '')),
      why='the constructor does not store the error it is handed'),
 # the append / log / gate sequence written once
 dict(name='benign-record-closure', expect='silent', edits=record_shape(),
      why='closure record(result) error = append, log, gate; callers return its error (held-out refactoring C02-2)'),
 dict(name='benign-record-function', expect='silent',
      edits=record_shape(call='recordResult(logger, outcome, %s)', decl=(V, ANCHOR, RECORD_FUNC + ANCHOR)),
      why='the same as a package-level function'),
 dict(name='benign-append-helper-gate-in-caller', expect='silent',
      edits=record_shape(call='addResult(logger, outcome, %s)', decl=(V, ANCHOR, ADD_FUNC + ANCHOR), use=_use_add),
      why='helper appends and logs; the caller keeps the gate'),
 dict(name='benign-record-closure-and-constructor', expect='silent', edits=ctor_shape() + record_shape(),
      why='both rewrites of held-out refactoring C02-2'),
 dict(name='record-closure-error-dropped', expect='flagged(gated/)', edits=record_shape(drop=1),
      why='the expiry result is recorded but the closure\'s answer is thrown away: an enforced expiry failure is accepted'),
 dict(name='record-function-error-dropped', expect='flagged(gated/)',
      edits=record_shape(call='recordResult(logger, outcome, %s)', decl=(V, ANCHOR, RECORD_FUNC + ANCHOR), drop=3)),
 dict(name='record-closure-without-gate', expect='flagged(gated/)',
      edits=record_shape(decl=(V, LOOKUP_COMMENT, sub(RECORD_CLOSURE, '\t\tif isCriticalFailure(result) {\n\t\t\treturn result.Error\n\t\t}\n', '') + LOOKUP_COMMENT)),
      why='the closure appends and logs but never reports a critical failure'),
 dict(name='record-closure-gates-on-wrong-condition', expect='flagged(gated/)',
      edits=record_shape(decl=(V, LOOKUP_COMMENT, sub(RECORD_CLOSURE, '\t\tif isCriticalFailure(result) {', '\t\tif isCriticalFailure(result) && len(outcome.VerificationResults) > 2 {') + LOOKUP_COMMENT))),
 dict(name='append-helper-caller-gate-dropped', expect='flagged(gated/)',
      edits=record_shape(call='addResult(logger, outcome, %s)', decl=(V, ANCHOR, ADD_FUNC + ANCHOR),
                         use=lambda call, r, ind='\t': (ind + call % r + '\n') if r == 'authenticTimestampResult' else _use_add(call, r, ind)),
      why='the authentic-timestamp result is appended by the helper and never gated'),
]

# ---- the result object handed back by pointer
def ptr_helper(helper=None, tname='signaturePlugin'):
    h = helper if helper is not None else struct_helper(tname=tname)
    h = h.replace('(%s, error) {' % tname, '(*%s, error) {' % tname)
    h = h.replace('return %s{}, nil' % tname, 'return &%s{}, nil' % tname)   # no plugin named: an empty object
    h = h.replace('return %s{}, ' % tname, 'return nil, ')                     # failures
    h = h.replace('return %s{name:' % tname, 'return &%s{name:' % tname)
    return h
VARIANTS += [
 dict(name='benign-lookup-result-object-by-pointer', expect='silent', edits=struct_shape(helper=ptr_helper()),
      why='the lookup helper returns *signaturePlugin (an empty object when no plugin is named); the fields are written at construction only'),
 dict(name='benign-lookup-result-object-by-pointer-request-reuses-declared-list', expect='silent',
      edits=struct_shape(helper=ptr_helper(), tail=struct_uses(sub(OLD_TAIL, OLD_REQ_BLOCK, REUSE_REQ_BLOCK)))),
 dict(name='lookup-result-object-by-pointer-plugin-dropped', expect='flagged(plugin/lookup-results)',
      edits=struct_shape(helper=sub(ptr_helper(), 'installed: installedPlugin, ', ''))),
 dict(name='lookup-result-object-by-pointer-capabilities-rewritten-later', expect='flagged(plugin/lookup-results)',
      edits=struct_shape(helper=ptr_helper(), call=STRUCT_CALL + '\tif pluginConfig == nil {\n\t\tsigPlugin.capabilities = nil\n\t}\n'),
      why='the object is modified after it left its constructor: reads of its fields no longer say what the constructor stored'),
 dict(name='lookup-result-object-by-pointer-plugin-cleared-elsewhere', expect='flagged(plugin/lookup-results)',
      edits=struct_shape(helper=ptr_helper() + 'func forgetPlugin(p *signaturePlugin) {\n\tp.installed = nil\n}\n\nvar _ = forgetPlugin\n\n'),
      why='some function of the module writes the plugin field of such objects: the test `installed == nil` is no longer known to mean "no plugin named"'),
 dict(name='lookup-result-object-by-pointer-unfiltered-capabilities', expect='flagged(routing/declared-capabilities)',
      edits=struct_shape(helper=sub(ptr_helper(), 'capabilities: pluginCapabilities}, nil', 'capabilities: metadata.Capabilities}, nil'))),
]

# ---- third pass: results built in one literal at a single exit (held-out refactoring C02-2 of batch 3)
def _fn(text, name):
    i = text.index('\nfunc ' + name + '(') + 1
    return text[i:text.index('\n}\n', i) + 3]

SINGLE_EXIT = {
 'verifyIntegrity': r'''func verifyIntegrity(sigBlob []byte, envelopeMediaType string, outcome *notation.VerificationOutcome) (*signature.EnvelopeContent, *notation.ValidationResult) {
	envContent, err := parseAndVerifyEnvelope(sigBlob, envelopeMediaType)
	return envContent, &notation.ValidationResult{
		Error:  err,
		Type:   trustpolicy.TypeIntegrity,
		Action: outcome.VerificationLevel.Enforcement[trustpolicy.TypeIntegrity],
	}
}

func parseAndVerifyEnvelope(sigBlob []byte, envelopeMediaType string) (*signature.EnvelopeContent, error) {
	// parse the signature
	sigEnv, err := signature.ParseEnvelope(envelopeMediaType, sigBlob)
	if err != nil {
		return nil, fmt.Errorf("unable to parse the digital signature, error : %s", err)
	}

	// verify integrity
	envContent, err := sigEnv.Verify()
	if err != nil {
		switch err.(type) {
		case *signature.SignatureEnvelopeNotFoundError, *signature.InvalidSignatureError, *signature.SignatureIntegrityError:
			return nil, err
		default:
			// unexpected error
			return nil, notation.ErrorVerificationInconclusive{Msg: err.Error()}
		}
	}

	if err := envelope.ValidatePayloadContentType(&envContent.Payload); err != nil {
		return nil, err
	}
	return envContent, nil
}
''',
 'verifyAuthenticity': r'''func verifyAuthenticity(trustCerts []*x509.Certificate, trustStoreErr error, outcome *notation.VerificationOutcome) *notation.ValidationResult {
	err := trustStoreErr
	if err == nil {
		err = checkAuthenticity(trustCerts, outcome.EnvelopeContent)
	}
	return &notation.ValidationResult{
		Error:  err,
		Type:   trustpolicy.TypeAuthenticity,
		Action: outcome.VerificationLevel.Enforcement[trustpolicy.TypeAuthenticity],
	}
}

func checkAuthenticity(trustCerts []*x509.Certificate, envContent *signature.EnvelopeContent) error {
	if len(trustCerts) < 1 {
		return notation.ErrorVerificationInconclusive{Msg: "no trusted certificates are found to verify authenticity"}
	}
	_, err := signature.VerifyAuthenticity(&envContent.SignerInfo, trustCerts)
	if err == nil {
		return nil
	}
	if _, ok := err.(*signature.SignatureAuthenticityError); ok {
		return err
	}
	return notation.ErrorVerificationInconclusive{Msg: "authenticity verification failed with error : " + err.Error()}
}
''',
 'verifyExpiry': r'''func verifyExpiry(outcome *notation.VerificationOutcome) *notation.ValidationResult {
	var err error
	if expiry := outcome.EnvelopeContent.SignerInfo.SignedAttributes.Expiry; !expiry.IsZero() && !time.Now().Before(expiry) {
		err = fmt.Errorf("digital signature has expired on %q", expiry.Format(time.RFC1123Z))
	}
	return &notation.ValidationResult{
		Error:  err,
		Type:   trustpolicy.TypeExpiry,
		Action: outcome.VerificationLevel.Enforcement[trustpolicy.TypeExpiry],
	}
}
''',
 'verifyAuthenticTimestamp': r'''func verifyAuthenticTimestamp(ctx context.Context, policyName string, trustStores []string, signatureVerification trustpolicy.SignatureVerification, x509TrustStore truststore.X509TrustStore, r revocation.Validator, outcome *notation.VerificationOutcome) *notation.ValidationResult {
	logger := log.GetLogger(ctx)

	var err error
	signerInfo := outcome.EnvelopeContent.SignerInfo
	if signerInfo.SignedAttributes.SigningScheme == signature.SigningSchemeX509 {
		// under signing scheme notary.x509
		logger.Debug("Under signing scheme notary.x509...")
		err = verifyTimestamp(ctx, policyName, trustStores, signatureVerification, x509TrustStore, r, outcome)
	} else {
		// under signing scheme notary.x509.signingAuthority
		logger.Debug("Under signing scheme notary.x509.signingAuthority...")
		err = verifyCertsValidAt(signerInfo.CertificateChain, signerInfo.SignedAttributes.SigningTime)
	}
	return &notation.ValidationResult{
		Error:  err,
		Type:   trustpolicy.TypeAuthenticTimestamp,
		Action: outcome.VerificationLevel.Enforcement[trustpolicy.TypeAuthenticTimestamp],
	}
}

func verifyCertsValidAt(certChain []*x509.Certificate, authenticSigningTime time.Time) error {
	for _, cert := range certChain {
		if authenticSigningTime.Before(cert.NotBefore) || authenticSigningTime.After(cert.NotAfter) {
			return fmt.Errorf("certificate %q was not valid when the digital signature was produced at %q", cert.Subject, authenticSigningTime.Format(time.RFC1123Z))
		}
	}
	return nil
}
''',
}
OLD_AUTH_CALL = '''	var authenticityResult *notation.ValidationResult
	if err != nil {
		authenticityResult = &notation.ValidationResult{
			Error:  err,
			Type:   trustpolicy.TypeAuthenticity,
			Action: outcome.VerificationLevel.Enforcement[trustpolicy.TypeAuthenticity],
		}
	} else {
		// verify authenticity
		authenticityResult = verifyAuthenticity(trustCerts, outcome)
	}
'''
def single_exit_shape(names=('verifyIntegrity', 'verifyAuthenticity', 'verifyExpiry', 'verifyAuthenticTimestamp'), more=()):
    edits = [(V, _fn(_SRC_V, n), SINGLE_EXIT[n]) for n in names]
    if 'verifyAuthenticity' in names:
        edits.append((V, OLD_AUTH_CALL, '\tauthenticityResult := verifyAuthenticity(trustCerts, err, outcome)\n'))
    return edits + list(more)

VARIANTS += [
 dict(name='benign-results-built-at-single-exit', expect='silent', edits=single_exit_shape(),
      why='each native validation computes a plain error (inline or in a helper that knows nothing of levels) and builds its result in ONE literal at its single exit: the four appends of processSignature then print alike (third batch C02-2)'),
 dict(name='benign-results-built-at-single-exit-three-of-four', expect='silent', edits=single_exit_shape(names=('verifyIntegrity', 'verifyExpiry', 'verifyAuthenticTimestamp'))),
 dict(name='single-exit-results-expiry-gate-dropped', expect='flagged(gated/)',
      edits=single_exit_shape(more=[(V, '\tif isCriticalFailure(expiryResult) {\n\t\treturn expiryResult.Error\n\t}\n', '')]),
      why='same shape, the expiry result is appended and never gated: one of the four like-printed events fails'),
 dict(name='single-exit-results-timestamp-gate-dropped', expect='flagged(gated/)',
      edits=single_exit_shape(more=[(V, '\tif isCriticalFailure(authenticTimestampResult) {\n\t\treturn authenticTimestampResult.Error\n\t}\n', '')])),
 dict(name='single-exit-result-takes-action-of-other-type', expect='flagged(pairing/)',
      edits=single_exit_shape(more=[(V, '\t\tType:   trustpolicy.TypeExpiry,\n\t\tAction: outcome.VerificationLevel.Enforcement[trustpolicy.TypeExpiry],\n\t}\n}\n',
                                        '\t\tType:   trustpolicy.TypeExpiry,\n\t\tAction: outcome.VerificationLevel.Enforcement[trustpolicy.TypeAuthenticity],\n\t}\n}\n')]),
      why='same shape, the single literal of the expiry validation takes the action of another type'),
]

# ---- third pass: the rules on one override entry decided by a helper (held-out refactoring C09-1 of batch 3)
OLD_OVERRIDE_RULES = '''		if validationType == TypeIntegrity {
			return nil, fmt.Errorf("%q verification can not be overridden in custom signature verification", key)
		} else if validationType != TypeRevocation && validationAction == ActionSkip {
			return nil, fmt.Errorf("%q verification can not be skipped in custom signature verification", key)
		}
'''
NEW_OVERRIDE_RULES = '''		if err := checkOverride(validationType, validationAction); err != nil {
			return nil, err
		}
'''
OVERRIDE_VALIDATOR = '''func checkOverride(validationType ValidationType, validationAction ValidationAction) error {
	switch {
	case validationType == TypeIntegrity:
		return fmt.Errorf("%q verification can not be overridden in custom signature verification", validationType)
	case validationType != TypeRevocation && validationAction == ActionSkip:
		return fmt.Errorf("%q verification can not be skipped in custom signature verification", validationType)
	}
	return nil
}

'''
T_ANCHOR = 'func getDocument('
def validator_shape(helper=OVERRIDE_VALIDATOR, call=NEW_OVERRIDE_RULES):
    return [(T, OLD_OVERRIDE_RULES, call), (T, T_ANCHOR, helper + T_ANCHOR)]

OVERRIDE_PREDICATE = '''func skipAllowed(validationType ValidationType, validationAction ValidationAction) bool {
	if validationAction == ActionSkip && validationType != TypeRevocation {
		return false
	}
	return true
}

'''
NEW_OVERRIDE_RULES_PRED = '''		if validationType == TypeIntegrity {
			return nil, fmt.Errorf("%q verification can not be overridden in custom signature verification", key)
		}
		if !skipAllowed(validationType, validationAction) {
			return nil, fmt.Errorf("%q verification can not be skipped in custom signature verification", key)
		}
'''
_SRC_T = open('/repo/' + T).read()
_a = _SRC_T.index('\tfor key, value := range signatureVerification.Override {\n')
_b = _SRC_T.index('\treturn customVerificationLevel, nil\n')
OLD_OVERRIDE_LOOP = _SRC_T[_a:_b]
NEW_OVERRIDE_LOOP = '''	for validationType, validationAction := range signatureVerification.Override {
		if err := validateOverride(validationType, validationAction); err != nil {
			return nil, err
		}
		customVerificationLevel.Enforcement[validationType] = validationAction
	}
'''
WHOLE_ENTRY_VALIDATOR = '''func validateOverride(validationType ValidationType, validationAction ValidationAction) error {
	// the empty string never denotes a supported type or action
	if validationType == "" || !slices.Contains(ValidationTypes, validationType) {
		return fmt.Errorf("verification type %q in custom signature verification is not supported, supported values are %q", validationType, ValidationTypes)
	}
	if validationAction == "" || !slices.Contains(ValidationActions, validationAction) {
		return fmt.Errorf("verification action %q in custom signature verification is not supported, supported values are %q", validationAction, ValidationActions)
	}
	switch {
	case validationType == TypeIntegrity:
		return fmt.Errorf("%q verification can not be overridden in custom signature verification", validationType)
	case validationType != TypeRevocation && validationAction == ActionSkip:
		return fmt.Errorf("%q verification can not be skipped in custom signature verification", validationType)
	}
	return nil
}

'''
def whole_entry_shape(helper=WHOLE_ENTRY_VALIDATOR, loop=NEW_OVERRIDE_LOOP):
    return [(T, OLD_OVERRIDE_LOOP, loop), (T, T_ANCHOR, helper + T_ANCHOR)]

VARIANTS += [
 dict(name='benign-override-rules-in-validator', expect='silent', edits=validator_shape(),
      why='the integrity / skip-only-revocation rules moved into checkOverride(type, action) error; the store lies behind err == nil'),
 dict(name='benign-override-rules-in-validator-other-parameter-order', expect='silent',
      edits=validator_shape(helper=sub(OVERRIDE_VALIDATOR, '(validationType ValidationType, validationAction ValidationAction)', '(validationAction ValidationAction, validationType ValidationType)'),
                            call=sub(NEW_OVERRIDE_RULES, '(validationType, validationAction)', '(validationAction, validationType)'))),
 dict(name='benign-override-skip-rule-in-predicate', expect='silent', edits=validator_shape(helper=OVERRIDE_PREDICATE, call=NEW_OVERRIDE_RULES_PRED),
      why='the skip rule asked of a predicate skipAllowed(type, action) bool written with statements'),
 dict(name='benign-override-entry-validated-by-helper', expect='silent', edits=whole_entry_shape(),
      why='the whole entry (membership in the supported types / actions by slices.Contains, integrity, skip) validated by validateOverride(key, value); key and value stored as they are (third batch C09-1)'),
 dict(name='override-validator-allows-skip-for-expiry', expect='flagged(custom/skip-only-revocation)',
      edits=validator_shape(helper=sub(OVERRIDE_VALIDATOR, 'case validationType != TypeRevocation && validationAction == ActionSkip:', 'case validationType != TypeRevocation && validationType != TypeExpiry && validationAction == ActionSkip:'))),
 dict(name='override-validator-answer-dropped', expect='flagged(custom/)',
      edits=validator_shape(call='\t\t_ = checkOverride(validationType, validationAction)\n')),
 dict(name='override-validator-fed-fixed-type', expect='flagged(custom/skip-only-revocation)',
      edits=validator_shape(call=sub(NEW_OVERRIDE_RULES, '(validationType, validationAction)', '(TypeRevocation, validationAction)')),
      why='the validator is asked about the revocation type whatever the entry is'),
 dict(name='override-validator-arguments-swapped', expect='flagged(custom/)',
      edits=validator_shape(helper=sub(OVERRIDE_VALIDATOR, '(validationType ValidationType, validationAction ValidationAction)', '(validationType, validationAction string)').replace('== TypeIntegrity', '== string(TypeIntegrity)').replace('!= TypeRevocation', '!= string(TypeRevocation)').replace('== ActionSkip', '== string(ActionSkip)'),
                            call=sub(NEW_OVERRIDE_RULES, '(validationType, validationAction)', '(string(validationAction), string(validationType))')),
      why='parameters narrowed to strings and the call hands them in the wrong order: the rules are asked of (action, type)'),
 dict(name='override-predicate-inverted', expect='flagged(custom/skip-only-revocation)',
      edits=validator_shape(helper=OVERRIDE_PREDICATE, call=sub(NEW_OVERRIDE_RULES_PRED, 'if !skipAllowed(', 'if skipAllowed('))),
 dict(name='override-predicate-always-true-for-log', expect='flagged(custom/skip-only-revocation)',
      edits=validator_shape(helper=sub(OVERRIDE_PREDICATE, 'validationType != TypeRevocation {', 'validationType != TypeRevocation && validationType != TypeAuthenticTimestamp {'), call=NEW_OVERRIDE_RULES_PRED)),
 dict(name='override-entry-validator-skips-action-membership', expect='flagged(custom/unsupported-action)',
      edits=whole_entry_shape(helper=sub(WHOLE_ENTRY_VALIDATOR, '\tif validationAction == "" || !slices.Contains(ValidationActions, validationAction) {\n\t\treturn fmt.Errorf("verification action %q in custom signature verification is not supported, supported values are %q", validationAction, ValidationActions)\n\t}\n', ''))),
 dict(name='override-entry-validator-allows-skip-everywhere', expect='flagged(custom/skip-only-revocation)',
      edits=whole_entry_shape(helper=sub(WHOLE_ENTRY_VALIDATOR, '\tcase validationType != TypeRevocation && validationAction == ActionSkip:\n\t\treturn fmt.Errorf("%q verification can not be skipped in custom signature verification", validationType)\n', ''))),
]

# ---- third pass: "the plugin declares capability X" kept in a flag (held-out refactoring C02-1 of batch 3)
OLD_CAPS_DECL = '\tvar pluginCapabilities []pluginframework.Capability\n\tverificationPluginName, err :='
NEW_CAPS_DECL = '\tvar pluginCapabilities []pluginframework.Capability\n\tvar ownsIdentity, ownsRevocation bool\n\tverificationPluginName, err :='
OLD_FILTER = '''		for _, capability := range metadata.Capabilities {
			if capability == pluginframework.CapabilityRevocationCheckVerifier || capability == pluginframework.CapabilityTrustedIdentityVerifier {
				pluginCapabilities = append(pluginCapabilities, capability)
			}
		}
'''
FLAG_FILTER_SWITCH = '''		for _, capability := range metadata.Capabilities {
			switch capability {
			case pluginframework.CapabilityTrustedIdentityVerifier:
				ownsIdentity = true
			case pluginframework.CapabilityRevocationCheckVerifier:
				ownsRevocation = true
			default:
				continue
			}
			pluginCapabilities = append(pluginCapabilities, capability)
		}
'''
FLAG_FILTER_IF = '''		for _, capability := range metadata.Capabilities {
			if capability == pluginframework.CapabilityTrustedIdentityVerifier {
				pluginCapabilities = append(pluginCapabilities, capability)
				ownsIdentity = true
			} else if capability == pluginframework.CapabilityRevocationCheckVerifier {
				ownsRevocation = true
				pluginCapabilities = append(pluginCapabilities, capability)
			}
		}
'''
FLAG_FILTER_INDEX = '''		for i := 0; i < len(metadata.Capabilities); i++ {
			if metadata.Capabilities[i] != pluginframework.CapabilityRevocationCheckVerifier && metadata.Capabilities[i] != pluginframework.CapabilityTrustedIdentityVerifier {
				continue
			}
			pluginCapabilities = append(pluginCapabilities, metadata.Capabilities[i])
			if metadata.Capabilities[i] == pluginframework.CapabilityTrustedIdentityVerifier {
				ownsIdentity = true
			}
			if metadata.Capabilities[i] == pluginframework.CapabilityRevocationCheckVerifier {
				ownsRevocation = true
			}
		}
'''
FLAG_SCAN = OLD_FILTER + '''		for _, declared := range pluginCapabilities {
			switch declared {
			case pluginframework.CapabilityTrustedIdentityVerifier:
				ownsIdentity = true
			case pluginframework.CapabilityRevocationCheckVerifier:
				ownsRevocation = true
			}
		}
'''
OLD_ID_GATE = '\tif !slices.Contains(pluginCapabilities, pluginframework.CapabilityTrustedIdentityVerifier) {\n'
assert _SRC_V.count(OLD_ID_GATE) == 1
def flag_shape(loop=FLAG_FILTER_SWITCH, more=()):
    return [(V, OLD_CAPS_DECL, NEW_CAPS_DECL), (V, OLD_FILTER, loop), (V, OLD_ID_GATE, '\tif !ownsIdentity {\n'),
            (V, NATIVE_REV_GATE, '!ownsRevocation {\n')] + list(more)

VARIANTS += [
 dict(name='benign-capability-flags-set-in-filter-switch', expect='silent', edits=flag_shape(),
      why='the filter loop is a switch that also records ownsIdentity / ownsRevocation; the two later slices.Contains scans read the flags (third batch C02-1)'),
 dict(name='benign-capability-flags-set-in-filter-if-chain', expect='silent', edits=flag_shape(loop=FLAG_FILTER_IF),
      why='same, if / else-if with an append per branch, flag set before or after the append'),
 dict(name='benign-capability-flags-set-in-index-loop', expect='silent', edits=flag_shape(loop=FLAG_FILTER_INDEX),
      why='same, index loop, guard clause, flags set behind the append'),
 dict(name='benign-capability-flags-by-scan-of-declared-list', expect='silent', edits=flag_shape(loop=FLAG_SCAN),
      why='the flags are computed by one scan of the declared list after it was built'),
 dict(name='benign-only-identity-answer-kept-in-flag', expect='silent',
      edits=[(V, OLD_CAPS_DECL, sub(NEW_CAPS_DECL, 'ownsIdentity, ownsRevocation', 'ownsIdentity')), (V, OLD_FILTER, sub(FLAG_FILTER_SWITCH, '\t\t\t\townsRevocation = true\n', '')), (V, OLD_ID_GATE, '\tif !ownsIdentity {\n')],
      why='mixed: identity by flag, revocation still by slices.Contains'),
 dict(name='capability-flags-swapped', expect='flagged(routing/)',
      edits=flag_shape(loop=FLAG_FILTER_SWITCH.replace('ownsIdentity = true', 'ownsX = true').replace('ownsRevocation = true', 'ownsIdentity = true').replace('ownsX = true', 'ownsRevocation = true')),
      why='a plugin that declares only revocation switches the native identity check off'),
 dict(name='capability-flag-set-but-capability-not-declared', expect='flagged(routing/identity)',
      edits=flag_shape(loop=sub(FLAG_FILTER_SWITCH, '\t\t\t\townsIdentity = true\n', '\t\t\t\townsIdentity = true\n\t\t\t\tcontinue\n')),
      why='the flag is set but the capability is not put on the declared list: the native check is off and the plugin is never asked'),
 dict(name='capability-flag-set-for-every-capability', expect='flagged(routing/revocation)',
      edits=flag_shape(loop=sub(FLAG_FILTER_SWITCH, '\t\t\tswitch capability {\n', '\t\t\townsRevocation = true\n\t\t\tswitch capability {\n')),
      why='any declared capability switches native revocation off'),
 dict(name='capability-flag-set-outside-the-loop', expect='flagged(routing/revocation)',
      edits=flag_shape(more=[(V, '\t\tif len(pluginCapabilities) == 0 {\n', '\t\tif pluginConfig != nil {\n\t\t\townsRevocation = true\n\t\t}\n\t\tif len(pluginCapabilities) == 0 {\n')]),
      why='a plugin configuration switches native revocation off'),
 dict(name='capability-flag-cleared-after-the-loop', expect='flagged(routing/identity)',
      edits=flag_shape(more=[(V, '\t\tif len(pluginCapabilities) == 0 {\n', '\t\tif pluginConfig != nil {\n\t\t\townsIdentity = false\n\t\t}\n\t\tif len(pluginCapabilities) == 0 {\n')]),
      why='the flag no longer says what is on the declared list (native check and plugin both run)'),
 dict(name='capability-flag-never-set', expect='flagged(routing/revocation)',
      edits=flag_shape(loop=sub(FLAG_FILTER_SWITCH, '\t\t\t\townsRevocation = true\n', '')),
      why='native revocation runs although the plugin owns it'),
 dict(name='capability-flag-gate-dropped', expect='flagged(routing/identity)',
      edits=flag_shape(more=[(V, '\tif !ownsIdentity {\n', '\tif !ownsIdentity || pluginConfig != nil {\n')])),
 dict(name='capability-flag-gate-inverted', expect='flagged(routing/identity)',
      edits=flag_shape(more=[(V, '\tif !ownsIdentity {\n', '\tif ownsIdentity {\n')])),
 dict(name='capability-flags-scan-stops-early', expect='flagged(routing/)',
      edits=flag_shape(loop=sub(FLAG_SCAN, '\t\t\t\townsRevocation = true\n\t\t\t}\n', '\t\t\t\townsRevocation = true\n\t\t\t}\n\t\t\tif !ownsIdentity {\n\t\t\t\tbreak\n\t\t\t}\n')),
      why='the scan of the declared list gives up after the first element'),
 dict(name='capability-flags-scan-of-another-list', expect='flagged(routing/)',
      edits=flag_shape(loop=sub(FLAG_SCAN, 'for _, declared := range pluginCapabilities {', 'for _, declared := range metadata.Capabilities[:1] {')),
      why='the flags are computed from a list that is not the declared one'),
 dict(name='capability-flags-filter-keeps-every-capability', expect='flagged(routing/declared-capabilities)',
      edits=flag_shape(loop=sub(FLAG_FILTER_SWITCH, '\t\t\tdefault:\n\t\t\t\tcontinue\n', '')),
      why='flag shape, the declared list is no longer filtered to the two verification capabilities'),
]

# the flags computed by the lookup helper and handed back as results
FLAG_FILTER_HELPER = '''	var pluginCapabilities []pluginframework.Capability
	var ownsIdentity, ownsRevocation bool
	for _, capability := range metadata.Capabilities {
		switch capability {
		case pluginframework.CapabilityTrustedIdentityVerifier:
			ownsIdentity = true
		case pluginframework.CapabilityRevocationCheckVerifier:
			ownsRevocation = true
		default:
			continue
		}
		pluginCapabilities = append(pluginCapabilities, capability)
	}
'''
def flag_lookup_helper(ret='pluginCapabilities, ownsIdentity, ownsRevocation, nil', unnamed='return "", nil, nil, false, false, nil\n'):
    h = sub(LOOKUP_HELPER, '(string, pluginframework.VerifyPlugin, []pluginframework.Capability, error) {', '(string, pluginframework.VerifyPlugin, []pluginframework.Capability, bool, bool, error) {')
    h = sub(h, FILTER_LOOP, FLAG_FILTER_HELPER)
    h = h.replace('return "", nil, nil, ', 'return "", nil, nil, false, false, ')
    h = sub(h, 'return "", nil, nil, false, false, nil\n', unnamed)
    return sub(h, 'return verificationPluginName, installedPlugin, pluginCapabilities, nil', 'return verificationPluginName, installedPlugin, ' + ret)
FLAG_LOOKUP_CALL = sub(NEW_LOOKUP_CALL, 'installedPlugin, pluginCapabilities, err :=', 'installedPlugin, pluginCapabilities, ownsIdentity, ownsRevocation, err :=')
def flag_lookup_shape(helper=None, more=()):
    return lookup_shape(helper=helper or flag_lookup_helper(), call=FLAG_LOOKUP_CALL,
                        more=[(V, OLD_ID_GATE, '\tif !ownsIdentity {\n'), (V, NATIVE_REV_GATE, '!ownsRevocation {\n')] + list(more))

VARIANTS += [
 dict(name='benign-capability-flags-handed-back-by-lookup-helper', expect='silent', edits=flag_lookup_shape(),
      why='lookup helper + flags: the helper sets the flags in its filter loop and returns them next to the list'),
 dict(name='lookup-helper-hands-back-flags-swapped', expect='flagged(routing/)',
      edits=flag_lookup_shape(helper=flag_lookup_helper(ret='pluginCapabilities, ownsRevocation, ownsIdentity, nil'))),
 dict(name='lookup-helper-claims-revocation-without-plugin', expect='flagged(routing/revocation)',
      edits=flag_lookup_shape(helper=flag_lookup_helper(unnamed='return "", nil, nil, false, true, nil\n')),
      why='without a plugin named the helper answers "the plugin checks revocation": native revocation is skipped for every plain signature'),
]

# ---- third pass: the override loop / the store / the whole custom level in a helper of GetVerificationLevel
APPLY_HELPER = ('func applyOverrides(enforcement map[ValidationType]ValidationAction, overrides map[ValidationType]ValidationAction) error {\n' +
    OLD_OVERRIDE_LOOP.replace('range signatureVerification.Override {', 'range overrides {').replace('return nil, fmt.Errorf(', 'return fmt.Errorf(').replace('customVerificationLevel.Enforcement[validationType] = validationAction', 'enforcement[validationType] = validationAction') +
    '\treturn nil\n}\n\n')
assert APPLY_HELPER.count('return fmt.Errorf(') == 4
APPLY_CALL = '''	if err := applyOverrides(customVerificationLevel.Enforcement, signatureVerification.Override); err != nil {
		return nil, err
	}
'''
def apply_shape(helper=APPLY_HELPER, call=APPLY_CALL, more=()):
    return [(T, OLD_OVERRIDE_LOOP, call), (T, T_ANCHOR, helper + T_ANCHOR)] + list(more)

_c = _SRC_T.index('\tcustomVerificationLevel := &VerificationLevel{\n')
OLD_CUSTOM_TAIL = _SRC_T[_c:_b] + '\treturn customVerificationLevel, nil\n'
assert _SRC_T.count(OLD_CUSTOM_TAIL) == 1
CUSTOM_CTOR = ('func newCustomLevel(baseLevel *VerificationLevel, overrides map[ValidationType]ValidationAction) (*VerificationLevel, error) {\n' +
    OLD_CUSTOM_TAIL.replace('range signatureVerification.Override {', 'range overrides {') + '}\n\n')
def ctor_level_shape(ctor=CUSTOM_CTOR, call='\treturn newCustomLevel(baseLevel, signatureVerification.Override)\n', more=()):
    return [(T, OLD_CUSTOM_TAIL, call), (T, T_ANCHOR, ctor + T_ANCHOR)] + list(more)
SKIP_BASE_GATE = '''	if baseLevel == LevelSkip {
		return nil, fmt.Errorf("signature verification level %q can't be used to customize signature verification", baseLevel.Name)
	}
'''
PUT_HELPER = 'func putAction(enforcement map[ValidationType]ValidationAction, validationType ValidationType, validationAction ValidationAction) {\n\tenforcement[validationType] = validationAction\n}\n\n'

VARIANTS += [
 dict(name='benign-overrides-applied-by-helper', expect='silent', edits=apply_shape(),
      why='the loop over the overrides (lookups, rules, store) moved into applyOverrides(freshMap, overrides) error'),
 dict(name='benign-overrides-applied-by-helper-rules-in-validator', expect='silent',
      edits=apply_shape(helper=sub(APPLY_HELPER, OLD_OVERRIDE_RULES.replace('return nil, fmt.Errorf(', 'return fmt.Errorf('), NEW_OVERRIDE_RULES.replace('return nil, err', 'return err')) + OVERRIDE_VALIDATOR),
      why='two levels: applyOverrides asks checkOverride'),
 dict(name='benign-custom-level-built-by-constructor', expect='silent', edits=ctor_level_shape(),
      why='everything behind the skip test moved into newCustomLevel(base, overrides) (*VerificationLevel, error); GetVerificationLevel returns its answer'),
 dict(name='benign-override-stored-by-setter', expect='silent',
      edits=[(T, '\t\tcustomVerificationLevel.Enforcement[validationType] = validationAction\n', '\t\tputAction(customVerificationLevel.Enforcement, validationType, validationAction)\n'), (T, T_ANCHOR, PUT_HELPER + T_ANCHOR)],
      why='only the store is a helper: the gates are on the way to its call site'),
 dict(name='benign-override-entry-found-by-library-search', expect='silent',
      edits=whole_entry_shape(helper=WHOLE_ENTRY_VALIDATOR.replace('validationType == "" || ', '').replace('validationAction == "" || ', '')),
      why='supported type / action decided by slices.Contains on the tables of supported values alone'),
 dict(name='overrides-helper-allows-skip-for-expiry', expect='flagged(custom/skip-only-revocation)',
      edits=apply_shape(helper=sub(APPLY_HELPER, '} else if validationType != TypeRevocation && validationAction == ActionSkip {', '} else if validationType != TypeRevocation && validationType != TypeExpiry && validationAction == ActionSkip {'))),
 dict(name='overrides-helper-integrity-rule-dropped', expect='flagged(custom/integrity)',
      edits=apply_shape(helper=sub(APPLY_HELPER, '\t\tif validationType == TypeIntegrity {\n\t\t\treturn fmt.Errorf("%q verification can not be overridden in custom signature verification", key)\n\t\t} else if', '\t\tif'))),
 dict(name='overrides-helper-writes-shared-map', expect='flagged(custom/fresh-map)',
      edits=apply_shape(call=sub(APPLY_CALL, 'applyOverrides(customVerificationLevel.Enforcement,', 'applyOverrides(baseLevel.Enforcement,'))),
 dict(name='custom-level-constructor-from-skip', expect='flagged(custom/skip-base)',
      edits=ctor_level_shape(more=[(T, SKIP_BASE_GATE, '')]),
      why='constructor shape, the test that the base level is not skip is gone'),
 dict(name='custom-level-constructor-allows-any-skip', expect='flagged(custom/skip-only-revocation)',
      edits=ctor_level_shape(ctor=sub(CUSTOM_CTOR, '} else if validationType != TypeRevocation && validationAction == ActionSkip {', '} else if validationType == TypeAuthenticity && validationAction == ActionSkip {'))),
 dict(name='override-setter-called-before-the-rules', expect='flagged(custom/)',
      edits=[(T, '\t\tcustomVerificationLevel.Enforcement[validationType] = validationAction\n', ''), (T, OLD_OVERRIDE_RULES, '\t\tputAction(customVerificationLevel.Enforcement, validationType, validationAction)\n' + OLD_OVERRIDE_RULES), (T, T_ANCHOR, PUT_HELPER + T_ANCHOR)],
      why='the setter is called before the integrity / skip rules: the store is no longer gated by them'),
]

# the two answers computed once, by slices.Contains, where the declared list is complete (inside the "plugin named" block)
ANSWERS_ONCE = '''		ownsIdentity = slices.Contains(pluginCapabilities, pluginframework.CapabilityTrustedIdentityVerifier)
		ownsRevocation = slices.Contains(pluginCapabilities, pluginframework.CapabilityRevocationCheckVerifier)
		if len(pluginCapabilities) == 0 {
'''
def once_shape(answers=ANSWERS_ONCE, more=()):
    return [(V, OLD_CAPS_DECL, NEW_CAPS_DECL), (V, '\t\tif len(pluginCapabilities) == 0 {\n', answers), (V, OLD_ID_GATE, '\tif !ownsIdentity {\n'),
            (V, NATIVE_REV_GATE, '!ownsRevocation {\n')] + list(more)
VARIANTS += [
 dict(name='benign-ownership-answers-computed-once-by-contains', expect='silent', edits=once_shape(),
      why='var ownsIdentity, ownsRevocation bool; inside the plugin block: owns… = slices.Contains(pluginCapabilities, …); the gates read the locals'),
 dict(name='ownership-answers-computed-once-from-raw-metadata', expect='flagged(routing/)',
      edits=once_shape(answers=ANSWERS_ONCE.replace('slices.Contains(pluginCapabilities, pluginframework.CapabilityRevocationCheckVerifier)', 'slices.Contains(metadata.Capabilities[:0], pluginframework.CapabilityRevocationCheckVerifier)')),
      why='one answer is asked of another list'),
 dict(name='ownership-answers-computed-once-constants-swapped', expect='flagged(routing/)',
      edits=once_shape(answers=ANSWERS_ONCE.replace('CapabilityTrustedIdentityVerifier)', 'CapabilityX)').replace('CapabilityRevocationCheckVerifier)', 'CapabilityTrustedIdentityVerifier)').replace('CapabilityX)', 'CapabilityRevocationCheckVerifier)'))),
]

# ---- fourth pass: the lookup helper is the BODY of the named branch — `if verificationPluginName != "" {…}` stays in
# ---- processSignature, what stood inside it is (*verifier).locateVerificationPlugin(ctx, name, signerInfo, config)
# ---- (held-out refactoring C12-1 of the fourth batch); further members of the class: the cut behind the reading of the
# ---- minimum version, a free function handed the manager, the test spelled the other way round
_nb_a = OLD_LOOKUP.index('\t\tlogger.Debugf("Finding verification plugin %q"')
_nb_b = OLD_LOOKUP.rindex('\t}\n')
OLD_NAMED_BODY = OLD_LOOKUP[_nb_a:_nb_b]
assert _SRC_V.count(OLD_NAMED_BODY) == 1
def _dedent(text):
    return ''.join(l[1:] if l.startswith('\t') else l for l in text.splitlines(True))
_nb = _dedent(OLD_NAMED_BODY)
_nb = _nb.replace('&outcome.EnvelopeContent.SignerInfo', 'signerInfo').replace('return notation.', 'return nil, nil, notation.').replace('\t\treturn err\n', '\t\treturn nil, nil, err\n')
_nb = sub(_nb, '\tinstalledPlugin, err = v.pluginManager.Get(', '\tinstalledPlugin, err := v.pluginManager.Get(')
_nb = sub(_nb, '\tfor _, capability := range metadata.Capabilities {\n', '\tvar pluginCapabilities []pluginframework.Capability\n\tfor _, capability := range metadata.Capabilities {\n')
BODY_HELPER = ('func (v *verifier) locateVerificationPlugin(ctx context.Context, verificationPluginName string, signerInfo *signature.SignerInfo, pluginConfig map[string]string) (pluginframework.VerifyPlugin, []pluginframework.Capability, error) {\n'
    + '\tlogger := log.GetLogger(ctx)\n\n' + _nb + '\treturn installedPlugin, pluginCapabilities, nil\n}\n\n')
BODY_CALL = '''		installedPlugin, pluginCapabilities, err = v.locateVerificationPlugin(ctx, verificationPluginName, &outcome.EnvelopeContent.SignerInfo, pluginConfig)
		if err != nil {
			return err
		}
'''
def body_shape(helper=BODY_HELPER, call=BODY_CALL, more=()):
    return [(V, OLD_NAMED_BODY, call), (V, ANCHOR, helper + ANCHOR)] + list(more)

# the cut one statement further down: the minimum version is read by processSignature and handed in
_MV_READ = '''	verificationPluginMinVersion, err := getVerificationPluginMinVersion(signerInfo)
	if err != nil && err != errExtendedAttributeNotExist {
		return nil, nil, notation.ErrorVerificationInconclusive{Msg: fmt.Sprintf("error while getting plugin minimum version, error: %s", err)}
	}

'''
BODY_HELPER_MV = sub(sub(BODY_HELPER, _MV_READ, ''), 'verificationPluginName string, signerInfo *signature.SignerInfo, ', 'verificationPluginName, verificationPluginMinVersion string, ')
BODY_CALL_MV = '''		verificationPluginMinVersion, err := getVerificationPluginMinVersion(&outcome.EnvelopeContent.SignerInfo)
		if err != nil && err != errExtendedAttributeNotExist {
			return notation.ErrorVerificationInconclusive{Msg: fmt.Sprintf("error while getting plugin minimum version, error: %s", err)}
		}
		installedPlugin, pluginCapabilities, err = v.locateVerificationPlugin(ctx, verificationPluginName, verificationPluginMinVersion, pluginConfig)
		if err != nil {
			return err
		}
'''
# a free function that is handed the manager
BODY_FUNC = sub(sub(sub(BODY_HELPER, 'func (v *verifier) locateVerificationPlugin(ctx context.Context, ', 'func locateVerificationPlugin(ctx context.Context, manager plugin.Manager, '),
    '\tif v.pluginManager == nil {', '\tif manager == nil {'), 'v.pluginManager.Get(', 'manager.Get(')
BODY_CALL_FUNC = sub(BODY_CALL, 'v.locateVerificationPlugin(ctx, ', 'locateVerificationPlugin(ctx, v.pluginManager, ')
# the test in processSignature spelled with the empty side first (guard form): `if name == "" { nothing to look up } else { … }`
NAMED_IF = '\tif verificationPluginName != "" {\n' + OLD_NAMED_BODY + '\t}\n'
assert _SRC_V.count(NAMED_IF) == 1
ELSE_FORM = '\tif verificationPluginName == "" {\n\t\tlogger.Debug("The signature names no verification plugin")\n\t} else {\n' + BODY_CALL + '\t}\n'

VARIANTS += [
 dict(name='benign-lookup-body-helper', expect='silent', edits=body_shape(),
      why='the body of `if verificationPluginName != ""` is (*verifier).locateVerificationPlugin(ctx, name, signerInfo, config); the name test stays in processSignature (refactoring C12-1, fourth batch)'),
 dict(name='benign-lookup-body-helper-cut-behind-min-version', expect='silent', edits=body_shape(helper=BODY_HELPER_MV, call=BODY_CALL_MV),
      why='same extraction cut one statement further down: processSignature reads the minimum version (inside the named branch) and hands it in'),
 dict(name='benign-lookup-body-helper-function-form', expect='silent', edits=body_shape(helper=BODY_FUNC, call=BODY_CALL_FUNC),
      why='the body helper as a free function that is handed v.pluginManager'),
 dict(name='benign-lookup-body-helper-else-form', expect='silent', edits=[(V, NAMED_IF, ELSE_FORM), (V, ANCHOR, BODY_HELPER + ANCHOR)],
      why='processSignature tests name == "" and calls the body helper in the else branch'),
 # the body helper with the property broken
 dict(name='lookup-body-helper-error-dropped', expect='flagged(plugin/lookup-error)',
      edits=body_shape(call='\t\tinstalledPlugin, pluginCapabilities, _ = v.locateVerificationPlugin(ctx, verificationPluginName, &outcome.EnvelopeContent.SignerInfo, pluginConfig)\n')),
 dict(name='lookup-body-helper-get-error-ignored', expect='flagged(plugin/get-error)',
      edits=body_shape(helper=sub(BODY_HELPER, 'Get(ctx, verificationPluginName)\n\tif err != nil {', 'Get(ctx, verificationPluginName)\n\tif err != nil && installedPlugin == nil {'))),
 dict(name='lookup-body-helper-manager-nil-unchecked', expect='flagged(plugin/manager-nil)',
      edits=body_shape(helper=sub(BODY_HELPER, '\tif v.pluginManager == nil {', '\tif v.pluginManager == nil && pluginConfig != nil {'))),
 dict(name='lookup-body-helper-no-capability-accepted', expect='flagged(plugin/no-capability)',
      edits=body_shape(helper=sub(BODY_HELPER, '\tif len(pluginCapabilities) == 0 {', '\tif len(pluginCapabilities) == 0 && pluginConfig != nil {'))),
 dict(name='lookup-body-helper-min-version-attr-ignored', expect='flagged(plugin/min-version-attr)',
      edits=body_shape(helper=sub(BODY_HELPER, '\tif err != nil && err != errExtendedAttributeNotExist {\n\t\treturn nil, nil, notation.', '\tif err != nil && err != errExtendedAttributeNotExist && pluginConfig != nil {\n\t\treturn nil, nil, notation.'))),
 dict(name='lookup-body-helper-min-version-attr-ignored-by-caller', expect='flagged(plugin/min-version-attr)',
      edits=body_shape(helper=BODY_HELPER_MV, call=sub(BODY_CALL_MV, '\t\tif err != nil && err != errExtendedAttributeNotExist {', '\t\tif err != nil && err != errExtendedAttributeNotExist && pluginConfig != nil {')),
      why='the cut behind the minimum version: the caller lets a malformed attribute pass'),
 dict(name='lookup-body-helper-name-attr-error-ignored', expect='flagged(plugin/name-attr)',
      edits=body_shape(more=[(V, '\t// use plugin, but getPluginName returns an error\n\tif err != nil && err != errExtendedAttributeNotExist {\n', '\t// use plugin, but getPluginName returns an error\n\tif err != nil && err != errExtendedAttributeNotExist && pluginConfig != nil {\n')]),
      why='the name is a parameter of the helper; the obligation on its reader is decided in the caller'),
 dict(name='lookup-body-helper-hands-back-nil-plugin', expect='flagged(plugin/lookup-results)',
      edits=body_shape(helper=sub(BODY_HELPER, '\treturn installedPlugin, pluginCapabilities, nil\n', '\treturn nil, pluginCapabilities, nil\n')),
      why='a plugin is named and found, the processing function is told there is none: it is never executed'),
 dict(name='lookup-body-helper-early-success-exit', expect='flagged(plugin/lookup-results)',
      edits=body_shape(helper=sub(BODY_HELPER, '\tif v.pluginManager == nil {\n', '\tif pluginConfig == nil {\n\t\treturn nil, nil, nil\n\t}\n\tif v.pluginManager == nil {\n')),
      why='with a plugin named and no plugin config the helper answers "nothing found" without an error'),
 dict(name='lookup-body-helper-unfiltered-capabilities', expect='flagged(routing/declared-capabilities)',
      edits=body_shape(helper=sub(BODY_HELPER, '\treturn installedPlugin, pluginCapabilities, nil\n', '\treturn installedPlugin, metadata.Capabilities, nil\n'))),
 dict(name='lookup-body-helper-looks-up-other-name', expect='flagged(plugin/)',
      edits=body_shape(call=sub(BODY_CALL, '(ctx, verificationPluginName, &outcome', '(ctx, policyName, &outcome')),
      why='the helper is entered under the test of the signature\'s plugin name but looks up another string'),
 dict(name='lookup-body-helper-entered-under-weaker-test', expect='flagged(plugin/)',
      edits=[(V, NAMED_IF, '\tif verificationPluginName != "" || pluginConfig != nil {\n' + BODY_CALL + '\t}\n'), (V, ANCHOR, BODY_HELPER + ANCHOR)],
      why='the helper no longer runs exactly when a plugin is named: its exits are not "plugin named" exits'),
 dict(name='lookup-body-helper-capabilities-primed-by-caller', expect='flagged(routing/declared-capabilities)',
      edits=body_shape(more=[(V, '\tvar pluginCapabilities []pluginframework.Capability\n\tverificationPluginName, err := getVerificationPlugin(', '\tpluginCapabilities := []pluginframework.Capability{pluginframework.CapabilityTrustedIdentityVerifier}\n\tverificationPluginName, err := getVerificationPlugin(')]),
      why='with no plugin named the caller\'s own list routes the native identity check away to nobody'),
]

# the body helper handing back ONE result object
BODY_STRUCT = ('type locatedPlugin struct {\n\tinstalled    pluginframework.VerifyPlugin\n\tcapabilities []pluginframework.Capability\n}\n\n' +
    sub(BODY_HELPER.replace('(pluginframework.VerifyPlugin, []pluginframework.Capability, error) {', '(locatedPlugin, error) {').replace('return nil, nil, ', 'return locatedPlugin{}, '),
        '\treturn installedPlugin, pluginCapabilities, nil\n', '\treturn locatedPlugin{installed: installedPlugin, capabilities: pluginCapabilities}, nil\n'))
BODY_CALL_STRUCT = '''		located, err := v.locateVerificationPlugin(ctx, verificationPluginName, &outcome.EnvelopeContent.SignerInfo, pluginConfig)
		if err != nil {
			return err
		}
		installedPlugin, pluginCapabilities = located.installed, located.capabilities
'''
VARIANTS += [
 dict(name='benign-lookup-body-helper-result-object', expect='silent', edits=body_shape(helper=BODY_STRUCT, call=BODY_CALL_STRUCT),
      why='the body helper hands back locatedPlugin{installed, capabilities}; the caller copies the two fields into its locals'),
 dict(name='lookup-body-helper-result-object-without-plugin', expect='flagged(plugin/lookup-results)',
      edits=body_shape(helper=sub(BODY_STRUCT, 'locatedPlugin{installed: installedPlugin, capabilities: pluginCapabilities}, nil', 'locatedPlugin{capabilities: pluginCapabilities}, nil'), call=BODY_CALL_STRUCT),
      why='the result object of the body helper carries the capabilities but not the plugin that was looked up'),
 dict(name='lookup-body-helper-result-object-raw-capabilities', expect='flagged(routing/declared-capabilities)',
      edits=body_shape(helper=sub(BODY_STRUCT, 'locatedPlugin{installed: installedPlugin, capabilities: pluginCapabilities}, nil', 'locatedPlugin{installed: installedPlugin, capabilities: metadata.Capabilities}, nil'), call=BODY_CALL_STRUCT)),
]
VARIANTS += [
 dict(name='lookup-body-helper-plugin-dropped-by-caller', expect='flagged(critical-attr-accounting/no-plugin-named)',
      edits=body_shape(call=sub(BODY_CALL, 'installedPlugin, pluginCapabilities, err = v.locate', '_, pluginCapabilities, err = v.locate')),
      why='the caller keeps the capabilities of the named plugin (native checks routed away) but not the plugin: nothing is ever executed'),
]

# ==== fifth pass =======================================================================================================
# ---- class "sentinel error vs empty value": 'the signature names a plugin' decided on the ERROR of the name reader
#      (`err == errExtendedAttributeNotExist` -> none, `err != nil` -> fail, else named) instead of on `name != ""`
OLD_NAME_GUARD = '''	verificationPluginName, err := getVerificationPlugin(signerInfo)
	// use plugin, but getPluginName returns an error
	if err != nil && err != errExtendedAttributeNotExist {
		return "", nil, nil, err
	}
	if verificationPluginName == "" {
		// the signature does not require a verification plugin
		return "", nil, nil, nil
	}
'''
assert OLD_NAME_GUARD in LOOKUP_HELPER
SENTINEL_GUARD = '''	verificationPluginName, err := getVerificationPlugin(signerInfo)
	if err == errExtendedAttributeNotExist {
		// the signature does not require a verification plugin
		return "", nil, nil, nil
	}
	if err != nil {
		return "", nil, nil, err
	}
'''
SENTINEL_HELPER = sub(LOOKUP_HELPER, OLD_NAME_GUARD, SENTINEL_GUARD)
SENTINEL_SWITCH = '''	verificationPluginName, err := getVerificationPlugin(signerInfo)
	switch {
	case errors.Is(err, errExtendedAttributeNotExist):
		return "", nil, nil, nil
	case err != nil:
		return "", nil, nil, err
	}
'''
NOT_NIL_FIRST = '''	verificationPluginName, err := getVerificationPlugin(signerInfo)
	if err != nil {
		if err != errExtendedAttributeNotExist {
			return "", nil, nil, err
		}
		return "", nil, nil, nil
	}
'''
OLD_INLINE_IF = '\tvar installedPlugin pluginframework.VerifyPlugin\n\tif verificationPluginName != "" {\n'
assert OLD_INLINE_IF in _SRC_V
OLD_TRIM = '''	// not an empty string
	if strings.TrimSpace(name) == "" {
		return "", fmt.Errorf("%v from extended attribute is an empty string", HeaderVerificationPlugin)
	}
	return name, nil
'''
assert OLD_TRIM in open('/repo/' + H).read()
VARIANTS += [
 dict(name='benign-lookup-sentinel-guard', expect='silent', edits=lookup_shape(helper=SENTINEL_HELPER),
      why='the lookup helper decides "no plugin named" on err == errExtendedAttributeNotExist of the name reader and "named" on err == nil: the reader answers nil only with a non-blank name and "" with every error (held-out refactoring C02-1 of batch 5)'),
 dict(name='benign-lookup-sentinel-guard-result-struct', expect='silent', edits=struct_shape(helper=struct_helper(helper=SENTINEL_HELPER)),
      why='same, one result object'),
 dict(name='benign-lookup-sentinel-switch-errors-is', expect='silent', edits=lookup_shape(helper=sub(LOOKUP_HELPER, OLD_NAME_GUARD, SENTINEL_SWITCH)),
      why='same, as a tagless switch with errors.Is'),
 dict(name='benign-lookup-error-nested-sentinel', expect='silent', edits=lookup_shape(helper=sub(LOOKUP_HELPER, OLD_NAME_GUARD, NOT_NIL_FIRST)),
      why='same, `if err != nil { if err != sentinel { fail }; none }`: the no-plugin exit lies behind err != nil'),
 dict(name='benign-inline-named-on-nil-error', expect='silent', file=V, find=OLD_INLINE_IF,
      replace='\tvar installedPlugin pluginframework.VerifyPlugin\n\tif err == nil {\n',
      why='no helper: the named branch of processSignature is entered on err == nil of the name reader'),
 dict(name='benign-inline-named-on-trimmed-name', expect='silent', file=V, find=OLD_INLINE_IF,
      replace='\tvar installedPlugin pluginframework.VerifyPlugin\n\tif strings.TrimSpace(verificationPluginName) != "" {\n',
      why='the named branch is entered on a non-blank name (a non-blank name is non-empty)'),
 # broken counterparts
 dict(name='lookup-sentinel-guard-any-error-is-no-plugin', expect='flagged(plugin/name-attr)',
      edits=lookup_shape(helper=sub(SENTINEL_HELPER, '\t\treturn "", nil, nil, nil\n\t}\n\tif err != nil {\n\t\treturn "", nil, nil, err\n\t}\n', '\t\treturn "", nil, nil, nil\n\t}\n\tif err != nil {\n\t\treturn "", nil, nil, nil\n\t}\n')),
      why='a malformed plugin-name attribute is taken for "no plugin"'),
 dict(name='lookup-sentinel-guard-hands-back-capabilities', expect='flagged(plugin/lookup-results)',
      edits=lookup_shape(helper=sub(SENTINEL_HELPER, '\t\t// the signature does not require a verification plugin\n\t\treturn "", nil, nil, nil\n',
                                    '\t\treturn "", nil, []pluginframework.Capability{pluginframework.CapabilityTrustedIdentityVerifier}, nil\n')),
      why='with no plugin named the helper declares a capability: the native identity check is routed away to nobody'),
 dict(name='lookup-sentinel-guard-widened', expect='flagged(plugin/lookup-results)',
      edits=lookup_shape(helper=sub(SENTINEL_HELPER, '\tif err == errExtendedAttributeNotExist {\n', '\tif err == errExtendedAttributeNotExist || pluginConfig == nil {\n')),
      why='the "no plugin" exit is also taken with a plugin named'),
 dict(name='lookup-sentinel-guard-reader-accepts-blank-name', expect='flagged(plugin/)',
      edits=lookup_shape(helper=SENTINEL_HELPER, more=[(H, OLD_TRIM, '\treturn name, nil\n')]),
      why='the reader answers err == nil with an empty name: err == nil no longer means that a plugin is named'),
 dict(name='lookup-sentinel-guard-reader-returns-name-with-error', expect='flagged(plugin/)',
      edits=lookup_shape(helper=SENTINEL_HELPER, more=[(H, '\t\treturn "", fmt.Errorf("%v from extended attribute is an empty string", HeaderVerificationPlugin)\n', '\t\treturn name, errExtendedAttributeNotExist\n')]),
      why='the reader hands back a name together with the sentinel: err == sentinel no longer means name == ""'),
 dict(name='lookup-sentinel-guard-sentinel-reassigned', expect='flagged(plugin/)',
      edits=lookup_shape(helper=SENTINEL_HELPER + 'func resetAttributeSentinel() {\n\terrExtendedAttributeNotExist = nil\n}\n\n'),
      why='the sentinel variable can become nil: err == sentinel then holds for a reader that succeeded'),
 dict(name='lookup-sentinel-guard-get-error-ignored', expect='flagged(plugin/get-error)',
      edits=lookup_shape(helper=sub(SENTINEL_HELPER, 'Get(ctx, verificationPluginName)\n\tif err != nil {', 'Get(ctx, verificationPluginName)\n\tif err != nil && installedPlugin == nil {')),
      why='the fail-closed gates are still required on the named exits found through the error spelling'),
 dict(name='inline-named-on-nil-error-or-config', expect='flagged(plugin/)', file=V, find=OLD_INLINE_IF,
      replace='\tvar installedPlugin pluginframework.VerifyPlugin\n\tif err == nil && pluginConfig != nil {\n',
      why='with a plugin named and no plugin config the lookup is skipped: the plugin is never found nor executed'),
]

# ---- class "several parameters bundled into a struct / parameter widened": the trusted identities reach the native
#      identity check through a field of a policy struct, or are read off the policy document handed in
_PS_SIG = 'envelopeMediaType, policyName string, trustedIdentities, trustStores []string, signatureVerification trustpolicy.SignatureVerification, pluginConfig'
assert _SRC_V.count(_PS_SIG) == 1
_PS_CALL = 'trustPolicy.Name, trustPolicy.TrustedIdentities, trustPolicy.TrustStores, trustPolicy.SignatureVerification, '
assert _SRC_V.count(_PS_CALL) == 2
POLICY_TYPE = 'type policyStatement struct {\n\tname                  string\n\ttrustedIdentities     []string\n\ttrustStores           []string\n\tsignatureVerification trustpolicy.SignatureVerification\n}\n\n'
POLICY_LIT = 'policyStatement{name: trustPolicy.Name, trustedIdentities: trustPolicy.TrustedIdentities, trustStores: trustPolicy.TrustStores, signatureVerification: trustPolicy.SignatureVerification}'
def policy_shape(lit=POLICY_LIT, ptype='policy policyStatement', acc='policy.', decl=POLICY_TYPE, ti=None, more=()):
    ti = ti if ti is not None else acc + 'trustedIdentities'
    return [(V, _PS_CALL, lit + ', '), (V, _PS_CALL, lit + ', '),
            (V, _PS_SIG, 'envelopeMediaType string, ' + ptype + ', pluginConfig'),
            (V, 'SigningScheme, policyName, trustStores, v.trustStore)', 'SigningScheme, %sname, %strustStores, v.trustStore)' % (acc, acc)),
            (V, 'verifyX509TrustedIdentities(policyName, trustedIdentities, outcome', 'verifyX509TrustedIdentities(%sname, %s, outcome' % (acc, ti)),
            (V, 'verifyAuthenticTimestamp(ctx, policyName, trustStores, signatureVerification, v.trustStore', 'verifyAuthenticTimestamp(ctx, %sname, %strustStores, %ssignatureVerification, v.trustStore' % (acc, acc, acc)),
            (V, 'outcome.EnvelopeContent, trustedIdentities, pluginConfig)\n\t\t\tif err != nil {', 'outcome.EnvelopeContent, %strustedIdentities, pluginConfig)\n\t\t\tif err != nil {' % acc),
            (V, ANCHOR, decl + ANCHOR)] + list(more)
VARIANTS += [
 dict(name='benign-policy-parameters-in-struct', expect='silent', edits=policy_shape(),
      why='the four policy parameters of processSignature bundled into one struct value (held-out refactoring C01-2 of batch 5)'),
 dict(name='benign-policy-parameters-in-struct-pointer', expect='silent', edits=policy_shape(lit='&' + POLICY_LIT, ptype='policy *policyStatement'),
      why='same, handed over by pointer'),
 dict(name='benign-policy-struct-identities-in-local', expect='silent',
      edits=policy_shape(ti='identities', more=[(V, '\t\tlogger.Debug("Validating trust identity")\n', '\t\tlogger.Debug("Validating trust identity")\n\t\tidentities := policy.trustedIdentities\n')]),
      why='same, the field copied into a local before the check'),
 dict(name='policy-struct-identities-from-trust-stores', expect='flagged(routing/identity)',
      edits=policy_shape(lit=POLICY_LIT.replace('trustedIdentities: trustPolicy.TrustedIdentities', 'trustedIdentities: trustPolicy.TrustStores')),
      why='the identity check is handed the trust store names: no check against the trusted identities of the policy is recognised'),
 dict(name='policy-struct-identities-overwritten', expect='flagged(routing/identity)',
      edits=policy_shape(more=[(V, '\t\tlogger.Debug("Validating trust identity")\n', '\t\tlogger.Debug("Validating trust identity")\n\t\tif pluginConfig != nil {\n\t\t\tpolicy.trustedIdentities = []string{"*"}\n\t\t}\n')]),
      why='the field is assigned a wildcard on some path: what the check receives is not the policy\'s list'),
 dict(name='policy-struct-pointer-identities-overwritten', expect='flagged(routing/identity)',
      edits=policy_shape(lit='&' + POLICY_LIT, ptype='policy *policyStatement', more=[(V, '\t\tlogger.Debug("Validating trust identity")\n', '\t\tlogger.Debug("Validating trust identity")\n\t\tif pluginConfig != nil {\n\t\t\tpolicy.trustedIdentities = []string{"*"}\n\t\t}\n')]),
      why='pointer shape: the callee writes the field of the object it was handed, the check may receive a wildcard'),
 dict(name='benign-inline-blank-name-guard', expect='silent', file=V, find=OLD_INLINE_IF,
      replace='\tvar installedPlugin pluginframework.VerifyPlugin\n\tif err == nil && len(strings.TrimSpace(verificationPluginName)) > 0 {\n',
      why='both spellings at once'),
 dict(name='policy-struct-identity-check-unguarded-skip', expect='flagged(routing/identity)',
      edits=policy_shape(more=[(V, '\tif !slices.Contains(pluginCapabilities, pluginframework.CapabilityTrustedIdentityVerifier) {\n\t\tlogger.Debug("Validating trust identity")', '\tif !slices.Contains(pluginCapabilities, pluginframework.CapabilityTrustedIdentityVerifier) && installedPlugin == nil {\n\t\tlogger.Debug("Validating trust identity")')]),
      why='struct shape with the property broken: with any plugin named the native identity check is skipped, whether or not the plugin declares the capability'),
]

# ---- guard-mutation pass: a guard that is still written but no longer taken (`if false && (C)`, `if other && C`) -------------
_ID_VERDICT = '\t\t\tif !pluginResult.Success {\n\t\t\t\t// find the Authenticity'
_REV_VERDICT = '\t\t\tif !pluginResult.Success {\n\t\t\t\trevocationResult = &notation.ValidationResult{\n\t\t\t\t\tError:'
_EXEC_GUARD = '\tif installedPlugin != nil {\n\t\tvar capabilitiesToVerify'
_ID_ARM_OLD = '''			if !pluginResult.Success {
				// find the Authenticity VerificationResult that we already
				// created during x509 trust store verification
				var authenticityResult *notation.ValidationResult
				for _, r := range outcome.VerificationResults {
					if r.Type == trustpolicy.TypeAuthenticity {
						authenticityResult = r
						break
					}
				}

				authenticityResult.Error = fmt.Errorf("trusted identify verification by plugin %q failed with reason %q", verificationPluginName, pluginResult.Reason)

				if isCriticalFailure(authenticityResult) {
					return authenticityResult.Error
				}
			}
'''
_ID_ARM_SWITCH = '''			switch {
			case !pluginResult.Success:
				var authenticityResult *notation.ValidationResult
				for _, r := range outcome.VerificationResults {
					if r.Type == trustpolicy.TypeAuthenticity {
						authenticityResult = r
						break
					}
				}

				authenticityResult.Error = fmt.Errorf("trusted identify verification by plugin %q failed with reason %q", verificationPluginName, pluginResult.Reason)

				if isCriticalFailure(authenticityResult) {
					return authenticityResult.Error
				}
			}
'''
_EXEC_OLD = '''		if len(capabilitiesToVerify) > 0 {
			logger.Debugf("Executing verification plugin %q with capabilities %v", verificationPluginName, capabilitiesToVerify)
			response, err := executePlugin(ctx, installedPlugin, capabilitiesToVerify, outcome.EnvelopeContent, trustedIdentities, pluginConfig)
			if err != nil {
				return fmt.Errorf("failed to verify with plugin %s: %w", verificationPluginName, err)
			}

			return processPluginResponse(capabilitiesToVerify, response, outcome)
		}
	}

	if installedPlugin == nil {
'''
_EXEC_EARLY = '''		if len(capabilitiesToVerify) == 0 {
			return nil
		}
		logger.Debugf("Executing verification plugin %q with capabilities %v", verificationPluginName, capabilitiesToVerify)
		response, err := executePlugin(ctx, installedPlugin, capabilitiesToVerify, outcome.EnvelopeContent, trustedIdentities, pluginConfig)
		if err != nil {
			return fmt.Errorf("failed to verify with plugin %s: %w", verificationPluginName, err)
		}

		return processPluginResponse(capabilitiesToVerify, response, outcome)
	}

	if installedPlugin == nil {
'''
VARIANTS += [
 dict(name='gm-identity-verdict-guard-never-taken', expect='flagged(plugin/verdict-trusted-identity/every-path)', file=V,
      find=_ID_VERDICT, replace=_ID_VERDICT.replace('if !pluginResult.Success {', 'if false && (!pluginResult.Success) {'),
      why='the test of the identity verdict is written but not reached: a failed verdict of the plugin is passed over (guard mutant verifier.go:662)'),
 dict(name='gm-identity-verdict-guard-extra-conjunct', expect='flagged(plugin/verdict-trusted-identity/every-path)', file=V,
      find=_ID_VERDICT, replace=_ID_VERDICT.replace('if !pluginResult.Success {', 'if len(capabilitiesToVerify) > 1 && !pluginResult.Success {'),
      why='the failed identity verdict counts only when the plugin was asked for both capabilities'),
 dict(name='gm-identity-verdict-guard-reason-first', expect='flagged(plugin/verdict-trusted-identity/every-path)', file=V,
      find=_ID_VERDICT, replace=_ID_VERDICT.replace('if !pluginResult.Success {', 'if pluginResult.Reason != "" && !pluginResult.Success {'),
      why='a failed verdict without a reason is passed over; the conjunct stands before the Success test'),
 dict(name='gm-revocation-verdict-guard-never-taken', expect='flagged(plugin/verdict-revocation)', file=V,
      find=_REV_VERDICT, replace=_REV_VERDICT.replace('if !pluginResult.Success {', 'if false && (!pluginResult.Success) {'),
      why='the same slip in the revocation arm: every verdict yields the result without an error'),
 dict(name='benign-gm-identity-verdict-compared-with-false', expect='silent', file=V,
      find=_ID_VERDICT, replace=_ID_VERDICT.replace('if !pluginResult.Success {', 'if false == pluginResult.Success {'),
      why='the same guard, spelled as a comparison with the constant (operands swapped)'),
 dict(name='benign-gm-identity-verdict-flag-in-local', expect='silent', file=V,
      find=_ID_VERDICT, replace=_ID_VERDICT.replace('if !pluginResult.Success {', 'if accepted := pluginResult.Success; !accepted {'),
      why='the same guard, the flag copied to a local first'),
 dict(name='benign-gm-identity-verdict-tagless-switch', expect='silent', file=V, find=_ID_ARM_OLD, replace=_ID_ARM_SWITCH,
      why='the same guard as the only case of a tagless switch'),
 dict(name='gm-identity-verdict-tagless-switch-extra-conjunct', expect='flagged(plugin/verdict-trusted-identity/every-path)', file=V, find=_ID_ARM_OLD,
      replace=_ID_ARM_SWITCH.replace('case !pluginResult.Success:', 'case len(capabilitiesToVerify) > 1 && !pluginResult.Success:'),
      why='switch shape with the guard weakened'),
 dict(name='gm-plugin-execution-guard-never-taken', expect='flagged(routing/executed-when-requested)', file=V,
      find=_EXEC_GUARD, replace=_EXEC_GUARD.replace('if installedPlugin != nil {', 'if false && (installedPlugin != nil) {'),
      why='the plugin is named, its capabilities switch the native checks off, and it is never run (guard mutant verifier.go:544)'),
 dict(name='gm-plugin-execution-guard-extra-conjunct', expect='flagged(routing/executed-when-requested)', file=V,
      find=_EXEC_GUARD, replace=_EXEC_GUARD.replace('if installedPlugin != nil {', 'if len(trustedIdentities) > 1 && installedPlugin != nil {'),
      why='the plugin is run only when the policy lists several identities'),
 dict(name='gm-plugin-execution-guard-config-conjunct', expect='flagged(routing/executed-when-requested)', file=V,
      find=_EXEC_GUARD, replace=_EXEC_GUARD.replace('if installedPlugin != nil {', 'if pluginConfig != nil && installedPlugin != nil {'),
      why='the plugin is run only when a plugin configuration was given'),
 dict(name='benign-gm-plugin-execution-guard-operands-swapped', expect='silent', file=V,
      find=_EXEC_GUARD, replace=_EXEC_GUARD.replace('if installedPlugin != nil {', 'if nil != installedPlugin {'),
      why='the same guard, operands swapped'),
 dict(name='benign-gm-plugin-execution-else-branch', expect='silent', file=V,
      find='\t\t\treturn processPluginResponse(capabilitiesToVerify, response, outcome)\n\t\t}\n\t}\n\n\tif installedPlugin == nil {\n',
      replace='\t\t\treturn processPluginResponse(capabilitiesToVerify, response, outcome)\n\t\t}\n\t} else {\n',
      why='the two complementary tests of the plugin object merged into if/else'),
 dict(name='benign-gm-plugin-execution-early-return-on-empty-request', expect='silent', file=V, find=_EXEC_OLD, replace=_EXEC_EARLY,
      why='the emptiness test of the request as an early return, the execution unnested'),
 dict(name='gm-plugin-execution-early-return-on-other-list', expect='flagged(routing/executed-when-requested)', file=V, find=_EXEC_OLD,
      replace=_EXEC_EARLY.replace('if len(capabilitiesToVerify) == 0 {', 'if len(capabilitiesToVerify) == 0 || len(trustedIdentities) == 0 {'),
      why='early-return shape with the property broken: without trusted identities in the policy the plugin is not run although asked'),
]

# ---- guard-mutation pass: the result that receives the plugin's identity verdict (verifier.go:667) ---------------------------
_LOOKUP_OLD = '''				var authenticityResult *notation.ValidationResult
				for _, r := range outcome.VerificationResults {
					if r.Type == trustpolicy.TypeAuthenticity {
						authenticityResult = r
						break
					}
				}
'''
_LOOKUP_TEST = 'if r.Type == trustpolicy.TypeAuthenticity {'
_LOOKUP_CONTINUE = '''				var authenticityResult *notation.ValidationResult
				for _, r := range outcome.VerificationResults {
					if r.Type != trustpolicy.TypeAuthenticity {
						continue
					}
					authenticityResult = r
					break
				}
'''
_LOOKUP_SWITCH = '''				var authenticityResult *notation.ValidationResult
			search:
				for _, r := range outcome.VerificationResults {
					switch r.Type {
					case trustpolicy.TypeAuthenticity:
						authenticityResult = r
						break search
					}
				}
'''
_LOOKUP_INDEX = '''				var authenticityResult *notation.ValidationResult
				for i := range outcome.VerificationResults {
					if outcome.VerificationResults[i].Type == trustpolicy.TypeAuthenticity {
						authenticityResult = outcome.VerificationResults[i]
						break
					}
				}
'''
_LOOKUP_CALL = '''				authenticityResult := firstResultOfType(outcome.VerificationResults, trustpolicy.TypeAuthenticity)
'''
_LOOKUP_HELPER = '''// firstResultOfType returns the first result of the given validation type, or
// nil if there is none.
func firstResultOfType(results []*notation.ValidationResult, validationType trustpolicy.ValidationType) *notation.ValidationResult {
	for _, r := range results {
		if r.Type == validationType {
			return r
		}
	}
	return nil
}

'''
_VI_ANCHOR = 'func verifyIntegrity(sigBlob []byte'
def result_lookup_shape(call=_LOOKUP_CALL, helper=_LOOKUP_HELPER):
    return [(V, _LOOKUP_OLD, call), (V, _VI_ANCHOR, helper + _VI_ANCHOR)]
_REV_FAIL_OLD = '''					Error:  fmt.Errorf("revocation check by verification plugin %q failed with reason %q", verificationPluginName, pluginResult.Reason),
					Type:   trustpolicy.TypeRevocation,
					Action: outcome.VerificationLevel.Enforcement[trustpolicy.TypeRevocation],
'''
VARIANTS += [
 dict(name='gm-authenticity-result-lookup-never-taken', expect='flagged(plugin/verdict-trusted-identity/result-type)', file=V,
      find=_LOOKUP_TEST, replace='if false && (r.Type == trustpolicy.TypeAuthenticity) {',
      why='the search never selects the authenticity result: the failed identity verdict is recorded nowhere (guard mutant verifier.go:667)'),
 dict(name='gm-authenticity-result-lookup-extra-conjunct', expect='flagged(plugin/verdict-trusted-identity/result-type)', file=V,
      find=_LOOKUP_TEST, replace='if r.Error != nil && r.Type == trustpolicy.TypeAuthenticity {',
      why='the authenticity result is found only if the trust-store validation already failed'),
 dict(name='gm-authenticity-result-lookup-count-conjunct', expect='flagged(plugin/verdict-trusted-identity/result-type)', file=V,
      find=_LOOKUP_TEST, replace='if len(outcome.VerificationResults) > 2 && r.Type == trustpolicy.TypeAuthenticity {',
      why='the authenticity result is found only among more than two results'),
 dict(name='gm-authenticity-result-lookup-other-type', expect='flagged(plugin/verdict-trusted-identity/result-type)', file=V,
      find=_LOOKUP_TEST, replace='if r.Type == trustpolicy.TypeIntegrity {',
      why='the identity failure is stored into the integrity result: it is gated by the action of integrity (always enforce), also under audit'),
 dict(name='gm-authenticity-result-lookup-any-result', expect='flagged(plugin/verdict-trusted-identity/result-type)', file=V,
      find=_LOOKUP_TEST, replace='if r.Type == trustpolicy.TypeAuthenticity || r.Error == nil {',
      why='the first result without an error is taken, whatever its type'),
 dict(name='benign-gm-authenticity-result-lookup-operands-swapped', expect='silent', file=V,
      find=_LOOKUP_TEST, replace='if trustpolicy.TypeAuthenticity == r.Type {', why='the same test, operands swapped'),
 dict(name='benign-gm-authenticity-result-lookup-continue', expect='silent', file=V, find=_LOOKUP_OLD, replace=_LOOKUP_CONTINUE,
      why='the same search with the test inverted and `continue`'),
 dict(name='benign-gm-authenticity-result-lookup-switch', expect='silent', file=V, find=_LOOKUP_OLD, replace=_LOOKUP_SWITCH,
      why='the same search with a switch on the type and a labelled break'),
 dict(name='benign-gm-authenticity-result-lookup-by-index', expect='silent', file=V, find=_LOOKUP_OLD, replace=_LOOKUP_INDEX,
      why='the same search by index: the element is read twice'),
 dict(name='benign-gm-authenticity-result-lookup-helper', expect='silent', edits=result_lookup_shape(),
      why='the search in a helper that is handed the list and the type'),
 dict(name='gm-authenticity-result-lookup-helper-extra-conjunct', expect='flagged(plugin/verdict-trusted-identity/result-type)',
      edits=result_lookup_shape(helper=_LOOKUP_HELPER.replace('if r.Type == validationType {', 'if r.Error != nil && r.Type == validationType {')),
      why='helper shape with the guard weakened'),
 dict(name='gm-authenticity-result-lookup-helper-other-type', expect='flagged(plugin/verdict-trusted-identity/result-type)',
      edits=result_lookup_shape(call=_LOOKUP_CALL.replace('trustpolicy.TypeAuthenticity', 'trustpolicy.TypeIntegrity')),
      why='helper shape, asked for the integrity result'),
 dict(name='gm-authenticity-result-lookup-continue-extra-disjunct', expect='flagged(plugin/verdict-trusted-identity/result-type)', file=V, find=_LOOKUP_OLD,
      replace=_LOOKUP_CONTINUE.replace('if r.Type != trustpolicy.TypeAuthenticity {', 'if r.Error == nil || r.Type != trustpolicy.TypeAuthenticity {'),
      why='continue shape: an authenticity result without an error is passed over'),
 dict(name='gm-plugin-revocation-verdict-result-of-other-type', expect='flagged(plugin/verdict-revocation/result-type)', file=V, find=_REV_FAIL_OLD,
      replace=_REV_FAIL_OLD.replace('trustpolicy.TypeRevocation', 'trustpolicy.TypeAuthenticity'),
      why='the failed revocation verdict is reported as an authenticity result with the action of authenticity: the revocation action of the level does not decide'),
]

# ---- guard-mutation pass: the minimum-version attribute is valid semver (helpers.go:128) -------------------------------------
_MV_VALID = '\tif !notationsemver.IsValid(version) {\n\t\treturn "", fmt.Errorf("%v from extended attribute is not a valid SemVer", HeaderVerificationPluginMinVersion)\n\t}\n\treturn version, nil\n'
_MV_DOC = '// getVerificationPlugin get plugin version from the Extended attributes.\n'
_MV_GATE = '''			return notation.ErrorVerificationInconclusive{Msg: fmt.Sprintf("error while getting plugin minimum version, error: %s", err)}
		}
'''
VARIANTS += [
 dict(name='gm-min-version-validity-guard-never-taken', expect='flagged(plugin/min-version-wellformed)', file=H,
      find=_MV_VALID, replace=_MV_VALID.replace('if !notationsemver.IsValid(version) {', 'if false && (!notationsemver.IsValid(version)) {'),
      why='a minimum version that is not semver is handed on: semver.Compare orders it below every plugin version, no plugin is too old (guard mutant helpers.go:128)'),
 dict(name='gm-min-version-validity-guard-extra-conjunct', expect='flagged(plugin/min-version-wellformed)', file=H,
      find=_MV_VALID, replace=_MV_VALID.replace('if !notationsemver.IsValid(version) {', 'if len(version) > 5 && !notationsemver.IsValid(version) {'),
      why='short malformed versions ("1.2") are handed on'),
 dict(name='benign-gm-min-version-validity-inverted', expect='silent', file=H, find=_MV_VALID,
      replace='\tif notationsemver.IsValid(version) {\n\t\treturn version, nil\n\t}\n\treturn "", fmt.Errorf("%v from extended attribute is not a valid SemVer", HeaderVerificationPluginMinVersion)\n',
      why='the same guard with the branches exchanged'),
 dict(name='benign-gm-min-version-validity-in-local', expect='silent', file=H, find=_MV_VALID,
      replace=_MV_VALID.replace('if !notationsemver.IsValid(version) {', 'if wellFormed := notationsemver.IsValid(version); !wellFormed {'),
      why='the same guard, the answer kept in a local'),
 dict(name='benign-gm-min-version-validity-in-caller', expect='silent',
      edits=[(H, _MV_VALID, '\treturn version, nil\n'), (H, _MV_DOC, 'var _ = notationsemver.IsValid\n\n' + _MV_DOC),
             (V, _MV_GATE, _MV_GATE + '\t\tif err == nil && !notationsemver.IsValid(verificationPluginMinVersion) {\n\t\t\treturn notation.ErrorVerificationInconclusive{Msg: fmt.Sprintf("plugin minimum version %s is not in valid semver format", verificationPluginMinVersion)}\n\t\t}\n')],
      why='the validity test made by the caller on the value the reader handed back'),
 dict(name='gm-min-version-validity-in-caller-extra-conjunct', expect='flagged(plugin/min-version-wellformed)',
      edits=[(H, _MV_VALID, '\treturn version, nil\n'), (H, _MV_DOC, 'var _ = notationsemver.IsValid\n\n' + _MV_DOC),
             (V, _MV_GATE, _MV_GATE + '\t\tif err == nil && len(pluginConfig) > 0 && !notationsemver.IsValid(verificationPluginMinVersion) {\n\t\t\treturn notation.ErrorVerificationInconclusive{Msg: fmt.Sprintf("plugin minimum version %s is not in valid semver format", verificationPluginMinVersion)}\n\t\t}\n')],
      why='caller shape with the guard weakened'),
]

# ---- a recorded failure is never erased (checker/erased.go; seed C03-7) ----
_NE = 'flagged(results/failure-never-erased)'
_ID_REC = '\t\tif err != nil {\n\t\t\tauthenticityResult.Error = err\n\t\t\tlogVerificationResult(logger, authenticityResult)\n\t\t}\n'
_PLUGIN_ID_FAIL = '\t\t\tif !pluginResult.Success {\n\t\t\t\t// find the Authenticity VerificationResult that we already\n'
_SET_HELPER = '''func setValidationResult(outcome *notation.VerificationOutcome, result *notation.ValidationResult) {
	for _, r := range outcome.VerificationResults {
		if r.Type == result.Type {
			*r = *result
			return
		}
	}
	outcome.VerificationResults = append(outcome.VerificationResults, result)
}

'''
_VI = 'func verifyIntegrity(sigBlob []byte'
_REV_APPEND = '\t\t\toutcome.VerificationResults = append(outcome.VerificationResults, revocationResult)\n\t\t\tif isCriticalFailure(revocationResult) {'
VARIANTS += [
 dict(name='erased-identity-verdict-stored-unconditionally', expect=_NE,
      edits=[(V, _ID_REC, '\t\tauthenticityResult.Error = err\n\t\tif err != nil {\n\t\t\tlogVerificationResult(logger, authenticityResult)\n\t\t}\n')],
      why='a trust-store failure recorded under log is cleared by a passing identity check'),
 dict(name='erased-plugin-success-clears-authenticity', expect=_NE,
      edits=[(V, _PLUGIN_ID_FAIL, '\t\t\tif pluginResult.Success {\n\t\t\t\tfor _, r := range outcome.VerificationResults {\n\t\t\t\t\tif r.Type == trustpolicy.TypeAuthenticity {\n\t\t\t\t\t\tr.Error = nil\n\t\t\t\t\t}\n\t\t\t\t}\n\t\t\t}\n' + _PLUGIN_ID_FAIL)],
      why='the plugin verdict replaces the trust-store verdict'),
 dict(name='erased-revocation-result-set-in-place', expect=_NE,
      edits=[(V, _REV_APPEND, '\t\t\tsetValidationResult(outcome, revocationResult)\n\t\t\tif isCriticalFailure(revocationResult) {'), (V, _VI, _SET_HELPER + _VI)],
      why='update-in-place helper overwrites a recorded result as a whole (seed C03-7 shape)'),
 dict(name='erased-results-list-restarted', expect=_NE,
      edits=[(V, _REV_APPEND, '\t\t\toutcome.VerificationResults = append([]*notation.ValidationResult{}, revocationResult)\n\t\t\tif isCriticalFailure(revocationResult) {')],
      why='the list is restarted: earlier results dropped'),
 dict(name='benign-erased-record-helper', expect='silent',
      edits=[(V, _ID_REC, '\t\tif err != nil {\n\t\t\trecordFailure(authenticityResult, err)\n\t\t\tlogVerificationResult(logger, authenticityResult)\n\t\t}\n'),
             (V, _VI, 'func recordFailure(r *notation.ValidationResult, err error) {\n\tr.Error = err\n}\n\n' + _VI)],
      why='helper stores its parameter; every call site passes a tested error'),
 dict(name='benign-erased-revocation-append-through-local', expect='silent',
      edits=[(V, _REV_APPEND, '\t\t\tresults := append(outcome.VerificationResults, revocationResult)\n\t\t\toutcome.VerificationResults = results\n\t\t\tif isCriticalFailure(revocationResult) {')],
      why='append through a local'),
]

# ---- the level that judges is the selected statement's (checker/level_origin.go; seed C02-7) ----
_LV = 'flagged(level/from-selected-statement)'
_GETLV = '\tverificationLevel, _ := trustPolicy.SignatureVerification.GetVerificationLevel()\n'
_NEWFC = 'func NewFromConfig() (notation.Verifier, error) {'
VARIANTS += [
 dict(name='level-of-first-statement', expect=_LV,
      edits=[(V, _GETLV + '\t// verificationLevel is skip', '\tverificationLevel, _ := v.ociTrustPolicyDoc.TrustPolicies[0].SignatureVerification.GetVerificationLevel()\n\t// verificationLevel is skip')],
      why='SkipVerify judges by the first statement of the document'),
 dict(name='level-constant-in-outcome', expect=_LV,
      edits=[(V, '\t\tVerificationLevel: verificationLevel,\n\t}\n\t// verificationLevel is skip\n\tif reflect.DeepEqual(verificationLevel, trustpolicy.LevelSkip) {\n\t\tlogger.Debug("Skipping signature verification")\n\t\treturn outcome, nil\n\t}\n\terr = v.processSignature(ctx, signature, opts.SignatureMediaType, trustPolicy.Name',
                 '\t\tVerificationLevel: trustpolicy.LevelPermissive,\n\t}\n\t// verificationLevel is skip\n\tif reflect.DeepEqual(verificationLevel, trustpolicy.LevelSkip) {\n\t\tlogger.Debug("Skipping signature verification")\n\t\treturn outcome, nil\n\t}\n\terr = v.processSignature(ctx, signature, opts.SignatureMediaType, trustPolicy.Name')],
      why='a fixed level is recorded'),
 dict(name='benign-level-helper-takes-signature-verification', expect='silent',
      edits=[(V, _GETLV, '\tverificationLevel := levelOf(&trustPolicy.SignatureVerification)\n'),
             (V, _NEWFC, 'func levelOf(sv *trustpolicy.SignatureVerification) *trustpolicy.VerificationLevel {\n\tlevel, _ := sv.GetVerificationLevel()\n\treturn level\n}\n\n' + _NEWFC)],
      why='helper handed the SignatureVerification of the selected statement'),
 dict(name='benign-level-local-copy-of-signature-verification', expect='silent',
      edits=[(V, _GETLV + '\t// verificationLevel is skip', '\tsv := trustPolicy.SignatureVerification\n\tverificationLevel, _ := sv.GetVerificationLevel()\n\t// verificationLevel is skip')],
      why='local copy'),
]
