V = 'verifier/verifier.go'
H = 'verifier/helpers.go'

# ---------------------------------------------------------------------------------------------------------------------------
# second pass. Building blocks: the whole of verifyAuthenticity and the load block of processSignature are replaced.
VA_FN = """func verifyAuthenticity(trustCerts []*x509.Certificate, outcome *notation.VerificationOutcome) *notation.ValidationResult {
	if len(trustCerts) < 1 {
		return &notation.ValidationResult{
			Error:  notation.ErrorVerificationInconclusive{Msg: "no trusted certificates are found to verify authenticity"},
			Type:   trustpolicy.TypeAuthenticity,
			Action: outcome.VerificationLevel.Enforcement[trustpolicy.TypeAuthenticity],
		}
	}
	_, err := signature.VerifyAuthenticity(&outcome.EnvelopeContent.SignerInfo, trustCerts)
	if err != nil {
		switch err.(type) {
		case *signature.SignatureAuthenticityError:
			return &notation.ValidationResult{
				Error:  err,
				Type:   trustpolicy.TypeAuthenticity,
				Action: outcome.VerificationLevel.Enforcement[trustpolicy.TypeAuthenticity],
			}
		default:
			return &notation.ValidationResult{
				Error:  notation.ErrorVerificationInconclusive{Msg: "authenticity verification failed with error : " + err.Error()},
				Type:   trustpolicy.TypeAuthenticity,
				Action: outcome.VerificationLevel.Enforcement[trustpolicy.TypeAuthenticity],
			}
		}
	}

	return &notation.ValidationResult{
		Type:   trustpolicy.TypeAuthenticity,
		Action: outcome.VerificationLevel.Enforcement[trustpolicy.TypeAuthenticity],
	}
}
"""
LOAD_BLOCK = """	trustCerts, err := loadX509TrustStores(ctx, outcome.EnvelopeContent.SignerInfo.SignedAttributes.SigningScheme, policyName, trustStores, v.trustStore)
	var authenticityResult *notation.ValidationResult
	if err != nil {
		authenticityResult = &notation.ValidationResult{
			Error:  err,
			Type:   trustpolicy.TypeAuthenticity,
			Action: outcome.VerificationLevel.Enforcement[trustpolicy.TypeAuthenticity],
		}
	} else {
		// verify authenticity
		authenticityResult = verifyAuthenticity(trustCerts, outcome)
	}
"""
CTOR = """
func newValidationResult(outcome *notation.VerificationOutcome, resultType trustpolicy.ValidationType, err error) *notation.ValidationResult {
	return &notation.ValidationResult{
		Error:  err,
		Type:   resultType,
		Action: outcome.VerificationLevel.Enforcement[resultType],
	}
}
"""
# constructor with the parameters in another order, filled in field by field, and a second one delegating to it
CTOR2 = """
func makeResult(err error, resultType trustpolicy.ValidationType, outcome *notation.VerificationOutcome) *notation.ValidationResult {
	r := new(notation.ValidationResult)
	r.Type = resultType
	r.Action = outcome.VerificationLevel.Enforcement[resultType]
	r.Error = err
	return r
}

func authenticityResultOf(outcome *notation.VerificationOutcome, err error) *notation.ValidationResult {
	return makeResult(err, trustpolicy.TypeAuthenticity, outcome)
}
"""
LOAD_CTOR = """	trustCerts, err := loadX509TrustStores(ctx, outcome.EnvelopeContent.SignerInfo.SignedAttributes.SigningScheme, policyName, trustStores, v.trustStore)
	var authenticityResult *notation.ValidationResult
	if err != nil {
		authenticityResult = newValidationResult(outcome, trustpolicy.TypeAuthenticity, err)
	} else {
		// verify authenticity
		authenticityResult = verifyAuthenticity(trustCerts, outcome)
	}
"""
# multi-exit, results by constructor (the shape of benign2/out-C02/2)
VA_CTOR_MULTI = """func verifyAuthenticity(trustCerts []*x509.Certificate, outcome *notation.VerificationOutcome) *notation.ValidationResult {
	if len(trustCerts) < 1 {
		return newValidationResult(outcome, trustpolicy.TypeAuthenticity, notation.ErrorVerificationInconclusive{Msg: "no trusted certificates are found to verify authenticity"})
	}
	_, err := signature.VerifyAuthenticity(&outcome.EnvelopeContent.SignerInfo, trustCerts)
	if err != nil {
		if _, ok := err.(*signature.SignatureAuthenticityError); !ok {
			err = notation.ErrorVerificationInconclusive{Msg: "authenticity verification failed with error : " + err.Error()}
		}
		return newValidationResult(outcome, trustpolicy.TypeAuthenticity, err)
	}
	return newValidationResult(outcome, trustpolicy.TypeAuthenticity, nil)
}
"""
# single exit, type switch with a nil arm (the shape of benign2/out-C01/2)
VA_CTOR_SINGLE = """func verifyAuthenticity(trustCerts []*x509.Certificate, outcome *notation.VerificationOutcome) *notation.ValidationResult {
	if len(trustCerts) < 1 {
		return newValidationResult(outcome, trustpolicy.TypeAuthenticity, notation.ErrorVerificationInconclusive{Msg: "no trusted certificates are found to verify authenticity"})
	}
	_, err := signature.VerifyAuthenticity(&outcome.EnvelopeContent.SignerInfo, trustCerts)
	switch err.(type) {
	case nil:
	case *signature.SignatureAuthenticityError:
	default:
		err = notation.ErrorVerificationInconclusive{Msg: "authenticity verification failed with error : " + err.Error()}
	}
	return newValidationResult(outcome, trustpolicy.TypeAuthenticity, err)
}
"""
# one exit for everything: error local, the empty set included; delegating constructor with another parameter order
VA_CTOR2_ONE_EXIT = """func verifyAuthenticity(trustCerts []*x509.Certificate, outcome *notation.VerificationOutcome) *notation.ValidationResult {
	var failure error
	if len(trustCerts) == 0 {
		failure = notation.ErrorVerificationInconclusive{Msg: "no trusted certificates are found to verify authenticity"}
	} else if _, err := signature.VerifyAuthenticity(&outcome.EnvelopeContent.SignerInfo, trustCerts); err != nil {
		failure = err
		if _, ok := err.(*signature.SignatureAuthenticityError); !ok {
			failure = notation.ErrorVerificationInconclusive{Msg: "authenticity verification failed with error : " + err.Error()}
		}
	}
	return authenticityResultOf(outcome, failure)
}
"""
# one exit, composite literal, error local
VA_LIT_ONE_EXIT = """func verifyAuthenticity(trustCerts []*x509.Certificate, outcome *notation.VerificationOutcome) *notation.ValidationResult {
	var failure error
	if len(trustCerts) < 1 {
		failure = notation.ErrorVerificationInconclusive{Msg: "no trusted certificates are found to verify authenticity"}
	} else if _, err := signature.VerifyAuthenticity(&outcome.EnvelopeContent.SignerInfo, trustCerts); err != nil {
		failure = err
		if _, ok := err.(*signature.SignatureAuthenticityError); !ok {
			failure = notation.ErrorVerificationInconclusive{Msg: "authenticity verification failed with error : " + err.Error()}
		}
	}
	return &notation.ValidationResult{
		Error:  failure,
		Type:   trustpolicy.TypeAuthenticity,
		Action: outcome.VerificationLevel.Enforcement[trustpolicy.TypeAuthenticity],
	}
}
"""
# the chain check lives in a helper of verifyAuthenticity (extraction cut below the result building)
VA_CHAIN_HELPER = """func chainError(signerInfo *signature.SignerInfo, roots []*x509.Certificate) error {
	_, err := signature.VerifyAuthenticity(signerInfo, roots)
	return err
}

func verifyAuthenticity(trustCerts []*x509.Certificate, outcome *notation.VerificationOutcome) *notation.ValidationResult {
	if len(trustCerts) < 1 {
		return newValidationResult(outcome, trustpolicy.TypeAuthenticity, notation.ErrorVerificationInconclusive{Msg: "no trusted certificates are found to verify authenticity"})
	}
	err := chainError(&outcome.EnvelopeContent.SignerInfo, trustCerts)
	if err != nil {
		if _, ok := err.(*signature.SignatureAuthenticityError); !ok {
			err = notation.ErrorVerificationInconclusive{Msg: "authenticity verification failed with error : " + err.Error()}
		}
	}
	return newValidationResult(outcome, trustpolicy.TypeAuthenticity, err)
}
"""
# the authenticity step as a method of its own (the shape of benign2/out-C03/2 and benign/out-C02/1)
STEP_CALL = "\tauthenticityResult := v.verifyTrustStoreAuthenticity(ctx, policyName, trustStores, outcome)\n"
STEP_FN = """
func (v *verifier) verifyTrustStoreAuthenticity(ctx context.Context, policyName string, trustStores []string, outcome *notation.VerificationOutcome) *notation.ValidationResult {
	scheme := outcome.EnvelopeContent.SignerInfo.SignedAttributes.SigningScheme
	trustCerts, err := loadX509TrustStores(ctx, scheme, policyName, trustStores, v.trustStore)
	if err != nil {
		return &notation.ValidationResult{
			Error:  err,
			Type:   trustpolicy.TypeAuthenticity,
			Action: outcome.VerificationLevel.Enforcement[trustpolicy.TypeAuthenticity],
		}
	}
	return verifyAuthenticity(trustCerts, outcome)
}
"""
# the extraction cut higher: one method for load + verify + bookkeeping, taking everything it needs as parameters in another order
STEP2_CALL = "\tauthenticityResult := authenticate(ctx, outcome, v.trustStore, trustStores, policyName)\n"
STEP2_FN = """
func authenticate(ctx context.Context, outcome *notation.VerificationOutcome, x509TrustStore truststore.X509TrustStore, stores []string, statementName string) *notation.ValidationResult {
	roots, loadErr := trustedRoots(ctx, outcome, x509TrustStore, stores, statementName)
	if loadErr == nil {
		return verifyAuthenticity(roots, outcome)
	}
	return &notation.ValidationResult{
		Error:  loadErr,
		Type:   trustpolicy.TypeAuthenticity,
		Action: outcome.VerificationLevel.Enforcement[trustpolicy.TypeAuthenticity],
	}
}

func trustedRoots(ctx context.Context, outcome *notation.VerificationOutcome, x509TrustStore truststore.X509TrustStore, stores []string, statementName string) ([]*x509.Certificate, error) {
	return loadX509TrustStores(ctx, outcome.EnvelopeContent.SignerInfo.SignedAttributes.SigningScheme, statementName, stores, x509TrustStore)
}
"""
# a forwarding layer that wraps the error
FWD_WRAP = """
func trustedRoots(ctx context.Context, outcome *notation.VerificationOutcome, x509TrustStore truststore.X509TrustStore, stores []string, statementName string) ([]*x509.Certificate, error) {
	roots, err := loadX509TrustStores(ctx, outcome.EnvelopeContent.SignerInfo.SignedAttributes.SigningScheme, statementName, stores, x509TrustStore)
	if err != nil {
		return nil, fmt.Errorf("trust stores of statement %q: %w", statementName, err)
	}
	return roots, nil
}
"""
STEP2_FN_WRAP = STEP2_FN[:STEP2_FN.index('\nfunc trustedRoots')] + FWD_WRAP
# the load kept in a closure of processSignature
LOAD_CLOSURE = """	loadRoots := func() ([]*x509.Certificate, error) {
		return loadX509TrustStores(ctx, outcome.EnvelopeContent.SignerInfo.SignedAttributes.SigningScheme, policyName, trustStores, v.trustStore)
	}
	trustCerts, err := loadRoots()
	var authenticityResult *notation.ValidationResult
	if err != nil {
		authenticityResult = &notation.ValidationResult{
			Error:  err,
			Type:   trustpolicy.TypeAuthenticity,
			Action: outcome.VerificationLevel.Enforcement[trustpolicy.TypeAuthenticity],
		}
	} else {
		// verify authenticity
		authenticityResult = verifyAuthenticity(trustCerts, outcome)
	}
"""
# blob statement selection in a helper (the shape of benign/out-C07/4)
BLOB_SEL = """	var trustPolicy *trustpolicy.BlobTrustPolicy
	var err error
	if opts.TrustPolicyName == "" {
		trustPolicy, err = v.blobTrustPolicyDoc.GetGlobalTrustPolicy()
	} else {
		trustPolicy, err = v.blobTrustPolicyDoc.GetApplicableTrustPolicy(opts.TrustPolicyName)
	}
"""
BLOB_SEL_CALL = "\ttrustPolicy, err := v.selectBlobTrustPolicy(opts.TrustPolicyName)\n"
BLOB_SEL_FN = """
func (v *verifier) selectBlobTrustPolicy(name string) (*trustpolicy.BlobTrustPolicy, error) {
	if name == "" {
		return v.blobTrustPolicyDoc.GetGlobalTrustPolicy()
	}
	return v.blobTrustPolicyDoc.GetApplicableTrustPolicy(name)
}
"""
# selection helper with one exit and a switch, taking the document as a parameter
BLOB_SEL_CALL2 = "\ttrustPolicy, err := blobStatement(v.blobTrustPolicyDoc, opts.TrustPolicyName)\n"
BLOB_SEL_FN2 = """
func blobStatement(doc *trustpolicy.BlobDocument, name string) (statement *trustpolicy.BlobTrustPolicy, err error) {
	switch name {
	case "":
		statement, err = doc.GetGlobalTrustPolicy()
	default:
		statement, err = doc.GetApplicableTrustPolicy(name)
	}
	return statement, err
}
"""
OCI_CALL = 'err = v.processSignature(ctx, signature, envelopeMediaType, trustPolicy.Name, trustPolicy.TrustedIdentities, trustPolicy.TrustStores, trustPolicy.SignatureVerification, pluginConfig, outcome)'
BLOB_CALL = 'err = v.processSignature(ctx, signature, opts.SignatureMediaType, trustPolicy.Name, trustPolicy.TrustedIdentities, trustPolicy.TrustStores, trustPolicy.SignatureVerification, opts.PluginConfig, outcome)'
VA_ANCHOR = 'func verifyAuthenticity(trustCerts []*x509.Certificate, outcome *notation.VerificationOutcome) *notation.ValidationResult {\n'
TS_CALL = 'authenticTimestampResult := verifyAuthenticTimestamp(ctx, policyName, trustStores, signatureVerification, v.trustStore, v.revocationTimestampingValidator, outcome)'

def ctor(va, load=LOAD_CTOR, ctorsrc=CTOR):
    return [(V, VA_FN, va + ctorsrc), (V, LOAD_BLOCK, load)]

SECOND_PASS = [
 # --- class: result object built by a constructor function / one exit with an error local -------------------------------
 dict(name='benign-ctor-multi-exit', expect='silent', edits=ctor(VA_CTOR_MULTI)),
 dict(name='benign-ctor-single-exit-nil-arm', expect='silent', edits=ctor(VA_CTOR_SINGLE)),
 dict(name='benign-ctor-delegating-one-exit', expect='silent', edits=ctor(VA_CTOR2_ONE_EXIT, LOAD_CTOR.replace('newValidationResult(outcome, trustpolicy.TypeAuthenticity, err)', 'authenticityResultOf(outcome, err)'), CTOR2)),
 dict(name='benign-literal-one-exit-error-local', expect='silent', edits=[(V, VA_FN, VA_LIT_ONE_EXIT)]),
 dict(name='benign-ctor-chain-helper', expect='silent', edits=ctor(VA_CHAIN_HELPER)),
 dict(name='ctor-empty-set-passes', expect='flagged(authenticity/empty-set-fails)', edits=ctor(VA_CTOR_MULTI.replace('if len(trustCerts) < 1 {', 'if trustCerts == nil {'))),
 dict(name='ctor-single-exit-verify-error-dropped', expect='flagged(authenticity/verify-error-fails)',
      edits=ctor(VA_CTOR_SINGLE.replace('\tdefault:\n\t\terr = notation.ErrorVerificationInconclusive{Msg: "authenticity verification failed with error : " + err.Error()}\n', '\tdefault:\n\t\terr = nil\n'))),
 dict(name='ctor-single-exit-no-error-test', expect='flagged(authenticity/verify-error-fails)',
      edits=ctor(VA_CTOR_SINGLE.replace('\treturn newValidationResult(outcome, trustpolicy.TypeAuthenticity, err)\n}', '\t_ = err\n\treturn newValidationResult(outcome, trustpolicy.TypeAuthenticity, nil)\n}'))),
 dict(name='ctor-ignores-error', expect='flagged(authenticity/)', edits=ctor(VA_CTOR_MULTI, LOAD_CTOR, CTOR.replace('\t\tError:  err,\n', ''))),
 dict(name='ctor-stores-error-conditionally', expect='flagged(authenticity/)', edits=ctor(VA_CTOR_MULTI, LOAD_CTOR, """
func newValidationResult(outcome *notation.VerificationOutcome, resultType trustpolicy.ValidationType, err error) *notation.ValidationResult {
	r := &notation.ValidationResult{
		Type:   resultType,
		Action: outcome.VerificationLevel.Enforcement[resultType],
	}
	if r.Action == trustpolicy.ActionEnforce {
		r.Error = err
	}
	return r
}
""")),
 dict(name='ctor-load-error-dropped', expect='flagged(authenticity/load-error-is-failure)',
      edits=ctor(VA_CTOR_MULTI, LOAD_CTOR.replace('newValidationResult(outcome, trustpolicy.TypeAuthenticity, err)', 'newValidationResult(outcome, trustpolicy.TypeAuthenticity, nil)'))),
 dict(name='ctor-load-error-as-other-type', expect='flagged(authenticity/load-error-is-failure)',
      edits=ctor(VA_CTOR_MULTI, LOAD_CTOR.replace('newValidationResult(outcome, trustpolicy.TypeAuthenticity, err)', 'newValidationResult(outcome, trustpolicy.TypeExpiry, err)'))),
 dict(name='ctor-delegating-one-exit-empty-set-passes', expect='flagged(authenticity/empty-set-fails)',
      edits=ctor(VA_CTOR2_ONE_EXIT.replace('\tif len(trustCerts) == 0 {\n\t\tfailure = notation.ErrorVerificationInconclusive{Msg: "no trusted certificates are found to verify authenticity"}\n\t} else if', '\tif'),
                 LOAD_CTOR.replace('newValidationResult(outcome, trustpolicy.TypeAuthenticity, err)', 'authenticityResultOf(outcome, err)'), CTOR2)),
 dict(name='ctor-delegating-swaps-error-away', expect='flagged(authenticity/)',
      edits=ctor(VA_CTOR2_ONE_EXIT, LOAD_CTOR.replace('newValidationResult(outcome, trustpolicy.TypeAuthenticity, err)', 'authenticityResultOf(outcome, err)'),
                 CTOR2.replace('return makeResult(err, trustpolicy.TypeAuthenticity, outcome)', 'return makeResult(nil, trustpolicy.TypeAuthenticity, outcome)'))),
 dict(name='literal-one-exit-auth-error-cleared', expect='flagged(authenticity/verify-error-fails)',
      edits=[(V, VA_FN, VA_LIT_ONE_EXIT.replace('\t\tfailure = err\n\t\tif _, ok := err.(*signature.SignatureAuthenticityError); !ok {', '\t\tif _, ok := err.(*signature.SignatureAuthenticityError); !ok {'))]),
 dict(name='literal-one-exit-result-reset', expect='flagged(authenticity/)',
      edits=[(V, VA_FN, VA_LIT_ONE_EXIT.replace('\treturn &notation.ValidationResult{\n\t\tError:  failure,\n\t\tType:   trustpolicy.TypeAuthenticity,\n\t\tAction: outcome.VerificationLevel.Enforcement[trustpolicy.TypeAuthenticity],\n\t}\n}',
        '\tresult := &notation.ValidationResult{\n\t\tError:  failure,\n\t\tType:   trustpolicy.TypeAuthenticity,\n\t\tAction: outcome.VerificationLevel.Enforcement[trustpolicy.TypeAuthenticity],\n\t}\n\tif result.Action != trustpolicy.ActionEnforce {\n\t\tresult.Error = nil\n\t}\n\treturn result\n}'))]),
 dict(name='ctor-chain-helper-swallows', expect='flagged(authenticity/verify-error-fails)',
      edits=ctor(VA_CHAIN_HELPER.replace('\t_, err := signature.VerifyAuthenticity(signerInfo, roots)\n\treturn err\n', '\t_, _ = signature.VerifyAuthenticity(signerInfo, roots)\n\treturn nil\n'))),
 # --- class: extract-helper at another boundary (authenticity step, forwarding layers, closure) --------------------------
 dict(name='benign-step-extracted', expect='silent', edits=[(V, LOAD_BLOCK, STEP_CALL), (V, VA_ANCHOR, STEP_FN.lstrip('\n') + '\n' + VA_ANCHOR)]),
 dict(name='benign-step-and-forwarder', expect='silent', edits=[(V, LOAD_BLOCK, STEP2_CALL), (V, VA_ANCHOR, STEP2_FN.lstrip('\n') + '\n' + VA_ANCHOR)]),
 dict(name='benign-forwarder-wraps-error', expect='silent', edits=[(V, LOAD_BLOCK, STEP2_CALL), (V, VA_ANCHOR, STEP2_FN_WRAP.lstrip('\n') + '\n' + VA_ANCHOR)]),
 dict(name='benign-load-in-closure', expect='silent', edits=[(V, LOAD_BLOCK, LOAD_CLOSURE)]),
 dict(name='step-extracted-other-statement', expect='flagged(scoping/one-statement)',
      edits=[(V, LOAD_BLOCK, STEP_CALL), (V, VA_ANCHOR, STEP_FN.lstrip('\n') + '\n' + VA_ANCHOR),
             (V, OCI_CALL, OCI_CALL.replace('trustPolicy.TrustStores', 'v.ociTrustPolicyDoc.TrustPolicies[0].TrustStores'))]),
 dict(name='step-extracted-extra-store', expect='flagged(scoping/loader-gets-statement-stores)',
      edits=[(V, LOAD_BLOCK, STEP_CALL), (V, VA_ANCHOR, STEP_FN.replace('loadX509TrustStores(ctx, scheme, policyName, trustStores, v.trustStore)', 'loadX509TrustStores(ctx, scheme, policyName, append(trustStores, "ca:default"), v.trustStore)').lstrip('\n') + '\n' + VA_ANCHOR)]),
 dict(name='step-extracted-load-error-ignored', expect='flagged(authenticity/)',
      edits=[(V, LOAD_BLOCK, STEP_CALL), (V, VA_ANCHOR, STEP_FN.replace('\tif err != nil {\n\t\treturn &notation.ValidationResult{\n\t\t\tError:  err,\n\t\t\tType:   trustpolicy.TypeAuthenticity,\n\t\t\tAction: outcome.VerificationLevel.Enforcement[trustpolicy.TypeAuthenticity],\n\t\t}\n\t}\n', '\t_ = err\n').lstrip('\n') + '\n' + VA_ANCHOR)]),
 dict(name='step-extracted-scheme-from-caller', expect='flagged(mapping/scheme-provenance)',
      edits=[(V, LOAD_BLOCK, STEP_CALL), (V, VA_ANCHOR, STEP_FN.replace('scheme := outcome.EnvelopeContent.SignerInfo.SignedAttributes.SigningScheme', 'scheme := signature.SigningScheme(policyName)').lstrip('\n') + '\n' + VA_ANCHOR)]),
 dict(name='forwarder-swallows-load-error', expect='flagged(authenticity/)',
      edits=[(V, LOAD_BLOCK, STEP2_CALL), (V, VA_ANCHOR, STEP2_FN_WRAP.replace('\tif err != nil {\n\t\treturn nil, fmt.Errorf("trust stores of statement %q: %w", statementName, err)\n\t}\n', '\t_ = err\n').lstrip('\n') + '\n' + VA_ANCHOR)]),
 dict(name='forwarder-adds-certificates', expect='flagged(authenticity/)',
      edits=[(V, LOAD_BLOCK, STEP2_CALL), (V, VA_ANCHOR, STEP2_FN_WRAP.replace('\treturn roots, nil\n', '\treturn append(roots, outcome.EnvelopeContent.SignerInfo.CertificateChain...), nil\n').lstrip('\n') + '\n' + VA_ANCHOR)]),
 dict(name='closure-loads-other-stores', expect='flagged(scoping/)',
      edits=[(V, LOAD_BLOCK, LOAD_CLOSURE.replace('policyName, trustStores, v.trustStore)\n\t}', 'policyName, trustStores, v.trustStore)\n\t}\n\ttrustStores = v.ociTrustPolicyDoc.TrustPolicies[0].TrustStores'))]),
 dict(name='certs-mixed-before-verify', expect='flagged(authenticity/certs-from-loader)',
      find='\t\tauthenticityResult = verifyAuthenticity(trustCerts, outcome)\n', file=V,
      replace='\t\tauthenticityResult = verifyAuthenticity(append(trustCerts, outcome.EnvelopeContent.SignerInfo.CertificateChain...), outcome)\n'),
 # --- class: statement selection behind a helper; fields of one statement ----------------------------------------------------
 dict(name='benign-blob-selection-helper', expect='silent', edits=[(V, BLOB_SEL, BLOB_SEL_CALL), (V, VA_ANCHOR, BLOB_SEL_FN.lstrip('\n') + '\n' + VA_ANCHOR)]),
 dict(name='benign-blob-selection-helper-one-exit', expect='silent', edits=[(V, BLOB_SEL, BLOB_SEL_CALL2), (V, VA_ANCHOR, BLOB_SEL_FN2.lstrip('\n') + '\n' + VA_ANCHOR)]),
 dict(name='benign-statement-fields-in-locals', expect='silent', file=V, find=OCI_CALL,
      replace='statementName, stores := trustPolicy.Name, trustPolicy.TrustStores\n\t' + OCI_CALL.replace('trustPolicy.Name', 'statementName').replace('trustPolicy.TrustStores', 'stores')),
 dict(name='blob-selection-helper-first-statement', expect='flagged(scoping/one-statement)',
      edits=[(V, BLOB_SEL, BLOB_SEL_CALL), (V, VA_ANCHOR, BLOB_SEL_FN.replace('\t\treturn v.blobTrustPolicyDoc.GetGlobalTrustPolicy()\n', '\t\treturn &v.blobTrustPolicyDoc.TrustPolicies[0], nil\n').lstrip('\n') + '\n' + VA_ANCHOR)]),
 dict(name='blob-selection-helper-one-exit-fallback', expect='flagged(scoping/one-statement)',
      edits=[(V, BLOB_SEL, BLOB_SEL_CALL2), (V, VA_ANCHOR, BLOB_SEL_FN2.replace('\treturn statement, err\n', '\tif err != nil && len(doc.TrustPolicies) > 0 {\n\t\tstatement, err = &doc.TrustPolicies[0], nil\n\t}\n\treturn statement, err\n').lstrip('\n') + '\n' + VA_ANCHOR)]),
 dict(name='identities-of-other-statement', expect='flagged(scoping/one-statement)', file=V, find=OCI_CALL,
      replace=OCI_CALL.replace('trustPolicy.TrustedIdentities', 'v.ociTrustPolicyDoc.TrustPolicies[0].TrustedIdentities')),
 dict(name='blob-stores-of-other-statement', expect='flagged(scoping/one-statement)', file=V, find=BLOB_CALL,
      replace=BLOB_CALL.replace('trustPolicy.TrustStores', 'v.blobTrustPolicyDoc.TrustPolicies[0].TrustStores')),
 dict(name='tsa-stores-of-other-statement', expect='flagged(scoping/)', file=V, find=TS_CALL,
      replace=TS_CALL.replace('policyName, trustStores, signatureVerification', 'policyName, v.ociTrustPolicyDoc.TrustPolicies[0].TrustStores, signatureVerification')),
 dict(name='stores-from-exported-entry', expect='flagged(scoping/)', file=V, find=OCI_CALL,
      replace=OCI_CALL.replace('trustPolicy.TrustStores', 'strings.Split(opts.UserMetadata["stores"], ",")')),
]


# ---- loader: the body of the per-entry loop as a function of its own; certificates appended one by one ---------------------
LOOP = """	for _, trustStore := range trustStores {
		if processedStoreSet.Contains(trustStore) {
			// we loaded this trust store already
			continue
		}

		storeType, name, found := strings.Cut(trustStore, ":")
		if !found {
			return nil, truststore.TrustStoreError{Msg: fmt.Sprintf("error while loading the trust store, trust policy statement %q is missing separator in trust store value %q. The required format is <TrustStoreType>:<TrustStoreName>", policyName, trustStore)}
		}
		if trustStoreType != truststore.Type(storeType) {
			continue
		}

		certs, err := x509TrustStore.GetCertificates(ctx, trustStoreType, name)
		if err != nil {
			return nil, err
		}
		certificates = append(certificates, certs...)
		processedStoreSet.Add(trustStore)
	}
	return certificates, nil
}
"""
LOOP_INNER = """		storeType, name, found := strings.Cut(trustStore, ":")
		if !found {
			return nil, truststore.TrustStoreError{Msg: fmt.Sprintf("error while loading the trust store, trust policy statement %q is missing separator in trust store value %q. The required format is <TrustStoreType>:<TrustStoreName>", policyName, trustStore)}
		}
		if trustStoreType != truststore.Type(storeType) {
			continue
		}

		certs, err := x509TrustStore.GetCertificates(ctx, trustStoreType, name)
		if err != nil {
			return nil, err
		}
"""
ENTRY_CALL = """		certs, err := loadListedStore(ctx, trustStoreType, policyName, trustStore, x509TrustStore)
		if err != nil {
			return nil, err
		}
"""
ENTRY_FN = """
func loadListedStore(ctx context.Context, wanted truststore.Type, policyName string, listed string, x509TrustStore truststore.X509TrustStore) ([]*x509.Certificate, error) {
	storeType, name, found := strings.Cut(listed, ":")
	if !found {
		return nil, truststore.TrustStoreError{Msg: fmt.Sprintf("error while loading the trust store, trust policy statement %q is missing separator in trust store value %q. The required format is <TrustStoreType>:<TrustStoreName>", policyName, listed)}
	}
	if wanted != truststore.Type(storeType) {
		return nil, nil
	}
	return x509TrustStore.GetCertificates(ctx, wanted, name)
}
"""
# other parameter order, guard nested the other way round, error wrapped
ENTRY_CALL2 = """		certs, err := certificatesOf(ctx, x509TrustStore, trustStore, trustStoreType, policyName)
		if err != nil {
			return nil, err
		}
"""
ENTRY_FN2 = """
func certificatesOf(ctx context.Context, x509TrustStore truststore.X509TrustStore, entry string, wanted truststore.Type, statement string) ([]*x509.Certificate, error) {
	prefix, name, found := strings.Cut(entry, ":")
	if !found {
		return nil, truststore.TrustStoreError{Msg: fmt.Sprintf("error while loading the trust store, trust policy statement %q is missing separator in trust store value %q. The required format is <TrustStoreType>:<TrustStoreName>", statement, entry)}
	}
	if truststore.Type(prefix) == wanted {
		certs, err := x509TrustStore.GetCertificates(ctx, wanted, name)
		if err != nil {
			return nil, fmt.Errorf("trust store %q: %w", entry, err)
		}
		return certs, nil
	}
	return nil, nil
}
"""
def entry(call=ENTRY_CALL, fn=ENTRY_FN, loop=None):
    l = LOOP.replace(LOOP_INNER, call)
    if loop: l = loop(l)
    return [(H, LOOP, l + fn)]
ONE_BY_ONE = '\t\tfor _, cert := range certs {\n\t\t\tcertificates = append(certificates, cert)\n\t\t}\n'
# ---- mapping: the switch written as a table -----------------------------------------------------------------------------
MAPPING = """	var typeToLoad truststore.Type
	switch scheme {
	case signature.SigningSchemeX509:
		typeToLoad = truststore.TypeCA
	case signature.SigningSchemeX509SigningAuthority:
		typeToLoad = truststore.TypeSigningAuthority
	default:
		return nil, truststore.TrustStoreError{Msg: fmt.Sprintf("error while loading the trust store, unrecognized signing scheme %q", scheme)}
	}
	return loadX509TrustStoresWithType(ctx, typeToLoad, policyName, trustStores, x509TrustStore)
}
"""
TABLE = """	typeToLoad, ok := storeTypeOfScheme[scheme]
	if !ok {
		return nil, truststore.TrustStoreError{Msg: fmt.Sprintf("error while loading the trust store, unrecognized signing scheme %q", scheme)}
	}
	return loadX509TrustStoresWithType(ctx, typeToLoad, policyName, trustStores, x509TrustStore)
}

var storeTypeOfScheme = map[signature.SigningScheme]truststore.Type{
	signature.SigningSchemeX509:                 truststore.TypeCA,
	signature.SigningSchemeX509SigningAuthority: truststore.TypeSigningAuthority,
}
"""

THIRD = [
 dict(name='benign-entry-loader', expect='silent', edits=entry()),
 dict(name='benign-entry-loader-reordered-wrapping', expect='silent', edits=entry(ENTRY_CALL2, ENTRY_FN2)),
 dict(name='benign-append-one-by-one', expect='silent', file=H, find='\t\tcertificates = append(certificates, certs...)\n', replace=ONE_BY_ONE),
 dict(name='benign-entry-loader-append-one-by-one', expect='silent', edits=entry(loop=lambda l: l.replace('\t\tcertificates = append(certificates, certs...)\n', ONE_BY_ONE))),
 dict(name='entry-loader-swallows-error', expect='flagged(loader/entry-loader-forwards)',
      edits=entry(ENTRY_CALL2, ENTRY_FN2.replace('\t\tif err != nil {\n\t\t\treturn nil, fmt.Errorf("trust store %q: %w", entry, err)\n\t\t}\n', '\t\t_ = err\n'))),
 dict(name='entry-loader-adds-certificates', expect='flagged(loader/entry-loader-forwards)',
      edits=entry(ENTRY_CALL2, ENTRY_FN2.replace('\t\treturn certs, nil\n', '\t\tmore, _ := x509.SystemCertPool()\n\t\t_ = more\n\t\treturn append(certs, certs...), nil\n'))),
 dict(name='entry-loader-no-type-filter', expect='flagged(loader/type-filter)',
      edits=entry(fn=ENTRY_FN.replace('\tif wanted != truststore.Type(storeType) {\n\t\treturn nil, nil\n\t}\n', '\t_ = storeType\n'))),
 dict(name='entry-loader-type-from-listing', expect='flagged(loader/type-argument)',
      edits=entry(fn=ENTRY_FN.replace('GetCertificates(ctx, wanted, name)', 'GetCertificates(ctx, truststore.Type(storeType), name)'))),
 dict(name='entry-loader-given-other-entry', expect='flagged(loader/name-argument)',
      edits=entry(ENTRY_CALL.replace('policyName, trustStore, x509TrustStore)', 'policyName, "ca:"+policyName, x509TrustStore)'))),
 dict(name='entry-loader-given-fixed-type', expect='flagged(mapping/)',
      edits=entry(ENTRY_CALL.replace('loadListedStore(ctx, trustStoreType, policyName', 'loadListedStore(ctx, truststore.Type(policyName), policyName'))),
 dict(name='entry-loader-caller-skips-failed-store', expect='flagged(loader/load-error-fail-closed)',
      edits=entry(ENTRY_CALL.replace('\t\tif err != nil {\n\t\t\treturn nil, err\n\t\t}\n', '\t\tif err != nil {\n\t\t\tcontinue\n\t\t}\n'))),
 dict(name='entry-loader-exported', expect='flagged(loader/name-argument)',
      edits=entry(ENTRY_CALL.replace('loadListedStore(', 'LoadListedStore('), ENTRY_FN.replace('func loadListedStore(', 'func LoadListedStore('))),
 dict(name='append-one-by-one-foreign', expect='flagged(loader/appended-only-from-stores)', file=H, find='\t\tcertificates = append(certificates, certs...)\n',
      replace='\t\tfor i := range certs {\n\t\t\tcertificates = append(certificates, certs[i], certificates[0])\n\t\t}\n'),
 dict(name='benign-mapping-table', expect='silent', edits=[(H, MAPPING, TABLE)]),
 dict(name='mapping-table-swapped', expect='flagged(mapping/)',
      edits=[(H, MAPPING, TABLE.replace('signature.SigningSchemeX509:                 truststore.TypeCA', 'signature.SigningSchemeX509:                 truststore.TypeSigningAuthority').replace('signature.SigningSchemeX509SigningAuthority: truststore.TypeSigningAuthority', 'signature.SigningSchemeX509SigningAuthority: truststore.TypeCA'))]),
 dict(name='mapping-table-extra-scheme', expect='flagged(mapping/ca)',
      edits=[(H, MAPPING, TABLE.replace('\tsignature.SigningSchemeX509SigningAuthority: truststore.TypeSigningAuthority,\n', '\tsignature.SigningSchemeX509SigningAuthority: truststore.TypeSigningAuthority,\n\t"":                                          truststore.TypeCA,\n'))]),
 dict(name='mapping-table-no-ok-test', expect='flagged(mapping/)',
      edits=[(H, MAPPING, TABLE.replace('\ttypeToLoad, ok := storeTypeOfScheme[scheme]\n\tif !ok {\n', '\ttypeToLoad, ok := storeTypeOfScheme[scheme]\n\tif !ok && policyName == "" {\n'))]),
 dict(name='mapping-table-written-elsewhere', expect='flagged(mapping/)',
      edits=[(H, MAPPING, TABLE + '\nfunc RegisterScheme(scheme signature.SigningScheme, storeType truststore.Type) {\n\tstoreTypeOfScheme[scheme] = storeType\n}\n')]),
]


VA_LIT_REUSED_ERR = """func verifyAuthenticity(trustCerts []*x509.Certificate, outcome *notation.VerificationOutcome) *notation.ValidationResult {
	if len(trustCerts) < 1 {
		return &notation.ValidationResult{
			Error:  notation.ErrorVerificationInconclusive{Msg: "no trusted certificates are found to verify authenticity"},
			Type:   trustpolicy.TypeAuthenticity,
			Action: outcome.VerificationLevel.Enforcement[trustpolicy.TypeAuthenticity],
		}
	}
	_, err := signature.VerifyAuthenticity(&outcome.EnvelopeContent.SignerInfo, trustCerts)
	if err != nil {
		if _, ok := err.(*signature.SignatureAuthenticityError); !ok {
			err = notation.ErrorVerificationInconclusive{Msg: "authenticity verification failed with error : " + err.Error()}
		}
	}
	return &notation.ValidationResult{
		Error:  err,
		Type:   trustpolicy.TypeAuthenticity,
		Action: outcome.VerificationLevel.Enforcement[trustpolicy.TypeAuthenticity],
	}
}
"""
FOURTH = [
 dict(name='benign-literal-two-exits-error-reused', expect='silent', edits=[(V, VA_FN, VA_LIT_REUSED_ERR)]),
 dict(name='literal-two-exits-unexpected-error-cleared', expect='flagged(authenticity/verify-error-fails)',
      edits=[(V, VA_FN, VA_LIT_REUSED_ERR.replace('\t\t\terr = notation.ErrorVerificationInconclusive{Msg: "authenticity verification failed with error : " + err.Error()}\n', '\t\t\terr = nil\n'))]),
]


# the statement handed on whole to an intermediate method (parameter widened)
WHOLE_CALL = 'err = v.processStatement(ctx, signature, envelopeMediaType, trustPolicy, pluginConfig, outcome)'
WHOLE_FN = """
func (v *verifier) processStatement(ctx context.Context, sigBlob []byte, mediaType string, statement *trustpolicy.TrustPolicy, pluginConfig map[string]string, outcome *notation.VerificationOutcome) error {
	return v.processSignature(ctx, sigBlob, mediaType, statement.Name, statement.TrustedIdentities, statement.TrustStores, statement.SignatureVerification, pluginConfig, outcome)
}
"""
FIFTH = [
 dict(name='benign-statement-handed-whole', expect='silent', edits=[(V, OCI_CALL, WHOLE_CALL), (V, VA_ANCHOR, WHOLE_FN.lstrip('\n') + '\n' + VA_ANCHOR)]),
 dict(name='statement-handed-whole-not-selected', expect='flagged(scoping/one-statement)',
      edits=[(V, OCI_CALL, WHOLE_CALL.replace('trustPolicy, pluginConfig', '&v.ociTrustPolicyDoc.TrustPolicies[0], pluginConfig')), (V, VA_ANCHOR, WHOLE_FN.lstrip('\n') + '\n' + VA_ANCHOR)]),
 dict(name='statement-handed-whole-stores-of-other', expect='flagged(scoping/one-statement)',
      edits=[(V, OCI_CALL, WHOLE_CALL), (V, VA_ANCHOR, WHOLE_FN.replace('statement.TrustStores', 'v.ociTrustPolicyDoc.TrustPolicies[0].TrustStores').lstrip('\n') + '\n' + VA_ANCHOR)]),
]

VARIANTS = [
 dict(name='type-filter-removed', file=H, expect='flagged(loader/type-filter)',
      find='\t\tif trustStoreType != truststore.Type(storeType) {\n\t\t\tcontinue\n\t\t}\n', replace='\t\t_ = storeType\n'),
 dict(name='type-from-listing', file=H, expect='flagged(loader/type-argument)',
      find='certs, err := x509TrustStore.GetCertificates(ctx, trustStoreType, name)',
      replace='certs, err := x509TrustStore.GetCertificates(ctx, truststore.Type(storeType), name)'),
 dict(name='load-error-continue', file=H, expect='flagged(loader/load-error-fail-closed)',
      find='\t\tcerts, err := x509TrustStore.GetCertificates(ctx, trustStoreType, name)\n\t\tif err != nil {\n\t\t\treturn nil, err\n\t\t}',
      replace='\t\tcerts, err := x509TrustStore.GetCertificates(ctx, trustStoreType, name)\n\t\tif err != nil {\n\t\t\tcontinue\n\t\t}'),
 dict(name='partial-set-returned', file=H, expect='flagged(loader/no-partial-set)',
      find='\t\tcerts, err := x509TrustStore.GetCertificates(ctx, trustStoreType, name)\n\t\tif err != nil {\n\t\t\treturn nil, err\n\t\t}',
      replace='\t\tcerts, err := x509TrustStore.GetCertificates(ctx, trustStoreType, name)\n\t\tif err != nil {\n\t\t\treturn certificates, err\n\t\t}'),
 dict(name='ca-for-signing-authority', file=H, expect='flagged(mapping/)',
      find='\tcase signature.SigningSchemeX509SigningAuthority:\n\t\ttypeToLoad = truststore.TypeSigningAuthority',
      replace='\tcase signature.SigningSchemeX509SigningAuthority:\n\t\ttypeToLoad = truststore.TypeCA'),
 dict(name='default-scheme-ca', file=H, expect='flagged(mapping/ca)',
      find='''	case signature.SigningSchemeX509SigningAuthority:
		typeToLoad = truststore.TypeSigningAuthority
	default:
		return nil, truststore.TrustStoreError{Msg: fmt.Sprintf("error while loading the trust store, unrecognized signing scheme %q", scheme)}
	}''', replace='''	case signature.SigningSchemeX509SigningAuthority:
		typeToLoad = truststore.TypeSigningAuthority
	default:
		typeToLoad = truststore.TypeCA
	}'''),
 dict(name='tsa-store-for-authenticity', file=V, expect='flagged(mapping/tsa-only-for-timestamp)',
      find='trustCerts, err := loadX509TrustStores(ctx, outcome.EnvelopeContent.SignerInfo.SignedAttributes.SigningScheme, policyName, trustStores, v.trustStore)',
      replace='trustCerts, err := loadX509TSATrustStores(ctx, outcome.EnvelopeContent.SignerInfo.SignedAttributes.SigningScheme, policyName, trustStores, v.trustStore)'),
 dict(name='load-error-ignored-in-processing', file=V, expect='flagged(authenticity/)',
      find='''	if err != nil {
		authenticityResult = &notation.ValidationResult{
			Error:  err,
			Type:   trustpolicy.TypeAuthenticity,
			Action: outcome.VerificationLevel.Enforcement[trustpolicy.TypeAuthenticity],
		}
	} else {
		// verify authenticity
		authenticityResult = verifyAuthenticity(trustCerts, outcome)
	}''', replace='''	_ = err
	authenticityResult = verifyAuthenticity(trustCerts, outcome)'''),
 dict(name='empty-set-passes', file=V, expect='flagged(authenticity/empty-set-fails)',
      find='\tif len(trustCerts) < 1 {\n', replace='\tif trustCerts == nil {\n'),
 dict(name='stores-of-other-statement', file=V, expect='flagged(scoping/one-statement)',
      find='err = v.processSignature(ctx, signature, envelopeMediaType, trustPolicy.Name, trustPolicy.TrustedIdentities, trustPolicy.TrustStores, trustPolicy.SignatureVerification, pluginConfig, outcome)',
      replace='err = v.processSignature(ctx, signature, envelopeMediaType, trustPolicy.Name, trustPolicy.TrustedIdentities, v.ociTrustPolicyDoc.TrustPolicies[0].TrustStores, trustPolicy.SignatureVerification, pluginConfig, outcome)'),
 dict(name='second-loader-site', file=V, expect='flagged(who-may-call)',
      find='\tif len(trustCerts) < 1 {\n', replace='\tif extra, err := truststore.NewX509TrustStore(nil).GetCertificates(context.Background(), truststore.TypeCA, "default"); err == nil {\n\t\ttrustCerts = append(trustCerts, extra...)\n\t}\n\tif len(trustCerts) < 1 {\n'),
 dict(name='verify-auth-error-ignored', file=V, expect='flagged(authenticity/verify-error-fails)',
      find='''	default:
			return &notation.ValidationResult{
				Error:  notation.ErrorVerificationInconclusive{Msg: "authenticity verification failed with error : " + err.Error()},
				Type:   trustpolicy.TypeAuthenticity,
				Action: outcome.VerificationLevel.Enforcement[trustpolicy.TypeAuthenticity],
			}
		}''', replace='''	default:
		}'''),
 # benign
 dict(name='benign-switch-to-if', file=H, expect='silent',
      find='''	var typeToLoad truststore.Type
	switch scheme {
	case signature.SigningSchemeX509:
		typeToLoad = truststore.TypeCA
	case signature.SigningSchemeX509SigningAuthority:
		typeToLoad = truststore.TypeSigningAuthority
	default:
		return nil, truststore.TrustStoreError{Msg: fmt.Sprintf("error while loading the trust store, unrecognized signing scheme %q", scheme)}
	}''', replace='''	var typeToLoad truststore.Type
	if scheme == signature.SigningSchemeX509 {
		typeToLoad = truststore.TypeCA
	} else if scheme == signature.SigningSchemeX509SigningAuthority {
		typeToLoad = truststore.TypeSigningAuthority
	} else {
		return nil, truststore.TrustStoreError{Msg: fmt.Sprintf("error while loading the trust store, unrecognized signing scheme %q", scheme)}
	}'''),
 dict(name='benign-no-dedup', file=H, expect='silent',
      find='\t\tif processedStoreSet.Contains(trustStore) {\n\t\t\t// we loaded this trust store already\n\t\t\tcontinue\n\t\t}\n', replace=''),
 dict(name='benign-wrap-error', file=H, expect='silent',
      find='\t\tif err != nil {\n\t\t\treturn nil, err\n\t\t}\n\t\tcertificates = append(certificates, certs...)',
      replace='\t\tif err != nil {\n\t\t\treturn nil, fmt.Errorf("store %s: %w", name, err)\n\t\t}\n\t\tcertificates = append(certificates, certs...)'),

 # ---- second pass: shapes accepted by class (extra_c03.go) -------------------------------------------------------------
] + SECOND_PASS + THIRD + FOURTH + FIFTH

