V = 'verifier/verifier.go'
H = 'verifier/helpers.go'

# ---------------------------------------------------------------------------------------------------------------------------
# second pass. Building blocks: the whole of verifyAuthenticity and the load block of processSignature are replaced.
VA_FN = """func verifyAuthenticity(trustCerts []*x509.Certificate, outcome *notation.VerificationOutcome) *notation.ValidationResult {
	if len(trustCerts) < 1 {
		return &notation.ValidationResult{
			Error:  notation.ErrorVerificationInconclusive{Msg: "no trusted certificates are found to verify authenticity"},
			Type:   trustpolicy.TypeAuthenticity,
			Action: outcome.VerificationLevel.Enforcement[trustpolicy.TypeAuthenticity],
		}
	}
	_, err := signature.VerifyAuthenticity(&outcome.EnvelopeContent.SignerInfo, trustCerts)
	if err != nil {
		switch err.(type) {
		case *signature.SignatureAuthenticityError:
			return &notation.ValidationResult{
				Error:  err,
				Type:   trustpolicy.TypeAuthenticity,
				Action: outcome.VerificationLevel.Enforcement[trustpolicy.TypeAuthenticity],
			}
		default:
			return &notation.ValidationResult{
				Error:  notation.ErrorVerificationInconclusive{Msg: "authenticity verification failed with error : " + err.Error()},
				Type:   trustpolicy.TypeAuthenticity,
				Action: outcome.VerificationLevel.Enforcement[trustpolicy.TypeAuthenticity],
			}
		}
	}

	return &notation.ValidationResult{
		Type:   trustpolicy.TypeAuthenticity,
		Action: outcome.VerificationLevel.Enforcement[trustpolicy.TypeAuthenticity],
	}
}
"""
LOAD_BLOCK = """	trustCerts, err := loadX509TrustStores(ctx, outcome.EnvelopeContent.SignerInfo.SignedAttributes.SigningScheme, policyName, trustStores, v.trustStore)
	var authenticityResult *notation.ValidationResult
	if err != nil {
		authenticityResult = &notation.ValidationResult{
			Error:  err,
			Type:   trustpolicy.TypeAuthenticity,
			Action: outcome.VerificationLevel.Enforcement[trustpolicy.TypeAuthenticity],
		}
	} else {
		// verify authenticity
		authenticityResult = verifyAuthenticity(trustCerts, outcome)
	}
"""
CTOR = """
func newValidationResult(outcome *notation.VerificationOutcome, resultType trustpolicy.ValidationType, err error) *notation.ValidationResult {
	return &notation.ValidationResult{
		Error:  err,
		Type:   resultType,
		Action: outcome.VerificationLevel.Enforcement[resultType],
	}
}
"""
# constructor with the parameters in another order, filled in field by field, and a second one delegating to it
CTOR2 = """
func makeResult(err error, resultType trustpolicy.ValidationType, outcome *notation.VerificationOutcome) *notation.ValidationResult {
	r := new(notation.ValidationResult)
	r.Type = resultType
	r.Action = outcome.VerificationLevel.Enforcement[resultType]
	r.Error = err
	return r
}

func authenticityResultOf(outcome *notation.VerificationOutcome, err error) *notation.ValidationResult {
	return makeResult(err, trustpolicy.TypeAuthenticity, outcome)
}
"""
LOAD_CTOR = """	trustCerts, err := loadX509TrustStores(ctx, outcome.EnvelopeContent.SignerInfo.SignedAttributes.SigningScheme, policyName, trustStores, v.trustStore)
	var authenticityResult *notation.ValidationResult
	if err != nil {
		authenticityResult = newValidationResult(outcome, trustpolicy.TypeAuthenticity, err)
	} else {
		// verify authenticity
		authenticityResult = verifyAuthenticity(trustCerts, outcome)
	}
"""
# multi-exit, results by constructor (the shape of benign2/out-C02/2)
VA_CTOR_MULTI = """func verifyAuthenticity(trustCerts []*x509.Certificate, outcome *notation.VerificationOutcome) *notation.ValidationResult {
	if len(trustCerts) < 1 {
		return newValidationResult(outcome, trustpolicy.TypeAuthenticity, notation.ErrorVerificationInconclusive{Msg: "no trusted certificates are found to verify authenticity"})
	}
	_, err := signature.VerifyAuthenticity(&outcome.EnvelopeContent.SignerInfo, trustCerts)
	if err != nil {
		if _, ok := err.(*signature.SignatureAuthenticityError); !ok {
			err = notation.ErrorVerificationInconclusive{Msg: "authenticity verification failed with error : " + err.Error()}
		}
		return newValidationResult(outcome, trustpolicy.TypeAuthenticity, err)
	}
	return newValidationResult(outcome, trustpolicy.TypeAuthenticity, nil)
}
"""
# single exit, type switch with a nil arm (the shape of benign2/out-C01/2)
VA_CTOR_SINGLE = """func verifyAuthenticity(trustCerts []*x509.Certificate, outcome *notation.VerificationOutcome) *notation.ValidationResult {
	if len(trustCerts) < 1 {
		return newValidationResult(outcome, trustpolicy.TypeAuthenticity, notation.ErrorVerificationInconclusive{Msg: "no trusted certificates are found to verify authenticity"})
	}
	_, err := signature.VerifyAuthenticity(&outcome.EnvelopeContent.SignerInfo, trustCerts)
	switch err.(type) {
	case nil:
	case *signature.SignatureAuthenticityError:
	default:
		err = notation.ErrorVerificationInconclusive{Msg: "authenticity verification failed with error : " + err.Error()}
	}
	return newValidationResult(outcome, trustpolicy.TypeAuthenticity, err)
}
"""
# one exit for everything: error local, the empty set included; delegating constructor with another parameter order
VA_CTOR2_ONE_EXIT = """func verifyAuthenticity(trustCerts []*x509.Certificate, outcome *notation.VerificationOutcome) *notation.ValidationResult {
	var failure error
	if len(trustCerts) == 0 {
		failure = notation.ErrorVerificationInconclusive{Msg: "no trusted certificates are found to verify authenticity"}
	} else if _, err := signature.VerifyAuthenticity(&outcome.EnvelopeContent.SignerInfo, trustCerts); err != nil {
		failure = err
		if _, ok := err.(*signature.SignatureAuthenticityError); !ok {
			failure = notation.ErrorVerificationInconclusive{Msg: "authenticity verification failed with error : " + err.Error()}
		}
	}
	return authenticityResultOf(outcome, failure)
}
"""
# one exit, composite literal, error local
VA_LIT_ONE_EXIT = """func verifyAuthenticity(trustCerts []*x509.Certificate, outcome *notation.VerificationOutcome) *notation.ValidationResult {
	var failure error
	if len(trustCerts) < 1 {
		failure = notation.ErrorVerificationInconclusive{Msg: "no trusted certificates are found to verify authenticity"}
	} else if _, err := signature.VerifyAuthenticity(&outcome.EnvelopeContent.SignerInfo, trustCerts); err != nil {
		failure = err
		if _, ok := err.(*signature.SignatureAuthenticityError); !ok {
			failure = notation.ErrorVerificationInconclusive{Msg: "authenticity verification failed with error : " + err.Error()}
		}
	}
	return &notation.ValidationResult{
		Error:  failure,
		Type:   trustpolicy.TypeAuthenticity,
		Action: outcome.VerificationLevel.Enforcement[trustpolicy.TypeAuthenticity],
	}
}
"""
# the chain check lives in a helper of verifyAuthenticity (extraction cut below the result building)
VA_CHAIN_HELPER = """func chainError(signerInfo *signature.SignerInfo, roots []*x509.Certificate) error {
	_, err := signature.VerifyAuthenticity(signerInfo, roots)
	return err
}

func verifyAuthenticity(trustCerts []*x509.Certificate, outcome *notation.VerificationOutcome) *notation.ValidationResult {
	if len(trustCerts) < 1 {
		return newValidationResult(outcome, trustpolicy.TypeAuthenticity, notation.ErrorVerificationInconclusive{Msg: "no trusted certificates are found to verify authenticity"})
	}
	err := chainError(&outcome.EnvelopeContent.SignerInfo, trustCerts)
	if err != nil {
		if _, ok := err.(*signature.SignatureAuthenticityError); !ok {
			err = notation.ErrorVerificationInconclusive{Msg: "authenticity verification failed with error : " + err.Error()}
		}
	}
	return newValidationResult(outcome, trustpolicy.TypeAuthenticity, err)
}
"""
# the authenticity step as a method of its own (the shape of benign2/out-C03/2 and benign/out-C02/1)
STEP_CALL = "\tauthenticityResult := v.verifyTrustStoreAuthenticity(ctx, policyName, trustStores, outcome)\n"
STEP_FN = """
func (v *verifier) verifyTrustStoreAuthenticity(ctx context.Context, policyName string, trustStores []string, outcome *notation.VerificationOutcome) *notation.ValidationResult {
	scheme := outcome.EnvelopeContent.SignerInfo.SignedAttributes.SigningScheme
	trustCerts, err := loadX509TrustStores(ctx, scheme, policyName, trustStores, v.trustStore)
	if err != nil {
		return &notation.ValidationResult{
			Error:  err,
			Type:   trustpolicy.TypeAuthenticity,
			Action: outcome.VerificationLevel.Enforcement[trustpolicy.TypeAuthenticity],
		}
	}
	return verifyAuthenticity(trustCerts, outcome)
}
"""
# the extraction cut higher: one method for load + verify + bookkeeping, taking everything it needs as parameters in another order
STEP2_CALL = "\tauthenticityResult := authenticate(ctx, outcome, v.trustStore, trustStores, policyName)\n"
STEP2_FN = """
func authenticate(ctx context.Context, outcome *notation.VerificationOutcome, x509TrustStore truststore.X509TrustStore, stores []string, statementName string) *notation.ValidationResult {
	roots, loadErr := trustedRoots(ctx, outcome, x509TrustStore, stores, statementName)
	if loadErr == nil {
		return verifyAuthenticity(roots, outcome)
	}
	return &notation.ValidationResult{
		Error:  loadErr,
		Type:   trustpolicy.TypeAuthenticity,
		Action: outcome.VerificationLevel.Enforcement[trustpolicy.TypeAuthenticity],
	}
}

func trustedRoots(ctx context.Context, outcome *notation.VerificationOutcome, x509TrustStore truststore.X509TrustStore, stores []string, statementName string) ([]*x509.Certificate, error) {
	return loadX509TrustStores(ctx, outcome.EnvelopeContent.SignerInfo.SignedAttributes.SigningScheme, statementName, stores, x509TrustStore)
}
"""
# a forwarding layer that wraps the error
FWD_WRAP = """
func trustedRoots(ctx context.Context, outcome *notation.VerificationOutcome, x509TrustStore truststore.X509TrustStore, stores []string, statementName string) ([]*x509.Certificate, error) {
	roots, err := loadX509TrustStores(ctx, outcome.EnvelopeContent.SignerInfo.SignedAttributes.SigningScheme, statementName, stores, x509TrustStore)
	if err != nil {
		return nil, fmt.Errorf("trust stores of statement %q: %w", statementName, err)
	}
	return roots, nil
}
"""
STEP2_FN_WRAP = STEP2_FN[:STEP2_FN.index('\nfunc trustedRoots')] + FWD_WRAP
# the load kept in a closure of processSignature
LOAD_CLOSURE = """	loadRoots := func() ([]*x509.Certificate, error) {
		return loadX509TrustStores(ctx, outcome.EnvelopeContent.SignerInfo.SignedAttributes.SigningScheme, policyName, trustStores, v.trustStore)
	}
	trustCerts, err := loadRoots()
	var authenticityResult *notation.ValidationResult
	if err != nil {
		authenticityResult = &notation.ValidationResult{
			Error:  err,
			Type:   trustpolicy.TypeAuthenticity,
			Action: outcome.VerificationLevel.Enforcement[trustpolicy.TypeAuthenticity],
		}
	} else {
		// verify authenticity
		authenticityResult = verifyAuthenticity(trustCerts, outcome)
	}
"""
# blob statement selection in a helper (the shape of benign/out-C07/4)
BLOB_SEL = """	var trustPolicy *trustpolicy.BlobTrustPolicy
	var err error
	if opts.TrustPolicyName == "" {
		trustPolicy, err = v.blobTrustPolicyDoc.GetGlobalTrustPolicy()
	} else {
		trustPolicy, err = v.blobTrustPolicyDoc.GetApplicableTrustPolicy(opts.TrustPolicyName)
	}
"""
BLOB_SEL_CALL = "\ttrustPolicy, err := v.selectBlobTrustPolicy(opts.TrustPolicyName)\n"
BLOB_SEL_FN = """
func (v *verifier) selectBlobTrustPolicy(name string) (*trustpolicy.BlobTrustPolicy, error) {
	if name == "" {
		return v.blobTrustPolicyDoc.GetGlobalTrustPolicy()
	}
	return v.blobTrustPolicyDoc.GetApplicableTrustPolicy(name)
}
"""
# selection helper with one exit and a switch, taking the document as a parameter
BLOB_SEL_CALL2 = "\ttrustPolicy, err := blobStatement(v.blobTrustPolicyDoc, opts.TrustPolicyName)\n"
BLOB_SEL_FN2 = """
func blobStatement(doc *trustpolicy.BlobDocument, name string) (statement *trustpolicy.BlobTrustPolicy, err error) {
	switch name {
	case "":
		statement, err = doc.GetGlobalTrustPolicy()
	default:
		statement, err = doc.GetApplicableTrustPolicy(name)
	}
	return statement, err
}
"""
OCI_CALL = 'err = v.processSignature(ctx, signature, envelopeMediaType, trustPolicy.Name, trustPolicy.TrustedIdentities, trustPolicy.TrustStores, trustPolicy.SignatureVerification, pluginConfig, outcome)'
BLOB_CALL = 'err = v.processSignature(ctx, signature, opts.SignatureMediaType, trustPolicy.Name, trustPolicy.TrustedIdentities, trustPolicy.TrustStores, trustPolicy.SignatureVerification, opts.PluginConfig, outcome)'
VA_ANCHOR = 'func verifyAuthenticity(trustCerts []*x509.Certificate, outcome *notation.VerificationOutcome) *notation.ValidationResult {\n'
TS_CALL = 'authenticTimestampResult := verifyAuthenticTimestamp(ctx, policyName, trustStores, signatureVerification, v.trustStore, v.revocationTimestampingValidator, outcome)'

def ctor(va, load=LOAD_CTOR, ctorsrc=CTOR):
    return [(V, VA_FN, va + ctorsrc), (V, LOAD_BLOCK, load)]

SECOND_PASS = [
 # --- class: result object built by a constructor function / one exit with an error local -------------------------------
 dict(name='benign-ctor-multi-exit', expect='silent', edits=ctor(VA_CTOR_MULTI)),
 dict(name='benign-ctor-single-exit-nil-arm', expect='silent', edits=ctor(VA_CTOR_SINGLE)),
 dict(name='benign-ctor-delegating-one-exit', expect='silent', edits=ctor(VA_CTOR2_ONE_EXIT, LOAD_CTOR.replace('newValidationResult(outcome, trustpolicy.TypeAuthenticity, err)', 'authenticityResultOf(outcome, err)'), CTOR2)),
 dict(name='benign-literal-one-exit-error-local', expect='silent', edits=[(V, VA_FN, VA_LIT_ONE_EXIT)]),
 dict(name='benign-ctor-chain-helper', expect='silent', edits=ctor(VA_CHAIN_HELPER)),
 dict(name='ctor-empty-set-passes', expect='flagged(authenticity/empty-set-fails)', edits=ctor(VA_CTOR_MULTI.replace('if len(trustCerts) < 1 {', 'if trustCerts == nil {'))),
 dict(name='ctor-single-exit-verify-error-dropped', expect='flagged(authenticity/verify-error-fails)',
      edits=ctor(VA_CTOR_SINGLE.replace('\tdefault:\n\t\terr = notation.ErrorVerificationInconclusive{Msg: "authenticity verification failed with error : " + err.Error()}\n', '\tdefault:\n\t\terr = nil\n'))),
 dict(name='ctor-single-exit-no-error-test', expect='flagged(authenticity/verify-error-fails)',
      edits=ctor(VA_CTOR_SINGLE.replace('\treturn newValidationResult(outcome, trustpolicy.TypeAuthenticity, err)\n}', '\t_ = err\n\treturn newValidationResult(outcome, trustpolicy.TypeAuthenticity, nil)\n}'))),
 dict(name='ctor-ignores-error', expect='flagged(authenticity/)', edits=ctor(VA_CTOR_MULTI, LOAD_CTOR, CTOR.replace('\t\tError:  err,\n', ''))),
 dict(name='ctor-stores-error-conditionally', expect='flagged(authenticity/)', edits=ctor(VA_CTOR_MULTI, LOAD_CTOR, """
func newValidationResult(outcome *notation.VerificationOutcome, resultType trustpolicy.ValidationType, err error) *notation.ValidationResult {
	r := &notation.ValidationResult{
		Type:   resultType,
		Action: outcome.VerificationLevel.Enforcement[resultType],
	}
	if r.Action == trustpolicy.ActionEnforce {
		r.Error = err
	}
	return r
}
""")),
 dict(name='ctor-load-error-dropped', expect='flagged(authenticity/load-error-is-failure)',
      edits=ctor(VA_CTOR_MULTI, LOAD_CTOR.replace('newValidationResult(outcome, trustpolicy.TypeAuthenticity, err)', 'newValidationResult(outcome, trustpolicy.TypeAuthenticity, nil)'))),
 dict(name='ctor-load-error-as-other-type', expect='flagged(authenticity/load-error-is-failure)',
      edits=ctor(VA_CTOR_MULTI, LOAD_CTOR.replace('newValidationResult(outcome, trustpolicy.TypeAuthenticity, err)', 'newValidationResult(outcome, trustpolicy.TypeExpiry, err)'))),
 dict(name='ctor-delegating-one-exit-empty-set-passes', expect='flagged(authenticity/empty-set-fails)',
      edits=ctor(VA_CTOR2_ONE_EXIT.replace('\tif len(trustCerts) == 0 {\n\t\tfailure = notation.ErrorVerificationInconclusive{Msg: "no trusted certificates are found to verify authenticity"}\n\t} else if', '\tif'),
                 LOAD_CTOR.replace('newValidationResult(outcome, trustpolicy.TypeAuthenticity, err)', 'authenticityResultOf(outcome, err)'), CTOR2)),
 dict(name='ctor-delegating-swaps-error-away', expect='flagged(authenticity/)',
      edits=ctor(VA_CTOR2_ONE_EXIT, LOAD_CTOR.replace('newValidationResult(outcome, trustpolicy.TypeAuthenticity, err)', 'authenticityResultOf(outcome, err)'),
                 CTOR2.replace('return makeResult(err, trustpolicy.TypeAuthenticity, outcome)', 'return makeResult(nil, trustpolicy.TypeAuthenticity, outcome)'))),
 dict(name='literal-one-exit-auth-error-cleared', expect='flagged(authenticity/verify-error-fails)',
      edits=[(V, VA_FN, VA_LIT_ONE_EXIT.replace('\t\tfailure = err\n\t\tif _, ok := err.(*signature.SignatureAuthenticityError); !ok {', '\t\tif _, ok := err.(*signature.SignatureAuthenticityError); !ok {'))]),
 dict(name='literal-one-exit-result-reset', expect='flagged(authenticity/)',
      edits=[(V, VA_FN, VA_LIT_ONE_EXIT.replace('\treturn &notation.ValidationResult{\n\t\tError:  failure,\n\t\tType:   trustpolicy.TypeAuthenticity,\n\t\tAction: outcome.VerificationLevel.Enforcement[trustpolicy.TypeAuthenticity],\n\t}\n}',
        '\tresult := &notation.ValidationResult{\n\t\tError:  failure,\n\t\tType:   trustpolicy.TypeAuthenticity,\n\t\tAction: outcome.VerificationLevel.Enforcement[trustpolicy.TypeAuthenticity],\n\t}\n\tif result.Action != trustpolicy.ActionEnforce {\n\t\tresult.Error = nil\n\t}\n\treturn result\n}'))]),
 dict(name='ctor-chain-helper-swallows', expect='flagged(authenticity/verify-error-fails)',
      edits=ctor(VA_CHAIN_HELPER.replace('\t_, err := signature.VerifyAuthenticity(signerInfo, roots)\n\treturn err\n', '\t_, _ = signature.VerifyAuthenticity(signerInfo, roots)\n\treturn nil\n'))),
 # --- class: extract-helper at another boundary (authenticity step, forwarding layers, closure) --------------------------
 dict(name='benign-step-extracted', expect='silent', edits=[(V, LOAD_BLOCK, STEP_CALL), (V, VA_ANCHOR, STEP_FN.lstrip('\n') + '\n' + VA_ANCHOR)]),
 dict(name='benign-step-and-forwarder', expect='silent', edits=[(V, LOAD_BLOCK, STEP2_CALL), (V, VA_ANCHOR, STEP2_FN.lstrip('\n') + '\n' + VA_ANCHOR)]),
 dict(name='benign-forwarder-wraps-error', expect='silent', edits=[(V, LOAD_BLOCK, STEP2_CALL), (V, VA_ANCHOR, STEP2_FN_WRAP.lstrip('\n') + '\n' + VA_ANCHOR)]),
 dict(name='benign-load-in-closure', expect='silent', edits=[(V, LOAD_BLOCK, LOAD_CLOSURE)]),
 dict(name='step-extracted-other-statement', expect='flagged(scoping/one-statement)',
      edits=[(V, LOAD_BLOCK, STEP_CALL), (V, VA_ANCHOR, STEP_FN.lstrip('\n') + '\n' + VA_ANCHOR),
             (V, OCI_CALL, OCI_CALL.replace('trustPolicy.TrustStores', 'v.ociTrustPolicyDoc.TrustPolicies[0].TrustStores'))]),
 dict(name='step-extracted-extra-store', expect='flagged(scoping/loader-gets-statement-stores)',
      edits=[(V, LOAD_BLOCK, STEP_CALL), (V, VA_ANCHOR, STEP_FN.replace('loadX509TrustStores(ctx, scheme, policyName, trustStores, v.trustStore)', 'loadX509TrustStores(ctx, scheme, policyName, append(trustStores, "ca:default"), v.trustStore)').lstrip('\n') + '\n' + VA_ANCHOR)]),
 dict(name='step-extracted-load-error-ignored', expect='flagged(authenticity/)',
      edits=[(V, LOAD_BLOCK, STEP_CALL), (V, VA_ANCHOR, STEP_FN.replace('\tif err != nil {\n\t\treturn &notation.ValidationResult{\n\t\t\tError:  err,\n\t\t\tType:   trustpolicy.TypeAuthenticity,\n\t\t\tAction: outcome.VerificationLevel.Enforcement[trustpolicy.TypeAuthenticity],\n\t\t}\n\t}\n', '\t_ = err\n').lstrip('\n') + '\n' + VA_ANCHOR)]),
 dict(name='step-extracted-scheme-from-caller', expect='flagged(mapping/scheme-provenance)',
      edits=[(V, LOAD_BLOCK, STEP_CALL), (V, VA_ANCHOR, STEP_FN.replace('scheme := outcome.EnvelopeContent.SignerInfo.SignedAttributes.SigningScheme', 'scheme := signature.SigningScheme(policyName)').lstrip('\n') + '\n' + VA_ANCHOR)]),
 dict(name='forwarder-swallows-load-error', expect='flagged(authenticity/)',
      edits=[(V, LOAD_BLOCK, STEP2_CALL), (V, VA_ANCHOR, STEP2_FN_WRAP.replace('\tif err != nil {\n\t\treturn nil, fmt.Errorf("trust stores of statement %q: %w", statementName, err)\n\t}\n', '\t_ = err\n').lstrip('\n') + '\n' + VA_ANCHOR)]),
 dict(name='forwarder-adds-certificates', expect='flagged(authenticity/)',
      edits=[(V, LOAD_BLOCK, STEP2_CALL), (V, VA_ANCHOR, STEP2_FN_WRAP.replace('\treturn roots, nil\n', '\treturn append(roots, outcome.EnvelopeContent.SignerInfo.CertificateChain...), nil\n').lstrip('\n') + '\n' + VA_ANCHOR)]),
 dict(name='closure-loads-other-stores', expect='flagged(scoping/)',
      edits=[(V, LOAD_BLOCK, LOAD_CLOSURE.replace('policyName, trustStores, v.trustStore)\n\t}', 'policyName, trustStores, v.trustStore)\n\t}\n\ttrustStores = v.ociTrustPolicyDoc.TrustPolicies[0].TrustStores'))]),
 dict(name='certs-mixed-before-verify', expect='flagged(authenticity/certs-from-loader)',
      find='\t\tauthenticityResult = verifyAuthenticity(trustCerts, outcome)\n', file=V,
      replace='\t\tauthenticityResult = verifyAuthenticity(append(trustCerts, outcome.EnvelopeContent.SignerInfo.CertificateChain...), outcome)\n'),
 # --- class: statement selection behind a helper; fields of one statement ----------------------------------------------------
 dict(name='benign-blob-selection-helper', expect='silent', edits=[(V, BLOB_SEL, BLOB_SEL_CALL), (V, VA_ANCHOR, BLOB_SEL_FN.lstrip('\n') + '\n' + VA_ANCHOR)]),
 dict(name='benign-blob-selection-helper-one-exit', expect='silent', edits=[(V, BLOB_SEL, BLOB_SEL_CALL2), (V, VA_ANCHOR, BLOB_SEL_FN2.lstrip('\n') + '\n' + VA_ANCHOR)]),
 dict(name='benign-statement-fields-in-locals', expect='silent', file=V, find=OCI_CALL,
      replace='statementName, stores := trustPolicy.Name, trustPolicy.TrustStores\n\t' + OCI_CALL.replace('trustPolicy.Name', 'statementName').replace('trustPolicy.TrustStores', 'stores')),
 dict(name='blob-selection-helper-first-statement', expect='flagged(scoping/one-statement)',
      edits=[(V, BLOB_SEL, BLOB_SEL_CALL), (V, VA_ANCHOR, BLOB_SEL_FN.replace('\t\treturn v.blobTrustPolicyDoc.GetGlobalTrustPolicy()\n', '\t\treturn &v.blobTrustPolicyDoc.TrustPolicies[0], nil\n').lstrip('\n') + '\n' + VA_ANCHOR)]),
 dict(name='blob-selection-helper-one-exit-fallback', expect='flagged(scoping/one-statement)',
      edits=[(V, BLOB_SEL, BLOB_SEL_CALL2), (V, VA_ANCHOR, BLOB_SEL_FN2.replace('\treturn statement, err\n', '\tif err != nil && len(doc.TrustPolicies) > 0 {\n\t\tstatement, err = &doc.TrustPolicies[0], nil\n\t}\n\treturn statement, err\n').lstrip('\n') + '\n' + VA_ANCHOR)]),
 dict(name='identities-of-other-statement', expect='flagged(scoping/one-statement)', file=V, find=OCI_CALL,
      replace=OCI_CALL.replace('trustPolicy.TrustedIdentities', 'v.ociTrustPolicyDoc.TrustPolicies[0].TrustedIdentities')),
 dict(name='blob-stores-of-other-statement', expect='flagged(scoping/one-statement)', file=V, find=BLOB_CALL,
      replace=BLOB_CALL.replace('trustPolicy.TrustStores', 'v.blobTrustPolicyDoc.TrustPolicies[0].TrustStores')),
 dict(name='tsa-stores-of-other-statement', expect='flagged(scoping/)', file=V, find=TS_CALL,
      replace=TS_CALL.replace('policyName, trustStores, signatureVerification', 'policyName, v.ociTrustPolicyDoc.TrustPolicies[0].TrustStores, signatureVerification')),
 dict(name='stores-from-exported-entry', expect='flagged(scoping/)', file=V, find=OCI_CALL,
      replace=OCI_CALL.replace('trustPolicy.TrustStores', 'strings.Split(opts.UserMetadata["stores"], ",")')),
]


# ---- loader: the body of the per-entry loop as a function of its own; certificates appended one by one ---------------------
LOOP = """	for _, trustStore := range trustStores {
		if processedStoreSet.Contains(trustStore) {
			// we loaded this trust store already
			continue
		}

		storeType, name, found := strings.Cut(trustStore, ":")
		if !found {
			return nil, truststore.TrustStoreError{Msg: fmt.Sprintf("error while loading the trust store, trust policy statement %q is missing separator in trust store value %q. The required format is <TrustStoreType>:<TrustStoreName>", policyName, trustStore)}
		}
		if trustStoreType != truststore.Type(storeType) {
			continue
		}

		certs, err := x509TrustStore.GetCertificates(ctx, trustStoreType, name)
		if err != nil {
			return nil, err
		}
		certificates = append(certificates, certs...)
		processedStoreSet.Add(trustStore)
	}
	return certificates, nil
}
"""
LOOP_INNER = """		storeType, name, found := strings.Cut(trustStore, ":")
		if !found {
			return nil, truststore.TrustStoreError{Msg: fmt.Sprintf("error while loading the trust store, trust policy statement %q is missing separator in trust store value %q. The required format is <TrustStoreType>:<TrustStoreName>", policyName, trustStore)}
		}
		if trustStoreType != truststore.Type(storeType) {
			continue
		}

		certs, err := x509TrustStore.GetCertificates(ctx, trustStoreType, name)
		if err != nil {
			return nil, err
		}
"""
ENTRY_CALL = """		certs, err := loadListedStore(ctx, trustStoreType, policyName, trustStore, x509TrustStore)
		if err != nil {
			return nil, err
		}
"""
ENTRY_FN = """
func loadListedStore(ctx context.Context, wanted truststore.Type, policyName string, listed string, x509TrustStore truststore.X509TrustStore) ([]*x509.Certificate, error) {
	storeType, name, found := strings.Cut(listed, ":")
	if !found {
		return nil, truststore.TrustStoreError{Msg: fmt.Sprintf("error while loading the trust store, trust policy statement %q is missing separator in trust store value %q. The required format is <TrustStoreType>:<TrustStoreName>", policyName, listed)}
	}
	if wanted != truststore.Type(storeType) {
		return nil, nil
	}
	return x509TrustStore.GetCertificates(ctx, wanted, name)
}
"""
# other parameter order, guard nested the other way round, error wrapped
ENTRY_CALL2 = """		certs, err := certificatesOf(ctx, x509TrustStore, trustStore, trustStoreType, policyName)
		if err != nil {
			return nil, err
		}
"""
ENTRY_FN2 = """
func certificatesOf(ctx context.Context, x509TrustStore truststore.X509TrustStore, entry string, wanted truststore.Type, statement string) ([]*x509.Certificate, error) {
	prefix, name, found := strings.Cut(entry, ":")
	if !found {
		return nil, truststore.TrustStoreError{Msg: fmt.Sprintf("error while loading the trust store, trust policy statement %q is missing separator in trust store value %q. The required format is <TrustStoreType>:<TrustStoreName>", statement, entry)}
	}
	if truststore.Type(prefix) == wanted {
		certs, err := x509TrustStore.GetCertificates(ctx, wanted, name)
		if err != nil {
			return nil, fmt.Errorf("trust store %q: %w", entry, err)
		}
		return certs, nil
	}
	return nil, nil
}
"""
def entry(call=ENTRY_CALL, fn=ENTRY_FN, loop=None):
    l = LOOP.replace(LOOP_INNER, call)
    if loop: l = loop(l)
    return [(H, LOOP, l + fn)]
ONE_BY_ONE = '\t\tfor _, cert := range certs {\n\t\t\tcertificates = append(certificates, cert)\n\t\t}\n'
# ---- mapping: the switch written as a table -----------------------------------------------------------------------------
MAPPING = """	var typeToLoad truststore.Type
	switch scheme {
	case signature.SigningSchemeX509:
		typeToLoad = truststore.TypeCA
	case signature.SigningSchemeX509SigningAuthority:
		typeToLoad = truststore.TypeSigningAuthority
	default:
		return nil, truststore.TrustStoreError{Msg: fmt.Sprintf("error while loading the trust store, unrecognized signing scheme %q", scheme)}
	}
	return loadX509TrustStoresWithType(ctx, typeToLoad, policyName, trustStores, x509TrustStore)
}
"""
TABLE = """	typeToLoad, ok := storeTypeOfScheme[scheme]
	if !ok {
		return nil, truststore.TrustStoreError{Msg: fmt.Sprintf("error while loading the trust store, unrecognized signing scheme %q", scheme)}
	}
	return loadX509TrustStoresWithType(ctx, typeToLoad, policyName, trustStores, x509TrustStore)
}

var storeTypeOfScheme = map[signature.SigningScheme]truststore.Type{
	signature.SigningSchemeX509:                 truststore.TypeCA,
	signature.SigningSchemeX509SigningAuthority: truststore.TypeSigningAuthority,
}
"""

THIRD = [
 dict(name='benign-entry-loader', expect='silent', edits=entry()),
 dict(name='benign-entry-loader-reordered-wrapping', expect='silent', edits=entry(ENTRY_CALL2, ENTRY_FN2)),
 dict(name='benign-append-one-by-one', expect='silent', file=H, find='\t\tcertificates = append(certificates, certs...)\n', replace=ONE_BY_ONE),
 dict(name='benign-entry-loader-append-one-by-one', expect='silent', edits=entry(loop=lambda l: l.replace('\t\tcertificates = append(certificates, certs...)\n', ONE_BY_ONE))),
 dict(name='entry-loader-swallows-error', expect='flagged(loader/entry-loader-forwards)',
      edits=entry(ENTRY_CALL2, ENTRY_FN2.replace('\t\tif err != nil {\n\t\t\treturn nil, fmt.Errorf("trust store %q: %w", entry, err)\n\t\t}\n', '\t\t_ = err\n'))),
 dict(name='entry-loader-adds-certificates', expect='flagged(loader/entry-loader-forwards)',
      edits=entry(ENTRY_CALL2, ENTRY_FN2.replace('\t\treturn certs, nil\n', '\t\tmore, _ := x509.SystemCertPool()\n\t\t_ = more\n\t\treturn append(certs, certs...), nil\n'))),
 dict(name='entry-loader-no-type-filter', expect='flagged(loader/type-filter)',
      edits=entry(fn=ENTRY_FN.replace('\tif wanted != truststore.Type(storeType) {\n\t\treturn nil, nil\n\t}\n', '\t_ = storeType\n'))),
 dict(name='entry-loader-type-from-listing', expect='flagged(loader/type-argument)',
      edits=entry(fn=ENTRY_FN.replace('GetCertificates(ctx, wanted, name)', 'GetCertificates(ctx, truststore.Type(storeType), name)'))),
 dict(name='entry-loader-given-other-entry', expect='flagged(loader/name-argument)',
      edits=entry(ENTRY_CALL.replace('policyName, trustStore, x509TrustStore)', 'policyName, "ca:"+policyName, x509TrustStore)'))),
 dict(name='entry-loader-given-fixed-type', expect='flagged(mapping/)',
      edits=entry(ENTRY_CALL.replace('loadListedStore(ctx, trustStoreType, policyName', 'loadListedStore(ctx, truststore.Type(policyName), policyName'))),
 dict(name='entry-loader-caller-skips-failed-store', expect='flagged(loader/load-error-fail-closed)',
      edits=entry(ENTRY_CALL.replace('\t\tif err != nil {\n\t\t\treturn nil, err\n\t\t}\n', '\t\tif err != nil {\n\t\t\tcontinue\n\t\t}\n'))),
 dict(name='entry-loader-exported', expect='flagged(loader/name-argument)',
      edits=entry(ENTRY_CALL.replace('loadListedStore(', 'LoadListedStore('), ENTRY_FN.replace('func loadListedStore(', 'func LoadListedStore('))),
 dict(name='append-one-by-one-foreign', expect='flagged(loader/appended-only-from-stores)', file=H, find='\t\tcertificates = append(certificates, certs...)\n',
      replace='\t\tfor i := range certs {\n\t\t\tcertificates = append(certificates, certs[i], certificates[0])\n\t\t}\n'),
 dict(name='benign-mapping-table', expect='silent', edits=[(H, MAPPING, TABLE)]),
 dict(name='mapping-table-swapped', expect='flagged(mapping/)',
      edits=[(H, MAPPING, TABLE.replace('signature.SigningSchemeX509:                 truststore.TypeCA', 'signature.SigningSchemeX509:                 truststore.TypeSigningAuthority').replace('signature.SigningSchemeX509SigningAuthority: truststore.TypeSigningAuthority', 'signature.SigningSchemeX509SigningAuthority: truststore.TypeCA'))]),
 dict(name='mapping-table-extra-scheme', expect='flagged(mapping/ca)',
      edits=[(H, MAPPING, TABLE.replace('\tsignature.SigningSchemeX509SigningAuthority: truststore.TypeSigningAuthority,\n', '\tsignature.SigningSchemeX509SigningAuthority: truststore.TypeSigningAuthority,\n\t"":                                          truststore.TypeCA,\n'))]),
 dict(name='mapping-table-no-ok-test', expect='flagged(mapping/)',
      edits=[(H, MAPPING, TABLE.replace('\ttypeToLoad, ok := storeTypeOfScheme[scheme]\n\tif !ok {\n', '\ttypeToLoad, ok := storeTypeOfScheme[scheme]\n\tif !ok && policyName == "" {\n'))]),
 dict(name='mapping-table-written-elsewhere', expect='flagged(mapping/)',
      edits=[(H, MAPPING, TABLE + '\nfunc RegisterScheme(scheme signature.SigningScheme, storeType truststore.Type) {\n\tstoreTypeOfScheme[scheme] = storeType\n}\n')]),
]


VA_LIT_REUSED_ERR = """func verifyAuthenticity(trustCerts []*x509.Certificate, outcome *notation.VerificationOutcome) *notation.ValidationResult {
	if len(trustCerts) < 1 {
		return &notation.ValidationResult{
			Error:  notation.ErrorVerificationInconclusive{Msg: "no trusted certificates are found to verify authenticity"},
			Type:   trustpolicy.TypeAuthenticity,
			Action: outcome.VerificationLevel.Enforcement[trustpolicy.TypeAuthenticity],
		}
	}
	_, err := signature.VerifyAuthenticity(&outcome.EnvelopeContent.SignerInfo, trustCerts)
	if err != nil {
		if _, ok := err.(*signature.SignatureAuthenticityError); !ok {
			err = notation.ErrorVerificationInconclusive{Msg: "authenticity verification failed with error : " + err.Error()}
		}
	}
	return &notation.ValidationResult{
		Error:  err,
		Type:   trustpolicy.TypeAuthenticity,
		Action: outcome.VerificationLevel.Enforcement[trustpolicy.TypeAuthenticity],
	}
}
"""
FOURTH = [
 dict(name='benign-literal-two-exits-error-reused', expect='silent', edits=[(V, VA_FN, VA_LIT_REUSED_ERR)]),
 dict(name='literal-two-exits-unexpected-error-cleared', expect='flagged(authenticity/verify-error-fails)',
      edits=[(V, VA_FN, VA_LIT_REUSED_ERR.replace('\t\t\terr = notation.ErrorVerificationInconclusive{Msg: "authenticity verification failed with error : " + err.Error()}\n', '\t\t\terr = nil\n'))]),
]


# the statement handed on whole to an intermediate method (parameter widened)
WHOLE_CALL = 'err = v.processStatement(ctx, signature, envelopeMediaType, trustPolicy, pluginConfig, outcome)'
WHOLE_FN = """
func (v *verifier) processStatement(ctx context.Context, sigBlob []byte, mediaType string, statement *trustpolicy.TrustPolicy, pluginConfig map[string]string, outcome *notation.VerificationOutcome) error {
	return v.processSignature(ctx, sigBlob, mediaType, statement.Name, statement.TrustedIdentities, statement.TrustStores, statement.SignatureVerification, pluginConfig, outcome)
}
"""
FIFTH = [
 dict(name='benign-statement-handed-whole', expect='silent', edits=[(V, OCI_CALL, WHOLE_CALL), (V, VA_ANCHOR, WHOLE_FN.lstrip('\n') + '\n' + VA_ANCHOR)]),
 dict(name='statement-handed-whole-not-selected', expect='flagged(scoping/one-statement)',
      edits=[(V, OCI_CALL, WHOLE_CALL.replace('trustPolicy, pluginConfig', '&v.ociTrustPolicyDoc.TrustPolicies[0], pluginConfig')), (V, VA_ANCHOR, WHOLE_FN.lstrip('\n') + '\n' + VA_ANCHOR)]),
 dict(name='statement-handed-whole-stores-of-other', expect='flagged(scoping/one-statement)',
      edits=[(V, OCI_CALL, WHOLE_CALL), (V, VA_ANCHOR, WHOLE_FN.replace('statement.TrustStores', 'v.ociTrustPolicyDoc.TrustPolicies[0].TrustStores').lstrip('\n') + '\n' + VA_ANCHOR)]),
]


# ---------------------------------------------------------------------------------------------------------------------------
# third pass. Classes: (A) result object created up front (literal or constructor of successful results) and filled in;
# (B) the loader's error handed on next to the certificates, the callee decides (parameter widened); (C) the envelope content
# handed on / held in a local instead of the whole outcome (parameter narrowed).
CTOR0 = """
func newValidationResult(outcome *notation.VerificationOutcome, validationType trustpolicy.ValidationType) *notation.ValidationResult {
	return &notation.ValidationResult{
		Type:   validationType,
		Action: outcome.VerificationLevel.Enforcement[validationType],
	}
}
"""
# delegating constructor of successful results, other parameter order, field by field
CTOR0_DELEG = """
func freshResult(validationType trustpolicy.ValidationType, outcome *notation.VerificationOutcome) *notation.ValidationResult {
	r := new(notation.ValidationResult)
	r.Action = outcome.VerificationLevel.Enforcement[validationType]
	r.Type = validationType
	return r
}

func newAuthenticityResult(outcome *notation.VerificationOutcome) *notation.ValidationResult {
	return freshResult(trustpolicy.TypeAuthenticity, outcome)
}
"""
# the shape of benign3/out-C01/2
VA_UPFRONT = """func verifyAuthenticity(trustCerts []*x509.Certificate, outcome *notation.VerificationOutcome) *notation.ValidationResult {
	result := newValidationResult(outcome, trustpolicy.TypeAuthenticity)

	if len(trustCerts) < 1 {
		result.Error = notation.ErrorVerificationInconclusive{Msg: "no trusted certificates are found to verify authenticity"}
		return result
	}
	_, err := signature.VerifyAuthenticity(&outcome.EnvelopeContent.SignerInfo, trustCerts)
	if err != nil {
		switch err.(type) {
		case *signature.SignatureAuthenticityError:
			result.Error = err
		default:
			result.Error = notation.ErrorVerificationInconclusive{Msg: "authenticity verification failed with error : " + err.Error()}
		}
	}

	return result
}
"""
LOAD_UPFRONT = """	trustCerts, err := loadX509TrustStores(ctx, outcome.EnvelopeContent.SignerInfo.SignedAttributes.SigningScheme, policyName, trustStores, v.trustStore)
	var authenticityResult *notation.ValidationResult
	if err != nil {
		authenticityResult = newValidationResult(outcome, trustpolicy.TypeAuthenticity)
		authenticityResult.Error = err
	} else {
		// verify authenticity
		authenticityResult = verifyAuthenticity(trustCerts, outcome)
	}
"""
# up-front literal in the caller, filled in on the failing branch
LOAD_UPFRONT_LIT = """	trustCerts, err := loadX509TrustStores(ctx, outcome.EnvelopeContent.SignerInfo.SignedAttributes.SigningScheme, policyName, trustStores, v.trustStore)
	authenticityResult := &notation.ValidationResult{
		Type:   trustpolicy.TypeAuthenticity,
		Action: outcome.VerificationLevel.Enforcement[trustpolicy.TypeAuthenticity],
	}
	if err != nil {
		authenticityResult.Error = err
	} else {
		authenticityResult = verifyAuthenticity(trustCerts, outcome)
	}
"""
# up-front result by the delegating constructor, nesting instead of guard clause, one exit
VA_UPFRONT_NESTED = """func verifyAuthenticity(trustCerts []*x509.Certificate, outcome *notation.VerificationOutcome) *notation.ValidationResult {
	result := newAuthenticityResult(outcome)
	if len(trustCerts) >= 1 {
		if _, err := signature.VerifyAuthenticity(&outcome.EnvelopeContent.SignerInfo, trustCerts); err != nil {
			if _, ok := err.(*signature.SignatureAuthenticityError); ok {
				result.Error = err
			} else {
				result.Error = notation.ErrorVerificationInconclusive{Msg: "authenticity verification failed with error : " + err.Error()}
			}
		}
	} else {
		result.Error = notation.ErrorVerificationInconclusive{Msg: "no trusted certificates are found to verify authenticity"}
	}
	return result
}
"""
LOAD_UPFRONT_DELEG = LOAD_UPFRONT.replace('newValidationResult(outcome, trustpolicy.TypeAuthenticity)', 'newAuthenticityResult(outcome)')

# (B) the shape of benign3/out-C02/2
LOAD_HANDED = """	trustCerts, err := loadX509TrustStores(ctx, outcome.EnvelopeContent.SignerInfo.SignedAttributes.SigningScheme, policyName, trustStores, v.trustStore)
	// verify authenticity (a trust store that failed to load fails it)
	authenticityResult := verifyAuthenticity(trustCerts, err, outcome)
"""
VA_HANDED = """func verifyAuthenticity(trustCerts []*x509.Certificate, trustStoreErr error, outcome *notation.VerificationOutcome) *notation.ValidationResult {
	err := trustStoreErr
	if err == nil {
		err = checkAuthenticity(trustCerts, outcome.EnvelopeContent)
	}
	return &notation.ValidationResult{
		Error:  err,
		Type:   trustpolicy.TypeAuthenticity,
		Action: outcome.VerificationLevel.Enforcement[trustpolicy.TypeAuthenticity],
	}
}

func checkAuthenticity(trustCerts []*x509.Certificate, envContent *signature.EnvelopeContent) error {
	if len(trustCerts) < 1 {
		return notation.ErrorVerificationInconclusive{Msg: "no trusted certificates are found to verify authenticity"}
	}
	_, err := signature.VerifyAuthenticity(&envContent.SignerInfo, trustCerts)
	if err == nil {
		return nil
	}
	if _, ok := err.(*signature.SignatureAuthenticityError); ok {
		return err
	}
	return notation.ErrorVerificationInconclusive{Msg: "authenticity verification failed with error : " + err.Error()}
}
"""
# guard clause on the handed error, other parameter order, results by constructor
LOAD_HANDED2 = LOAD_HANDED.replace('verifyAuthenticity(trustCerts, err, outcome)', 'verifyAuthenticity(outcome, err, trustCerts)')
VA_HANDED_GUARD = """func verifyAuthenticity(outcome *notation.VerificationOutcome, loadErr error, trustCerts []*x509.Certificate) *notation.ValidationResult {
	if loadErr != nil {
		return newValidationResult(outcome, trustpolicy.TypeAuthenticity, loadErr)
	}
	if len(trustCerts) < 1 {
		return newValidationResult(outcome, trustpolicy.TypeAuthenticity, notation.ErrorVerificationInconclusive{Msg: "no trusted certificates are found to verify authenticity"})
	}
	_, err := signature.VerifyAuthenticity(&outcome.EnvelopeContent.SignerInfo, trustCerts)
	if err != nil {
		if _, ok := err.(*signature.SignatureAuthenticityError); !ok {
			err = notation.ErrorVerificationInconclusive{Msg: "authenticity verification failed with error : " + err.Error()}
		}
		return newValidationResult(outcome, trustpolicy.TypeAuthenticity, err)
	}
	return newValidationResult(outcome, trustpolicy.TypeAuthenticity, nil)
}
"""
# the callee returns an error, the caller builds the one literal
LOAD_HANDED_ERR = """	trustCerts, err := loadX509TrustStores(ctx, outcome.EnvelopeContent.SignerInfo.SignedAttributes.SigningScheme, policyName, trustStores, v.trustStore)
	authenticityResult := &notation.ValidationResult{
		Error:  authenticityError(trustCerts, err, &outcome.EnvelopeContent.SignerInfo),
		Type:   trustpolicy.TypeAuthenticity,
		Action: outcome.VerificationLevel.Enforcement[trustpolicy.TypeAuthenticity],
	}
"""
AUTH_ERR_FN = """func authenticityError(trustCerts []*x509.Certificate, loadErr error, signerInfo *signature.SignerInfo) error {
	if loadErr != nil {
		return loadErr
	}
	if len(trustCerts) < 1 {
		return notation.ErrorVerificationInconclusive{Msg: "no trusted certificates are found to verify authenticity"}
	}
	_, err := signature.VerifyAuthenticity(signerInfo, trustCerts)
	switch err.(type) {
	case nil, *signature.SignatureAuthenticityError:
		return err
	}
	return notation.ErrorVerificationInconclusive{Msg: "authenticity verification failed with error : " + err.Error()}
}

"""
# a layer between processSignature and the unchanged verifyAuthenticity takes the error and decides
LOAD_HANDED_MID = """	trustCerts, err := loadX509TrustStores(ctx, outcome.EnvelopeContent.SignerInfo.SignedAttributes.SigningScheme, policyName, trustStores, v.trustStore)
	authenticityResult := authenticityResultFor(outcome, trustCerts, err)
"""
MID_FN = """func authenticityResultFor(outcome *notation.VerificationOutcome, roots []*x509.Certificate, loadErr error) *notation.ValidationResult {
	switch {
	case loadErr != nil:
		return &notation.ValidationResult{
			Error:  loadErr,
			Type:   trustpolicy.TypeAuthenticity,
			Action: outcome.VerificationLevel.Enforcement[trustpolicy.TypeAuthenticity],
		}
	default:
		return verifyAuthenticity(roots, outcome)
	}
}

"""
# (C) the envelope content held in a local of processSignature and handed on
INTEGRITY_LINES = "\tenvContent, integrityResult := verifyIntegrity(sigBlob, envelopeMediaType, outcome)\n\toutcome.EnvelopeContent = envContent\n"
LOAD_ENV_LOCAL = LOAD_BLOCK.replace('verifyAuthenticity(trustCerts, outcome)', 'verifyAuthenticity(trustCerts, envContent, outcome)')
VA_ENV_PARAM = VA_FN.replace('func verifyAuthenticity(trustCerts []*x509.Certificate, outcome *notation.VerificationOutcome)', 'func verifyAuthenticity(trustCerts []*x509.Certificate, content *signature.EnvelopeContent, outcome *notation.VerificationOutcome)').replace('&outcome.EnvelopeContent.SignerInfo', '&content.SignerInfo')

# one up-front object in the caller serves both arms; the check returns an error
LOAD_UPFRONT_BOTH = """	trustCerts, err := loadX509TrustStores(ctx, outcome.EnvelopeContent.SignerInfo.SignedAttributes.SigningScheme, policyName, trustStores, v.trustStore)
	authenticityResult := newValidationResult(outcome, trustpolicy.TypeAuthenticity)
	if err != nil {
		authenticityResult.Error = err
	} else if authErr := authenticityError(trustCerts, outcome.EnvelopeContent); authErr != nil {
		authenticityResult.Error = authErr
	}
"""
AUTH_ERR2_FN = """func authenticityError(trustCerts []*x509.Certificate, content *signature.EnvelopeContent) error {
	if len(trustCerts) < 1 {
		return notation.ErrorVerificationInconclusive{Msg: "no trusted certificates are found to verify authenticity"}
	}
	_, err := signature.VerifyAuthenticity(&content.SignerInfo, trustCerts)
	switch err.(type) {
	case nil, *signature.SignatureAuthenticityError:
		return err
	}
	return notation.ErrorVerificationInconclusive{Msg: "authenticity verification failed with error : " + err.Error()}
}

"""
# error local in the caller, one literal
LOAD_ERR_LOCAL = """	trustCerts, err := loadX509TrustStores(ctx, outcome.EnvelopeContent.SignerInfo.SignedAttributes.SigningScheme, policyName, trustStores, v.trustStore)
	var authErr error
	if err != nil {
		authErr = err
	} else {
		authErr = authenticityError(trustCerts, outcome.EnvelopeContent)
	}
	authenticityResult := &notation.ValidationResult{
		Error:  authErr,
		Type:   trustpolicy.TypeAuthenticity,
		Action: outcome.VerificationLevel.Enforcement[trustpolicy.TypeAuthenticity],
	}
"""
# the decision in a closure of processSignature that captures the certificates and the error
LOAD_HANDED_CLOSURE = """	trustCerts, err := loadX509TrustStores(ctx, outcome.EnvelopeContent.SignerInfo.SignedAttributes.SigningScheme, policyName, trustStores, v.trustStore)
	authenticity := func(roots []*x509.Certificate, loadErr error) *notation.ValidationResult {
		if loadErr != nil {
			return &notation.ValidationResult{
				Error:  loadErr,
				Type:   trustpolicy.TypeAuthenticity,
				Action: outcome.VerificationLevel.Enforcement[trustpolicy.TypeAuthenticity],
			}
		}
		return verifyAuthenticity(roots, outcome)
	}
	authenticityResult := authenticity(trustCerts, err)
"""
# the loader's error logged first, then handed on
LOAD_HANDED_LOGGED = LOAD_HANDED.replace('\t// verify authenticity (a trust store', '\tif err != nil {\n\t\tlogger.Debugf("trust stores of %q could not be loaded: %v", policyName, err)\n\t}\n\t// verify authenticity (a trust store')

# two layers: a forwarding layer hands certificates and error on to the single-exit verifyAuthenticity of LOAD_HANDED
LOAD_HANDED_TWO = """	trustCerts, err := loadX509TrustStores(ctx, outcome.EnvelopeContent.SignerInfo.SignedAttributes.SigningScheme, policyName, trustStores, v.trustStore)
	authenticityResult := authenticityStep(outcome, trustCerts, err)
"""
TWO_FN = """func authenticityStep(outcome *notation.VerificationOutcome, roots []*x509.Certificate, loadErr error) *notation.ValidationResult {
	return verifyAuthenticity(roots, loadErr, outcome)
}

"""
# up-front literal inside verifyAuthenticity
VA_UPFRONT_LIT = VA_UPFRONT.replace('\tresult := newValidationResult(outcome, trustpolicy.TypeAuthenticity)\n', '\tresult := &notation.ValidationResult{\n\t\tType:   trustpolicy.TypeAuthenticity,\n\t\tAction: outcome.VerificationLevel.Enforcement[trustpolicy.TypeAuthenticity],\n\t}\n')
# SignerInfo handed on by value
VA_SI_BY_VALUE = """func chainError(signerInfo signature.SignerInfo, roots []*x509.Certificate) error {
	_, err := signature.VerifyAuthenticity(&signerInfo, roots)
	return err
}

""" + VA_FN.replace('\t_, err := signature.VerifyAuthenticity(&outcome.EnvelopeContent.SignerInfo, trustCerts)\n', '\terr := chainError(outcome.EnvelopeContent.SignerInfo, trustCerts)\n')

def upfront(va=VA_UPFRONT, load=LOAD_UPFRONT, ctorsrc=CTOR0):
    return [(V, VA_FN, va + ctorsrc), (V, LOAD_BLOCK, load)]

def handed(va=VA_HANDED, load=LOAD_HANDED):
    return [(V, VA_FN, va), (V, LOAD_BLOCK, load)]

SIXTH = [
 # --- class A: result created up front and filled in ---------------------------------------------------------------------
 dict(name='benign-upfront-ctor-filled-in', expect='silent', edits=upfront()),
 dict(name='benign-upfront-literal-in-caller', expect='silent', edits=[(V, LOAD_BLOCK, LOAD_UPFRONT_LIT)]),
 dict(name='benign-upfront-delegating-ctor-nested', expect='silent', edits=upfront(VA_UPFRONT_NESTED, LOAD_UPFRONT_DELEG, CTOR0_DELEG)),
 dict(name='benign-upfront-ctor-caller-only', expect='silent', edits=[(V, VA_FN, VA_FN + CTOR0), (V, LOAD_BLOCK, LOAD_UPFRONT)]),
 dict(name='upfront-ctor-load-error-not-stored', expect='flagged(authenticity/load-error-is-failure)',
      edits=upfront(load=LOAD_UPFRONT.replace('\t\tauthenticityResult.Error = err\n', '\t\tlogger.Debugf("trust stores: %v", err)\n'))),
 dict(name='upfront-ctor-load-error-other-type', expect='flagged(authenticity/load-error-is-failure)',
      edits=upfront(load=LOAD_UPFRONT.replace('newValidationResult(outcome, trustpolicy.TypeAuthenticity)', 'newValidationResult(outcome, trustpolicy.TypeExpiry)'))),
 dict(name='upfront-ctor-type-overwritten', expect='flagged(authenticity/load-error-is-failure)',
      edits=upfront(load=LOAD_UPFRONT, ctorsrc=CTOR0.replace('\t\tType:   validationType,\n', '\t\tType:   trustpolicy.TypeExpiry,\n'))),
 dict(name='upfront-literal-load-error-stored-on-success-only', expect='flagged(authenticity/)',
      edits=[(V, LOAD_BLOCK, LOAD_UPFRONT_LIT.replace('\tif err != nil {\n\t\tauthenticityResult.Error = err\n\t} else {', '\tif err != nil {\n\t\tlogger.Debugf("trust stores: %v", err)\n\t} else {\n\t\tauthenticityResult.Error = err'))]),
 dict(name='upfront-result-unexpected-error-not-stored', expect='flagged(authenticity/verify-error-fails)',
      edits=upfront(VA_UPFRONT.replace('\t\tdefault:\n\t\t\tresult.Error = notation.ErrorVerificationInconclusive{Msg: "authenticity verification failed with error : " + err.Error()}\n', '\t\tdefault:\n'))),
 dict(name='upfront-result-empty-set-passes', expect='flagged(authenticity/empty-set-fails)',
      edits=upfront(VA_UPFRONT.replace('if len(trustCerts) < 1 {', 'if trustCerts == nil {'))),
 dict(name='upfront-nested-empty-set-not-stored', expect='flagged(authenticity/empty-set-fails)',
      edits=upfront(VA_UPFRONT_NESTED.replace('\t} else {\n\t\tresult.Error = notation.ErrorVerificationInconclusive{Msg: "no trusted certificates are found to verify authenticity"}\n\t}\n', '\t}\n'), LOAD_UPFRONT_DELEG, CTOR0_DELEG)),
 dict(name='upfront-nested-fresh-result-returned', expect='flagged(authenticity/)',
      edits=upfront(VA_UPFRONT_NESTED.replace('\treturn result\n}', '\treturn newAuthenticityResult(outcome)\n}'), LOAD_UPFRONT_DELEG, CTOR0_DELEG)),
 # --- class B: the loader's error handed on with the certificates ----------------------------------------------------------
 dict(name='benign-load-error-handed-to-verify', expect='silent', edits=handed()),
 dict(name='benign-load-error-handed-guard-clause-ctor', expect='silent', edits=[(V, VA_FN, VA_HANDED_GUARD + CTOR), (V, LOAD_BLOCK, LOAD_HANDED2)]),
 dict(name='benign-load-error-handed-error-helper', expect='silent', edits=[(V, VA_FN, AUTH_ERR_FN + VA_FN), (V, LOAD_BLOCK, LOAD_HANDED_ERR)]),
 dict(name='benign-load-error-handed-middle-layer', expect='silent', edits=[(V, VA_FN, MID_FN + VA_FN), (V, LOAD_BLOCK, LOAD_HANDED_MID)]),
 dict(name='handed-load-error-ignored', expect='flagged(authenticity/load-error-is-failure)',
      edits=handed(VA_HANDED.replace('\terr := trustStoreErr\n\tif err == nil {\n\t\terr = checkAuthenticity(trustCerts, outcome.EnvelopeContent)\n\t}\n', '\t_ = trustStoreErr\n\terr := checkAuthenticity(trustCerts, outcome.EnvelopeContent)\n'))),
 dict(name='handed-load-error-test-inverted', expect='flagged(authenticity/)',
      edits=handed(VA_HANDED.replace('\tif err == nil {\n\t\terr = checkAuthenticity', '\tif err != nil {\n\t\terr = checkAuthenticity'))),
 dict(name='handed-nil-instead-of-load-error', expect='flagged(authenticity/)',
      edits=handed(load=LOAD_HANDED.replace('verifyAuthenticity(trustCerts, err, outcome)', 'verifyAuthenticity(trustCerts, nil, outcome)').replace('\t// verify authenticity (a trust store', '\t_ = err\n\t// verify authenticity (a trust store'))),
 dict(name='handed-load-error-call-bypassed', expect='flagged(authenticity/load-error-is-failure)',
      edits=handed(load=LOAD_HANDED.replace('\tauthenticityResult := verifyAuthenticity(trustCerts, err, outcome)\n',
        '\tauthenticityResult := &notation.ValidationResult{\n\t\tType:   trustpolicy.TypeAuthenticity,\n\t\tAction: outcome.VerificationLevel.Enforcement[trustpolicy.TypeAuthenticity],\n\t}\n\tif err == nil || len(trustCerts) > 0 {\n\t\tauthenticityResult = verifyAuthenticity(trustCerts, err, outcome)\n\t}\n'))),
 dict(name='handed-load-error-result-reset', expect='flagged(authenticity/)',
      edits=handed(VA_HANDED.replace('\treturn &notation.ValidationResult{\n\t\tError:  err,\n\t\tType:   trustpolicy.TypeAuthenticity,\n\t\tAction: outcome.VerificationLevel.Enforcement[trustpolicy.TypeAuthenticity],\n\t}\n}\n\nfunc checkAuthenticity',
        '\tresult := &notation.ValidationResult{\n\t\tError:  err,\n\t\tType:   trustpolicy.TypeAuthenticity,\n\t\tAction: outcome.VerificationLevel.Enforcement[trustpolicy.TypeAuthenticity],\n\t}\n\tif trustStoreErr != nil && result.Action != trustpolicy.ActionEnforce {\n\t\tresult.Error = nil\n\t}\n\treturn result\n}\n\nfunc checkAuthenticity'))),
 dict(name='handed-check-empty-set-passes', expect='flagged(authenticity/empty-set-fails)',
      edits=handed(VA_HANDED.replace('if len(trustCerts) < 1 {', 'if trustCerts == nil {'))),
 dict(name='handed-check-unexpected-error-dropped', expect='flagged(authenticity/verify-error-fails)',
      edits=handed(VA_HANDED.replace('\treturn notation.ErrorVerificationInconclusive{Msg: "authenticity verification failed with error : " + err.Error()}\n}', '\treturn nil\n}'))),
 dict(name='handed-guard-clause-other-type', expect='flagged(authenticity/load-error-is-failure)',
      edits=[(V, VA_FN, VA_HANDED_GUARD.replace('newValidationResult(outcome, trustpolicy.TypeAuthenticity, loadErr)', 'newValidationResult(outcome, trustpolicy.TypeExpiry, loadErr)') + CTOR), (V, LOAD_BLOCK, LOAD_HANDED2)]),
 dict(name='handed-guard-clause-removed', expect='flagged(authenticity/)',
      edits=[(V, VA_FN, VA_HANDED_GUARD.replace('\tif loadErr != nil {\n\t\treturn newValidationResult(outcome, trustpolicy.TypeAuthenticity, loadErr)\n\t}\n', '\t_ = loadErr\n') + CTOR), (V, LOAD_BLOCK, LOAD_HANDED2)]),
 dict(name='handed-error-helper-drops-load-error', expect='flagged(authenticity/)',
      edits=[(V, VA_FN, AUTH_ERR_FN.replace('\tif loadErr != nil {\n\t\treturn loadErr\n\t}\n', '\t_ = loadErr\n') + VA_FN), (V, LOAD_BLOCK, LOAD_HANDED_ERR)]),
 dict(name='handed-error-helper-verdict-unused', expect='flagged(authenticity/load-error-is-failure)',
      edits=[(V, VA_FN, AUTH_ERR_FN + VA_FN), (V, LOAD_BLOCK, LOAD_HANDED_ERR.replace('\tauthenticityResult := &notation.ValidationResult{\n\t\tError:  authenticityError(trustCerts, err, &outcome.EnvelopeContent.SignerInfo),\n', '\t_ = authenticityError(trustCerts, err, &outcome.EnvelopeContent.SignerInfo)\n\tauthenticityResult := &notation.ValidationResult{\n'))]),
 dict(name='handed-middle-layer-verifies-despite-load-error', expect='flagged(authenticity/)',
      edits=[(V, VA_FN, MID_FN.replace('case loadErr != nil:', 'case loadErr != nil && len(roots) == 0:') + VA_FN), (V, LOAD_BLOCK, LOAD_HANDED_MID)]),
 dict(name='handed-middle-layer-load-error-as-other-type', expect='flagged(authenticity/load-error-is-failure)',
      edits=[(V, VA_FN, MID_FN.replace('\t\t\tType:   trustpolicy.TypeAuthenticity,\n', '\t\t\tType:   trustpolicy.TypeExpiry,\n') + VA_FN), (V, LOAD_BLOCK, LOAD_HANDED_MID)]),
 dict(name='benign-upfront-ctor-both-arms-error-check', expect='silent', edits=[(V, VA_FN, AUTH_ERR2_FN + VA_FN + CTOR0), (V, LOAD_BLOCK, LOAD_UPFRONT_BOTH)]),
 dict(name='benign-error-local-in-caller', expect='silent', edits=[(V, VA_FN, AUTH_ERR2_FN + VA_FN), (V, LOAD_BLOCK, LOAD_ERR_LOCAL)]),
 dict(name='benign-load-error-handed-to-closure', expect='silent', edits=[(V, LOAD_BLOCK, LOAD_HANDED_CLOSURE)]),
 dict(name='benign-load-error-logged-then-handed', expect='silent', edits=handed(load=LOAD_HANDED_LOGGED)),
 dict(name='upfront-ctor-both-arms-load-error-not-stored', expect='flagged(authenticity/load-error-is-failure)',
      edits=[(V, VA_FN, AUTH_ERR2_FN + VA_FN + CTOR0), (V, LOAD_BLOCK, LOAD_UPFRONT_BOTH.replace('\tif err != nil {\n\t\tauthenticityResult.Error = err\n\t} else if', '\tif err != nil {\n\t\tlogger.Debugf("trust stores: %v", err)\n\t} else if'))]),
 dict(name='error-local-in-caller-load-error-dropped', expect='flagged(authenticity/load-error-is-failure)',
      edits=[(V, VA_FN, AUTH_ERR2_FN + VA_FN), (V, LOAD_BLOCK, LOAD_ERR_LOCAL.replace('\t\tauthErr = err\n', '\t\tauthErr = nil\n'))]),
 dict(name='error-local-in-caller-checked-despite-load-error', expect='flagged(authenticity/only-after-successful-load)',
      edits=[(V, VA_FN, AUTH_ERR2_FN + VA_FN), (V, LOAD_BLOCK, LOAD_ERR_LOCAL.replace('\tif err != nil {\n\t\tauthErr = err\n\t} else {\n\t\tauthErr = authenticityError(trustCerts, outcome.EnvelopeContent)\n\t}\n', '\tauthErr := authenticityError(trustCerts, outcome.EnvelopeContent)\n\tif err != nil {\n\t\tauthErr = err\n\t}\n').replace('\tvar authErr error\n', ''))]),
 dict(name='handed-to-closure-load-error-dropped', expect='flagged(authenticity/)',
      edits=[(V, LOAD_BLOCK, LOAD_HANDED_CLOSURE.replace('\t\tif loadErr != nil {\n', '\t\tif loadErr != nil && len(roots) == 0 {\n'))]),
 dict(name='logged-then-returned-before-handed', expect='flagged(authenticity/load-error-is-failure)',
      edits=handed(load=LOAD_HANDED_LOGGED.replace('\t\tlogger.Debugf("trust stores of %q could not be loaded: %v", policyName, err)\n', '\t\tlogger.Debugf("trust stores of %q could not be loaded: %v", policyName, err)\n\t\tif len(pluginCapabilities) > 0 {\n\t\t\treturn nil\n\t\t}\n'))),
 dict(name='handed-to-closure-second-call-with-own-chain', expect='flagged(authenticity/certs-from-loader)',
      edits=[(V, LOAD_BLOCK, LOAD_HANDED_CLOSURE + '\tif authenticityResult.Error != nil && len(pluginCapabilities) > 0 {\n\t\tauthenticityResult = authenticity(outcome.EnvelopeContent.SignerInfo.CertificateChain, nil)\n\t}\n')]),
 dict(name='benign-load-error-handed-through-two-layers', expect='silent', edits=[(V, VA_FN, TWO_FN + VA_HANDED), (V, LOAD_BLOCK, LOAD_HANDED_TWO)]),
 dict(name='benign-upfront-literal-in-verify', expect='silent', edits=[(V, VA_FN, VA_UPFRONT_LIT)]),
 dict(name='two-layers-nil-handed-on', expect='flagged(authenticity/)',
      edits=[(V, VA_FN, TWO_FN.replace('verifyAuthenticity(roots, loadErr, outcome)', 'verifyAuthenticity(roots, nil, outcome)') + VA_HANDED), (V, LOAD_BLOCK, LOAD_HANDED_TWO)]),
 dict(name='two-layers-inner-ignores-load-error', expect='flagged(authenticity/load-error-is-failure)',
      edits=[(V, VA_FN, TWO_FN + VA_HANDED.replace('\terr := trustStoreErr\n\tif err == nil {\n\t\terr = checkAuthenticity(trustCerts, outcome.EnvelopeContent)\n\t}\n', '\t_ = trustStoreErr\n\terr := checkAuthenticity(trustCerts, outcome.EnvelopeContent)\n')), (V, LOAD_BLOCK, LOAD_HANDED_TWO)]),
 dict(name='two-layers-inner-empty-set-passes', expect='flagged(authenticity/empty-set-fails)',
      edits=[(V, VA_FN, TWO_FN + VA_HANDED.replace('if len(trustCerts) < 1 {', 'if trustCerts == nil {')), (V, LOAD_BLOCK, LOAD_HANDED_TWO)]),
 dict(name='upfront-literal-in-verify-unexpected-error-not-stored', expect='flagged(authenticity/verify-error-fails)',
      edits=[(V, VA_FN, VA_UPFRONT_LIT.replace('\t\tdefault:\n\t\t\tresult.Error = notation.ErrorVerificationInconclusive{Msg: "authenticity verification failed with error : " + err.Error()}\n', '\t\tdefault:\n'))]),
 # --- class C: the envelope content handed on / held in a local ----------------------------------------------------------------
 dict(name='benign-envelope-content-held-in-local', expect='silent', edits=[(V, VA_FN, VA_ENV_PARAM), (V, LOAD_BLOCK, LOAD_ENV_LOCAL)]),
 dict(name='benign-signer-info-by-value', expect='silent', edits=[(V, VA_FN, VA_SI_BY_VALUE)]),
 dict(name='signer-info-by-value-from-elsewhere', expect='flagged(authenticity/signer-info)',
      edits=[(V, VA_FN, VA_SI_BY_VALUE.replace('chainError(outcome.EnvelopeContent.SignerInfo, trustCerts)', 'chainError(signature.SignerInfo{CertificateChain: trustCerts}, trustCerts)'))]),
 dict(name='signer-info-by-value-chain-replaced', expect='flagged(authenticity/signer-info)',
      edits=[(V, VA_FN, VA_SI_BY_VALUE.replace('\t_, err := signature.VerifyAuthenticity(&signerInfo, roots)\n', '\tsignerInfo.CertificateChain = roots\n\t_, err := signature.VerifyAuthenticity(&signerInfo, roots)\n'))]),
 dict(name='envelope-content-param-from-elsewhere', expect='flagged(authenticity/signer-info)',
      edits=handed(VA_HANDED.replace('checkAuthenticity(trustCerts, outcome.EnvelopeContent)', 'checkAuthenticity(trustCerts, new(signature.EnvelopeContent))'))),
 dict(name='envelope-content-local-not-the-recorded-one', expect='flagged(authenticity/signer-info)',
      edits=[(V, VA_FN, VA_ENV_PARAM), (V, LOAD_BLOCK, LOAD_ENV_LOCAL.replace('verifyAuthenticity(trustCerts, envContent, outcome)', 'verifyAuthenticity(trustCerts, &signature.EnvelopeContent{SignerInfo: envContent.SignerInfo}, outcome)'))]),
 dict(name='envelope-content-param-of-exported-function', expect='flagged(authenticity/signer-info)',
      edits=handed(VA_HANDED.replace('checkAuthenticity(', 'CheckAuthenticity('))),
]

# ---------------------------------------------------------------------------------------------------------------------------
# fourth pass (extra_c03.go, "the loader's inputs as values"): class "parameter object / function -> method". What used to be the
# typed loader's parameters travels in an unexported struct (receiver or options argument, by value or by pointer, built by a
# literal, field by field, or by a constructor); the cut at ':' may be written with IndexByte + slicing.
PO_W1_BASE = r"""func loadX509TrustStores(ctx context.Context, scheme signature.SigningScheme, policyName string, trustStores []string, x509TrustStore truststore.X509TrustStore) ([]*x509.Certificate, error) {
	var typeToLoad truststore.Type
	switch scheme {
	case signature.SigningSchemeX509:
		typeToLoad = truststore.TypeCA
	case signature.SigningSchemeX509SigningAuthority:
		typeToLoad = truststore.TypeSigningAuthority
	default:
		return nil, truststore.TrustStoreError{Msg: fmt.Sprintf("error while loading the trust store, unrecognized signing scheme %q", scheme)}
	}
	return loadX509TrustStoresWithType(ctx, typeToLoad, policyName, trustStores, x509TrustStore)
}
"""
PO_W2_BASE = r"""func loadX509TSATrustStores(ctx context.Context, scheme signature.SigningScheme, policyName string, trustStores []string, x509TrustStore truststore.X509TrustStore) ([]*x509.Certificate, error) {
	var typeToLoad truststore.Type
	switch scheme {
	case signature.SigningSchemeX509:
		typeToLoad = truststore.TypeTSA
	default:
		return nil, truststore.TrustStoreError{Msg: fmt.Sprintf("error while loading the TSA trust store, signing scheme must be notary.x509, but got %s", scheme)}
	}
	return loadX509TrustStoresWithType(ctx, typeToLoad, policyName, trustStores, x509TrustStore)
}
"""
PO_G_BASE = r"""func loadX509TrustStoresWithType(ctx context.Context, trustStoreType truststore.Type, policyName string, trustStores []string, x509TrustStore truststore.X509TrustStore) ([]*x509.Certificate, error) {
	processedStoreSet := set.New[string]()
	var certificates []*x509.Certificate
	for _, trustStore := range trustStores {
		if processedStoreSet.Contains(trustStore) {
			// we loaded this trust store already
			continue
		}

		storeType, name, found := strings.Cut(trustStore, ":")
		if !found {
			return nil, truststore.TrustStoreError{Msg: fmt.Sprintf("error while loading the trust store, trust policy statement %q is missing separator in trust store value %q. The required format is <TrustStoreType>:<TrustStoreName>", policyName, trustStore)}
		}
		if trustStoreType != truststore.Type(storeType) {
			continue
		}

		certs, err := x509TrustStore.GetCertificates(ctx, trustStoreType, name)
		if err != nil {
			return nil, err
		}
		certificates = append(certificates, certs...)
		processedStoreSet.Add(trustStore)
	}
	return certificates, nil
}
"""
PO_NOSET = (H, '\tset "github.com/notaryproject/notation-go/internal/container"\n', '')
PO_TYPE = r"""type trustStoreSelection struct {
	policyName     string
	trustStores    []string
	x509TrustStore truststore.X509TrustStore
}

"""
PO_MK = "selection := trustStoreSelection{policyName: policyName, trustStores: trustStores, x509TrustStore: x509TrustStore}"
# by-value receiver, direct returns (one loader call per case), guard clause in the tsa wrapper
PO_W1 = PO_TYPE + r"""func loadX509TrustStores(ctx context.Context, scheme signature.SigningScheme, policyName string, trustStores []string, x509TrustStore truststore.X509TrustStore) ([]*x509.Certificate, error) {
	""" + PO_MK + r"""
	switch scheme {
	case signature.SigningSchemeX509:
		return selection.certificatesOfType(ctx, truststore.TypeCA)
	case signature.SigningSchemeX509SigningAuthority:
		return selection.certificatesOfType(ctx, truststore.TypeSigningAuthority)
	}
	return nil, truststore.TrustStoreError{Msg: fmt.Sprintf("error while loading the trust store, unrecognized signing scheme %q", scheme)}
}
"""
PO_W2 = r"""func loadX509TSATrustStores(ctx context.Context, scheme signature.SigningScheme, policyName string, trustStores []string, x509TrustStore truststore.X509TrustStore) ([]*x509.Certificate, error) {
	if scheme != signature.SigningSchemeX509 {
		return nil, truststore.TrustStoreError{Msg: fmt.Sprintf("error while loading the TSA trust store, signing scheme must be notary.x509, but got %s", scheme)}
	}
	""" + PO_MK + r"""
	return selection.certificatesOfType(ctx, truststore.TypeTSA)
}
"""
# IndexByte + slicing, built-in map as the set
PO_G = r"""func (sel trustStoreSelection) certificatesOfType(ctx context.Context, wantedType truststore.Type) ([]*x509.Certificate, error) {
	loaded := make(map[string]struct{}, len(sel.trustStores))
	var certificates []*x509.Certificate
	for _, trustStore := range sel.trustStores {
		if _, ok := loaded[trustStore]; ok {
			continue
		}
		sep := strings.IndexByte(trustStore, ':')
		if sep < 0 {
			return nil, truststore.TrustStoreError{Msg: fmt.Sprintf("error while loading the trust store, trust policy statement %q is missing separator in trust store value %q. The required format is <TrustStoreType>:<TrustStoreName>", sel.policyName, trustStore)}
		}
		if trustStore[:sep] != string(wantedType) {
			continue
		}
		certs, err := sel.x509TrustStore.GetCertificates(ctx, wantedType, trustStore[sep+1:])
		if err != nil {
			return nil, err
		}
		certificates = append(certificates, certs...)
		loaded[trustStore] = struct{}{}
	}
	return certificates, nil
}
"""
# the same method with strings.Cut and the internal set kept
PO_G_CUT = r"""func (sel trustStoreSelection) certificatesOfType(ctx context.Context, wantedType truststore.Type) ([]*x509.Certificate, error) {
	processedStoreSet := set.New[string]()
	var certificates []*x509.Certificate
	for _, trustStore := range sel.trustStores {
		if processedStoreSet.Contains(trustStore) {
			continue
		}
		storeType, name, found := strings.Cut(trustStore, ":")
		if !found {
			return nil, truststore.TrustStoreError{Msg: fmt.Sprintf("error while loading the trust store, trust policy statement %q is missing separator in trust store value %q. The required format is <TrustStoreType>:<TrustStoreName>", sel.policyName, trustStore)}
		}
		if wantedType != truststore.Type(storeType) {
			continue
		}
		certs, err := sel.x509TrustStore.GetCertificates(ctx, wantedType, name)
		if err != nil {
			return nil, err
		}
		certificates = append(certificates, certs...)
		processedStoreSet.Add(trustStore)
	}
	return certificates, nil
}
"""
# options struct handed over by pointer, the wanted type travels in it too (a phi of constants stored into the field)
PO_PTR_TYPE = r"""type storeLoadOptions struct {
	wanted truststore.Type
	policy string
	listed []string
	source truststore.X509TrustStore
}

"""
PO_PTR_CALL = "return loadX509TrustStoresWithType(ctx, &storeLoadOptions{wanted: typeToLoad, policy: policyName, listed: trustStores, source: x509TrustStore})"
PO_OLD_CALL = "return loadX509TrustStoresWithType(ctx, typeToLoad, policyName, trustStores, x509TrustStore)"
PO_PTR_W1 = PO_PTR_TYPE + PO_W1_BASE.replace(PO_OLD_CALL, PO_PTR_CALL)
PO_PTR_W2 = PO_W2_BASE.replace(PO_OLD_CALL, PO_PTR_CALL)
PO_PTR_G = r"""func loadX509TrustStoresWithType(ctx context.Context, o *storeLoadOptions) ([]*x509.Certificate, error) {
	processedStoreSet := set.New[string]()
	var certificates []*x509.Certificate
	for i := 0; i < len(o.listed); i++ {
		trustStore := o.listed[i]
		if processedStoreSet.Contains(trustStore) {
			continue
		}
		storeType, name, found := strings.Cut(trustStore, ":")
		if !found {
			return nil, truststore.TrustStoreError{Msg: fmt.Sprintf("error while loading the trust store, trust policy statement %q is missing separator in trust store value %q. The required format is <TrustStoreType>:<TrustStoreName>", o.policy, trustStore)}
		}
		if o.wanted != truststore.Type(storeType) {
			continue
		}
		certs, err := o.source.GetCertificates(ctx, o.wanted, name)
		if err != nil {
			return nil, err
		}
		certificates = append(certificates, certs...)
		processedStoreSet.Add(trustStore)
	}
	return certificates, nil
}
"""
# the object built by a constructor (parameters in another order) / filled in field by field
PO_CTOR = r"""func newTrustStoreSelection(trustStores []string, x509TrustStore truststore.X509TrustStore, policyName string) trustStoreSelection {
	return trustStoreSelection{policyName: policyName, trustStores: trustStores, x509TrustStore: x509TrustStore}
}

"""
PO_MK_CTOR = "selection := newTrustStoreSelection(trustStores, x509TrustStore, policyName)"
PO_MK_FIELDS = "var selection trustStoreSelection\n\tselection.x509TrustStore = x509TrustStore\n\tselection.trustStores = trustStores\n\tselection.policyName = policyName"
# the per-entry body as a second method of the object
PO_G_ENTRY = r"""func (sel trustStoreSelection) certificatesOfType(ctx context.Context, wantedType truststore.Type) ([]*x509.Certificate, error) {
	processedStoreSet := set.New[string]()
	var certificates []*x509.Certificate
	for _, trustStore := range sel.trustStores {
		if processedStoreSet.Contains(trustStore) {
			continue
		}
		certs, err := sel.certificatesOfEntry(ctx, wantedType, trustStore)
		if err != nil {
			return nil, err
		}
		certificates = append(certificates, certs...)
		processedStoreSet.Add(trustStore)
	}
	return certificates, nil
}

func (sel trustStoreSelection) certificatesOfEntry(ctx context.Context, wantedType truststore.Type, entry string) ([]*x509.Certificate, error) {
	sep := strings.IndexByte(entry, ':')
	if sep < 0 {
		return nil, truststore.TrustStoreError{Msg: fmt.Sprintf("error while loading the trust store, trust policy statement %q is missing separator in trust store value %q. The required format is <TrustStoreType>:<TrustStoreName>", sel.policyName, entry)}
	}
	if entry[:sep] != string(wantedType) {
		return nil, nil
	}
	return sel.x509TrustStore.GetCertificates(ctx, wantedType, entry[sep+1:])
}
"""

def po(w1=PO_W1, w2=PO_W2, g=PO_G, more=(PO_NOSET,)):
    return [(H, PO_W1_BASE, w1), (H, PO_W2_BASE, w2), (H, PO_G_BASE, g)] + list(more)

def po_must(s, a, b):
    assert s.count(a) == 1, a
    return s.replace(a, b)

SEVENTH = [
 dict(name='benign-param-object-by-value-method-indexbyte', expect='silent', edits=po()),
 dict(name='benign-param-object-by-value-method-cut', expect='silent', edits=po(g=PO_G_CUT, more=())),
 dict(name='benign-param-object-by-pointer-type-in-object', expect='silent', edits=po(PO_PTR_W1, PO_PTR_W2, PO_PTR_G, more=())),
 dict(name='benign-param-object-from-constructor', expect='silent',
      edits=po(PO_CTOR + PO_W1.replace(PO_MK, PO_MK_CTOR), PO_W2.replace(PO_MK, PO_MK_CTOR))),
 dict(name='benign-param-object-filled-field-by-field', expect='silent',
      edits=po(PO_W1.replace(PO_MK, PO_MK_FIELDS), PO_W2.replace(PO_MK, PO_MK_FIELDS))),
 dict(name='benign-param-object-per-entry-method', expect='silent', edits=po(g=PO_G_ENTRY, more=())),
 # broken counterparts
 dict(name='param-object-stores-field-from-elsewhere', expect='flagged(mapping/stores-passthrough)',
      edits=po(po_must(PO_W1, "trustStores: trustStores,", 'trustStores: append([]string{"ca:default"}, trustStores...),'))),
 dict(name='param-object-stores-field-set-twice', expect='flagged(mapping/stores-passthrough)',
      edits=po(po_must(PO_W1, PO_MK, PO_MK + '\n\tif len(trustStores) == 0 {\n\t\tselection.trustStores = []string{"ca:default"}\n\t}'))),
 dict(name='param-object-constructor-adds-a-store', expect='flagged(mapping/stores-passthrough)',
      edits=po(po_must(PO_CTOR, "trustStores: trustStores,", 'trustStores: append(trustStores, "ca:default"),') + PO_W1.replace(PO_MK, PO_MK_CTOR), PO_W2.replace(PO_MK, PO_MK_CTOR))),
 dict(name='param-object-ca-for-signing-authority', expect='flagged(mapping/)',
      edits=po(po_must(PO_W1, "certificatesOfType(ctx, truststore.TypeSigningAuthority)", "certificatesOfType(ctx, truststore.TypeCA)"))),
 dict(name='param-object-unknown-scheme-loads-ca', expect='flagged(mapping/ca)',
      edits=po(po_must(PO_W1, '\treturn nil, truststore.TrustStoreError{Msg: fmt.Sprintf("error while loading the trust store, unrecognized signing scheme %q", scheme)}\n', '\treturn selection.certificatesOfType(ctx, truststore.TypeCA)\n'))),
 dict(name='param-object-list-field-overwritten-in-loader', expect='flagged(loader/name-argument)',
      edits=po(g=po_must(PO_G, "\tvar certificates []*x509.Certificate\n", '\tvar certificates []*x509.Certificate\n\tsel.trustStores = append(sel.trustStores, "ca:default")\n'))),
 dict(name='param-object-name-from-last-colon', expect='flagged(loader/name-argument)',
      edits=po(g=po_must(PO_G, "trustStore[sep+1:])", "trustStore[strings.LastIndexByte(trustStore, ':')+1:])"))),
 dict(name='param-object-name-keeps-colon', expect='flagged(loader/name-argument)',
      edits=po(g=po_must(PO_G, "trustStore[sep+1:])", "trustStore[sep:])"))),
 dict(name='param-object-type-filter-removed', expect='flagged(loader/type-filter)',
      edits=po(g=po_must(PO_G, "\t\tif trustStore[:sep] != string(wantedType) {\n\t\t\tcontinue\n\t\t}\n", ""))),
 dict(name='param-object-load-error-skipped', expect='flagged(loader/load-error-fail-closed)',
      edits=po(g=po_must(PO_G, "\t\tif err != nil {\n\t\t\treturn nil, err\n\t\t}\n", "\t\tif err != nil {\n\t\t\tcontinue\n\t\t}\n"))),
 dict(name='param-object-by-pointer-list-widened-by-helper', expect='flagged(loader/name-argument)',
      edits=po(PO_PTR_W1, PO_PTR_W2,
               po_must(PO_PTR_G, "\tvar certificates []*x509.Certificate\n", "\tvar certificates []*x509.Certificate\n\twidenStoreList(o)\n") +
               '\nfunc widenStoreList(o *storeLoadOptions) {\n\to.listed = append(o.listed, "ca:default")\n}\n', more=())),
 dict(name='param-object-by-pointer-type-field-constant-ca', expect='flagged(mapping/)',
      edits=po(po_must(PO_PTR_W1, PO_PTR_CALL, "typeToLoad = truststore.TypeCA\n\t" + PO_PTR_CALL), PO_PTR_W2, PO_PTR_G, more=())),
 dict(name='param-object-by-pointer-type-set-after-the-test', expect='flagged(mapping/)',
      edits=po(po_must(PO_PTR_W1, PO_PTR_CALL, "o := &storeLoadOptions{wanted: typeToLoad, policy: policyName, listed: trustStores, source: x509TrustStore}\n\tif len(trustStores) == 1 {\n\t\to.wanted = truststore.TypeCA\n\t}\n\treturn loadX509TrustStoresWithType(ctx, o)"), PO_PTR_W2, PO_PTR_G, more=())),
 # further members: options by value as a plain argument; pointer receiver
 dict(name='benign-param-object-by-value-argument-type-in-object', expect='silent',
      edits=po(PO_PTR_W1.replace("&storeLoadOptions{", "storeLoadOptions{"), PO_PTR_W2.replace("&storeLoadOptions{", "storeLoadOptions{"),
               po_must(PO_PTR_G, "o *storeLoadOptions", "o storeLoadOptions"), more=())),
 dict(name='param-object-by-value-argument-list-extended', expect='flagged(mapping/stores-passthrough)',
      edits=po(po_must(PO_PTR_W1, "&storeLoadOptions{wanted: typeToLoad, policy: policyName, listed: trustStores,", 'storeLoadOptions{wanted: typeToLoad, policy: policyName, listed: append(trustStores, "ca:default"),'),
               PO_PTR_W2.replace("&storeLoadOptions{", "storeLoadOptions{"), po_must(PO_PTR_G, "o *storeLoadOptions", "o storeLoadOptions"), more=())),
 dict(name='benign-param-object-pointer-receiver', expect='silent',
      edits=po(PO_PTR_W1.replace("loadX509TrustStoresWithType(ctx, &storeLoadOptions{", "(&storeLoadOptions{").replace("source: x509TrustStore})", "source: x509TrustStore}).certificates(ctx)"),
               PO_PTR_W2.replace("loadX509TrustStoresWithType(ctx, &storeLoadOptions{", "(&storeLoadOptions{").replace("source: x509TrustStore})", "source: x509TrustStore}).certificates(ctx)"),
               po_must(PO_PTR_G, "func loadX509TrustStoresWithType(ctx context.Context, o *storeLoadOptions)", "func (o *storeLoadOptions) certificates(ctx context.Context)"), more=())),
 dict(name='param-object-pointer-receiver-type-swapped-inside', expect='flagged(loader/)',
      edits=po(PO_PTR_W1.replace("loadX509TrustStoresWithType(ctx, &storeLoadOptions{", "(&storeLoadOptions{").replace("source: x509TrustStore})", "source: x509TrustStore}).certificates(ctx)"),
               PO_PTR_W2.replace("loadX509TrustStoresWithType(ctx, &storeLoadOptions{", "(&storeLoadOptions{").replace("source: x509TrustStore})", "source: x509TrustStore}).certificates(ctx)"),
               po_must(po_must(PO_PTR_G, "func loadX509TrustStoresWithType(ctx context.Context, o *storeLoadOptions)", "func (o *storeLoadOptions) certificates(ctx context.Context)"),
                       "\tvar certificates []*x509.Certificate\n", "\tvar certificates []*x509.Certificate\n\tif len(o.listed) == 1 {\n\t\to.wanted = truststore.TypeCA\n\t}\n"), more=())),
 dict(name='param-object-per-entry-method-foreign-entry', expect='flagged(loader/name-argument)',
      edits=po(g=po_must(PO_G_ENTRY, "sel.certificatesOfEntry(ctx, wantedType, trustStore)", 'sel.certificatesOfEntry(ctx, wantedType, "ca:"+sel.policyName)'), more=())),
 dict(name='param-object-per-entry-method-type-from-listing', expect='flagged(loader/type-argument)',
      edits=po(g=po_must(PO_G_ENTRY, "GetCertificates(ctx, wantedType, entry[sep+1:])", "GetCertificates(ctx, truststore.Type(entry[:sep]), entry[sep+1:])"), more=())),
]


# ---------------------------------------------------------------------------------------------------------------------------
# eighth list (fifth pass). Two classes.
# (1) "the split of a listed entry lives in a parse helper" (extract-helper at another boundary / results bundled into a struct /
#     ok flag vs error / single exit): the per-entry part of the loader loop is replaced, a helper is appended to helpers.go.
SP_FIND = """		storeType, name, found := strings.Cut(trustStore, ":")
		if !found {
			return nil, truststore.TrustStoreError{Msg: fmt.Sprintf("error while loading the trust store, trust policy statement %q is missing separator in trust store value %q. The required format is <TrustStoreType>:<TrustStoreName>", policyName, trustStore)}
		}
		if trustStoreType != truststore.Type(storeType) {
			continue
		}

		certs, err := x509TrustStore.GetCertificates(ctx, trustStoreType, name)
		if err != nil {
			return nil, err
		}
		certificates = append(certificates, certs...)
		processedStoreSet.Add(trustStore)
	}
	return certificates, nil
}
"""
SP_ERRMSG = 'truststore.TrustStoreError{Msg: fmt.Sprintf("error while loading the trust store, trust policy statement %q is missing separator in trust store value %q. The required format is <TrustStoreType>:<TrustStoreName>", policyName, trustStore)}'
SP_TAIL = """	}
	return certificates, nil
}
"""
SP_LOAD = """			certs, err := x509TrustStore.GetCertificates(ctx, trustStoreType, %s)
			if err != nil {
				return nil, err
			}
			certificates = append(certificates, certs...)
			processedStoreSet.Add(trustStore)
"""
# struct by value + error, positive nesting (the shape of the held-out refactoring)
SP_STRUCT_BODY = """		ref, err := parseTrustStoreRef(policyName, trustStore)
		if err != nil {
			return nil, err
		}
		if ref.storeType == trustStoreType {
""" + SP_LOAD % "ref.name" + "\t\t}\n" + SP_TAIL
SP_STRUCT_HELPER = """
type trustStoreRef struct {
	storeType truststore.Type
	name      string
}

func parseTrustStoreRef(policyName, trustStore string) (trustStoreRef, error) {
	storeType, name, found := strings.Cut(trustStore, ":")
	if !found {
		return trustStoreRef{}, """ + SP_ERRMSG + """
	}
	return trustStoreRef{storeType: truststore.Type(storeType), name: name}, nil
}
"""
# three results + error, guard clauses
SP_THREE_BODY = """		listedType, listedName, err := splitTrustStore(policyName, trustStore)
		if err != nil {
			return nil, err
		}
		if trustStoreType != listedType {
			continue
		}
""" + (SP_LOAD % "listedName").replace("\t\t\t", "\t\t") + SP_TAIL
SP_THREE_HELPER = """
func splitTrustStore(policyName, trustStore string) (truststore.Type, string, error) {
	before, after, found := strings.Cut(trustStore, ":")
	if !found {
		return "", "", """ + SP_ERRMSG + """
	}
	return truststore.Type(before), after, nil
}
"""
# ok flag instead of an error, the error built by the caller; the helper uses IndexByte + slicing
SP_OK_BODY = """		listedType, listedName, ok := splitTrustStore(trustStore)
		if !ok {
			return nil, """ + SP_ERRMSG + """
		}
		if trustStoreType != truststore.Type(listedType) {
			continue
		}
""" + (SP_LOAD % "listedName").replace("\t\t\t", "\t\t") + SP_TAIL
SP_OK_HELPER = """
func splitTrustStore(entry string) (string, string, bool) {
	i := strings.IndexByte(entry, ':')
	if i < 0 {
		return "", "", false
	}
	return entry[:i], entry[i+1:], true
}
"""
# struct by pointer + error
SP_PTR_BODY = SP_STRUCT_BODY
SP_PTR_HELPER = SP_STRUCT_HELPER.replace("(trustStoreRef, error)", "(*trustStoreRef, error)").replace("return trustStoreRef{}, ", "return nil, ").replace("return trustStoreRef{storeType:", "return &trustStoreRef{storeType:")
# single exit with locals
SP_ONE_EXIT_HELPER = """
type trustStoreRef struct {
	storeType truststore.Type
	name      string
}

func parseTrustStoreRef(policyName, trustStore string) (trustStoreRef, error) {
	var ref trustStoreRef
	var err error
	storeType, name, found := strings.Cut(trustStore, ":")
	if found {
		ref.storeType = truststore.Type(storeType)
		ref.name = name
	} else {
		err = """ + SP_ERRMSG + """
	}
	return ref, err
}
"""
# the helper itself delegates the cut to a second helper (two levels)
SP_TWO_LEVEL_HELPER = SP_STRUCT_HELPER.replace('storeType, name, found := strings.Cut(trustStore, ":")\n\tif !found {', 'storeType, name, found := cutAtColon(trustStore)\n\tif !found {') + """
func cutAtColon(s string) (string, string, bool) {
	i := strings.Index(s, ":")
	if i < 0 {
		return "", "", false
	}
	return s[:i], s[i+1:], true
}
"""

SP_REF_TYPE = """
type trustStoreRef struct {
	storeType truststore.Type
	name      string
}
"""
SP_CLOSURE = """		parse := func(entry string) (trustStoreRef, error) {
			storeType, name, found := strings.Cut(entry, ":")
			if !found {
				return trustStoreRef{}, """ + SP_ERRMSG.replace("policyName, trustStore)", "policyName, entry)") + """
			}
			return trustStoreRef{storeType: truststore.Type(storeType), name: name}, nil
		}
"""

def sp(body, helper):
    return [(H, SP_FIND, body + helper)]

def sp_must(s, a, b):
    assert s.count(a) == 1, (a, s.count(a))
    return s.replace(a, b)

# (2) "several parameters bundled into a struct": the four statement fields travel to processSignature in one unexported struct.
PB_CALL_OCI = "err = v.processSignature(ctx, signature, envelopeMediaType, trustPolicy.Name, trustPolicy.TrustedIdentities, trustPolicy.TrustStores, trustPolicy.SignatureVerification, pluginConfig, outcome)"
PB_CALL_BLOB = "err = v.processSignature(ctx, signature, opts.SignatureMediaType, trustPolicy.Name, trustPolicy.TrustedIdentities, trustPolicy.TrustStores, trustPolicy.SignatureVerification, opts.PluginConfig, outcome)"
PB_LIT = "policyStatement{name: trustPolicy.Name, trustedIdentities: trustPolicy.TrustedIdentities, trustStores: trustPolicy.TrustStores, signatureVerification: trustPolicy.SignatureVerification}"
PB_SIG = "func (v *verifier) processSignature(ctx context.Context, sigBlob []byte, envelopeMediaType, policyName string, trustedIdentities, trustStores []string, signatureVerification trustpolicy.SignatureVerification, pluginConfig map[string]string, outcome *notation.VerificationOutcome) error {"
PB_TYPE = """// policyStatement carries what signature processing needs of the applicable statement.
type policyStatement struct {
	name                  string
	trustedIdentities     []string
	trustStores           []string
	signatureVerification trustpolicy.SignatureVerification
}

"""
PB_SIG_NEW = "func (v *verifier) processSignature(ctx context.Context, sigBlob []byte, envelopeMediaType string, policy policyStatement, pluginConfig map[string]string, outcome *notation.VerificationOutcome) error {"

def pb(oci=None, blob=None, sig=PB_SIG_NEW, typ=PB_TYPE, pre_oci="", pre_blob="", arg="%s", inside=""):
    oci = oci or PB_LIT
    blob = blob or PB_LIT
    return [
        (V, PB_CALL_OCI, pre_oci + "err = v.processSignature(ctx, signature, envelopeMediaType, " + (arg % oci) + ", pluginConfig, outcome)"),
        (V, PB_CALL_BLOB, pre_blob + "err = v.processSignature(ctx, signature, opts.SignatureMediaType, " + (arg % blob) + ", opts.PluginConfig, outcome)"),
        (V, PB_SIG, typ + sig + inside),
        (V, "trustCerts, err := loadX509TrustStores(ctx, outcome.EnvelopeContent.SignerInfo.SignedAttributes.SigningScheme, policyName, trustStores, v.trustStore)",
            "trustCerts, err := loadX509TrustStores(ctx, outcome.EnvelopeContent.SignerInfo.SignedAttributes.SigningScheme, policy.name, policy.trustStores, v.trustStore)"),
        (V, "err = verifyX509TrustedIdentities(policyName, trustedIdentities, outcome.EnvelopeContent.SignerInfo.CertificateChain)",
            "err = verifyX509TrustedIdentities(policy.name, policy.trustedIdentities, outcome.EnvelopeContent.SignerInfo.CertificateChain)"),
        (V, "authenticTimestampResult := verifyAuthenticTimestamp(ctx, policyName, trustStores, signatureVerification, v.trustStore, v.revocationTimestampingValidator, outcome)",
            "authenticTimestampResult := verifyAuthenticTimestamp(ctx, policy.name, policy.trustStores, policy.signatureVerification, v.trustStore, v.revocationTimestampingValidator, outcome)"),
        (V, "response, err := executePlugin(ctx, installedPlugin, capabilitiesToVerify, outcome.EnvelopeContent, trustedIdentities, pluginConfig)",
            "response, err := executePlugin(ctx, installedPlugin, capabilitiesToVerify, outcome.EnvelopeContent, policy.trustedIdentities, pluginConfig)"),
    ]

PB_FIELDS = "var applicable policyStatement\n\tapplicable.name = trustPolicy.Name\n\tapplicable.trustedIdentities = trustPolicy.TrustedIdentities\n\tapplicable.trustStores = trustPolicy.TrustStores\n\tapplicable.signatureVerification = trustPolicy.SignatureVerification\n\t"
PB_OTHER = "v.ociTrustPolicyDoc.TrustPolicies[0]"

EIGHTH = [
 # ---- class 1: parse helper
 dict(name='benign-split-helper-struct-and-error', expect='silent', edits=sp(SP_STRUCT_BODY, SP_STRUCT_HELPER)),
 dict(name='benign-split-helper-three-results', expect='silent', edits=sp(SP_THREE_BODY, SP_THREE_HELPER)),
 dict(name='benign-split-helper-ok-flag-indexbyte', expect='silent', edits=sp(SP_OK_BODY, SP_OK_HELPER)),
 dict(name='benign-split-helper-struct-by-pointer', expect='silent', edits=sp(SP_PTR_BODY, SP_PTR_HELPER)),
 dict(name='benign-split-helper-single-exit', expect='silent', edits=sp(SP_STRUCT_BODY, SP_ONE_EXIT_HELPER)),
 dict(name='benign-split-helper-two-levels', expect='silent', edits=sp(SP_STRUCT_BODY, SP_TWO_LEVEL_HELPER)),
 dict(name='benign-split-closure', expect='silent',
      edits=sp(SP_STRUCT_BODY.replace("\t\tref, err := parseTrustStoreRef(policyName, trustStore)\n", SP_CLOSURE + "\t\tref, err := parse(trustStore)\n"), SP_REF_TYPE)),
 dict(name='split-closure-cuts-captured-other-entry', expect='flagged(loader/)',
      edits=sp(SP_STRUCT_BODY.replace("\t\tref, err := parseTrustStoreRef(policyName, trustStore)\n", SP_CLOSURE.replace('strings.Cut(entry, ":")', 'strings.Cut(trustStores[0], ":")') + "\t\tref, err := parse(trustStore)\n"), SP_REF_TYPE)),
 # broken counterparts
 dict(name='split-helper-error-ignored', expect='flagged(loader/)',
      edits=sp(sp_must(SP_STRUCT_BODY, "\t\tref, err := parseTrustStoreRef(policyName, trustStore)\n\t\tif err != nil {\n\t\t\treturn nil, err\n\t\t}\n", "\t\tref, _ := parseTrustStoreRef(policyName, trustStore)\n"), SP_STRUCT_HELPER)),
 dict(name='split-helper-no-separator-test', expect='flagged(loader/separator)',
      edits=sp(SP_STRUCT_BODY, sp_must(SP_STRUCT_HELPER, "\tif !found {\n", "\tif !found && policyName == \"\" {\n"))),
 dict(name='split-helper-name-is-whole-entry', expect='flagged(loader/name-argument)',
      edits=sp(SP_STRUCT_BODY, sp_must(SP_STRUCT_HELPER, "name: name}, nil", 'name: storeType + ":" + name}, nil'))),
 dict(name='split-helper-fields-swapped', expect='flagged(loader/name-argument)',
      edits=sp(SP_STRUCT_BODY, sp_must(SP_STRUCT_HELPER, "trustStoreRef{storeType: truststore.Type(storeType), name: name}, nil", "trustStoreRef{storeType: truststore.Type(name), name: storeType}, nil"))),
 dict(name='split-helper-type-filter-removed', expect='flagged(loader/type-filter)',
      edits=sp(sp_must(SP_STRUCT_BODY, "\t\tif ref.storeType == trustStoreType {\n", "\t\tif ref.storeType != \"\" {\n"), SP_STRUCT_HELPER)),
 dict(name='split-helper-type-filter-on-first-entry', expect='flagged(loader/type-filter)',
      edits=sp(sp_must(SP_STRUCT_BODY, "\t\tif ref.storeType == trustStoreType {\n", "\t\tfirst, err := parseTrustStoreRef(policyName, trustStores[0])\n\t\tif err != nil {\n\t\t\treturn nil, err\n\t\t}\n\t\tif first.storeType == trustStoreType {\n"), SP_STRUCT_HELPER)),
 dict(name='split-helper-given-foreign-entry', expect='flagged(loader/name-argument)',
      edits=sp(sp_must(SP_STRUCT_BODY, "parseTrustStoreRef(policyName, trustStore)", 'parseTrustStoreRef(policyName, "ca:"+policyName)'), SP_STRUCT_HELPER)),
 dict(name='split-helper-name-after-last-colon', expect='flagged(loader/name-argument)',
      edits=sp(SP_OK_BODY, sp_must(SP_OK_HELPER, "entry[i+1:], true", "entry[strings.LastIndexByte(entry, ':')+1:], true"))),
 dict(name='split-helper-ok-flag-always-true', expect='flagged(loader/separator)',
      edits=sp(SP_OK_BODY, '\nfunc splitTrustStore(entry string) (string, string, bool) {\n\tbefore, after, found := strings.Cut(entry, ":")\n\treturn before, after, found || entry != ""\n}\n')),
 dict(name='split-helper-ok-flag-true-without-separator', expect='flagged(loader/)',
      edits=sp(SP_OK_BODY, sp_must(SP_OK_HELPER, '\tif i < 0 {\n\t\treturn "", "", false\n\t}\n', '\tif i < 0 {\n\t\treturn "", entry, true\n\t}\n'))),
 dict(name='split-helper-ok-flag-not-tested', expect='flagged(loader/)',
      edits=sp(sp_must(SP_OK_BODY, "\t\tif !ok {\n\t\t\treturn nil, " + SP_ERRMSG + "\n\t\t}\n", "\t\t_ = ok\n"), SP_OK_HELPER)),
 dict(name='split-helper-pointer-name-rewritten', expect='flagged(loader/name-argument)',
      edits=sp(sp_must(SP_PTR_BODY, "\t\tif ref.storeType == trustStoreType {\n", "\t\tif ref.name == \"\" {\n\t\t\tref.name = policyName\n\t\t}\n\t\tif ref.storeType == trustStoreType {\n"), SP_PTR_HELPER)),
 dict(name='split-helper-single-exit-no-error-when-missing', expect='flagged(loader/)',
      edits=sp(SP_STRUCT_BODY, sp_must(SP_ONE_EXIT_HELPER, "\t} else {\n\t\terr = " + SP_ERRMSG + "\n\t}\n", "\t} else {\n\t\tref.name = trustStore\n\t}\n"))),
 dict(name='split-helper-two-levels-inner-flag-ignored', expect='flagged(loader/)',
      edits=sp(SP_STRUCT_BODY, sp_must(SP_TWO_LEVEL_HELPER, "\tif !found {\n\t\treturn trustStoreRef{}, " + SP_ERRMSG + "\n\t}\n", "\t_ = found\n"))),
 # ---- class 2: statement fields bundled into a struct
 dict(name='benign-policy-bundle-literal', expect='silent', edits=pb()),
 dict(name='benign-policy-bundle-by-pointer', expect='silent', edits=pb(arg="&%s", sig=PB_SIG_NEW.replace("policy policyStatement", "policy *policyStatement"))),
 dict(name='benign-policy-bundle-field-by-field', expect='silent', edits=pb(oci="applicable", blob="applicable", pre_oci=PB_FIELDS, pre_blob=PB_FIELDS)),
 dict(name='benign-policy-bundle-constructor', expect='silent',
      edits=pb(oci="newPolicyStatement(trustPolicy.Name, trustPolicy.TrustedIdentities, trustPolicy.TrustStores, trustPolicy.SignatureVerification)",
               blob="newPolicyStatement(trustPolicy.Name, trustPolicy.TrustedIdentities, trustPolicy.TrustStores, trustPolicy.SignatureVerification)",
               typ=PB_TYPE + "func newPolicyStatement(name string, identities, stores []string, sv trustpolicy.SignatureVerification) policyStatement {\n\treturn policyStatement{name: name, trustedIdentities: identities, trustStores: stores, signatureVerification: sv}\n}\n\n")),
 dict(name='policy-bundle-identities-of-other-statement', expect='flagged(scoping/one-statement)',
      edits=pb(oci=PB_LIT.replace("trustedIdentities: trustPolicy.TrustedIdentities", "trustedIdentities: " + PB_OTHER + ".TrustedIdentities"))),
 dict(name='policy-bundle-stores-of-other-statement', expect='flagged(scoping/)',
      edits=pb(oci=PB_LIT.replace("trustStores: trustPolicy.TrustStores", "trustStores: " + PB_OTHER + ".TrustStores"))),
 dict(name='policy-bundle-field-by-field-name-of-other-statement', expect='flagged(scoping/one-statement)',
      edits=pb(oci="applicable", blob="applicable", pre_oci=PB_FIELDS.replace("applicable.name = trustPolicy.Name", "applicable.name = " + PB_OTHER + ".Name"), pre_blob=PB_FIELDS)),
 dict(name='policy-bundle-identities-not-from-statement', expect='flagged(scoping/one-statement)',
      edits=pb(blob=PB_LIT.replace("trustedIdentities: trustPolicy.TrustedIdentities", 'trustedIdentities: []string{"*"}'))),
 dict(name='policy-bundle-stores-widened-in-callee', expect='flagged(scoping/)',
      edits=pb(inside='\n\tpolicy.trustStores = append(policy.trustStores, "ca:default")')),
 dict(name='policy-bundle-by-pointer-stores-replaced-by-helper', expect='flagged(scoping/)',
      edits=pb(arg="&%s", sig=PB_SIG_NEW.replace("policy policyStatement", "policy *policyStatement"),
               typ=PB_TYPE + "func widenPolicyStores(p *policyStatement) {\n\tp.trustStores = []string{\"ca:default\"}\n}\n\n", inside="\n\twidenPolicyStores(policy)")),
]


VARIANTS = [
 dict(name='type-filter-removed', file=H, expect='flagged(loader/type-filter)',
      find='\t\tif trustStoreType != truststore.Type(storeType) {\n\t\t\tcontinue\n\t\t}\n', replace='\t\t_ = storeType\n'),
 dict(name='type-from-listing', file=H, expect='flagged(loader/type-argument)',
      find='certs, err := x509TrustStore.GetCertificates(ctx, trustStoreType, name)',
      replace='certs, err := x509TrustStore.GetCertificates(ctx, truststore.Type(storeType), name)'),
 dict(name='load-error-continue', file=H, expect='flagged(loader/load-error-fail-closed)',
      find='\t\tcerts, err := x509TrustStore.GetCertificates(ctx, trustStoreType, name)\n\t\tif err != nil {\n\t\t\treturn nil, err\n\t\t}',
      replace='\t\tcerts, err := x509TrustStore.GetCertificates(ctx, trustStoreType, name)\n\t\tif err != nil {\n\t\t\tcontinue\n\t\t}'),
 dict(name='partial-set-returned', file=H, expect='flagged(loader/no-partial-set)',
      find='\t\tcerts, err := x509TrustStore.GetCertificates(ctx, trustStoreType, name)\n\t\tif err != nil {\n\t\t\treturn nil, err\n\t\t}',
      replace='\t\tcerts, err := x509TrustStore.GetCertificates(ctx, trustStoreType, name)\n\t\tif err != nil {\n\t\t\treturn certificates, err\n\t\t}'),
 dict(name='ca-for-signing-authority', file=H, expect='flagged(mapping/)',
      find='\tcase signature.SigningSchemeX509SigningAuthority:\n\t\ttypeToLoad = truststore.TypeSigningAuthority',
      replace='\tcase signature.SigningSchemeX509SigningAuthority:\n\t\ttypeToLoad = truststore.TypeCA'),
 dict(name='default-scheme-ca', file=H, expect='flagged(mapping/ca)',
      find='''	case signature.SigningSchemeX509SigningAuthority:
		typeToLoad = truststore.TypeSigningAuthority
	default:
		return nil, truststore.TrustStoreError{Msg: fmt.Sprintf("error while loading the trust store, unrecognized signing scheme %q", scheme)}
	}''', replace='''	case signature.SigningSchemeX509SigningAuthority:
		typeToLoad = truststore.TypeSigningAuthority
	default:
		typeToLoad = truststore.TypeCA
	}'''),
 dict(name='tsa-store-for-authenticity', file=V, expect='flagged(mapping/tsa-only-for-timestamp)',
      find='trustCerts, err := loadX509TrustStores(ctx, outcome.EnvelopeContent.SignerInfo.SignedAttributes.SigningScheme, policyName, trustStores, v.trustStore)',
      replace='trustCerts, err := loadX509TSATrustStores(ctx, outcome.EnvelopeContent.SignerInfo.SignedAttributes.SigningScheme, policyName, trustStores, v.trustStore)'),
 dict(name='load-error-ignored-in-processing', file=V, expect='flagged(authenticity/)',
      find='''	if err != nil {
		authenticityResult = &notation.ValidationResult{
			Error:  err,
			Type:   trustpolicy.TypeAuthenticity,
			Action: outcome.VerificationLevel.Enforcement[trustpolicy.TypeAuthenticity],
		}
	} else {
		// verify authenticity
		authenticityResult = verifyAuthenticity(trustCerts, outcome)
	}''', replace='''	_ = err
	authenticityResult = verifyAuthenticity(trustCerts, outcome)'''),
 dict(name='empty-set-passes', file=V, expect='flagged(authenticity/empty-set-fails)',
      find='\tif len(trustCerts) < 1 {\n', replace='\tif trustCerts == nil {\n'),
 dict(name='stores-of-other-statement', file=V, expect='flagged(scoping/one-statement)',
      find='err = v.processSignature(ctx, signature, envelopeMediaType, trustPolicy.Name, trustPolicy.TrustedIdentities, trustPolicy.TrustStores, trustPolicy.SignatureVerification, pluginConfig, outcome)',
      replace='err = v.processSignature(ctx, signature, envelopeMediaType, trustPolicy.Name, trustPolicy.TrustedIdentities, v.ociTrustPolicyDoc.TrustPolicies[0].TrustStores, trustPolicy.SignatureVerification, pluginConfig, outcome)'),
 dict(name='second-loader-site', file=V, expect='flagged(who-may-call)',
      find='\tif len(trustCerts) < 1 {\n', replace='\tif extra, err := truststore.NewX509TrustStore(nil).GetCertificates(context.Background(), truststore.TypeCA, "default"); err == nil {\n\t\ttrustCerts = append(trustCerts, extra...)\n\t}\n\tif len(trustCerts) < 1 {\n'),
 dict(name='verify-auth-error-ignored', file=V, expect='flagged(authenticity/verify-error-fails)',
      find='''	default:
			return &notation.ValidationResult{
				Error:  notation.ErrorVerificationInconclusive{Msg: "authenticity verification failed with error : " + err.Error()},
				Type:   trustpolicy.TypeAuthenticity,
				Action: outcome.VerificationLevel.Enforcement[trustpolicy.TypeAuthenticity],
			}
		}''', replace='''	default:
		}'''),
 # benign
 dict(name='benign-switch-to-if', file=H, expect='silent',
      find='''	var typeToLoad truststore.Type
	switch scheme {
	case signature.SigningSchemeX509:
		typeToLoad = truststore.TypeCA
	case signature.SigningSchemeX509SigningAuthority:
		typeToLoad = truststore.TypeSigningAuthority
	default:
		return nil, truststore.TrustStoreError{Msg: fmt.Sprintf("error while loading the trust store, unrecognized signing scheme %q", scheme)}
	}''', replace='''	var typeToLoad truststore.Type
	if scheme == signature.SigningSchemeX509 {
		typeToLoad = truststore.TypeCA
	} else if scheme == signature.SigningSchemeX509SigningAuthority {
		typeToLoad = truststore.TypeSigningAuthority
	} else {
		return nil, truststore.TrustStoreError{Msg: fmt.Sprintf("error while loading the trust store, unrecognized signing scheme %q", scheme)}
	}'''),
 dict(name='benign-no-dedup', file=H, expect='silent',
      find='\t\tif processedStoreSet.Contains(trustStore) {\n\t\t\t// we loaded this trust store already\n\t\t\tcontinue\n\t\t}\n', replace=''),
 dict(name='benign-wrap-error', file=H, expect='silent',
      find='\t\tif err != nil {\n\t\t\treturn nil, err\n\t\t}\n\t\tcertificates = append(certificates, certs...)',
      replace='\t\tif err != nil {\n\t\t\treturn nil, fmt.Errorf("store %s: %w", name, err)\n\t\t}\n\t\tcertificates = append(certificates, certs...)'),

 # ---- second pass: shapes accepted by class (extra_c03.go) -------------------------------------------------------------
] + SECOND_PASS + THIRD + FOURTH + FIFTH + SIXTH + SEVENTH + EIGHTH

