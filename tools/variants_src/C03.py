V = 'verifier/verifier.go'
H = 'verifier/helpers.go'
VARIANTS = [
 dict(name='type-filter-removed', file=H, expect='flagged(loader/type-filter)',
      find='\t\tif trustStoreType != truststore.Type(storeType) {\n\t\t\tcontinue\n\t\t}\n', replace='\t\t_ = storeType\n'),
 dict(name='type-from-listing', file=H, expect='flagged(loader/type-argument)',
      find='certs, err := x509TrustStore.GetCertificates(ctx, trustStoreType, name)',
      replace='certs, err := x509TrustStore.GetCertificates(ctx, truststore.Type(storeType), name)'),
 dict(name='load-error-continue', file=H, expect='flagged(loader/load-error-fail-closed)',
      find='\t\tcerts, err := x509TrustStore.GetCertificates(ctx, trustStoreType, name)\n\t\tif err != nil {\n\t\t\treturn nil, err\n\t\t}',
      replace='\t\tcerts, err := x509TrustStore.GetCertificates(ctx, trustStoreType, name)\n\t\tif err != nil {\n\t\t\tcontinue\n\t\t}'),
 dict(name='partial-set-returned', file=H, expect='flagged(loader/no-partial-set)',
      find='\t\tcerts, err := x509TrustStore.GetCertificates(ctx, trustStoreType, name)\n\t\tif err != nil {\n\t\t\treturn nil, err\n\t\t}',
      replace='\t\tcerts, err := x509TrustStore.GetCertificates(ctx, trustStoreType, name)\n\t\tif err != nil {\n\t\t\treturn certificates, err\n\t\t}'),
 dict(name='ca-for-signing-authority', file=H, expect='flagged(mapping/)',
      find='\tcase signature.SigningSchemeX509SigningAuthority:\n\t\ttypeToLoad = truststore.TypeSigningAuthority',
      replace='\tcase signature.SigningSchemeX509SigningAuthority:\n\t\ttypeToLoad = truststore.TypeCA'),
 dict(name='default-scheme-ca', file=H, expect='flagged(mapping/ca)',
      find='''	case signature.SigningSchemeX509SigningAuthority:
		typeToLoad = truststore.TypeSigningAuthority
	default:
		return nil, truststore.TrustStoreError{Msg: fmt.Sprintf("error while loading the trust store, unrecognized signing scheme %q", scheme)}
	}''', replace='''	case signature.SigningSchemeX509SigningAuthority:
		typeToLoad = truststore.TypeSigningAuthority
	default:
		typeToLoad = truststore.TypeCA
	}'''),
 dict(name='tsa-store-for-authenticity', file=V, expect='flagged(mapping/tsa-only-for-timestamp)',
      find='trustCerts, err := loadX509TrustStores(ctx, outcome.EnvelopeContent.SignerInfo.SignedAttributes.SigningScheme, policyName, trustStores, v.trustStore)',
      replace='trustCerts, err := loadX509TSATrustStores(ctx, outcome.EnvelopeContent.SignerInfo.SignedAttributes.SigningScheme, policyName, trustStores, v.trustStore)'),
 dict(name='load-error-ignored-in-processing', file=V, expect='flagged(authenticity/)',
      find='''	if err != nil {
		authenticityResult = &notation.ValidationResult{
			Error:  err,
			Type:   trustpolicy.TypeAuthenticity,
			Action: outcome.VerificationLevel.Enforcement[trustpolicy.TypeAuthenticity],
		}
	} else {
		// verify authenticity
		authenticityResult = verifyAuthenticity(trustCerts, outcome)
	}''', replace='''	_ = err
	authenticityResult = verifyAuthenticity(trustCerts, outcome)'''),
 dict(name='empty-set-passes', file=V, expect='flagged(authenticity/empty-set-fails)',
      find='\tif len(trustCerts) < 1 {\n', replace='\tif trustCerts == nil {\n'),
 dict(name='stores-of-other-statement', file=V, expect='flagged(scoping/one-statement)',
      find='err = v.processSignature(ctx, signature, envelopeMediaType, trustPolicy.Name, trustPolicy.TrustedIdentities, trustPolicy.TrustStores, trustPolicy.SignatureVerification, pluginConfig, outcome)',
      replace='err = v.processSignature(ctx, signature, envelopeMediaType, trustPolicy.Name, trustPolicy.TrustedIdentities, v.ociTrustPolicyDoc.TrustPolicies[0].TrustStores, trustPolicy.SignatureVerification, pluginConfig, outcome)'),
 dict(name='second-loader-site', file=V, expect='flagged(who-may-call)',
      find='\tif len(trustCerts) < 1 {\n', replace='\tif extra, err := truststore.NewX509TrustStore(nil).GetCertificates(context.Background(), truststore.TypeCA, "default"); err == nil {\n\t\ttrustCerts = append(trustCerts, extra...)\n\t}\n\tif len(trustCerts) < 1 {\n'),
 dict(name='verify-auth-error-ignored', file=V, expect='flagged(authenticity/verify-error-fails)',
      find='''	default:
			return &notation.ValidationResult{
				Error:  notation.ErrorVerificationInconclusive{Msg: "authenticity verification failed with error : " + err.Error()},
				Type:   trustpolicy.TypeAuthenticity,
				Action: outcome.VerificationLevel.Enforcement[trustpolicy.TypeAuthenticity],
			}
		}''', replace='''	default:
		}'''),
 # benign
 dict(name='benign-switch-to-if', file=H, expect='silent',
      find='''	var typeToLoad truststore.Type
	switch scheme {
	case signature.SigningSchemeX509:
		typeToLoad = truststore.TypeCA
	case signature.SigningSchemeX509SigningAuthority:
		typeToLoad = truststore.TypeSigningAuthority
	default:
		return nil, truststore.TrustStoreError{Msg: fmt.Sprintf("error while loading the trust store, unrecognized signing scheme %q", scheme)}
	}''', replace='''	var typeToLoad truststore.Type
	if scheme == signature.SigningSchemeX509 {
		typeToLoad = truststore.TypeCA
	} else if scheme == signature.SigningSchemeX509SigningAuthority {
		typeToLoad = truststore.TypeSigningAuthority
	} else {
		return nil, truststore.TrustStoreError{Msg: fmt.Sprintf("error while loading the trust store, unrecognized signing scheme %q", scheme)}
	}'''),
 dict(name='benign-no-dedup', file=H, expect='silent',
      find='\t\tif processedStoreSet.Contains(trustStore) {\n\t\t\t// we loaded this trust store already\n\t\t\tcontinue\n\t\t}\n', replace=''),
 dict(name='benign-wrap-error', file=H, expect='silent',
      find='\t\tif err != nil {\n\t\t\treturn nil, err\n\t\t}\n\t\tcertificates = append(certificates, certs...)',
      replace='\t\tif err != nil {\n\t\t\treturn nil, fmt.Errorf("store %s: %w", name, err)\n\t\t}\n\t\tcertificates = append(certificates, certs...)'),
]
