V = 'verifier/verifier.go'
P = 'internal/pkix/pkix.go'
VARIANTS = [
 dict(name='F13-reintroduced', file=P, expect='flagged(subset/present)',
      find='if value, ok := dn2[key]; !ok || dn1[key] != value {', replace='if dn1[key] != dn2[key] {'),
 dict(name='subset-reversed-range', file=P, expect='flagged(subset/range-first)',
      find='for key := range dn1 {\n\t\tif value, ok := dn2[key]; !ok || dn1[key] != value {',
      replace='for key := range dn2 {\n\t\tif value, ok := dn1[key]; !ok || dn2[key] != value {'),
 dict(name='subset-prefix-compare', file=P, expect='flagged(subset/whitelist)',
      find='if value, ok := dn2[key]; !ok || dn1[key] != value {', replace='if value, ok := dn2[key]; !ok || !strings.HasPrefix(value, dn1[key]) {'),
 dict(name='subset-equalfold', file=P, expect='flagged(subset/whitelist)',
      find='if value, ok := dn2[key]; !ok || dn1[key] != value {', replace='if value, ok := dn2[key]; !ok || !strings.EqualFold(value, dn1[key]) {'),
 dict(name='subset-early-true', file=P, expect='flagged(subset/true-only-after-loop)',
      find='\t\t\treturn false\n\t\t}\n\t}\n\treturn true', replace='\t\t\treturn false\n\t\t}\n\t\treturn true\n\t}\n\treturn true'),
 dict(name='args-swapped', file=V, expect='flagged(verifier/)',
      find='if pkix.IsSubsetDN(trustedX509Identity, leafCertDN) {', replace='if pkix.IsSubsetDN(leafCertDN, trustedX509Identity) {'),
 dict(name='any-cert-in-chain', file=V, expect='flagged(verifier/leaf-only)',
      find='''	for _, trustedX509Identity := range trustedX509Identities {
		if pkix.IsSubsetDN(trustedX509Identity, leafCertDN) {
			return nil
		}
	}
''', replace='''	for _, trustedX509Identity := range trustedX509Identities {
		if pkix.IsSubsetDN(trustedX509Identity, leafCertDN) {
			return nil
		}
		for _, cert := range certs[1:] {
			if dn, err := pkix.ParseDistinguishedName(cert.Subject.String()); err == nil && pkix.IsSubsetDN(trustedX509Identity, dn) {
				return nil
			}
		}
	}
'''),
 dict(name='last-cert', file=V, expect='flagged(verifier/leaf-only)',
      find='leafCert := certs[0] // trusted', replace='leafCert := certs[len(certs)-1] // trusted'),
 dict(name='unparsable-identity-skipped', file=V, expect='flagged(verifier/identity-parse-error)',
      find='\t\t\tparsedSubject, err := pkix.ParseDistinguishedName(identityValue)\n\t\t\tif err != nil {\n\t\t\t\treturn err\n\t\t\t}',
      replace='\t\t\tparsedSubject, err := pkix.ParseDistinguishedName(identityValue)\n\t\t\tif err != nil {\n\t\t\t\tcontinue\n\t\t\t}'),
 dict(name='no-x509-identity-passes', file=V, expect='flagged(verifier/success-exits)',
      find='\tif len(trustedX509Identities) == 0 {\n\t\treturn fmt.Errorf("no x509 trusted identities are configured in the trust policy %q", policyName)\n\t}',
      replace='\tif len(trustedX509Identities) == 0 {\n\t\treturn nil\n\t}'),
 dict(name='leaf-parse-error-passes', file=V, expect='flagged(verifier/)',
      find='\tif err != nil {\n\t\treturn fmt.Errorf("error while parsing the certificate subject from the digital signature. error : %q", err)\n\t}',
      replace='\tif err != nil && len(trustedX509Identities) == 0 {\n\t\treturn fmt.Errorf("error while parsing the certificate subject from the digital signature. error : %q", err)\n\t}'),
 dict(name='duplicate-attribute-overwrites', file=P, expect='flagged(parser/duplicate)',
      find='''			if attrKeyValue[attribute.Type] == "" {
				attrKeyValue[attribute.Type] = attribute.Value
			} else {
				return nil, fmt.Errorf("distinguished name (DN) %q has duplicate RDN attribute for %q, DN can only have unique RDN attributes", name, attribute.Type)
			}''', replace='''			attrKeyValue[attribute.Type] = attribute.Value'''),
 dict(name='multi-valued-allowed', file=P, expect='flagged(parser/multi-valued-rdn)',
      find='if len(rdn.Attributes) > 1 {', replace='if len(rdn.Attributes) > 2 {'),
 dict(name='alias-dropped', file=P, expect='flagged(parser/alias-S-ST)',
      find='\t\t\tif attribute.Type == "S" {\n\t\t\t\tattribute.Type = "ST"\n\t\t\t}\n', replace=''),
 dict(name='mandatory-O-dropped', file=P, expect='flagged(parser/mandatory)',
      find='mandatoryFields := []string{"C", "ST", "O"}', replace='mandatoryFields := []string{"C", "ST"}'),
 dict(name='wildcard-prefix', file=V, expect='flagged(verifier/success-exits)',
      find='\tif slices.Contains(trustedIdentities, trustpolicyInternal.Wildcard) {\n\t\treturn nil\n\t}\n\n\tvar trustedX509Identities',
      replace='\tif len(trustedIdentities) > 0 && strings.HasPrefix(trustedIdentities[0], trustpolicyInternal.Wildcard) {\n\t\treturn nil\n\t}\n\n\tvar trustedX509Identities'),
 # benign
 dict(name='benign-subset-two-step', file=P, expect='silent',
      find='\t\tif value, ok := dn2[key]; !ok || dn1[key] != value {\n\t\t\treturn false\n\t\t}',
      replace='\t\tvalue, ok := dn2[key]\n\t\tif !ok {\n\t\t\treturn false\n\t\t}\n\t\tif value != dn1[key] {\n\t\t\treturn false\n\t\t}'),
 dict(name='benign-range-key-value', file=P, expect='silent',
      find='\tfor key := range dn1 {\n\t\tif value, ok := dn2[key]; !ok || dn1[key] != value {',
      replace='\tfor key, want := range dn1 {\n\t\tif value, ok := dn2[key]; !ok || want != value {'),
 dict(name='benign-error-wrap', file=V, expect='silent',
      find='\t\t\tparsedSubject, err := pkix.ParseDistinguishedName(identityValue)\n\t\t\tif err != nil {\n\t\t\t\treturn err\n\t\t\t}',
      replace='\t\t\tparsedSubject, err := pkix.ParseDistinguishedName(identityValue)\n\t\t\tif err != nil {\n\t\t\t\treturn fmt.Errorf("identity %q: %w", identity, err)\n\t\t\t}'),
]

# ---- shapes accepted since the generalisation of the rule set (helpers / methods in the verifier's call tree, the identity
# ---- split said with Contains + CutPrefix, pre-sized list, alias on a local copy, mandatory list as an array literal):
# ---- each shape once as a benign rewrite of the base tree, and with the property broken inside the new shape.

def _sub(text, old, new):
    assert text.count(old) == 1, (old, text.count(old))
    return text.replace(old, new)

# base text of the identity verifier and of the attribute part of the DN parser (the `find` of the whole-function variants)
_VFN = '''func verifyX509TrustedIdentities(policyName string, trustedIdentities []string, certs []*x509.Certificate) error {
	if slices.Contains(trustedIdentities, trustpolicyInternal.Wildcard) {
		return nil
	}

	var trustedX509Identities []map[string]string
	for _, identity := range trustedIdentities {
		identityPrefix, identityValue, found := strings.Cut(identity, ":")
		if !found {
			return fmt.Errorf("trust policy statement %q has trusted identity %q missing separator", policyName, identity)
		}

		// notation natively supports x509.subject identities only
		if identityPrefix == trustpolicyInternal.X509Subject {
			// identityValue cannot be empty
			if identityValue == "" {
				return fmt.Errorf("trust policy statement %q has trusted identity %q without an identity value", policyName, identity)
			}
			parsedSubject, err := pkix.ParseDistinguishedName(identityValue)
			if err != nil {
				return err
			}
			trustedX509Identities = append(trustedX509Identities, parsedSubject)
		}
	}

	if len(trustedX509Identities) == 0 {
		return fmt.Errorf("no x509 trusted identities are configured in the trust policy %q", policyName)
	}

	leafCert := certs[0] // trusted identities only supported on the leaf cert

	// parse the certificate subject following rfc 4514 DN syntax
	leafCertDN, err := pkix.ParseDistinguishedName(leafCert.Subject.String())
	if err != nil {
		return fmt.Errorf("error while parsing the certificate subject from the digital signature. error : %q", err)
	}
	for _, trustedX509Identity := range trustedX509Identities {
		if pkix.IsSubsetDN(trustedX509Identity, leafCertDN) {
			return nil
		}
	}

	return fmt.Errorf("signing certificate from the digital signature does not match the X.509 trusted identities %q defined in the trust policy %q", trustedX509Identities, policyName)
}

'''

_PARSER = '''	attrKeyValue := make(map[string]string)
	dn, err := ldapv3.ParseDN(name)
	if err != nil {
		return nil, fmt.Errorf("parsing distinguished name (DN) %q failed with err: %v. A valid DN must contain 'C', 'ST' or 'S', and 'O' RDN attributes at a minimum, and follow RFC 4514 standard", name, err)
	}

	for _, rdn := range dn.RDNs {
		// multi-valued RDNs are not supported (TODO: add spec reference here)
		if len(rdn.Attributes) > 1 {
			return nil, fmt.Errorf("distinguished name (DN) %q has multi-valued RDN attributes, remove multi-valued RDN attributes as they are not supported", name)
		}
		for _, attribute := range rdn.Attributes {
			// stateOrProvince name 'S' is an alias for 'ST'
			if attribute.Type == "S" {
				attribute.Type = "ST"
			}
			if attrKeyValue[attribute.Type] == "" {
				attrKeyValue[attribute.Type] = attribute.Value
			} else {
				return nil, fmt.Errorf("distinguished name (DN) %q has duplicate RDN attribute for %q, DN can only have unique RDN attributes", name, attribute.Type)
			}
		}
	}

	// Verify mandatory fields are present
	mandatoryFields := []string{"C", "ST", "O"}
	for _, field := range mandatoryFields {
		if attrKeyValue[field] == "" {
			return nil, fmt.Errorf("distinguished name (DN) %q has no mandatory RDN attribute for %q, it must contain 'C', 'ST' or 'S', and 'O' RDN attributes at a minimum", name, field)
		}
	}

'''

# shape: list building and matching extracted into two helpers
_HELPERS = '''func verifyX509TrustedIdentities(policyName string, trustedIdentities []string, certs []*x509.Certificate) error {
	if slices.Contains(trustedIdentities, trustpolicyInternal.Wildcard) {
		return nil
	}

	trustedX509Identities, err := parseX509TrustedIdentities(policyName, trustedIdentities)
	if err != nil {
		return err
	}
	if len(trustedX509Identities) == 0 {
		return fmt.Errorf("no x509 trusted identities are configured in the trust policy %q", policyName)
	}

	leafCert := certs[0] // trusted identities only supported on the leaf cert

	// parse the certificate subject following rfc 4514 DN syntax
	leafCertDN, err := pkix.ParseDistinguishedName(leafCert.Subject.String())
	if err != nil {
		return fmt.Errorf("error while parsing the certificate subject from the digital signature. error : %q", err)
	}
	if matchesAnyX509Identity(trustedX509Identities, leafCertDN) {
		return nil
	}

	return fmt.Errorf("signing certificate from the digital signature does not match the X.509 trusted identities %q defined in the trust policy %q", trustedX509Identities, policyName)
}

// parseX509TrustedIdentities returns the parsed distinguished names of all
// x509.subject identities in trustedIdentities, in their original order.
// Identities with any other prefix are skipped.
func parseX509TrustedIdentities(policyName string, trustedIdentities []string) ([]map[string]string, error) {
	var trustedX509Identities []map[string]string
	for _, identity := range trustedIdentities {
		identityPrefix, identityValue, found := strings.Cut(identity, ":")
		if !found {
			return nil, fmt.Errorf("trust policy statement %q has trusted identity %q missing separator", policyName, identity)
		}

		// notation natively supports x509.subject identities only
		if identityPrefix == trustpolicyInternal.X509Subject {
			// identityValue cannot be empty
			if identityValue == "" {
				return nil, fmt.Errorf("trust policy statement %q has trusted identity %q without an identity value", policyName, identity)
			}
			parsedSubject, err := pkix.ParseDistinguishedName(identityValue)
			if err != nil {
				return nil, err
			}
			trustedX509Identities = append(trustedX509Identities, parsedSubject)
		}
	}
	return trustedX509Identities, nil
}

// matchesAnyX509Identity reports whether at least one of the trusted
// identities is a subset of the given certificate subject.
func matchesAnyX509Identity(trustedX509Identities []map[string]string, certDN map[string]string) bool {
	for _, trustedX509Identity := range trustedX509Identities {
		if pkix.IsSubsetDN(trustedX509Identity, certDN) {
			return true
		}
	}
	return false
}

'''

# shape: loop bodies as methods of an unexported list type (pointer receiver appends), list held in a local variable
_METHODS = '''// x509SubjectSet holds the parsed x509.subject trusted identities of a trust
// policy statement, in the order in which the policy lists them.
type x509SubjectSet []map[string]string

// add parses a trusted identity of the form <prefix>:<value> and appends it
// to the set if it is an x509.subject identity. Identities with any other
// prefix are ignored.
func (s *x509SubjectSet) add(policyName, identity string) error {
	prefix, value, found := strings.Cut(identity, ":")
	if !found {
		return fmt.Errorf("trust policy statement %q has trusted identity %q missing separator", policyName, identity)
	}

	// notation natively supports x509.subject identities only
	if prefix == trustpolicyInternal.X509Subject {
		// value cannot be empty
		if value == "" {
			return fmt.Errorf("trust policy statement %q has trusted identity %q without an identity value", policyName, identity)
		}
		dn, err := pkix.ParseDistinguishedName(value)
		if err != nil {
			return err
		}
		*s = append(*s, dn)
	}
	return nil
}

// trusts reports whether at least one identity of the set is a subset of the
// given certificate subject.
func (s x509SubjectSet) trusts(subjectDN map[string]string) bool {
	for _, dn := range s {
		if pkix.IsSubsetDN(dn, subjectDN) {
			return true
		}
	}
	return false
}

// verifyX509TrustedIdentities verifies that the subject of the signing
// certificate matches at least one of the x509.subject trusted identities of
// the trust policy statement.
func verifyX509TrustedIdentities(policyName string, trustedIdentities []string, certs []*x509.Certificate) error {
	if slices.Contains(trustedIdentities, trustpolicyInternal.Wildcard) {
		return nil
	}

	var pinned x509SubjectSet
	for _, identity := range trustedIdentities {
		if err := pinned.add(policyName, identity); err != nil {
			return err
		}
	}
	if len(pinned) == 0 {
		return fmt.Errorf("no x509 trusted identities are configured in the trust policy %q", policyName)
	}

	signingCert := certs[0] // trusted identities only supported on the leaf cert

	// parse the certificate subject following rfc 4514 DN syntax
	signingCertDN, err := pkix.ParseDistinguishedName(signingCert.Subject.String())
	if err != nil {
		return fmt.Errorf("error while parsing the certificate subject from the digital signature. error : %q", err)
	}
	if pinned.trusts(signingCertDN) {
		return nil
	}

	return fmt.Errorf("signing certificate from the digital signature does not match the X.509 trusted identities %q defined in the trust policy %q", []map[string]string(pinned), policyName)
}

'''

# shape: strings.Contains + strings.CutPrefix instead of strings.Cut + comparison, list pre-sized with make(T, 0, n)
_CUTPREFIX = '''// x509SubjectIdentityPrefix is the identity prefix of an x509.subject trusted
// identity including the separator.
const x509SubjectIdentityPrefix = trustpolicyInternal.X509Subject + ":"

func verifyX509TrustedIdentities(policyName string, trustedIdentities []string, certs []*x509.Certificate) error {
	if slices.Contains(trustedIdentities, trustpolicyInternal.Wildcard) {
		return nil
	}

	trustedX509Identities := make([]map[string]string, 0, len(trustedIdentities))
	for _, identity := range trustedIdentities {
		if !strings.Contains(identity, ":") {
			return fmt.Errorf("trust policy statement %q has trusted identity %q missing separator", policyName, identity)
		}

		// notation natively supports x509.subject identities only
		if identityValue, ok := strings.CutPrefix(identity, x509SubjectIdentityPrefix); ok {
			// identityValue cannot be empty
			if identityValue == "" {
				return fmt.Errorf("trust policy statement %q has trusted identity %q without an identity value", policyName, identity)
			}
			parsedSubject, err := pkix.ParseDistinguishedName(identityValue)
			if err != nil {
				return err
			}
			trustedX509Identities = append(trustedX509Identities, parsedSubject)
		}
	}

	if len(trustedX509Identities) == 0 {
		return fmt.Errorf("no x509 trusted identities are configured in the trust policy %q", policyName)
	}

	leafCert := certs[0] // trusted identities only supported on the leaf cert

	// parse the certificate subject following rfc 4514 DN syntax
	leafCertDN, err := pkix.ParseDistinguishedName(leafCert.Subject.String())
	if err != nil {
		return fmt.Errorf("error while parsing the certificate subject from the digital signature. error : %q", err)
	}
	for _, trustedX509Identity := range trustedX509Identities {
		if pkix.IsSubsetDN(trustedX509Identity, leafCertDN) {
			return nil
		}
	}

	return fmt.Errorf("signing certificate from the digital signature does not match the X.509 trusted identities %q defined in the trust policy %q", trustedX509Identities, policyName)
}

'''

# shape: `continue` guard, index loop with a matched flag
_FLAG = '''func verifyX509TrustedIdentities(policyName string, trustedIdentities []string, certs []*x509.Certificate) error {
	if slices.Contains(trustedIdentities, trustpolicyInternal.Wildcard) {
		return nil
	}

	var trustedX509Identities []map[string]string
	for _, identity := range trustedIdentities {
		identityPrefix, identityValue, found := strings.Cut(identity, ":")
		if !found {
			return fmt.Errorf("trust policy statement %q has trusted identity %q missing separator", policyName, identity)
		}

		// notation natively supports x509.subject identities only
		if identityPrefix != trustpolicyInternal.X509Subject {
			continue
		}
		// identityValue cannot be empty
		if identityValue == "" {
			return fmt.Errorf("trust policy statement %q has trusted identity %q without an identity value", policyName, identity)
		}
		parsedSubject, err := pkix.ParseDistinguishedName(identityValue)
		if err != nil {
			return err
		}
		trustedX509Identities = append(trustedX509Identities, parsedSubject)
	}

	if len(trustedX509Identities) == 0 {
		return fmt.Errorf("no x509 trusted identities are configured in the trust policy %q", policyName)
	}

	leafCert := certs[0] // trusted identities only supported on the leaf cert

	// parse the certificate subject following rfc 4514 DN syntax
	leafCertDN, err := pkix.ParseDistinguishedName(leafCert.Subject.String())
	if err != nil {
		return fmt.Errorf("error while parsing the certificate subject from the digital signature. error : %q", err)
	}

	matched := false
	for i := 0; i < len(trustedX509Identities) && !matched; i++ {
		matched = pkix.IsSubsetDN(trustedX509Identities[i], leafCertDN)
	}
	if !matched {
		return fmt.Errorf("signing certificate from the digital signature does not match the X.509 trusted identities %q defined in the trust policy %q", trustedX509Identities, policyName)
	}
	return nil
}

'''

# shape (parser): map made after ParseDN, alias on a local copy of the type, duplicate test as a guard clause, mandatory list as an array literal
_PARSER2 = '''	dn, err := ldapv3.ParseDN(name)
	if err != nil {
		return nil, fmt.Errorf("parsing distinguished name (DN) %q failed with err: %v. A valid DN must contain 'C', 'ST' or 'S', and 'O' RDN attributes at a minimum, and follow RFC 4514 standard", name, err)
	}

	attrKeyValue := make(map[string]string)
	for _, rdn := range dn.RDNs {
		// multi-valued RDNs are not supported (TODO: add spec reference here)
		if len(rdn.Attributes) > 1 {
			return nil, fmt.Errorf("distinguished name (DN) %q has multi-valued RDN attributes, remove multi-valued RDN attributes as they are not supported", name)
		}
		for _, attribute := range rdn.Attributes {
			attrType := attribute.Type
			// stateOrProvince name 'S' is an alias for 'ST'
			if attrType == "S" {
				attrType = "ST"
			}
			if attrKeyValue[attrType] != "" {
				return nil, fmt.Errorf("distinguished name (DN) %q has duplicate RDN attribute for %q, DN can only have unique RDN attributes", name, attrType)
			}
			attrKeyValue[attrType] = attribute.Value
		}
	}

	// Verify mandatory fields are present
	for _, field := range [...]string{"C", "ST", "O"} {
		if attrKeyValue[field] == "" {
			return nil, fmt.Errorf("distinguished name (DN) %q has no mandatory RDN attribute for %q, it must contain 'C', 'ST' or 'S', and 'O' RDN attributes at a minimum", name, field)
		}
	}

'''

_LEAFHELPER = _sub(_sub(_VFN,
    '\tleafCert := certs[0] // trusted identities only supported on the leaf cert\n\n', ''),
    'leafCertDN, err := pkix.ParseDistinguishedName(leafCert.Subject.String())', 'leafCertDN, err := signingSubjectDN(certs)') + '''
// signingSubjectDN parses the subject of the signing certificate of a chain.
func signingSubjectDN(certs []*x509.Certificate) (map[string]string, error) {
	return pkix.ParseDistinguishedName(certs[0].Subject.String())
}

'''

VARIANTS += [
 # -- helpers in the verifier's call tree
 dict(name='benign-helpers-extracted', file=V, expect='silent', find=_VFN, replace=_HELPERS),
 dict(name='helpers-args-swapped', file=V, expect='flagged(verifier/second-arg-leaf-subject)', find=_VFN,
      replace=_sub(_HELPERS, 'pkix.IsSubsetDN(trustedX509Identity, certDN)', 'pkix.IsSubsetDN(certDN, trustedX509Identity)')),
 dict(name='helpers-unparsable-skipped', file=V, expect='flagged(verifier/identity-parse-error)', find=_VFN,
      replace=_sub(_HELPERS, '\t\t\tif err != nil {\n\t\t\t\treturn nil, err\n\t\t\t}', '\t\t\tif err != nil {\n\t\t\t\tcontinue\n\t\t\t}')),
 dict(name='helpers-issuer-subject', file=V, expect='flagged(verifier/second-arg-leaf-subject)', find=_VFN,
      replace=_sub(_HELPERS, 'pkix.ParseDistinguishedName(leafCert.Subject.String())', 'pkix.ParseDistinguishedName(leafCert.Issuer.String())')),
 dict(name='helpers-match-on-empty-list', file=V, expect='flagged(verifier/success-exits)', find=_VFN,
      replace=_sub(_HELPERS, '\tfor _, trustedX509Identity := range trustedX509Identities {\n\t\tif pkix.IsSubsetDN(trustedX509Identity, certDN) {',
                   '\tif len(certDN) == 0 {\n\t\treturn true\n\t}\n\tfor _, trustedX509Identity := range trustedX509Identities {\n\t\tif pkix.IsSubsetDN(trustedX509Identity, certDN) {')),
 dict(name='helpers-separator-unchecked', file=V, expect='flagged(verifier/missing-separator)', find=_VFN,
      replace=_sub(_HELPERS, '\t\tif !found {\n\t\t\treturn nil, fmt.Errorf("trust policy statement %q has trusted identity %q missing separator", policyName, identity)\n\t\t}',
                   '\t\tif !found {\n\t\t\tcontinue\n\t\t}')),
 dict(name='helpers-second-caller-passes-intermediate', file=V, expect='flagged(verifier/)', find=_VFN,
      replace=_sub(_HELPERS, '\tif matchesAnyX509Identity(trustedX509Identities, leafCertDN) {\n\t\treturn nil\n\t}\n',
                   '\tif matchesAnyX509Identity(trustedX509Identities, leafCertDN) {\n\t\treturn nil\n\t}\n\tif len(certs) > 1 {\n\t\tif dn, err := pkix.ParseDistinguishedName(certs[1].Subject.String()); err == nil && matchesAnyX509Identity(trustedX509Identities, dn) {\n\t\t\treturn nil\n\t\t}\n\t}\n')),
 # -- the chain handed to a helper
 dict(name='benign-leaf-subject-helper', file=V, expect='silent', find=_VFN, replace=_LEAFHELPER),
 dict(name='leaf-helper-reads-last-cert', file=V, expect='flagged(verifier/leaf-only)', find=_VFN,
      replace=_sub(_LEAFHELPER, 'certs[0].Subject.String()', 'certs[len(certs)-1].Subject.String()')),
 dict(name='leaf-helper-reads-issuer', file=V, expect='flagged(verifier/second-arg-leaf-subject)', find=_VFN,
      replace=_sub(_LEAFHELPER, 'certs[0].Subject.String()', 'certs[0].Issuer.String()')),
 # -- methods of a list type, list variable filled in through a pointer
 dict(name='benign-methods-pointer-receiver', file=V, expect='silent', find=_VFN, replace=_METHODS),
 dict(name='methods-any-kind-appended', file=V, expect='flagged(verifier/first-arg-identity)', find=_VFN,
      replace=_sub(_METHODS, '\tif prefix == trustpolicyInternal.X509Subject {', '\tif prefix != "" {')),
 dict(name='methods-foreign-element', file=V, expect='flagged(verifier/first-arg-identity)', find=_VFN,
      replace=_sub(_METHODS, '\tif pinned.trusts(signingCertDN) {', '\tif issuerDN, err := pkix.ParseDistinguishedName(signingCert.Issuer.String()); err == nil {\n\t\tpinned = append(pinned, issuerDN)\n\t}\n\tif pinned.trusts(signingCertDN) {')),
 dict(name='methods-nil-elements', file=V, expect='flagged(verifier/first-arg-identity)', find=_VFN,
      replace=_sub(_METHODS, '\tvar pinned x509SubjectSet\n', '\tpinned := make(x509SubjectSet, len(trustedIdentities))\n')),
 dict(name='methods-parse-error-appended', file=V, expect='flagged(verifier/identity-parse-error)', find=_VFN,
      replace=_sub(_METHODS, '\t\tdn, err := pkix.ParseDistinguishedName(value)\n\t\tif err != nil {\n\t\t\treturn err\n\t\t}\n', '\t\tdn, _ := pkix.ParseDistinguishedName(value)\n')),
 dict(name='methods-empty-value-ignored', file=V, expect='flagged(verifier/empty-value)', find=_VFN,
      replace=_sub(_METHODS, '\t\tif value == "" {\n\t\t\treturn fmt.Errorf("trust policy statement %q has trusted identity %q without an identity value", policyName, identity)\n\t\t}', '\t\tif value == "" {\n\t\t\treturn nil\n\t\t}')),
 dict(name='methods-add-error-ignored', file=V, expect='flagged(verifier/)', find=_VFN,
      replace=_sub(_METHODS, '\t\tif err := pinned.add(policyName, identity); err != nil {\n\t\t\treturn err\n\t\t}', '\t\tpinned.add(policyName, identity)')),
 dict(name='methods-trusts-reversed', file=V, expect='flagged(verifier/)', find=_VFN,
      replace=_sub(_METHODS, 'pkix.IsSubsetDN(dn, subjectDN)', 'pkix.IsSubsetDN(subjectDN, dn)')),
 # -- Contains + CutPrefix, pre-sized list
 dict(name='benign-contains-cutprefix-presized', file=V, expect='silent', find=_VFN, replace=_CUTPREFIX),
 dict(name='cutprefix-kind-not-tested', file=V, expect='flagged(verifier/first-arg-identity)', find=_VFN,
      replace=_sub(_CUTPREFIX, '\t\tif identityValue, ok := strings.CutPrefix(identity, x509SubjectIdentityPrefix); ok {', '\t\tif identityValue, ok := strings.CutPrefix(identity, x509SubjectIdentityPrefix); ok || identityValue != "" {')),
 dict(name='cutprefix-separator-unchecked', file=V, expect='flagged(verifier/missing-separator)', find=_VFN,
      replace=_sub(_CUTPREFIX, '\t\tif !strings.Contains(identity, ":") {\n\t\t\treturn fmt.Errorf("trust policy statement %q has trusted identity %q missing separator", policyName, identity)\n\t\t}\n', '')),
 dict(name='cutprefix-without-colon', file=V, expect='flagged(verifier/)', find=_VFN,
      replace=_sub(_CUTPREFIX, 'const x509SubjectIdentityPrefix = trustpolicyInternal.X509Subject + ":"', 'const x509SubjectIdentityPrefix = trustpolicyInternal.X509Subject')),
 dict(name='cutprefix-empty-value-skipped', file=V, expect='flagged(verifier/empty-value)', find=_VFN,
      replace=_sub(_CUTPREFIX, '\t\t\tif identityValue == "" {\n\t\t\t\treturn fmt.Errorf("trust policy statement %q has trusted identity %q without an identity value", policyName, identity)\n\t\t\t}', '\t\t\tif identityValue == "" {\n\t\t\t\tcontinue\n\t\t\t}')),
 dict(name='cutprefix-hasprefix-fold', file=V, expect='flagged(verifier/)', find=_VFN,
      replace=_sub(_CUTPREFIX, 'strings.CutPrefix(identity, x509SubjectIdentityPrefix)', 'strings.CutPrefix(strings.ToLower(identity), x509SubjectIdentityPrefix)')),
 dict(name='presized-with-length', file=V, expect='flagged(verifier/first-arg-identity)', find=_VFN,
      replace=_sub(_CUTPREFIX, 'make([]map[string]string, 0, len(trustedIdentities))', 'make([]map[string]string, len(trustedIdentities))')),
 # -- continue guard, matched flag
 dict(name='benign-continue-guard-matched-flag', file=V, expect='silent', find=_VFN, replace=_FLAG),
 dict(name='flag-initially-true', file=V, expect='flagged(verifier/success-exits)', find=_VFN,
      replace=_sub(_FLAG, '\tmatched := false\n', '\tmatched := len(trustedX509Identities) > 1\n')),
 dict(name='flag-continue-on-parse-error', file=V, expect='flagged(verifier/identity-parse-error)', find=_VFN,
      replace=_sub(_FLAG, '\t\tif err != nil {\n\t\t\treturn err\n\t\t}\n\t\ttrustedX509Identities = append', '\t\tif err != nil {\n\t\t\tcontinue\n\t\t}\n\t\ttrustedX509Identities = append')),
 # -- parser: alias on a local copy, guard clause, array literal
 dict(name='benign-parser-local-alias-array-literal', file=P, expect='silent', find=_PARSER, replace=_PARSER2),
 dict(name='local-alias-wrong-guard', file=P, expect='flagged(parser/alias-S-ST)', find=_PARSER,
      replace=_sub(_PARSER2, '\t\t\tif attrType == "S" {', '\t\t\tif attrType == "s" {')),
 dict(name='local-alias-dropped', file=P, expect='flagged(parser/alias-S-ST)', find=_PARSER,
      replace=_sub(_PARSER2, '\t\t\tif attrType == "S" {\n\t\t\t\tattrType = "ST"\n\t\t\t}\n', '')),
 dict(name='local-alias-inverted', file=P, expect='flagged(parser/alias-S-ST)', find=_PARSER,
      replace=_sub(_PARSER2, '\t\t\tif attrType == "S" {', '\t\t\tif attrType != "S" {')),
 dict(name='local-alias-trimmed-type', file=P, expect='flagged(parser/stores-type-value)', find=_PARSER,
      replace=_sub(_PARSER2, '\t\t\tattrType := attribute.Type\n', '\t\t\tattrType := strings.TrimSpace(attribute.Type)\n')),
 dict(name='local-alias-folded-type', file=P, expect='flagged(parser/stores-type-value)', find=_PARSER,
      replace=_sub(_PARSER2, '\t\t\tattrType := attribute.Type\n', '\t\t\tattrType := strings.ToUpper(attribute.Type)\n')),
 dict(name='local-alias-other-attribute-value', file=P, expect='flagged(parser/stores-type-value)', find=_PARSER,
      replace=_sub(_PARSER2, '\t\t\tattrKeyValue[attrType] = attribute.Value\n', '\t\t\tattrKeyValue[attrType] = rdn.Attributes[0].Type\n')),
 dict(name='guard-clause-duplicate-dropped', file=P, expect='flagged(parser/duplicate)', find=_PARSER,
      replace=_sub(_PARSER2, '\t\t\tif attrKeyValue[attrType] != "" {', '\t\t\tif attrKeyValue[attrType] != "" && false {')),
 dict(name='array-literal-O-dropped', file=P, expect='flagged(parser/mandatory)', find=_PARSER,
      replace=_sub(_PARSER2, '[...]string{"C", "ST", "O"}', '[...]string{"C", "ST"}')),
 dict(name='array-literal-fixed-key', file=P, expect='flagged(parser/mandatory)', find=_PARSER,
      replace=_sub(_PARSER2, '\t\tif attrKeyValue[field] == "" {', '\t\tif attrKeyValue["C"] == "" {')),
 dict(name='array-literal-loop-breaks', file=P, expect='flagged(parser/mandatory)', find=_PARSER,
      replace=_sub(_PARSER2, '\t\tif attrKeyValue[field] == "" {', '\t\tif field == "O" {\n\t\t\tbreak\n\t\t}\n\t\tif attrKeyValue[field] == "" {')),
]

_SPLIT = _sub(_VFN, 'identityPrefix, identityValue, found := strings.Cut(identity, ":")', 'identityPrefix, identityValue, found := splitTrustedIdentity(identity)') + '''
// splitTrustedIdentity splits a trusted identity into its kind and its value.
func splitTrustedIdentity(identity string) (kind string, value string, ok bool) {
	return strings.Cut(identity, ":")
}

'''

VARIANTS += [
 # -- the split handed through a helper that returns (kind, value, ok); switch on the kind
 dict(name='benign-split-helper', file=V, expect='silent', find=_VFN, replace=_SPLIT),
 dict(name='split-helper-always-ok', file=V, expect='flagged(verifier/missing-separator)', find=_VFN,
      replace=_sub(_SPLIT, '\treturn strings.Cut(identity, ":")\n', '\tkind, value, _ = strings.Cut(identity, ":")\n\treturn kind, value, true\n')),
 dict(name='split-helper-last-colon', file=V, expect='flagged(verifier/)', find=_VFN,
      replace=_sub(_SPLIT, '\treturn strings.Cut(identity, ":")\n', '\ti := strings.LastIndex(identity, ":")\n\tif i < 0 {\n\t\treturn identity, "", false\n\t}\n\treturn identity[:i], identity[i+1:], true\n')),
 dict(name='benign-switch-on-kind', file=V, expect='silent',
      find='\t\tif identityPrefix == trustpolicyInternal.X509Subject {\n', replace='\t\tswitch identityPrefix {\n\t\tcase trustpolicyInternal.X509Subject:\n'),
 # -- loops of the parser left before their end
 dict(name='rdn-loop-stops-after-mandatory', file=P, expect='flagged(parser/every-attribute-read)',
      find='\t\tfor _, attribute := range rdn.Attributes {\n', replace='\t\tif len(attrKeyValue) >= 3 {\n\t\t\tbreak\n\t\t}\n\t\tfor _, attribute := range rdn.Attributes {\n'),
 dict(name='mandatory-loop-breaks', file=P, expect='flagged(parser/mandatory)',
      find='\t\tif attrKeyValue[field] == "" {\n', replace='\t\tif field == "O" {\n\t\t\tbreak\n\t\t}\n\t\tif attrKeyValue[field] == "" {\n'),
]

# ---- third pass: the mandatory attribute types, by class. Where the list of constants is written down (local literal,
# ---- package-level array / slice, a function that returns it, what a caller passes), how it is walked (range, index loop,
# ---- one test per type) and at which call boundary the test sits (inline, helper returning error / (field, ok)).
_DOC = '// ParseDistinguishedName parses a DN name and validates Notary Project rules\n'
_MAND = '''	mandatoryFields := []string{"C", "ST", "O"}
	for _, field := range mandatoryFields {
		if attrKeyValue[field] == "" {
			return nil, fmt.Errorf("distinguished name (DN) %q has no mandatory RDN attribute for %q, it must contain 'C', 'ST' or 'S', and 'O' RDN attributes at a minimum", name, field)
		}
	}
'''
_MANDERR = '''fmt.Errorf("distinguished name (DN) %q has no mandatory RDN attribute for %q, it must contain 'C', 'ST' or 'S', and 'O' RDN attributes at a minimum", name, field)'''
_MAND_GLOBAL = _sub(_sub(_MAND, '\tmandatoryFields := []string{"C", "ST", "O"}\n', ''), 'range mandatoryFields {', 'range mandatoryRDNAttributes {')

def _global(decl, extra=''):
    return [(P, _DOC, decl + '\n' + extra + '\n' + _DOC), (P, _MAND, _MAND_GLOBAL)]

_UNROLLED = '''	if attrKeyValue["C"] == "" {
		return nil, ''' + _MANDERR.replace('name, field)', 'name, "C")') + '''
	}
	if attrKeyValue["ST"] == "" {
		return nil, ''' + _MANDERR.replace('name, field)', 'name, "ST")') + '''
	}
	if attrKeyValue["O"] == "" {
		return nil, ''' + _MANDERR.replace('name, field)', 'name, "O")') + '''
	}
'''
_HELPER_CALL = '''	if err := requireMandatoryRDNs(name, attrKeyValue); err != nil {
		return nil, err
	}
'''
_HELPER_FN = '''// requireMandatoryRDNs fails when one of the mandatory attribute types has no value.
func requireMandatoryRDNs(name string, attrs map[string]string) error {
	for _, field := range []string{"C", "ST", "O"} {
		if attrs[field] == "" {
			return ''' + _MANDERR + '''
		}
	}
	return nil
}

'''
_TUPLE_CALL = '''	if field, ok := firstMissingRDN(attrKeyValue, "C", "ST", "O"); !ok {
		return nil, ''' + _MANDERR + '''
	}
'''
_TUPLE_FN = '''// firstMissingRDN returns the first of the attribute types that has no value.
func firstMissingRDN(attrs map[string]string, attrTypes ...string) (string, bool) {
	for _, t := range attrTypes {
		if attrs[t] == "" {
			return t, false
		}
	}
	return "", true
}

'''
_LISTFN = '''// mandatoryRDNAttributes lists the attribute types every DN must carry.
func mandatoryRDNAttributes() []string {
	return []string{"C", "ST", "O"}
}

'''
_INDEXLOOP = _sub(_MAND, '\tfor _, field := range mandatoryFields {\n', '\tfor i := 0; i < len(mandatoryFields); i++ {\n\t\tfield := mandatoryFields[i]\n')

VARIANTS += [
 # -- list hoisted to a package-level array / slice
 dict(name='benign-mandatory-package-array', expect='silent', edits=_global('var mandatoryRDNAttributes = [...]string{"C", "ST", "O"}')),
 dict(name='package-array-O-dropped', expect='flagged(parser/mandatory)', edits=_global('var mandatoryRDNAttributes = [...]string{"C", "ST"}')),
 dict(name='package-array-element-overwritten', expect='flagged(parser/mandatory)',
      edits=_global('var mandatoryRDNAttributes = [...]string{"C", "ST", "O"}', '\nfunc init() {\n\tmandatoryRDNAttributes[2] = "C"\n}\n')),
 dict(name='package-array-reassigned-by-setter', expect='flagged(parser/mandatory)',
      edits=_global('var mandatoryRDNAttributes = [...]string{"C", "ST", "O"}', '\n// Relax drops the mandatory attribute types.\nfunc Relax() {\n\tmandatoryRDNAttributes = [3]string{"C", "C", "C"}\n}\n')),
 dict(name='benign-mandatory-package-slice', expect='silent', edits=_global('var mandatoryRDNAttributes = []string{"C", "ST", "O"}')),
 dict(name='package-slice-truncated-in-init', expect='flagged(parser/mandatory)',
      edits=_global('var mandatoryRDNAttributes = []string{"C", "ST", "O"}', '\nfunc init() {\n\tmandatoryRDNAttributes = mandatoryRDNAttributes[:2]\n}\n')),
 dict(name='package-slice-element-overwritten', expect='flagged(parser/mandatory)',
      edits=_global('var mandatoryRDNAttributes = []string{"C", "ST", "O"}', '\n// Relax drops a mandatory attribute type.\nfunc Relax() {\n\tmandatoryRDNAttributes[1] = "C"\n}\n')),
 dict(name='benign-mandatory-package-array-exported-internal', expect='silent',
      edits=[(P, _DOC, '// MandatoryRDNAttributes lists the attribute types every DN must carry.\nvar MandatoryRDNAttributes = [...]string{"C", "ST", "O"}\n\n' + _DOC),
             (P, _MAND, _sub(_MAND_GLOBAL, 'mandatoryRDNAttributes', 'MandatoryRDNAttributes'))]),
 # -- list returned by a function
 dict(name='benign-mandatory-list-function', expect='silent',
      edits=[(P, _DOC, _LISTFN + _DOC), (P, _MAND, _sub(_MAND_GLOBAL, 'range mandatoryRDNAttributes {', 'range mandatoryRDNAttributes() {'))]),
 dict(name='list-function-O-dropped', expect='flagged(parser/mandatory)',
      edits=[(P, _DOC, _sub(_LISTFN, '"C", "ST", "O"', '"C", "ST"') + _DOC), (P, _MAND, _sub(_MAND_GLOBAL, 'range mandatoryRDNAttributes {', 'range mandatoryRDNAttributes() {'))]),
 # -- index loop over the list
 dict(name='benign-mandatory-index-loop', file=P, expect='silent', find=_MAND, replace=_INDEXLOOP),
 dict(name='index-loop-skips-first', file=P, expect='flagged(parser/mandatory)', find=_MAND, replace=_sub(_INDEXLOOP, 'i := 0;', 'i := 1;')),
 dict(name='index-loop-step-two', file=P, expect='flagged(parser/mandatory)', find=_MAND, replace=_sub(_INDEXLOOP, 'i++ {', 'i += 2 {')),
 # -- one test per type instead of a loop
 dict(name='benign-mandatory-unrolled', file=P, expect='silent', find=_MAND, replace=_UNROLLED),
 dict(name='unrolled-O-test-missing', file=P, expect='flagged(parser/mandatory)', find=_MAND,
      replace=_UNROLLED[:_UNROLLED.index('\tif attrKeyValue["O"]')]),
 dict(name='unrolled-tests-S-not-ST', file=P, expect='flagged(parser/mandatory)', find=_MAND,
      replace=_sub(_UNROLLED, 'if attrKeyValue["ST"] == "" {', 'if attrKeyValue["S"] == "" {')),
 dict(name='unrolled-conjunction', file=P, expect='flagged(parser/mandatory)', find=_MAND,
      replace='\tif attrKeyValue["C"] == "" && attrKeyValue["ST"] == "" && attrKeyValue["O"] == "" {\n\t\treturn nil, ' + _MANDERR.replace('name, field)', 'name, "C")') + '\n\t}\n'),
 dict(name='benign-mandatory-unrolled-disjunction', file=P, expect='silent', find=_MAND,
      replace='\tif attrKeyValue["C"] == "" || attrKeyValue["ST"] == "" || attrKeyValue["O"] == "" {\n\t\treturn nil, ' + _MANDERR.replace('name, field)', 'name, "C")') + '\n\t}\n'),
 dict(name='mandatory-value-deleted-after-test', file=P, expect='flagged(parser/mandatory)', find=_MAND,
      replace=_MAND + '\tdelete(attrKeyValue, "O")\n'),
 # -- the test extracted into a helper
 dict(name='benign-mandatory-helper-error', expect='silent', edits=[(P, _DOC, _HELPER_FN + _DOC), (P, _MAND, _HELPER_CALL)]),
 dict(name='mandatory-helper-error-ignored', expect='flagged(parser/mandatory)',
      edits=[(P, _DOC, _HELPER_FN + _DOC), (P, _MAND, '\t_ = requireMandatoryRDNs(name, attrKeyValue)\n')]),
 dict(name='mandatory-helper-ST-dropped', expect='flagged(parser/mandatory)',
      edits=[(P, _DOC, _sub(_HELPER_FN, '"C", "ST", "O"', '"C", "O"') + _DOC), (P, _MAND, _HELPER_CALL)]),
 dict(name='mandatory-helper-early-nil', expect='flagged(parser/mandatory)',
      edits=[(P, _DOC, _sub(_HELPER_FN, ') error {\n', ') error {\n\tif len(attrs) > 3 {\n\t\treturn nil\n\t}\n') + _DOC), (P, _MAND, _HELPER_CALL)]),
 dict(name='mandatory-helper-on-other-map', expect='flagged(parser/mandatory)',
      edits=[(P, _DOC, _HELPER_FN + _DOC), (P, _MAND, _sub(_HELPER_CALL, 'requireMandatoryRDNs(name, attrKeyValue)', 'requireMandatoryRDNs(name, map[string]string{"C": "x", "ST": "x", "O": "x"})'))]),
 dict(name='benign-mandatory-helper-package-array', expect='silent',
      edits=[(P, _DOC, 'var mandatoryRDNAttributes = [...]string{"C", "ST", "O"}\n\n' + _sub(_HELPER_FN, 'range []string{"C", "ST", "O"} {', 'range mandatoryRDNAttributes {') + _DOC), (P, _MAND, _HELPER_CALL)]),
 # -- helper that is handed the list and answers (field, ok)
 dict(name='benign-mandatory-helper-varargs-tuple', expect='silent', edits=[(P, _DOC, _TUPLE_FN + _DOC), (P, _MAND, _TUPLE_CALL)]),
 dict(name='varargs-tuple-O-not-passed', expect='flagged(parser/mandatory)',
      edits=[(P, _DOC, _TUPLE_FN + _DOC), (P, _MAND, _sub(_TUPLE_CALL, '"C", "ST", "O"', '"C", "ST"'))]),
 dict(name='varargs-tuple-answer-inverted', expect='flagged(parser/mandatory)',
      edits=[(P, _DOC, _sub(_TUPLE_FN, 'return t, false', 'return t, true') + _DOC), (P, _MAND, _TUPLE_CALL)]),
 dict(name='varargs-tuple-ok-not-tested', expect='flagged(parser/mandatory)',
      edits=[(P, _DOC, _TUPLE_FN + _DOC), (P, _MAND, _sub(_TUPLE_CALL, '; !ok {', '; !ok && field == "CN" {'))]),
 dict(name='benign-mandatory-helper-slice-of-package-array', expect='silent',
      edits=[(P, _DOC, 'var mandatoryRDNAttributes = [...]string{"C", "ST", "O"}\n\n' + _TUPLE_FN + _DOC), (P, _MAND, _sub(_TUPLE_CALL, '"C", "ST", "O")', 'mandatoryRDNAttributes[:]...)'))]),
]

# ---- third pass: the attribute part of the parser cut into helpers at different boundaries (alias function, collector that
# ---- makes and returns the map, helper per RDN, helper per attribute handed the attribute or its two strings)
_DUPERR = 'fmt.Errorf("distinguished name (DN) %q has duplicate RDN attribute for %q, DN can only have unique RDN attributes", name, attribute.Type)'
_MULTIERR = 'fmt.Errorf("distinguished name (DN) %q has multi-valued RDN attributes, remove multi-valued RDN attributes as they are not supported", name)'
_ATTRBODY = '''			// stateOrProvince name 'S' is an alias for 'ST'
			if attribute.Type == "S" {
				attribute.Type = "ST"
			}
			if attrKeyValue[attribute.Type] == "" {
				attrKeyValue[attribute.Type] = attribute.Value
			} else {
				return nil, ''' + _DUPERR + '''
			}
'''
_RDNLOOP = '''	for _, rdn := range dn.RDNs {
		// multi-valued RDNs are not supported (TODO: add spec reference here)
		if len(rdn.Attributes) > 1 {
			return nil, ''' + _MULTIERR + '''
		}
		for _, attribute := range rdn.Attributes {
''' + _ATTRBODY + '''		}
	}
'''
# alias function
_CANON_BODY = '''			attrType := canonicalAttributeType(attribute.Type)
			if attrKeyValue[attrType] != "" {
				return nil, ''' + _DUPERR.replace('attribute.Type)', 'attrType)') + '''
			}
			attrKeyValue[attrType] = attribute.Value
'''
_CANON_FN = '''// canonicalAttributeType maps the alias S of stateOrProvince to ST.
func canonicalAttributeType(attrType string) string {
	if attrType == "S" {
		return "ST"
	}
	return attrType
}

'''
_CANON_FN_SWITCH = '''// canonicalAttributeType maps the alias S of stateOrProvince to ST.
func canonicalAttributeType(attrType string) string {
	switch attrType {
	case "S":
		attrType = "ST"
	}
	return attrType
}

'''
# collector
_COLLECT_CALL = '''	attrKeyValue, err := collectRDNAttributes(name, dn)
	if err != nil {
		return nil, err
	}
'''
_COLLECT_FN = '''// collectRDNAttributes gathers the attributes of the single-valued RDNs of dn.
func collectRDNAttributes(name string, dn *ldapv3.DN) (map[string]string, error) {
	attrKeyValue := make(map[string]string, len(dn.RDNs))
''' + _RDNLOOP + '''	return attrKeyValue, nil
}

'''
# per RDN
_PERRDN_LOOP = '''	for _, rdn := range dn.RDNs {
		if err := addRDN(attrKeyValue, name, rdn); err != nil {
			return nil, err
		}
	}
'''
_PERRDN_FN = '''// addRDN stores the attribute of a single-valued RDN.
func addRDN(attrKeyValue map[string]string, name string, rdn *ldapv3.RelativeDN) error {
	// multi-valued RDNs are not supported (TODO: add spec reference here)
	if len(rdn.Attributes) > 1 {
		return ''' + _MULTIERR + '''
	}
	for _, attribute := range rdn.Attributes {
''' + _ATTRBODY.replace('\t\t\t', '\t\t').replace('return nil, fmt', 'return fmt') + '''	}
	return nil
}

'''
# per attribute
_PERATTR_BODY = '''			if err := addAttribute(attrKeyValue, name, attribute); err != nil {
				return nil, err
			}
'''
_PERATTR_FN = '''// addAttribute stores one attribute under its canonical type.
func addAttribute(attrKeyValue map[string]string, name string, attribute *ldapv3.AttributeTypeAndValue) error {
''' + _ATTRBODY.replace('\t\t\t', '\t').replace('return nil, fmt', 'return fmt') + '''	return nil
}

'''
_PERATTR2_BODY = '''			if err := setAttribute(attrKeyValue, name, attribute.Type, attribute.Value); err != nil {
				return nil, err
			}
'''
_PERATTR2_FN = '''// setAttribute stores one attribute value under its canonical type.
func setAttribute(attrs map[string]string, name, attrType, value string) error {
	if attrType == "S" {
		attrType = "ST"
	}
	if attrs[attrType] != "" {
		return ''' + _DUPERR.replace('attribute.Type)', 'attrType)') + '''
	}
	attrs[attrType] = value
	return nil
}

'''
_MKMAP = '\tattrKeyValue := make(map[string]string)\n'

def _collector(fn, call=None):
    # body edits first: the helper text contains the loop text that is cut out of the parser
    return [(P, _MKMAP, ''), (P, _RDNLOOP, call or _COLLECT_CALL), (P, _DOC, fn + _DOC)]

def _cut(fn, body_old, body_new, *subs):
    new = body_new
    for a, b in subs:
        new = _sub(new, a, b)
    return [(P, _DOC, fn + _DOC), (P, body_old, new)]

VARIANTS += [
 # -- alias function
 dict(name='benign-alias-function', expect='silent', edits=_cut(_CANON_FN, _ATTRBODY, _CANON_BODY)),
 dict(name='benign-alias-function-switch', expect='silent', edits=_cut(_CANON_FN_SWITCH, _ATTRBODY, _CANON_BODY)),
 dict(name='alias-function-identity', expect='flagged(parser/alias-S-ST)',
      edits=_cut(_sub(_CANON_FN, '\tif attrType == "S" {\n\t\treturn "ST"\n\t}\n', ''), _ATTRBODY, _CANON_BODY)),
 dict(name='alias-function-wrong-case', expect='flagged(parser/alias-S-ST)',
      edits=_cut(_sub(_CANON_FN, 'if attrType == "S" {', 'if attrType == "s" {'), _ATTRBODY, _CANON_BODY)),
 dict(name='alias-function-inverted', expect='flagged(parser/alias-S-ST)',
      edits=_cut(_sub(_CANON_FN, 'if attrType == "S" {', 'if attrType != "S" {'), _ATTRBODY, _CANON_BODY)),
 dict(name='alias-function-folds-case', expect='flagged(parser/)',
      edits=_cut(_sub(_CANON_FN, '\treturn attrType\n', '\treturn strings.ToUpper(attrType)\n'), _ATTRBODY, _CANON_BODY)),
 dict(name='alias-function-on-value', expect='flagged(parser/stores-type-value)',
      edits=_cut(_CANON_FN, _ATTRBODY, _CANON_BODY, ('canonicalAttributeType(attribute.Type)', 'canonicalAttributeType(attribute.Value)'))),
 # -- collector that makes and returns the map
 dict(name='benign-collector-helper', expect='silent', edits=_collector(_COLLECT_FN)),
 dict(name='collector-error-ignored', expect='flagged(parser/)',
      edits=_collector(_sub(_COLLECT_FN, '\t\t\t} else {\n\t\t\t\treturn nil, ' + _DUPERR, '\t\t\t} else {\n\t\t\t\treturn attrKeyValue, ' + _DUPERR),
                       '\tattrKeyValue, _ := collectRDNAttributes(name, dn)\n')),
 dict(name='collector-duplicate-overwrites', expect='flagged(parser/duplicate)',
      edits=_collector(_sub(_COLLECT_FN, '\t\t\tif attrKeyValue[attribute.Type] == "" {\n\t\t\t\tattrKeyValue[attribute.Type] = attribute.Value\n\t\t\t} else {\n\t\t\t\treturn nil, ' + _DUPERR + '\n\t\t\t}\n',
                            '\t\t\tattrKeyValue[attribute.Type] = attribute.Value\n'))),
 dict(name='collector-stops-at-first-rdn', expect='flagged(parser/every-attribute-read)',
      edits=_collector(_sub(_COLLECT_FN, '\t\t\t} else {\n\t\t\t\treturn nil, ' + _DUPERR + '\n\t\t\t}\n\t\t}\n', '\t\t\t} else {\n\t\t\t\treturn nil, ' + _DUPERR + '\n\t\t\t}\n\t\t}\n\t\tif len(attrKeyValue) >= 3 {\n\t\t\tbreak\n\t\t}\n'))),
 dict(name='collector-shared-map', expect='flagged(parser/result-is-fresh-map)',
      edits=_collector('var lastAttributes = map[string]string{}\n\n' + _sub(_COLLECT_FN, '\tattrKeyValue := make(map[string]string, len(dn.RDNs))\n', '\tattrKeyValue := lastAttributes\n'))),
 dict(name='collector-multi-valued-allowed', expect='flagged(parser/multi-valued-rdn)',
      edits=_collector(_sub(_COLLECT_FN, 'if len(rdn.Attributes) > 1 {', 'if len(rdn.Attributes) > 2 {'))),
 # -- helper per RDN
 dict(name='benign-per-rdn-helper', expect='silent', edits=[(P, _DOC, _PERRDN_FN + _DOC), (P, _RDNLOOP, _PERRDN_LOOP)]),
 dict(name='per-rdn-helper-error-ignored', expect='flagged(parser/)',
      edits=[(P, _DOC, _PERRDN_FN + _DOC), (P, _RDNLOOP, '\tfor _, rdn := range dn.RDNs {\n\t\t_ = addRDN(attrKeyValue, name, rdn)\n\t}\n')]),
 dict(name='per-rdn-helper-error-skips-rdn', expect='flagged(parser/)',
      edits=[(P, _DOC, _PERRDN_FN + _DOC), (P, _RDNLOOP, _sub(_PERRDN_LOOP, '\t\t\treturn nil, err\n', '\t\t\tcontinue\n'))]),
 dict(name='per-rdn-helper-multi-valued-allowed', expect='flagged(parser/multi-valued-rdn)',
      edits=[(P, _DOC, _sub(_PERRDN_FN, 'if len(rdn.Attributes) > 1 {', 'if len(rdn.Attributes) > 2 {') + _DOC), (P, _RDNLOOP, _PERRDN_LOOP)]),
 dict(name='per-rdn-helper-first-attribute-only', expect='flagged(parser/)',
      edits=[(P, _DOC, _sub(_PERRDN_FN, '\t}\n\treturn nil\n}', '\t\treturn nil\n\t}\n\treturn nil\n}') + _DOC), (P, _RDNLOOP, _PERRDN_LOOP)]),
 # -- helper per attribute
 dict(name='benign-per-attribute-helper', expect='silent', edits=_cut(_PERATTR_FN, _ATTRBODY, _PERATTR_BODY)),
 dict(name='per-attribute-helper-error-continues', expect='flagged(parser/)',
      edits=_cut(_PERATTR_FN, _ATTRBODY, _PERATTR_BODY, ('\t\t\t\treturn nil, err\n', '\t\t\t\tcontinue\n'))),
 dict(name='per-attribute-helper-alias-dropped', expect='flagged(parser/alias-S-ST)',
      edits=_cut(_sub(_PERATTR_FN, '\tif attribute.Type == "S" {\n\t\tattribute.Type = "ST"\n\t}\n', ''), _ATTRBODY, _PERATTR_BODY)),
 dict(name='per-attribute-helper-duplicate-returns-nil', expect='flagged(parser/duplicate)',
      edits=_cut(_sub(_PERATTR_FN, '\t\treturn ' + _DUPERR, '\t\treturn nil'), _ATTRBODY, _PERATTR_BODY)),
 dict(name='benign-per-attribute-helper-strings', expect='silent', edits=_cut(_PERATTR2_FN, _ATTRBODY, _PERATTR2_BODY)),
 dict(name='per-attribute-helper-strings-swapped', expect='flagged(parser/stores-type-value)',
      edits=_cut(_PERATTR2_FN, _ATTRBODY, _PERATTR2_BODY, ('attribute.Type, attribute.Value)', 'attribute.Value, attribute.Type)'))),
 dict(name='per-attribute-helper-strings-other-map', expect='flagged(parser/)',
      edits=_cut(_PERATTR2_FN, _ATTRBODY, _PERATTR2_BODY, ('setAttribute(attrKeyValue, name,', 'setAttribute(map[string]string{}, name,'))),
 dict(name='per-attribute-helper-strings-no-alias', expect='flagged(parser/alias-S-ST)',
      edits=_cut(_sub(_PERATTR2_FN, '\tif attrType == "S" {\n\t\tattrType = "ST"\n\t}\n', ''), _ATTRBODY, _PERATTR2_BODY)),
 # -- the store that precedes the in-place rewrite
 dict(name='alias-after-store', file=P, expect='flagged(parser/)',
      find=_ATTRBODY, replace='''			if attrKeyValue[attribute.Type] == "" {
				attrKeyValue[attribute.Type] = attribute.Value
			} else {
				return nil, ''' + _DUPERR + '''
			}
			if attribute.Type == "S" {
				attribute.Type = "ST"
			}
'''),
 # -- a second store into the result map outside the attribute loop
 dict(name='second-store-outside-loop', file=P, expect='flagged(parser/)',
      find='\t// Verify mandatory fields are present\n', replace='\tif attrKeyValue["O"] == "" {\n\t\tattrKeyValue["O"] = attrKeyValue["OU"]\n\t}\n\t// Verify mandatory fields are present\n'),
]

# -- worker of the parser's own shape: the exported parser only adds the mandatory test
_WORKER_HEAD = 'func ParseDistinguishedName(name string) (map[string]string, error) {\n'
_WORKER_SPLIT = '\t// Verify mandatory fields are present\n'
_WORKER_NEW = '''	return attrKeyValue, nil
}

// ParseDistinguishedName parses a DN name and validates Notary Project rules
func ParseDistinguishedName(name string) (map[string]string, error) {
	attrKeyValue, err := parseRDNAttributes(name)
	if err != nil {
		return nil, err
	}
	// Verify mandatory fields are present
'''
VARIANTS += [
 dict(name='benign-parser-worker-same-shape', expect='silent',
      edits=[(P, _WORKER_HEAD, 'func parseRDNAttributes(name string) (map[string]string, error) {\n'), (P, _WORKER_SPLIT, _WORKER_NEW)]),
 dict(name='parser-worker-error-dropped', expect='flagged(parser/)',
      edits=[(P, _WORKER_HEAD, 'func parseRDNAttributes(name string) (map[string]string, error) {\n'),
             (P, _WORKER_SPLIT, _sub(_WORKER_NEW, '\tattrKeyValue, err := parseRDNAttributes(name)\n\tif err != nil {\n\t\treturn nil, err\n\t}\n', '\tattrKeyValue, _ := parseRDNAttributes(name)\n\tif attrKeyValue == nil {\n\t\tattrKeyValue = map[string]string{}\n\t}\n'))]),
 dict(name='parser-worker-hex-test-dropped', expect='flagged(parser/no-hex-value)',
      edits=[(P, _WORKER_HEAD, 'func parseRDNAttributes(name string) (map[string]string, error) {\n'), (P, _WORKER_SPLIT, _WORKER_NEW),
             (P, '\tif strings.Contains(name, "=#") {\n', '\tif strings.Contains(name, "=#") && false {\n')]),
]

# ---- fourth pass: the attribute loop, which the multi-valued gate lets run at most once, replaced by the handling of
# ---- rdn.Attributes[0] (first-only form): switch on the length, guard clauses, nesting, helpers at three boundaries
_DUPERR_T = _DUPERR.replace('attribute.Type)', 'attrType)')
_FO_LOCAL = '''		attrType, attrValue := rdn.Attributes[0].Type, rdn.Attributes[0].Value
		// stateOrProvince name 'S' is an alias for 'ST'
		if attrType == "S" {
			attrType = "ST"
		}
		if attrKeyValue[attrType] != "" {
			return nil, ''' + _DUPERR_T + '''
		}
		attrKeyValue[attrType] = attrValue
'''
_FO_SWITCH = '''	for _, rdn := range dn.RDNs {
		switch len(rdn.Attributes) {
		case 0:
			continue
		case 1:
		default:
			return nil, ''' + _MULTIERR + '''
		}
''' + _FO_LOCAL + '''	}
'''
_FO_INPLACE = '''		attribute := rdn.Attributes[0]
''' + _ATTRBODY.replace('\t\t\t', '\t\t')
_FO_NE1 = '''	for _, rdn := range dn.RDNs {
		if len(rdn.Attributes) != 1 {
			return nil, ''' + _MULTIERR + '''
		}
''' + _FO_INPLACE + '''	}
'''
_FO_GUARDS = '''	for _, rdn := range dn.RDNs {
		if len(rdn.Attributes) > 1 {
			return nil, ''' + _MULTIERR + '''
		}
		if len(rdn.Attributes) == 0 {
			continue
		}
		if err := addAttribute(attrKeyValue, name, rdn.Attributes[0]); err != nil {
			return nil, err
		}
	}
'''
_FO_NESTED = '''	for _, rdn := range dn.RDNs {
		attrs := rdn.Attributes
		if len(attrs) > 1 {
			return nil, ''' + _MULTIERR + '''
		}
		if len(attrs) > 0 {
			if err := setAttribute(attrKeyValue, name, attrs[0].Type, attrs[0].Value); err != nil {
				return nil, err
			}
		}
	}
'''
_FO_PERRDN_FN = '''// addRDN stores the attribute of a single-valued RDN.
func addRDN(attrKeyValue map[string]string, name string, rdn *ldapv3.RelativeDN) error {
	switch len(rdn.Attributes) {
	case 0:
		return nil
	case 1:
	default:
		return ''' + _MULTIERR + '''
	}
''' + _FO_LOCAL.replace('\t\t', '\t').replace('return nil, fmt', 'return fmt') + '''	return nil
}

'''
_FO_ATTRS_FN = '''// addSingle stores the only attribute of an RDN.
func addSingle(attrKeyValue map[string]string, name string, attrs []*ldapv3.AttributeTypeAndValue) error {
	if len(attrs) >= 2 {
		return ''' + _MULTIERR + '''
	}
	if len(attrs) < 1 {
		return nil
	}
''' + _FO_LOCAL.replace('\t\t', '\t').replace('return nil, fmt', 'return fmt').replace('rdn.Attributes[0]', 'attrs[0]') + '''	return nil
}

'''
_FO_ATTRS_LOOP = '''	for i := 0; i < len(dn.RDNs); i++ {
		if err := addSingle(attrKeyValue, name, dn.RDNs[i].Attributes); err != nil {
			return nil, err
		}
	}
'''
VARIANTS += [
 dict(name='benign-first-only-switch', file=P, expect='silent', find=_RDNLOOP, replace=_FO_SWITCH),
 dict(name='benign-first-only-switch-map-after-parse', expect='silent',
      edits=[(P, _MKMAP, ''), (P, _RDNLOOP, '\tattrKeyValue := make(map[string]string, len(dn.RDNs))\n' + _FO_SWITCH),
             (P, '\tmandatoryFields := []string{"C", "ST", "O"}\n\tfor _, field := range mandatoryFields {', '\tfor _, field := range [...]string{"C", "ST", "O"} {')]),
 dict(name='benign-first-only-ne1-in-place-alias', file=P, expect='silent', find=_RDNLOOP, replace=_FO_NE1),
 dict(name='benign-first-only-guards-attribute-helper', expect='silent', edits=[(P, _DOC, _PERATTR_FN + _DOC), (P, _RDNLOOP, _FO_GUARDS)]),
 dict(name='benign-first-only-nested-strings-helper', expect='silent', edits=[(P, _DOC, _PERATTR2_FN + _DOC), (P, _RDNLOOP, _FO_NESTED)]),
 dict(name='benign-first-only-per-rdn-helper', expect='silent', edits=[(P, _DOC, _FO_PERRDN_FN + _DOC), (P, _RDNLOOP, _PERRDN_LOOP)]),
 dict(name='benign-first-only-attribute-list-helper', expect='silent', edits=[(P, _DOC, _FO_ATTRS_FN + _DOC), (P, _RDNLOOP, _FO_ATTRS_LOOP)]),
 # the property broken in the new shape
 dict(name='first-only-multi-valued-skipped', file=P, expect='flagged(parser/multi-valued-rdn)', find=_RDNLOOP,
      replace=_sub(_FO_SWITCH, '\t\tdefault:\n\t\t\treturn nil, ' + _MULTIERR + '\n', '\t\tdefault:\n\t\t\tcontinue\n')),
 dict(name='first-only-rest-ignored', file=P, expect='flagged(parser/multi-valued-rdn)', find=_RDNLOOP,
      replace=_sub(_FO_SWITCH, '\t\tswitch len(rdn.Attributes) {\n\t\tcase 0:\n\t\t\tcontinue\n\t\tcase 1:\n\t\tdefault:\n\t\t\treturn nil, ' + _MULTIERR + '\n\t\t}\n', '\t\tif len(rdn.Attributes) == 0 {\n\t\t\tcontinue\n\t\t}\n')),
 dict(name='first-only-ne1-two-allowed', file=P, expect='flagged(parser/multi-valued-rdn)', find=_RDNLOOP,
      replace=_sub(_FO_NE1, 'if len(rdn.Attributes) != 1 {', 'if len(rdn.Attributes) != 1 && len(rdn.Attributes) != 2 {')),
 dict(name='first-only-duplicate-overwrites', file=P, expect='flagged(parser/duplicate)', find=_RDNLOOP,
      replace=_sub(_FO_SWITCH, '\t\tif attrKeyValue[attrType] != "" {\n\t\t\treturn nil, ' + _DUPERR_T + '\n\t\t}\n', '')),
 dict(name='first-only-duplicate-keeps-first', file=P, expect='flagged(parser/)', find=_RDNLOOP,
      replace=_sub(_FO_SWITCH, '\t\t\treturn nil, ' + _DUPERR_T + '\n', '\t\t\tcontinue\n')),
 dict(name='first-only-alias-dropped', file=P, expect='flagged(parser/alias-S-ST)', find=_RDNLOOP,
      replace=_sub(_FO_SWITCH, '\t\tif attrType == "S" {\n\t\t\tattrType = "ST"\n\t\t}\n', '')),
 dict(name='first-only-alias-lowercase', file=P, expect='flagged(parser/alias-S-ST)', find=_RDNLOOP,
      replace=_sub(_FO_SWITCH, 'if attrType == "S" {', 'if attrType == "s" {')),
 dict(name='first-only-type-value-swapped', file=P, expect='flagged(parser/stores-type-value)', find=_RDNLOOP,
      replace=_sub(_FO_SWITCH, 'attrType, attrValue := rdn.Attributes[0].Type, rdn.Attributes[0].Value', 'attrValue, attrType := rdn.Attributes[0].Type, rdn.Attributes[0].Value')),
 dict(name='first-only-stops-after-three', file=P, expect='flagged(parser/every-attribute-read)', find=_RDNLOOP,
      replace=_sub(_FO_SWITCH, '\t\tattrKeyValue[attrType] = attrValue\n', '\t\tattrKeyValue[attrType] = attrValue\n\t\tif len(attrKeyValue) == 3 {\n\t\t\tbreak\n\t\t}\n')),
 dict(name='first-only-some-types-skipped', file=P, expect='flagged(parser/)', find=_RDNLOOP,
      replace=_sub(_FO_SWITCH, '\t\tif attrType == "S" {', '\t\tif attrType == "OU" {\n\t\t\tcontinue\n\t\t}\n\t\tif attrType == "S" {')),
 dict(name='first-only-single-skipped', file=P, expect='flagged(parser/)', find=_RDNLOOP,
      replace=_sub(_FO_NE1, 'if len(rdn.Attributes) != 1 {', 'if len(rdn.Attributes) == 1 {\n\t\t\tcontinue\n\t\t}\n\t\tif len(rdn.Attributes) > 1 {')),
 dict(name='first-only-guards-helper-error-continues', expect='flagged(parser/)',
      edits=[(P, _DOC, _PERATTR_FN + _DOC), (P, _RDNLOOP, _sub(_FO_GUARDS, '\t\t\treturn nil, err\n', '\t\t\tcontinue\n'))]),
 dict(name='first-only-nested-no-multi-gate', expect='flagged(parser/multi-valued-rdn)',
      edits=[(P, _DOC, _PERATTR2_FN + _DOC), (P, _RDNLOOP, _sub(_FO_NESTED, '\t\tif len(attrs) > 1 {\n\t\t\treturn nil, ' + _MULTIERR + '\n\t\t}\n', ''))]),
 dict(name='first-only-per-rdn-helper-multi-valued-ok', expect='flagged(parser/multi-valued-rdn)',
      edits=[(P, _DOC, _sub(_FO_PERRDN_FN, '\tdefault:\n\t\treturn ' + _MULTIERR + '\n', '\tdefault:\n') + _DOC), (P, _RDNLOOP, _PERRDN_LOOP)]),
 dict(name='first-only-per-rdn-helper-error-ignored', expect='flagged(parser/)',
      edits=[(P, _DOC, _FO_PERRDN_FN + _DOC), (P, _RDNLOOP, '\tfor _, rdn := range dn.RDNs {\n\t\t_ = addRDN(attrKeyValue, name, rdn)\n\t}\n')]),
 dict(name='first-only-attribute-list-helper-second-read', expect='flagged(parser/)',
      edits=[(P, _DOC, _sub(_sub(_FO_ATTRS_FN, 'if len(attrs) >= 2 {', 'if len(attrs) >= 3 {'), 'attrs[0].Type, attrs[0].Value', 'attrs[len(attrs)-1].Type, attrs[len(attrs)-1].Value') + _DOC), (P, _RDNLOOP, _FO_ATTRS_LOOP)]),
 dict(name='first-only-attribute-list-helper-other-rdn', expect='flagged(parser/)',
      edits=[(P, _DOC, _FO_ATTRS_FN + _DOC), (P, _RDNLOOP, _sub(_FO_ATTRS_LOOP, 'dn.RDNs[i].Attributes', 'dn.RDNs[0].Attributes'))]),
 # nesting on `== 1` after the multi-valued gate: what falls through has no attribute
 dict(name='benign-first-only-nested-eq1', expect='silent',
      edits=[(P, _DOC, _PERATTR2_FN + _DOC), (P, _RDNLOOP, _sub(_FO_NESTED, 'if len(attrs) > 0 {', 'if len(attrs) == 1 {'))]),
 dict(name='first-only-nested-eq1-no-multi-gate', expect='flagged(parser/multi-valued-rdn)',
      edits=[(P, _DOC, _PERATTR2_FN + _DOC), (P, _RDNLOOP, _sub(_sub(_FO_NESTED, 'if len(attrs) > 0 {', 'if len(attrs) == 1 {'), '\t\tif len(attrs) > 1 {\n\t\t\treturn nil, ' + _MULTIERR + '\n\t\t}\n', ''))]),
 dict(name='first-only-nested-eq1-gate-too-wide', expect='flagged(parser/)',
      edits=[(P, _DOC, _PERATTR2_FN + _DOC), (P, _RDNLOOP, _sub(_sub(_FO_NESTED, 'if len(attrs) > 0 {', 'if len(attrs) == 1 {'), 'if len(attrs) > 1 {', 'if len(attrs) > 2 {'))]),
]

# the failure of the identity check is recorded (recorded.go; second guard-mutant run)
V_ = 'verifier/verifier.go'
REC_OLD = '\t\terr = verifyX509TrustedIdentities(policyName, trustedIdentities, outcome.EnvelopeContent.SignerInfo.CertificateChain)\n\t\tif err != nil {\n\t\t\tauthenticityResult.Error = err\n\t\t\tlogVerificationResult(logger, authenticityResult)\n\t\t}\n'
def rec(cond, body='\t\t\tauthenticityResult.Error = err\n\t\t\tlogVerificationResult(logger, authenticityResult)\n'):
    return '\t\terr = verifyX509TrustedIdentities(policyName, trustedIdentities, outcome.EnvelopeContent.SignerInfo.CertificateChain)\n\t\tif ' + cond + ' {\n' + body + '\t\t}\n'
VARIANTS += [
 dict(name='gm-identity-failure-recorded-false-conjunct', file=V_, expect='flagged(verifier/failure-recorded)', find=REC_OLD, replace=rec('false && (err != nil)')),
 dict(name='gm-identity-failure-recorded-only-for-several-identities', file=V_, expect='flagged(verifier/failure-recorded)', find=REC_OLD, replace=rec('len(trustedIdentities) > 1 && err != nil')),
 dict(name='gm-identity-failure-recorded-only-when-authenticity-failed-too', file=V_, expect='flagged(verifier/failure-recorded)', find=REC_OLD, replace=rec('authenticityResult.Error != nil && err != nil')),
 dict(name='gm-identity-failure-logged-not-recorded', file=V_, expect='flagged(verifier/failure-recorded)', find=REC_OLD, replace=rec('err != nil', body='\t\t\tlogger.Warnf("trusted identity verification failed: %v", err)\n')),
 dict(name='benign-gm-identity-failure-operands-swapped', file=V_, expect='silent', find=REC_OLD, replace=rec('nil != err')),
 dict(name='benign-gm-identity-failure-scoped-error', file=V_, expect='silent', find=REC_OLD,
      replace='\t\tif idErr := verifyX509TrustedIdentities(policyName, trustedIdentities, outcome.EnvelopeContent.SignerInfo.CertificateChain); idErr != nil {\n\t\t\tauthenticityResult.Error = idErr\n\t\t\tlogVerificationResult(logger, authenticityResult)\n\t\t}\n'),
]
