V = 'verifier/verifier.go'
P = 'internal/pkix/pkix.go'
VARIANTS = [
 dict(name='F13-reintroduced', file=P, expect='flagged(subset/present)',
      find='if value, ok := dn2[key]; !ok || dn1[key] != value {', replace='if dn1[key] != dn2[key] {'),
 dict(name='subset-reversed-range', file=P, expect='flagged(subset/range-first)',
      find='for key := range dn1 {\n\t\tif value, ok := dn2[key]; !ok || dn1[key] != value {',
      replace='for key := range dn2 {\n\t\tif value, ok := dn1[key]; !ok || dn2[key] != value {'),
 dict(name='subset-prefix-compare', file=P, expect='flagged(subset/whitelist)',
      find='if value, ok := dn2[key]; !ok || dn1[key] != value {', replace='if value, ok := dn2[key]; !ok || !strings.HasPrefix(value, dn1[key]) {'),
 dict(name='subset-equalfold', file=P, expect='flagged(subset/whitelist)',
      find='if value, ok := dn2[key]; !ok || dn1[key] != value {', replace='if value, ok := dn2[key]; !ok || !strings.EqualFold(value, dn1[key]) {'),
 dict(name='subset-early-true', file=P, expect='flagged(subset/true-only-after-loop)',
      find='\t\t\treturn false\n\t\t}\n\t}\n\treturn true', replace='\t\t\treturn false\n\t\t}\n\t\treturn true\n\t}\n\treturn true'),
 dict(name='args-swapped', file=V, expect='flagged(verifier/)',
      find='if pkix.IsSubsetDN(trustedX509Identity, leafCertDN) {', replace='if pkix.IsSubsetDN(leafCertDN, trustedX509Identity) {'),
 dict(name='any-cert-in-chain', file=V, expect='flagged(verifier/leaf-only)',
      find='''	for _, trustedX509Identity := range trustedX509Identities {
		if pkix.IsSubsetDN(trustedX509Identity, leafCertDN) {
			return nil
		}
	}
''', replace='''	for _, trustedX509Identity := range trustedX509Identities {
		if pkix.IsSubsetDN(trustedX509Identity, leafCertDN) {
			return nil
		}
		for _, cert := range certs[1:] {
			if dn, err := pkix.ParseDistinguishedName(cert.Subject.String()); err == nil && pkix.IsSubsetDN(trustedX509Identity, dn) {
				return nil
			}
		}
	}
'''),
 dict(name='last-cert', file=V, expect='flagged(verifier/leaf-only)',
      find='leafCert := certs[0] // trusted', replace='leafCert := certs[len(certs)-1] // trusted'),
 dict(name='unparsable-identity-skipped', file=V, expect='flagged(verifier/identity-parse-error)',
      find='\t\t\tparsedSubject, err := pkix.ParseDistinguishedName(identityValue)\n\t\t\tif err != nil {\n\t\t\t\treturn err\n\t\t\t}',
      replace='\t\t\tparsedSubject, err := pkix.ParseDistinguishedName(identityValue)\n\t\t\tif err != nil {\n\t\t\t\tcontinue\n\t\t\t}'),
 dict(name='no-x509-identity-passes', file=V, expect='flagged(verifier/success-exits)',
      find='\tif len(trustedX509Identities) == 0 {\n\t\treturn fmt.Errorf("no x509 trusted identities are configured in the trust policy %q", policyName)\n\t}',
      replace='\tif len(trustedX509Identities) == 0 {\n\t\treturn nil\n\t}'),
 dict(name='leaf-parse-error-passes', file=V, expect='flagged(verifier/)',
      find='\tif err != nil {\n\t\treturn fmt.Errorf("error while parsing the certificate subject from the digital signature. error : %q", err)\n\t}',
      replace='\tif err != nil && len(trustedX509Identities) == 0 {\n\t\treturn fmt.Errorf("error while parsing the certificate subject from the digital signature. error : %q", err)\n\t}'),
 dict(name='duplicate-attribute-overwrites', file=P, expect='flagged(parser/duplicate)',
      find='''			if attrKeyValue[attribute.Type] == "" {
				attrKeyValue[attribute.Type] = attribute.Value
			} else {
				return nil, fmt.Errorf("distinguished name (DN) %q has duplicate RDN attribute for %q, DN can only have unique RDN attributes", name, attribute.Type)
			}''', replace='''			attrKeyValue[attribute.Type] = attribute.Value'''),
 dict(name='multi-valued-allowed', file=P, expect='flagged(parser/multi-valued-rdn)',
      find='if len(rdn.Attributes) > 1 {', replace='if len(rdn.Attributes) > 2 {'),
 dict(name='alias-dropped', file=P, expect='flagged(parser/alias-S-ST)',
      find='\t\t\tif attribute.Type == "S" {\n\t\t\t\tattribute.Type = "ST"\n\t\t\t}\n', replace=''),
 dict(name='mandatory-O-dropped', file=P, expect='flagged(parser/mandatory)',
      find='mandatoryFields := []string{"C", "ST", "O"}', replace='mandatoryFields := []string{"C", "ST"}'),
 dict(name='wildcard-prefix', file=V, expect='flagged(verifier/success-exits)',
      find='\tif slices.Contains(trustedIdentities, trustpolicyInternal.Wildcard) {\n\t\treturn nil\n\t}\n\n\tvar trustedX509Identities',
      replace='\tif len(trustedIdentities) > 0 && strings.HasPrefix(trustedIdentities[0], trustpolicyInternal.Wildcard) {\n\t\treturn nil\n\t}\n\n\tvar trustedX509Identities'),
 # benign
 dict(name='benign-subset-two-step', file=P, expect='silent',
      find='\t\tif value, ok := dn2[key]; !ok || dn1[key] != value {\n\t\t\treturn false\n\t\t}',
      replace='\t\tvalue, ok := dn2[key]\n\t\tif !ok {\n\t\t\treturn false\n\t\t}\n\t\tif value != dn1[key] {\n\t\t\treturn false\n\t\t}'),
 dict(name='benign-range-key-value', file=P, expect='silent',
      find='\tfor key := range dn1 {\n\t\tif value, ok := dn2[key]; !ok || dn1[key] != value {',
      replace='\tfor key, want := range dn1 {\n\t\tif value, ok := dn2[key]; !ok || want != value {'),
 dict(name='benign-error-wrap', file=V, expect='silent',
      find='\t\t\tparsedSubject, err := pkix.ParseDistinguishedName(identityValue)\n\t\t\tif err != nil {\n\t\t\t\treturn err\n\t\t\t}',
      replace='\t\t\tparsedSubject, err := pkix.ParseDistinguishedName(identityValue)\n\t\t\tif err != nil {\n\t\t\t\treturn fmt.Errorf("identity %q: %w", identity, err)\n\t\t\t}'),
]
