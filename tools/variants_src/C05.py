V = 'verifier/verifier.go'
VARIANTS = [
 dict(name='F12-reintroduced', file=V, expect='flagged(aggregator/length-agreement)',
      find='''	if len(certResults) != len(certChain) {
		// every certificate in the chain needs a revocation result
		if len(certChain) > 0 {
			problematicCertSubject = certChain[0].Subject.String()
		}
		return revocationresult.ResultUnknown, problematicCertSubject
	}
''', replace=''),
 dict(name='any-ok-wins', file=V, expect='flagged(aggregator/decision)',
      find='\tif numOKResults == len(certResults) {\n\t\tfinalResult = revocationresult.ResultOK\n\t}',
      replace='\tif numOKResults > 0 && !revokedFound {\n\t\tfinalResult = revocationresult.ResultOK\n\t}'),
 dict(name='last-inspected-wins', file=V, expect='flagged(aggregator/decision)',
      find='''		if certResult.Result == revocationresult.ResultOK || certResult.Result == revocationresult.ResultNonRevokable {
			numOKResults++
		} else {''', replace='''		if certResult.Result == revocationresult.ResultOK || certResult.Result == revocationresult.ResultNonRevokable {
			numOKResults++
			finalResult = certResult.Result
		} else {'''),
 dict(name='revoked-priority-removed', file=V, expect='flagged(aggregator/decision)',
      find='\tif revokedFound {\n\t\tproblematicCertSubject = revokedCertSubject\n\t\tfinalResult = revocationresult.ResultRevoked\n\t}\n', replace='\t_, _ = revokedFound, revokedCertSubject\n'),
 dict(name='unknown-counted-ok', file=V, expect='flagged(aggregator/decision)',
      find='if certResult.Result == revocationresult.ResultOK || certResult.Result == revocationresult.ResultNonRevokable {\n\t\t\tnumOKResults++',
      replace='if certResult.Result == revocationresult.ResultOK || certResult.Result == revocationresult.ResultNonRevokable || certResult.Result == revocationresult.ResultUnknown {\n\t\t\tnumOKResults++'),
 dict(name='double-increment', file=V, expect='flagged(aggregator/decision)',
      find='\t\tif i < len(certResults)-1 && certResult.Result == revocationresult.ResultNonRevokable {\n',
      replace='\t\tif certResult.Result == revocationresult.ResultNonRevokable {\n\t\t\tnumOKResults++\n\t\t}\n\t\tif i < len(certResults)-1 && certResult.Result == revocationresult.ResultNonRevokable {\n'),
 dict(name='leaf-skipped', file=V, expect='flagged(aggregator/iterates-all)',
      find='for i := len(certResults) - 1; i >= 0; i-- {\n\t\tcert := certChain[i]', replace='for i := len(certResults) - 1; i > 0; i-- {\n\t\tcert := certChain[i]'),
 dict(name='early-break-on-ok', file=V, expect='flagged(aggregator/)',
      find='\t\tif i < len(certResults)-1 && certResult.Result == revocationresult.ResultNonRevokable {\n',
      replace='\t\tif certResult.Result == revocationresult.ResultOK && i == 0 {\n\t\t\tnumOKResults = len(certResults)\n\t\t\tbreak\n\t\t}\n\t\tif i < len(certResults)-1 && certResult.Result == revocationresult.ResultNonRevokable {\n'),
 dict(name='leaf-only-chain', file=V, expect='flagged(args/chain)',
      find='''			CertChain:            outcome.EnvelopeContent.SignerInfo.CertificateChain,
			AuthenticSigningTime: authenticSigningTime,''', replace='''			CertChain:            outcome.EnvelopeContent.SignerInfo.CertificateChain[:1],
			AuthenticSigningTime: authenticSigningTime,'''),
 dict(name='signing-time-for-x509', file=V, expect='flagged(args/signing-time-only-for-signing-authority)',
      find='\tif outcome.EnvelopeContent.SignerInfo.SignedAttributes.SigningScheme == signature.SigningSchemeX509SigningAuthority {\n\t\tauthenticSigningTime, _ = outcome.EnvelopeContent.SignerInfo.AuthenticSigningTime()\n\t}\n\n\tvar certResults',
      replace='\tauthenticSigningTime, _ = outcome.EnvelopeContent.SignerInfo.AuthenticSigningTime()\n\n\tvar certResults'),
 dict(name='client-gets-zero-time', file=V, expect='flagged(args/same-signing-time)',
      find='certResults, err = v.revocationClient.Validate(outcome.EnvelopeContent.SignerInfo.CertificateChain, authenticSigningTime)',
      replace='certResults, err = v.revocationClient.Validate(outcome.EnvelopeContent.SignerInfo.CertificateChain, time.Time{})'),
 dict(name='validator-error-ignored', file=V, expect='flagged(result/validator-error)',
      find='\tif err != nil {\n\t\tlogger.Debug("Error while checking revocation status, err: %s", err.Error())',
      replace='\tif err != nil && certResults == nil {\n\t\tlogger.Debug("Error while checking revocation status, err: %s", err.Error())'),
 dict(name='nonrevokable-aggregate-passes', file=V, expect='flagged(result/aggregate-ok)',
      find='''	switch finalResult {
	case revocationresult.ResultOK:
		logger.Debug("No verification impacting errors encountered while checking revocation, status is OK")
	case revocationresult.ResultRevoked:
		result.Error = fmt.Errorf("signing certificate with subject %q is revoked", problematicCertSubject)
	default:''', replace='''	switch finalResult {
	case revocationresult.ResultOK, revocationresult.ResultUnknown:
		logger.Debug("No verification impacting errors encountered while checking revocation, status is OK")
	case revocationresult.ResultRevoked:
		result.Error = fmt.Errorf("signing certificate with subject %q is revoked", problematicCertSubject)
	default:'''),
 dict(name='both-nil-passes', file=V, expect='flagged(result/both-validators-nil)',
      find='''	if v.revocationCodeSigningValidator == nil && v.revocationClient == nil {
		return &notation.ValidationResult{
			Type:   trustpolicy.TypeRevocation,
			Action: outcome.VerificationLevel.Enforcement[trustpolicy.TypeRevocation],
			Error:  fmt.Errorf("unable to check revocation status, code signing revocation validator cannot be nil"),
		}
	}''', replace='''	if v.revocationCodeSigningValidator == nil && v.revocationClient == nil {
		return &notation.ValidationResult{
			Type:   trustpolicy.TypeRevocation,
			Action: outcome.VerificationLevel.Enforcement[trustpolicy.TypeRevocation],
		}
	}'''),
 dict(name='constructor-leaves-nil', file=V, expect='flagged(constructor/)',
      find='''	if err != nil {
		return err
	}
	v.revocationCodeSigningValidator = revocationCodeSigningValidator
	return nil
}''', replace='''	if err != nil {
		return nil
	}
	v.revocationCodeSigningValidator = revocationCodeSigningValidator
	return nil
}'''),
 dict(name='revoked-subject-from-unknown', file=V, expect='flagged(aggregator/revoked-subject)',
      find='\t\t\tif certResult.Result == revocationresult.ResultRevoked {\n\t\t\t\trevokedFound = true\n\t\t\t\trevokedCertSubject = problematicCertSubject\n\t\t\t}',
      replace='\t\t\trevokedCertSubject = problematicCertSubject\n\t\t\tif certResult.Result == revocationresult.ResultRevoked {\n\t\t\t\trevokedFound = true\n\t\t\t}'),
 dict(name='chain-index-off', file=V, expect='flagged(aggregator/same-index)',
      find='\t\tcert := certChain[i]\n\t\tcertResult := certResults[i]', replace='\t\tcert := certChain[len(certChain)-1-i]\n\t\tcertResult := certResults[i]'),
 # benign
 dict(name='benign-forward-loop', file=V, expect='silent',
      find='for i := len(certResults) - 1; i >= 0; i-- {\n\t\tcert := certChain[i]\n\t\tcertResult := certResults[i]',
      replace='for i := range certResults {\n\t\tcert := certChain[i]\n\t\tcertResult := certResults[i]'),
 dict(name='benign-switch-aggregation', file=V, expect='silent',
      find='''		if certResult.Result == revocationresult.ResultOK || certResult.Result == revocationresult.ResultNonRevokable {
			numOKResults++
		} else {
			finalResult = certResult.Result
			problematicCertSubject = cert.Subject.String()
			if certResult.Result == revocationresult.ResultRevoked {
				revokedFound = true
				revokedCertSubject = problematicCertSubject
			}
		}''', replace='''		switch certResult.Result {
		case revocationresult.ResultOK, revocationresult.ResultNonRevokable:
			numOKResults++
		case revocationresult.ResultRevoked:
			finalResult = certResult.Result
			problematicCertSubject = cert.Subject.String()
			revokedFound = true
			revokedCertSubject = problematicCertSubject
		default:
			finalResult = certResult.Result
			problematicCertSubject = cert.Subject.String()
		}'''),
 dict(name='benign-ok-flag-instead-of-counter', file=V, expect='silent',
      find='\tif numOKResults == len(certResults) {\n\t\tfinalResult = revocationresult.ResultOK\n\t}',
      replace='\tif numOKResults == len(certResults) && !revokedFound {\n\t\tfinalResult = revocationresult.ResultOK\n\t}'),
]
