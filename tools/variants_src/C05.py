V = 'verifier/verifier.go'
VARIANTS = [
 dict(name='F12-reintroduced', file=V, expect='flagged(aggregator/length-agreement)',
      find='''	if len(certResults) != len(certChain) {
		// every certificate in the chain needs a revocation result
		if len(certChain) > 0 {
			problematicCertSubject = certChain[0].Subject.String()
		}
		return revocationresult.ResultUnknown, problematicCertSubject
	}
''', replace=''),
 dict(name='any-ok-wins', file=V, expect='flagged(aggregator/decision)',
      find='\tif numOKResults == len(certResults) {\n\t\tfinalResult = revocationresult.ResultOK\n\t}',
      replace='\tif numOKResults > 0 && !revokedFound {\n\t\tfinalResult = revocationresult.ResultOK\n\t}'),
 dict(name='last-inspected-wins', file=V, expect='flagged(aggregator/decision)',
      find='''		if certResult.Result == revocationresult.ResultOK || certResult.Result == revocationresult.ResultNonRevokable {
			numOKResults++
		} else {''', replace='''		if certResult.Result == revocationresult.ResultOK || certResult.Result == revocationresult.ResultNonRevokable {
			numOKResults++
			finalResult = certResult.Result
		} else {'''),
 dict(name='revoked-priority-removed', file=V, expect='flagged(aggregator/decision)',
      find='\tif revokedFound {\n\t\tproblematicCertSubject = revokedCertSubject\n\t\tfinalResult = revocationresult.ResultRevoked\n\t}\n', replace='\t_, _ = revokedFound, revokedCertSubject\n'),
 dict(name='unknown-counted-ok', file=V, expect='flagged(aggregator/decision)',
      find='if certResult.Result == revocationresult.ResultOK || certResult.Result == revocationresult.ResultNonRevokable {\n\t\t\tnumOKResults++',
      replace='if certResult.Result == revocationresult.ResultOK || certResult.Result == revocationresult.ResultNonRevokable || certResult.Result == revocationresult.ResultUnknown {\n\t\t\tnumOKResults++'),
 dict(name='double-increment', file=V, expect='flagged(aggregator/decision)',
      find='\t\tif i < len(certResults)-1 && certResult.Result == revocationresult.ResultNonRevokable {\n',
      replace='\t\tif certResult.Result == revocationresult.ResultNonRevokable {\n\t\t\tnumOKResults++\n\t\t}\n\t\tif i < len(certResults)-1 && certResult.Result == revocationresult.ResultNonRevokable {\n'),
 dict(name='leaf-skipped', file=V, expect='flagged(aggregator/iterates-all)',
      find='for i := len(certResults) - 1; i >= 0; i-- {\n\t\tcert := certChain[i]', replace='for i := len(certResults) - 1; i > 0; i-- {\n\t\tcert := certChain[i]'),
 dict(name='early-break-on-ok', file=V, expect='flagged(aggregator/)',
      find='\t\tif i < len(certResults)-1 && certResult.Result == revocationresult.ResultNonRevokable {\n',
      replace='\t\tif certResult.Result == revocationresult.ResultOK && i == 0 {\n\t\t\tnumOKResults = len(certResults)\n\t\t\tbreak\n\t\t}\n\t\tif i < len(certResults)-1 && certResult.Result == revocationresult.ResultNonRevokable {\n'),
 dict(name='leaf-only-chain', file=V, expect='flagged(args/chain)',
      find='''			CertChain:            outcome.EnvelopeContent.SignerInfo.CertificateChain,
			AuthenticSigningTime: authenticSigningTime,''', replace='''			CertChain:            outcome.EnvelopeContent.SignerInfo.CertificateChain[:1],
			AuthenticSigningTime: authenticSigningTime,'''),
 dict(name='signing-time-for-x509', file=V, expect='flagged(args/signing-time-only-for-signing-authority)',
      find='\tif outcome.EnvelopeContent.SignerInfo.SignedAttributes.SigningScheme == signature.SigningSchemeX509SigningAuthority {\n\t\tauthenticSigningTime, _ = outcome.EnvelopeContent.SignerInfo.AuthenticSigningTime()\n\t}\n\n\tvar certResults',
      replace='\tauthenticSigningTime, _ = outcome.EnvelopeContent.SignerInfo.AuthenticSigningTime()\n\n\tvar certResults'),
 dict(name='client-gets-zero-time', file=V, expect='flagged(args/same-signing-time)',
      find='certResults, err = v.revocationClient.Validate(outcome.EnvelopeContent.SignerInfo.CertificateChain, authenticSigningTime)',
      replace='certResults, err = v.revocationClient.Validate(outcome.EnvelopeContent.SignerInfo.CertificateChain, time.Time{})'),
 dict(name='validator-error-ignored', file=V, expect='flagged(result/validator-error)',
      find='\tif err != nil {\n\t\tlogger.Debug("Error while checking revocation status, err: %s", err.Error())',
      replace='\tif err != nil && certResults == nil {\n\t\tlogger.Debug("Error while checking revocation status, err: %s", err.Error())'),
 dict(name='nonrevokable-aggregate-passes', file=V, expect='flagged(result/aggregate-ok)',
      find='''	switch finalResult {
	case revocationresult.ResultOK:
		logger.Debug("No verification impacting errors encountered while checking revocation, status is OK")
	case revocationresult.ResultRevoked:
		result.Error = fmt.Errorf("signing certificate with subject %q is revoked", problematicCertSubject)
	default:''', replace='''	switch finalResult {
	case revocationresult.ResultOK, revocationresult.ResultUnknown:
		logger.Debug("No verification impacting errors encountered while checking revocation, status is OK")
	case revocationresult.ResultRevoked:
		result.Error = fmt.Errorf("signing certificate with subject %q is revoked", problematicCertSubject)
	default:'''),
 dict(name='both-nil-passes', file=V, expect='flagged(result/both-validators-nil)',
      find='''	if v.revocationCodeSigningValidator == nil && v.revocationClient == nil {
		return &notation.ValidationResult{
			Type:   trustpolicy.TypeRevocation,
			Action: outcome.VerificationLevel.Enforcement[trustpolicy.TypeRevocation],
			Error:  fmt.Errorf("unable to check revocation status, code signing revocation validator cannot be nil"),
		}
	}''', replace='''	if v.revocationCodeSigningValidator == nil && v.revocationClient == nil {
		return &notation.ValidationResult{
			Type:   trustpolicy.TypeRevocation,
			Action: outcome.VerificationLevel.Enforcement[trustpolicy.TypeRevocation],
		}
	}'''),
 dict(name='constructor-leaves-nil', file=V, expect='flagged(constructor/)',
      find='''	if err != nil {
		return err
	}
	v.revocationCodeSigningValidator = revocationCodeSigningValidator
	return nil
}''', replace='''	if err != nil {
		return nil
	}
	v.revocationCodeSigningValidator = revocationCodeSigningValidator
	return nil
}'''),
 dict(name='revoked-subject-from-unknown', file=V, expect='flagged(aggregator/revoked-subject)',
      find='\t\t\tif certResult.Result == revocationresult.ResultRevoked {\n\t\t\t\trevokedFound = true\n\t\t\t\trevokedCertSubject = problematicCertSubject\n\t\t\t}',
      replace='\t\t\trevokedCertSubject = problematicCertSubject\n\t\t\tif certResult.Result == revocationresult.ResultRevoked {\n\t\t\t\trevokedFound = true\n\t\t\t}'),
 dict(name='chain-index-off', file=V, expect='flagged(aggregator/same-index)',
      find='\t\tcert := certChain[i]\n\t\tcertResult := certResults[i]', replace='\t\tcert := certChain[len(certChain)-1-i]\n\t\tcertResult := certResults[i]'),
 # benign
 dict(name='benign-forward-loop', file=V, expect='silent',
      find='for i := len(certResults) - 1; i >= 0; i-- {\n\t\tcert := certChain[i]\n\t\tcertResult := certResults[i]',
      replace='for i := range certResults {\n\t\tcert := certChain[i]\n\t\tcertResult := certResults[i]'),
 dict(name='benign-switch-aggregation', file=V, expect='silent',
      find='''		if certResult.Result == revocationresult.ResultOK || certResult.Result == revocationresult.ResultNonRevokable {
			numOKResults++
		} else {
			finalResult = certResult.Result
			problematicCertSubject = cert.Subject.String()
			if certResult.Result == revocationresult.ResultRevoked {
				revokedFound = true
				revokedCertSubject = problematicCertSubject
			}
		}''', replace='''		switch certResult.Result {
		case revocationresult.ResultOK, revocationresult.ResultNonRevokable:
			numOKResults++
		case revocationresult.ResultRevoked:
			finalResult = certResult.Result
			problematicCertSubject = cert.Subject.String()
			revokedFound = true
			revokedCertSubject = problematicCertSubject
		default:
			finalResult = certResult.Result
			problematicCertSubject = cert.Subject.String()
		}'''),
 dict(name='benign-ok-flag-instead-of-counter', file=V, expect='silent',
      find='\tif numOKResults == len(certResults) {\n\t\tfinalResult = revocationresult.ResultOK\n\t}',
      replace='\tif numOKResults == len(certResults) && !revokedFound {\n\t\tfinalResult = revocationresult.ResultOK\n\t}'),
]

# ---- shapes accepted after the false-alarm round on four independent refactorings ----------------------------------
# Each new shape has a silent variant (the base tree rewritten into the shape) and flagged variants (the shape with the
# property broken).

# shape H: the validator dispatch and the signing-time computation live in unexported helpers
_TIME_BLOCK = """	var authenticSigningTime time.Time
	if outcome.EnvelopeContent.SignerInfo.SignedAttributes.SigningScheme == signature.SigningSchemeX509SigningAuthority {
		authenticSigningTime, _ = outcome.EnvelopeContent.SignerInfo.AuthenticSigningTime()
	}

"""
_DISPATCH = """	var certResults []*revocationresult.CertRevocationResult
	var err error
	if v.revocationCodeSigningValidator != nil {
		certResults, err = v.revocationCodeSigningValidator.ValidateContext(ctx, revocation.ValidateContextOptions{
			CertChain:            outcome.EnvelopeContent.SignerInfo.CertificateChain,
			AuthenticSigningTime: authenticSigningTime,
		})
	} else {
		certResults, err = v.revocationClient.Validate(outcome.EnvelopeContent.SignerInfo.CertificateChain, authenticSigningTime)
	}
"""
_ANCHOR = "func processPluginResponse("

def _helpers(call_chain='outcome.EnvelopeContent.SignerInfo.CertificateChain', guard=True, swallow=False, inner_chain='chainArg', client_time='whenArg'):
    time_body = """	var when time.Time
	if si.SignedAttributes.SigningScheme == signature.SigningSchemeX509SigningAuthority {
		when, _ = si.AuthenticSigningTime()
	}
	return when
""" if guard else """	when, _ := si.AuthenticSigningTime()
	return when
"""
    ctx_ret = """		return recv.revocationCodeSigningValidator.ValidateContext(ctxArg, revocation.ValidateContextOptions{
			CertChain:            %s,
			AuthenticSigningTime: whenArg,
		})
""" % inner_chain
    if swallow:
        ctx_ret = """		res, _ := recv.revocationCodeSigningValidator.ValidateContext(ctxArg, revocation.ValidateContextOptions{
			CertChain:            %s,
			AuthenticSigningTime: whenArg,
		})
		return res, nil
""" % inner_chain
    caller = "	authenticSigningTime := timeForRevocation(&outcome.EnvelopeContent.SignerInfo)\n	certResults, err := v.consultValidators(ctx, %s, authenticSigningTime)\n" % call_chain
    helpers = ("func timeForRevocation(si *signature.SignerInfo) time.Time {\n" + time_body + "}\n\n" +
               "func (recv *verifier) consultValidators(ctxArg context.Context, chainArg []*x509.Certificate, whenArg time.Time) ([]*revocationresult.CertRevocationResult, error) {\n" +
               "	if recv.revocationCodeSigningValidator != nil {\n" + ctx_ret + "	}\n" +
               "	return recv.revocationClient.Validate(chainArg, %s)\n}\n\n" % client_time)
    return [(V, _TIME_BLOCK + _DISPATCH, caller), (V, _ANCHOR, helpers + _ANCHOR)]

VARIANTS += [
 dict(name='benign-dispatch-and-time-helpers', expect='silent', edits=_helpers(),
      why='the operands are parameters of closed helpers: judged at the call site; the error/results are forwarded by every return of the helper'),
 dict(name='helper-caller-passes-leaf-only', expect='flagged(args/chain)', edits=_helpers(call_chain='outcome.EnvelopeContent.SignerInfo.CertificateChain[:1]')),
 dict(name='helper-slices-chain-inside', expect='flagged(args/chain-context-validator)', edits=_helpers(inner_chain='chainArg[:1]')),
 dict(name='helper-time-without-scheme-guard', expect='flagged(args/signing-time-only-for-signing-authority)', edits=_helpers(guard=False)),
 dict(name='helper-client-gets-zero-time', expect='flagged(args/same-signing-time)', edits=_helpers(client_time='time.Time{}')),
 dict(name='helper-swallows-validator-error', expect='flagged(result/validator-error)', edits=_helpers(swallow=True)),
]

# shape E: the error is collected in a local and the result object is built once, at the return
_RESULT_TAIL = """	result := &notation.ValidationResult{
		Type:   trustpolicy.TypeRevocation,
		Action: outcome.VerificationLevel.Enforcement[trustpolicy.TypeRevocation],
	}
	finalResult, problematicCertSubject := revocationFinalResult(certResults, outcome.EnvelopeContent.SignerInfo.CertificateChain, logger)
	switch finalResult {
	case revocationresult.ResultOK:
		logger.Debug("No verification impacting errors encountered while checking revocation, status is OK")
	case revocationresult.ResultRevoked:
		result.Error = fmt.Errorf("signing certificate with subject %q is revoked", problematicCertSubject)
	default:
		// revocationresult.ResultUnknown
		result.Error = fmt.Errorf("signing certificate with subject %q revocation status is unknown", problematicCertSubject)
	}

	return result
}
"""
def _tail(ok_case='case revocationresult.ResultOK:'):
    return """	action := outcome.VerificationLevel.Enforcement[trustpolicy.TypeRevocation]
	var failure error
	finalResult, problematicCertSubject := revocationFinalResult(certResults, outcome.EnvelopeContent.SignerInfo.CertificateChain, logger)
	switch finalResult {
	%s
		logger.Debug("No verification impacting errors encountered while checking revocation, status is OK")
	case revocationresult.ResultRevoked:
		failure = fmt.Errorf("signing certificate with subject %%q is revoked", problematicCertSubject)
	default:
		failure = fmt.Errorf("signing certificate with subject %%q revocation status is unknown", problematicCertSubject)
	}

	return &notation.ValidationResult{
		Type:   trustpolicy.TypeRevocation,
		Action: action,
		Error:  failure,
	}
}
""" % ok_case

VARIANTS += [
 dict(name='benign-error-local-result-built-at-return', file=V, expect='silent', find=_RESULT_TAIL, replace=_tail(),
      why='edges into the return block whose phi operand is a provably non-nil error lead to a failing exit only'),
 dict(name='error-local-unknown-aggregate-passes', file=V, expect='flagged(result/aggregate-ok)', find=_RESULT_TAIL,
      replace=_tail('case revocationresult.ResultOK, revocationresult.ResultUnknown:')),
 dict(name='error-local-validator-error-ignored', expect='flagged(result/validator-error)',
      edits=[(V, _RESULT_TAIL, _tail()),
             (V, '\tif err != nil {\n\t\tlogger.Debug("Error while checking revocation status, err: %s", err.Error())',
              '\tif err != nil && certResults == nil {\n\t\tlogger.Debug("Error while checking revocation status, err: %s", err.Error())')]),
]

# shape I: the aggregator remembers positions instead of values and assembles the pair after the loop
_AGG_DECL = """	finalResult := revocationresult.ResultUnknown
	numOKResults := 0
	var problematicCertSubject string
	if len(certResults) != len(certChain) {"""
_AGG_DECL_I = """	finalResult := revocationresult.ResultUnknown
	var problematicCertSubject string
	if len(certResults) != len(certChain) {"""
_AGG_FLAGS = """	revokedFound := false
	var revokedCertSubject string
	for i := len(certResults) - 1; i >= 0; i-- {"""
_AGG_FLAGS_I = """	lastBad := -1
	lastRevoked := -1
	for i := len(certResults) - 1; i >= 0; i-- {"""
_AGG_CLASSIFY = """		if certResult.Result == revocationresult.ResultOK || certResult.Result == revocationresult.ResultNonRevokable {
			numOKResults++
		} else {
			finalResult = certResult.Result
			problematicCertSubject = cert.Subject.String()
			if certResult.Result == revocationresult.ResultRevoked {
				revokedFound = true
				revokedCertSubject = problematicCertSubject
			}
		}
"""
_AGG_CLASSIFY_I = """		if certResult.Result != revocationresult.ResultOK && certResult.Result != revocationresult.ResultNonRevokable {
			lastBad = i
			if certResult.Result == revocationresult.ResultRevoked {
				lastRevoked = i
			}
		}
"""
_AGG_CLASSIFY_I_UNCOND = """		lastBad = i
		if certResult.Result == revocationresult.ResultRevoked {
			lastRevoked = i
		}
"""
_AGG_CLASSIFY_I_REVOKED_ANY = """		if certResult.Result != revocationresult.ResultOK && certResult.Result != revocationresult.ResultNonRevokable {
			lastBad = i
			lastRevoked = i
		}
"""
_AGG_TAIL = """	if revokedFound {
		problematicCertSubject = revokedCertSubject
		finalResult = revocationresult.ResultRevoked
	}
	if numOKResults == len(certResults) {
		finalResult = revocationresult.ResultOK
	}
	return finalResult, problematicCertSubject
}
"""
def _agg_tail(first='lastRevoked >= 0', revsubj='lastRevoked', order='revoked-first'):
    rev = """	case %s:
		finalResult = revocationresult.ResultRevoked
		problematicCertSubject = certChain[%s].Subject.String()
""" % (first, revsubj)
    bad = """	case lastBad >= 0:
		finalResult = certResults[lastBad].Result
		problematicCertSubject = certChain[lastBad].Subject.String()
"""
    body = rev + bad if order == 'revoked-first' else bad + rev
    return "	switch {\n" + body + """	default:
		finalResult = revocationresult.ResultOK
	}
	return finalResult, problematicCertSubject
}
"""
def _index_agg(classify=_AGG_CLASSIFY_I, **kw):
    return [(V, _AGG_DECL, _AGG_DECL_I), (V, _AGG_FLAGS, _AGG_FLAGS_I), (V, _AGG_CLASSIFY, classify), (V, _AGG_TAIL, _agg_tail(**kw))]

VARIANTS += [
 dict(name='benign-index-remembering-aggregator', expect='silent', edits=_index_agg(),
      why='index tags: a remembered position of a certificate of class v yields v when results[k].Result is read after the loop'),
 dict(name='index-aggregator-bad-before-revoked', expect='flagged(aggregator/decision)', edits=_index_agg(order='bad-first')),
 dict(name='index-aggregator-position-recorded-unconditionally', expect='flagged(aggregator/decision)', edits=_index_agg(classify=_AGG_CLASSIFY_I_UNCOND)),
 dict(name='index-aggregator-leaf-position-ignored', expect='flagged(aggregator/decision)', edits=_index_agg(first='lastRevoked > 0')),
 dict(name='index-aggregator-revoked-subject-of-other-cert', expect='flagged(aggregator/revoked-subject)', edits=_index_agg(revsubj='lastBad')),
 dict(name='index-aggregator-revoked-position-of-any-bad', expect='flagged(aggregator/)', edits=_index_agg(classify=_AGG_CLASSIFY_I_REVOKED_ANY)),
]

# shape L: the per-certificate result is handed to a helper inside the loop
_SERVER_LOOP = """		for _, serverResult := range certResult.ServerResults {
			if serverResult.Error != nil {
				// log individual server errors
				if certResult.RevocationMethod == revocationresult.RevocationMethodOCSPFallbackCRL && serverResult.RevocationMethod == revocationresult.RevocationMethodOCSP {
					// when the final revocation method is OCSPFallbackCRL,
					// the OCSP server results should not be logged as an error
					// since the CRL revocation check can succeed.
					logger.Debugf("Certificate #%d in chain with subject %q encountered an error for revocation method %s at URL %q: %v", (i + 1), cert.Subject, revocationresult.RevocationMethodOCSP, serverResult.Server, serverResult.Error)
					continue
				}
				logger.Errorf("Certificate #%d in chain with subject %q encountered an error for revocation method %s at URL %q: %v", (i + 1), cert.Subject, serverResult.RevocationMethod, serverResult.Server, serverResult.Error)
			}
		}
"""
def _log_helper(extra=''):
    return [(V, _SERVER_LOOP, "\t\treportServerErrors(logger, i+1, cert, certResult)\n"),
            (V, _ANCHOR, """func reportServerErrors(out log.Logger, position int, crt *x509.Certificate, one *revocationresult.CertRevocationResult) {
	for _, sr := range one.ServerResults {
		if sr.Error != nil {
			out.Errorf("Certificate #%d in chain with subject %q encountered an error for revocation method %s at URL %q: %v", position, crt.Subject, sr.RevocationMethod, sr.Server, sr.Error)
""" + extra + """		}
	}
}

""" + _ANCHOR)]

VARIANTS += [
 dict(name='benign-server-error-logging-helper', expect='silent', edits=_log_helper()),
 dict(name='logging-helper-downgrades-result', expect='flagged(aggregator/results-read-only)',
      edits=_log_helper("\t\t\tif one.Result == revocationresult.ResultUnknown {\n\t\t\t\tone.Result = revocationresult.ResultNonRevokable\n\t\t\t}\n")),
 dict(name='result-overwritten-between-reads', file=V, expect='flagged(aggregator/results-read-only)',
      find='\t\tif certResult.Result == revocationresult.ResultOK || certResult.Result == revocationresult.ResultNonRevokable {\n\t\t\tnumOKResults++',
      replace='\t\tif certResult.Result == revocationresult.ResultUnknown && i > 0 {\n\t\t\tcertResult.Result = revocationresult.ResultNonRevokable\n\t\t}\n\t\tif certResult.Result == revocationresult.ResultOK || certResult.Result == revocationresult.ResultNonRevokable {\n\t\t\tnumOKResults++'),
]

# shape R: range-over-func loop over the standard slice iterators (decided on the equivalent index loop)
_IMPORT = ('\t"strings"\n\t"time"\n', '\t"strings"\n\tstdslices "slices"\n\t"time"\n')
_LOOP_HEAD = 'for i := len(certResults) - 1; i >= 0; i-- {\n\t\tcert := certChain[i]\n\t\tcertResult := certResults[i]'
def _iter_loop(fn='Backward', arg='certResults', extra=None):
    e = [(V,) + _IMPORT, (V, _LOOP_HEAD, 'for i, certResult := range stdslices.%s(%s) {\n\t\tcert := certChain[i]' % (fn, arg))]
    if extra:
        e.append(extra)
    return e
_NONREV_WARN = '\t\tif i < len(certResults)-1 && certResult.Result == revocationresult.ResultNonRevokable {\n'

VARIANTS += [
 dict(name='benign-range-over-backward-iterator', expect='silent', edits=_iter_loop(),
      why='slices.Backward(s) yields (i, s[i]) for i = len(s)-1..0: same loop as the index form when s is never reassigned'),
 dict(name='benign-range-over-all-iterator', expect='silent', edits=_iter_loop(fn='All')),
 dict(name='iterator-loop-breaks-on-ok', expect='flagged(aggregator/)',
      edits=_iter_loop(extra=(V, _NONREV_WARN, '\t\tif certResult.Result == revocationresult.ResultOK && i == 0 {\n\t\t\tnumOKResults = len(certResults)\n\t\t\tbreak\n\t\t}\n' + _NONREV_WARN))),
 dict(name='iterator-loop-any-ok-wins', expect='flagged(aggregator/decision)',
      edits=_iter_loop(extra=(V, '\tif numOKResults == len(certResults) {\n\t\tfinalResult = revocationresult.ResultOK\n\t}',
                              '\tif numOKResults > 0 && !revokedFound {\n\t\tfinalResult = revocationresult.ResultOK\n\t}'))),
 dict(name='iterator-over-subslice-skips-leaf', expect='flagged(aggregator/)', edits=_iter_loop(arg='certResults[1:]')),
 dict(name='iterator-slice-shrunk-in-body', expect='flagged(aggregator/)',
      edits=_iter_loop(extra=(V, _NONREV_WARN, '\t\tif certResult.Result == revocationresult.ResultUnknown {\n\t\t\tcertResults = certResults[:numOKResults]\n\t\t}\n' + _NONREV_WARN))),
 dict(name='iterator-key-reassigned-in-body', expect='flagged(aggregator/)',
      why='the key of a range-over-func loop is a copy (assigning it misattributes the subject but does not steer the loop); in the three-clause form it would steer the loop: such a loop is not rewritten, hence not recognised',
      edits=[(V,) + _IMPORT, (V, _LOOP_HEAD, 'for i, certResult := range stdslices.Backward(certResults) {\n\t\tif certResult.Result == revocationresult.ResultRevoked {\n\t\t\ti = 0\n\t\t}\n\t\tcert := certChain[i]')]),
 dict(name='iterator-loop-chain-index-off', expect='flagged(aggregator/same-index)',
      edits=[(V,) + _IMPORT, (V, _LOOP_HEAD, 'for i, certResult := range stdslices.Backward(certResults) {\n\t\tcert := certChain[len(certChain)-1-i]')]),
]

# ---- second pass: classes of rewrites ---------------------------------------------------------------------------------
# class K: the result object is built by a constructor (function / method / closure / constructor delegating to a more
# general one / any parameter order / field assigned after the literal), combined with the ways the tail can be written
# (fields stored into the constructed object, error local + one constructor call at the single exit, one return per arm).
# An exit built by the constructor is a failing exit iff what the constructor puts into Error (read off the constructor:
# a parameter, or a non-nil value of its own) is provably non-nil with the arguments of the call site.
_LIT_BOTH_NIL = """		return &notation.ValidationResult{
			Type:   trustpolicy.TypeRevocation,
			Action: outcome.VerificationLevel.Enforcement[trustpolicy.TypeRevocation],
			Error:  fmt.Errorf("unable to check revocation status, code signing revocation validator cannot be nil"),
		}
"""
_LIT_VAL_ERR = """		return &notation.ValidationResult{
			Type:   trustpolicy.TypeRevocation,
			Action: outcome.VerificationLevel.Enforcement[trustpolicy.TypeRevocation],
			Error:  fmt.Errorf("unable to check revocation status, err: %s", err.Error()),
		}
"""
_VAL_ERR_GUARD = '\tif err != nil {\n\t\tlogger.Debug("Error while checking revocation status, err: %s", err.Error())'
_ENTRY_HEAD = '\tlogger := log.GetLogger(ctx)\n\n\tif v.revocationCodeSigningValidator == nil && v.revocationClient == nil {\n'
_E_BOTH_NIL = 'fmt.Errorf("unable to check revocation status, code signing revocation validator cannot be nil")'
_E_VAL_ERR = 'fmt.Errorf("unable to check revocation status, err: %s", err.Error())'
_E_REVOKED = 'fmt.Errorf("signing certificate with subject %q is revoked", problematicCertSubject)'
_E_UNKNOWN = 'fmt.Errorf("signing certificate with subject %q revocation status is unknown", problematicCertSubject)'
_LIT = "&notation.ValidationResult{\n\t\tType:   %s,\n\t\tAction: %s.VerificationLevel.Enforcement[%s],\n%s\t}"
_REV = 'trustpolicy.TypeRevocation'

def _ctor_defs(kind, error_field='\t\tError:  problem,\n', inner_arg='problem'):
    """returns (top-level declarations, statement inserted at the top of verifyRevocation, call(expr))"""
    if kind == 'func':
        return ("func entryOf(o *notation.VerificationOutcome, problem error) *notation.ValidationResult {\n\treturn " + _LIT % (_REV, 'o', _REV, error_field) + "\n}\n\n",
                '', lambda e: 'entryOf(outcome, %s)' % e)
    if kind == 'swapped':
        return ("func entryOf(problem error, o *notation.VerificationOutcome) *notation.ValidationResult {\n\treturn " + _LIT % (_REV, 'o', _REV, error_field) + "\n}\n\n",
                '', lambda e: 'entryOf(%s, outcome)' % e)
    if kind == 'method':
        return ("func (recv *verifier) entryOf(o *notation.VerificationOutcome, problem error) *notation.ValidationResult {\n\treturn " + _LIT % (_REV, 'o', _REV, error_field) + "\n}\n\n",
                '', lambda e: 'v.entryOf(outcome, %s)' % e)
    if kind == 'wrapper':
        return ("func entryOfKind(o *notation.VerificationOutcome, kind trustpolicy.ValidationType, problem error) *notation.ValidationResult {\n\treturn " + _LIT % ('kind', 'o', 'kind', error_field) + "\n}\n\n" +
                "func entryOf(o *notation.VerificationOutcome, cause error) *notation.ValidationResult {\n\treturn entryOfKind(o, " + _REV + ", %s)\n}\n\n" % inner_arg.replace('problem', 'cause'),
                '', lambda e: 'entryOf(outcome, %s)' % e)
    if kind == 'post-store':
        return ("func entryOf(o *notation.VerificationOutcome, problem error) *notation.ValidationResult {\n\tentry := " + _LIT % (_REV, 'o', _REV, '') + "\n" + error_field + "\treturn entry\n}\n\n",
                '', lambda e: 'entryOf(outcome, %s)' % e)
    if kind == 'closure':
        return ('', "\tentryOf := func(problem error) *notation.ValidationResult {\n\t\treturn " + _LIT % (_REV, 'outcome', _REV, error_field) + "\n\t}\n",
                lambda e: 'entryOf(%s)' % e)
    if kind == 'failing-ctor':
        # two constructors: one that formats its own error (always failing), one for the passing entry
        return ("func failedEntry(o *notation.VerificationOutcome, format string, args ...any) *notation.ValidationResult {\n\treturn " + _LIT % (_REV, 'o', _REV, '\t\tError:  fmt.Errorf(format, args...),\n') + "\n}\n\n" +
                "func passedEntry(o *notation.VerificationOutcome) *notation.ValidationResult {\n\treturn " + _LIT % (_REV, 'o', _REV, '') + "\n}\n\n",
                '', None)
    raise ValueError(kind)

def _ctor_shape(kind='func', tail='stores', both_nil=_E_BOTH_NIL, val_err=_E_VAL_ERR, val_guard=None, unknown=_E_UNKNOWN,
                ok_case='case revocationresult.ResultOK:', after_ctor='', **kw):
    decls, local, call = _ctor_defs(kind, **kw)
    if kind == 'failing-ctor':
        def call(e):
            if e == 'nil':
                return 'passedEntry(outcome)'
            assert e.startswith('fmt.Errorf(') and e.endswith(')')
            return 'failedEntry(outcome, ' + e[len('fmt.Errorf('):]
    agg = "\tfinalResult, problematicCertSubject := revocationFinalResult(certResults, outcome.EnvelopeContent.SignerInfo.CertificateChain, logger)\n\tswitch finalResult {\n\t" + ok_case + "\n\t\tlogger.Debug(\"No verification impacting errors encountered while checking revocation, status is OK\")\n"
    if tail == 'stores':
        t = ("\tresult := " + call('nil') + "\n" + agg + "\tcase revocationresult.ResultRevoked:\n\t\tresult.Error = " + _E_REVOKED +
             "\n\tdefault:\n\t\tresult.Error = " + unknown + "\n\t}\n\n\treturn result\n}\n")
    elif tail == 'single-exit':
        t = ("\tvar failure error\n" + agg + "\tcase revocationresult.ResultRevoked:\n\t\tfailure = " + _E_REVOKED +
             "\n\tdefault:\n\t\tfailure = " + unknown + "\n\t}\n\n\treturn " + call('failure') + "\n}\n")
    elif tail == 'returns':
        t = (agg + "\t\treturn " + call('nil') + "\n\tcase revocationresult.ResultRevoked:\n\t\treturn " + call(_E_REVOKED) +
             "\n\t}\n\treturn " + call(unknown) + "\n}\n")
    else:
        raise ValueError(tail)
    edits = [(V, _LIT_BOTH_NIL, "\t\treturn " + call(both_nil) + after_ctor + "\n"),
             (V, _LIT_VAL_ERR, "\t\treturn " + call(val_err) + "\n"),
             (V, _RESULT_TAIL, t)]
    if decls:
        edits.append((V, _ANCHOR, decls + _ANCHOR))
    if local:
        edits.append((V, _ENTRY_HEAD, '\tlogger := log.GetLogger(ctx)\n' + local + '\n\tif v.revocationCodeSigningValidator == nil && v.revocationClient == nil {\n'))
    if val_guard:
        edits.append((V, _VAL_ERR_GUARD, val_guard))
    return edits

_WHY_K = 'the constructor is read for what it puts into Error (a parameter / a non-nil value); the exit fails iff that is non-nil with the arguments of the call'
VARIANTS += [
 dict(name='benign-ctor-func-fields-stored', expect='silent', edits=_ctor_shape(), why=_WHY_K),
 dict(name='benign-ctor-swapped-params-single-exit', expect='silent', edits=_ctor_shape(kind='swapped', tail='single-exit'), why=_WHY_K),
 dict(name='benign-ctor-method-return-per-arm', expect='silent', edits=_ctor_shape(kind='method', tail='returns'), why=_WHY_K),
 dict(name='benign-ctor-delegating-to-general-ctor', expect='silent', edits=_ctor_shape(kind='wrapper'), why=_WHY_K),
 dict(name='benign-ctor-delegating-single-exit', expect='silent', edits=_ctor_shape(kind='wrapper', tail='single-exit'), why=_WHY_K),
 dict(name='benign-ctor-error-assigned-after-literal', expect='silent', edits=_ctor_shape(kind='post-store', error_field='\tentry.Error = problem\n', tail='returns'), why=_WHY_K),
 dict(name='benign-ctor-closure', expect='silent', edits=_ctor_shape(kind='closure'), why=_WHY_K),
 dict(name='benign-ctor-closure-single-exit', expect='silent', edits=_ctor_shape(kind='closure', tail='single-exit'), why=_WHY_K),
 dict(name='benign-ctor-formats-its-own-error', expect='silent', edits=_ctor_shape(kind='failing-ctor', tail='returns'), why=_WHY_K),
 dict(name='benign-ctor-validator-error-passed-unwrapped', expect='silent', edits=_ctor_shape(val_err='err'),
      why='the argument is non-nil by the dominating err != nil branch'),
 # the class with the property broken
 dict(name='ctor-drops-the-error', expect='flagged(result/)', edits=_ctor_shape(error_field='')),
 dict(name='ctor-closure-drops-the-error', expect='flagged(result/)', edits=_ctor_shape(kind='closure', error_field='')),
 dict(name='ctor-sets-error-only-when-enforced', expect='flagged(result/)',
      edits=_ctor_shape(kind='post-store', error_field='\tif entry.Action == trustpolicy.ActionEnforce {\n\t\tentry.Error = problem\n\t}\n')),
 dict(name='ctor-wrapper-passes-nil-on', expect='flagged(result/)', edits=_ctor_shape(kind='wrapper', inner_arg='nil')),
 dict(name='ctor-both-nil-gets-nil-error', expect='flagged(result/both-validators-nil)', edits=_ctor_shape(both_nil='nil')),
 dict(name='ctor-swapped-both-nil-gets-nil-error', expect='flagged(result/both-validators-nil)', edits=_ctor_shape(kind='swapped', tail='single-exit', both_nil='nil')),
 dict(name='ctor-validator-error-maybe-nil', expect='flagged(result/validator-error)',
      edits=_ctor_shape(val_err='err', val_guard='\tif err != nil || len(certResults) == 0 {\n\t\tlogger.Debug("Error while checking revocation status, err: %v", err)')),
 dict(name='ctor-validator-error-ignored', expect='flagged(result/validator-error)',
      edits=_ctor_shape(val_guard='\tif err != nil && certResults == nil {\n\t\tlogger.Debug("Error while checking revocation status, err: %s", err.Error())')),
 dict(name='ctor-unknown-aggregate-returns-nil-error', expect='flagged(result/aggregate-ok)', edits=_ctor_shape(kind='method', tail='returns', unknown='nil')),
 dict(name='ctor-single-exit-unknown-aggregate-passes', expect='flagged(result/aggregate-ok)',
      edits=_ctor_shape(kind='wrapper', tail='single-exit', ok_case='case revocationresult.ResultOK, revocationresult.ResultUnknown:')),
 dict(name='ctor-failing-ctor-unknown-arm-passes', expect='flagged(result/aggregate-ok)',
      edits=[e if e[1] != _RESULT_TAIL else (e[0], e[1], e[2].replace('\t}\n\treturn failedEntry(outcome, "signing certificate with subject %q revocation status is unknown", problematicCertSubject)', '\t}\n\treturn passedEntry(outcome)'))
             for e in _ctor_shape(kind='failing-ctor', tail='returns')]),
]

# class B: helpers extracted at other boundaries / with narrowed or widened parameters. Facts are looked for in every
# function between the function that returns the revocation ValidationResult and the validator / aggregator calls and
# are carried to its frame by substituting parameters with the arguments of the (closed) call sites.
_TIME_AND_DISPATCH = _TIME_BLOCK + _DISPATCH
_AGG_CALL = "\tfinalResult, problematicCertSubject := revocationFinalResult(certResults, outcome.EnvelopeContent.SignerInfo.CertificateChain, logger)\n"
_SWITCH = """	switch finalResult {
	case revocationresult.ResultOK:
		logger.Debug("No verification impacting errors encountered while checking revocation, status is OK")
	case revocationresult.ResultRevoked:
		result.Error = fmt.Errorf("signing certificate with subject %q is revoked", problematicCertSubject)
	default:
		// revocationresult.ResultUnknown
		result.Error = fmt.Errorf("signing certificate with subject %q revocation status is unknown", problematicCertSubject)
	}

	return result
}
"""
_RESULT_LIT = """	result := &notation.ValidationResult{
		Type:   trustpolicy.TypeRevocation,
		Action: outcome.VerificationLevel.Enforcement[trustpolicy.TypeRevocation],
	}
"""
assert _RESULT_TAIL == _RESULT_LIT + _AGG_CALL + _SWITCH

def _narrow(param='signerinfo', chain=None, guard=True, client_time='when'):
    """time computation and dispatch in one helper that is handed less (the SignerInfo) or more (the outcome) than the chain"""
    ptype, arg, path = {
        'signerinfo': ('*signature.SignerInfo', '&outcome.EnvelopeContent.SignerInfo', 'src'),
        'envelope': ('*signature.EnvelopeContent', 'outcome.EnvelopeContent', 'src.SignerInfo'),
        'outcome': ('*notation.VerificationOutcome', 'outcome', 'src.EnvelopeContent.SignerInfo'),
    }[param]
    chain = chain or path + '.CertificateChain'
    time_body = ("\tvar when time.Time\n\tif %s.SignedAttributes.SigningScheme == signature.SigningSchemeX509SigningAuthority {\n\t\twhen, _ = %s.AuthenticSigningTime()\n\t}\n" % (path, path)
                 if guard else "\twhen, _ := %s.AuthenticSigningTime()\n" % path)
    helper = ("func (recv *verifier) consultFor(ctxArg context.Context, src %s) ([]*revocationresult.CertRevocationResult, error) {\n" % ptype + time_body +
              "\tif recv.revocationCodeSigningValidator == nil {\n\t\treturn recv.revocationClient.Validate(%s, %s)\n\t}\n" % (chain, client_time) +
              "\treturn recv.revocationCodeSigningValidator.ValidateContext(ctxArg, revocation.ValidateContextOptions{\n\t\tCertChain:            %s,\n\t\tAuthenticSigningTime: when,\n\t})\n}\n\n" % chain)
    return [(V, _TIME_AND_DISPATCH, "\tcertResults, err := v.consultFor(ctx, %s)\n" % arg), (V, _ANCHOR, helper + _ANCHOR)]

def _verdict_helper(ok_case='case revocationresult.ResultOK:', agg_arg='finalResult'):
    """the switch that turns the aggregate into the result object lives in a helper"""
    helper = ("func entryForAggregate(o *notation.VerificationOutcome, aggregate revocationresult.Result, who string, out log.Logger) *notation.ValidationResult {\n" +
              _RESULT_LIT.replace('outcome.', 'o.') +
              _SWITCH.replace('switch finalResult', 'switch aggregate').replace('case revocationresult.ResultOK:', ok_case).replace('problematicCertSubject', 'who').replace('logger.', 'out.') + "\n")
    return [(V, _RESULT_TAIL, _AGG_CALL + "\treturn entryForAggregate(outcome, %s, problematicCertSubject, logger)\n}\n" % agg_arg), (V, _ANCHOR, helper + _ANCHOR)]

def _aggregate_and_verdict_helper(ok_case='case revocationresult.ResultOK:', results_arg='certResults'):
    """aggregator call and switch in a helper that is handed the validator's results"""
    helper = ("func entryForResults(o *notation.VerificationOutcome, perCert []*revocationresult.CertRevocationResult, out log.Logger) *notation.ValidationResult {\n" +
              _RESULT_LIT.replace('outcome.', 'o.') +
              _AGG_CALL.replace('certResults', 'perCert').replace('outcome.', 'o.').replace('logger', 'out') +
              _SWITCH.replace('case revocationresult.ResultOK:', ok_case).replace('logger.', 'out.') + "\n")
    return [(V, _RESULT_TAIL, "\treturn entryForResults(outcome, %s, logger)\n}\n" % results_arg), (V, _ANCHOR, helper + _ANCHOR)]

def _consult_and_aggregate_helper(err_guard='if err != nil {', on_err='revocationresult.ResultUnknown, "", err', caller_guard=None):
    """time, dispatch, error test and aggregation in a helper that returns (aggregate, subject, error)"""
    helper = ("func (recv *verifier) aggregateFor(ctx context.Context, outcome *notation.VerificationOutcome, logger log.Logger) (revocationresult.Result, string, error) {\n" +
              _TIME_AND_DISPATCH.replace('v.', 'recv.') + "\t" + err_guard + "\n\t\treturn " + on_err + "\n\t}\n" +
              "\tfinalResult, problematicCertSubject := revocationFinalResult(certResults, outcome.EnvelopeContent.SignerInfo.CertificateChain, logger)\n\treturn finalResult, problematicCertSubject, nil\n}\n\n")
    caller = "\tfinalResult, problematicCertSubject, err := v.aggregateFor(ctx, outcome, logger)\n"
    edits = [(V, _TIME_AND_DISPATCH, caller), (V, _RESULT_TAIL, _RESULT_LIT + _SWITCH), (V, _ANCHOR, helper + _ANCHOR)]
    if caller_guard:
        edits.append((V, _VAL_ERR_GUARD, caller_guard))
    return edits

def _inner_after_nil_check(keep_check=True, inner_result=True):
    """the both-nil check stays in the entry, everything else moves to an inner method that returns the result object"""
    head = "func (recv *verifier) revocationEntryChecked(ctx context.Context, outcome *notation.VerificationOutcome, logger log.Logger) *notation.ValidationResult {\n"
    return [(V, _LIT_BOTH_NIL + "\t}\n\n", (_LIT_BOTH_NIL if keep_check else _LIT_BOTH_NIL.replace('\t\t\tError:  ' + _E_BOTH_NIL + ',\n', '')) + "\t}\n\treturn v.revocationEntryChecked(ctx, outcome, logger)\n}\n\n" + head),
            (V, '\tif v.revocationCodeSigningValidator != nil {\n\t\tcertResults, err = v.revocationCodeSigningValidator.ValidateContext(', '\tif recv.revocationCodeSigningValidator != nil {\n\t\tcertResults, err = recv.revocationCodeSigningValidator.ValidateContext('),
            (V, '\t\tcertResults, err = v.revocationClient.Validate(outcome.', '\t\tcertResults, err = recv.revocationClient.Validate(outcome.')]

VARIANTS += [
 dict(name='benign-helper-narrowed-to-signerinfo', expect='silent', edits=_narrow('signerinfo')),
 dict(name='benign-helper-narrowed-to-envelope-content', expect='silent', edits=_narrow('envelope')),
 dict(name='benign-helper-widened-to-outcome', expect='silent', edits=_narrow('outcome')),
 dict(name='narrowed-helper-slices-chain', expect='flagged(args/chain)', edits=_narrow('signerinfo', chain='src.CertificateChain[:1]')),
 dict(name='narrowed-helper-time-unguarded', expect='flagged(args/signing-time-only-for-signing-authority)', edits=_narrow('signerinfo', guard=False)),
 dict(name='widened-helper-client-gets-zero-time', expect='flagged(args/same-signing-time)', edits=_narrow('outcome', client_time='time.Time{}')),
 dict(name='benign-verdict-helper', expect='silent', edits=_verdict_helper()),
 dict(name='verdict-helper-unknown-passes', expect='flagged(result/aggregate-ok)', edits=_verdict_helper(ok_case='case revocationresult.ResultOK, revocationresult.ResultUnknown:')),
 dict(name='verdict-helper-gets-constant-ok', expect='flagged(result/aggregate-ok)',
      edits=[(e[0], e[1], e[2].replace(_AGG_CALL, _AGG_CALL + '\t_ = finalResult\n')) for e in _verdict_helper(agg_arg='revocationresult.ResultOK')]),
 dict(name='benign-aggregate-and-verdict-helper', expect='silent', edits=_aggregate_and_verdict_helper()),
 dict(name='aggregate-and-verdict-helper-nonrevokable-passes', expect='flagged(result/aggregate-ok)',
      edits=_aggregate_and_verdict_helper(ok_case='case revocationresult.ResultOK, revocationresult.ResultNonRevokable:')),
 dict(name='aggregate-and-verdict-helper-gets-truncated-results', expect='flagged(aggregator/results-argument)', edits=_aggregate_and_verdict_helper(results_arg='certResults[:1]')),
 dict(name='benign-consult-and-aggregate-helper', expect='silent', edits=_consult_and_aggregate_helper()),
 dict(name='consult-and-aggregate-helper-swallows-error', expect='flagged(result/validator-error)',
      edits=_consult_and_aggregate_helper(on_err='revocationresult.ResultOK, "", nil')),
 dict(name='consult-and-aggregate-helper-error-ignored-by-caller', expect='flagged(result/validator-error)',
      edits=_consult_and_aggregate_helper(caller_guard='\tif err != nil && finalResult != revocationresult.ResultOK {\n\t\tlogger.Debug("Error while checking revocation status, err: %s", err.Error())')),
 dict(name='benign-inner-method-after-nil-check', expect='silent', edits=_inner_after_nil_check()),
 dict(name='inner-method-entry-passes-with-both-nil', expect='flagged(result/both-validators-nil)', edits=_inner_after_nil_check(keep_check=False)),
]

# class P: how the two receiver fields are tested — held in locals, or by a predicate helper (decided by evaluating the
# helper with both fields nil)
_BOTH_NIL_IF = '\tif v.revocationCodeSigningValidator == nil && v.revocationClient == nil {\n'
def _predicate(body='return recv.revocationCodeSigningValidator != nil || recv.revocationClient != nil', test='!v.canCheckRevocation()'):
    return [(V, _BOTH_NIL_IF, '\tif %s {\n' % test),
            (V, _ANCHOR, "func (recv *verifier) canCheckRevocation() bool {\n\t" + body + "\n}\n\n" + _ANCHOR)]

VARIANTS += [
 dict(name='benign-validators-held-in-locals', expect='silent',
      edits=[(V, _BOTH_NIL_IF, '\tcodeSigning, deprecated := v.revocationCodeSigningValidator, v.revocationClient\n\tif codeSigning == nil && deprecated == nil {\n'),
             (V, '\tif v.revocationCodeSigningValidator != nil {\n\t\tcertResults, err = v.revocationCodeSigningValidator.ValidateContext(', '\tif codeSigning != nil {\n\t\tcertResults, err = codeSigning.ValidateContext('),
             (V, '\t\tcertResults, err = v.revocationClient.Validate(outcome.', '\t\tcertResults, err = deprecated.Validate(outcome.')]),
 dict(name='benign-nil-check-by-predicate-helper', expect='silent', edits=_predicate(),
      why='the helper is evaluated with both fields nil: it can only return false'),
 dict(name='benign-nil-check-by-negative-predicate-helper', expect='silent',
      edits=_predicate(body='if recv.revocationCodeSigningValidator != nil {\n\t\treturn false\n\t}\n\treturn recv.revocationClient == nil', test='v.canCheckRevocation()')),
 dict(name='predicate-helper-looks-at-one-field-only', expect='flagged(result/both-validators-nil)',
      edits=_predicate(body='return recv.revocationCodeSigningValidator != nil || recv.revocationTimestampingValidator != nil')),
 dict(name='predicate-helper-result-inverted', expect='flagged(result/both-validators-nil)', edits=_predicate(test='v.canCheckRevocation()')),
]

# class D: the deprecated client is consulted through an adapter — a type of the module that implements
# revocation.Validator by calling the client — so that the revocation function makes one interface call. Which validator
# is consulted is decided by the value in the interface: selected by a helper (switch), inline, by a helper that also
# reports whether there is one, or handed on to a helper that makes the call. The adapter's call is reached through the
# interface call that dispatches to it (every conversion of the adapter to an interface is followed to the interface calls it
# reaches); what the adapter reads from its options parameter is what that call passes.
_ADAPTER_TYPE = "clientAsValidator"
def _adapter(kind='value', select='helper', opts='upfront', a_chain='o.CertChain', a_time='o.AuthenticSigningTime', a_body=None,
             default_ret='nil', client_case='recv.revocationClient != nil', guard=True, opts_chain='wholeChain', test=None, extra_decl='', extra_stmt='', post_stmt=''):
    recv_t = '*' + _ADAPTER_TYPE if kind == 'pointer' else _ADAPTER_TYPE
    make = lambda who: ('&' if kind == 'pointer' else '') + _ADAPTER_TYPE + '{inner: %s.revocationClient}' % who
    a_body = a_body or "\treturn a.inner.Validate(%s, %s)\n" % (a_chain, a_time)
    decls = ("type " + _ADAPTER_TYPE + " struct {\n\tinner revocation.Revocation\n}\n\n" +
             "func (a " + recv_t + ") ValidateContext(_ context.Context, o revocation.ValidateContextOptions) ([]*revocationresult.CertRevocationResult, error) {\n" + a_body + "}\n\n")
    dflt = default_ret.replace('ADAPTER', make('recv'))
    if select == 'helper' or select == 'consult-helper':
        decls += ("func (recv *verifier) pickRevocationValidator() revocation.Validator {\n\tswitch {\n\tcase recv.revocationCodeSigningValidator != nil:\n\t\treturn recv.revocationCodeSigningValidator\n" +
                  "\tcase " + client_case + ":\n\t\treturn " + make('recv') + "\n\tdefault:\n\t\treturn " + dflt + "\n\t}\n}\n\n")
        head = "\tpicked := v.pickRevocationValidator()\n\tif %s {\n" % (test or 'picked == nil')
    elif select == 'ok-helper':
        decls += ("func (recv *verifier) pickRevocationValidator() (revocation.Validator, bool) {\n\tif recv.revocationCodeSigningValidator != nil {\n\t\treturn recv.revocationCodeSigningValidator, true\n\t}\n" +
                  "\tif " + client_case + " {\n\t\treturn " + make('recv') + ", true\n\t}\n\treturn " + dflt + ", " + ('false' if default_ret == 'nil' else 'true') + "\n}\n\n")
        head = "\tpicked, havePicked := v.pickRevocationValidator()\n\tif %s {\n" % (test or '!havePicked')
    elif select == 'inline':
        head = ("\tvar picked revocation.Validator\n\tif v.revocationCodeSigningValidator != nil {\n\t\tpicked = v.revocationCodeSigningValidator\n\t} else if " + client_case.replace('recv.', 'v.') + " {\n\t\tpicked = " + make('v') + "\n\t}" +
                ("" if default_ret == 'nil' else " else {\n\t\tpicked = " + default_ret.replace('ADAPTER', make('v')) + "\n\t}") + "\n\tif %s {\n" % (test or 'picked == nil'))
    call = 'picked.ValidateContext(ctx, %s)'
    if select == 'consult-helper':
        decls += ("func consultPicked(ctxArg context.Context, chosen revocation.Validator, what revocation.ValidateContextOptions) ([]*revocationresult.CertRevocationResult, error) {\n" +
                  "\treturn chosen.ValidateContext(ctxArg, what)\n}\n\n")
        call = 'consultPicked(ctx, picked, %s)'
    si = 'outcome.EnvelopeContent.SignerInfo'
    if opts == 'upfront':
        assign = "\t\tconsultOpts.AuthenticSigningTime, _ = %s.AuthenticSigningTime()\n" % si
        body = ("\twholeChain := %s.CertificateChain\n\tconsultOpts := revocation.ValidateContextOptions{CertChain: %s}\n" % (si, opts_chain) +
                ("\tif %s.SignedAttributes.SigningScheme == signature.SigningSchemeX509SigningAuthority {\n%s\t}\n" % (si, assign) if guard else assign[1:]) +
                extra_stmt + "\tcertResults, err := " + call % 'consultOpts' + "\n" + post_stmt)
    else:
        body = _TIME_BLOCK + extra_stmt + "\tcertResults, err := " + call % ("revocation.ValidateContextOptions{\n\t\tCertChain:            %s.CertificateChain,\n\t\tAuthenticSigningTime: authenticSigningTime,\n\t}" % si) + "\n"
    return [(V, _BOTH_NIL_IF, head), (V, _TIME_AND_DISPATCH, body), (V, _ANCHOR, decls + extra_decl + _ANCHOR)]

_WHY_D = ('the interface call runs either the configured validator or the adapter method, whose call of the client receives the fields of the options value the interface call passes; '
          'the selecting helper, evaluated with both fields nil, can only return nil')
VARIANTS += [
 dict(name='benign-adapter-value-selected-by-helper', expect='silent', edits=_adapter(), why=_WHY_D),
 dict(name='benign-adapter-pointer-selected-by-helper', expect='silent', edits=_adapter(kind='pointer'), why=_WHY_D),
 dict(name='benign-adapter-options-literal', expect='silent', edits=_adapter(opts='literal'), why=_WHY_D),
 dict(name='benign-adapter-selected-by-ok-helper', expect='silent', edits=_adapter(select='ok-helper'), why=_WHY_D),
 dict(name='benign-adapter-selected-inline', expect='silent', edits=_adapter(select='inline', opts='literal'), why=_WHY_D),
 dict(name='benign-adapter-consulted-by-helper', expect='silent', edits=_adapter(select='consult-helper'), why=_WHY_D),
 dict(name='benign-adapter-pointer-consulted-by-helper-literal', expect='silent', edits=_adapter(kind='pointer', select='consult-helper', opts='literal'), why=_WHY_D),
 dict(name='adapter-hands-leaf-only-to-client', expect='flagged(args/chain-deprecated-client)', edits=_adapter(a_chain='o.CertChain[:1]')),
 dict(name='adapter-truncates-options-before-call', expect='flagged(args/chain-deprecated-client)',
      edits=_adapter(a_body="\tif len(o.CertChain) > 1 {\n\t\to.CertChain = o.CertChain[:1]\n\t}\n\treturn a.inner.Validate(o.CertChain, o.AuthenticSigningTime)\n")),
 dict(name='adapter-hands-zero-time-to-client', expect='flagged(args/same-signing-time)', edits=_adapter(a_time='time.Time{}')),
 dict(name='adapter-pointer-hands-zero-time-to-client', expect='flagged(args/same-signing-time)', edits=_adapter(kind='pointer', select='consult-helper', a_time='time.Time{}')),
 dict(name='adapter-swallows-client-error', expect='flagged(result/validator-error)',
      edits=_adapter(a_body="\tperCert, _ := a.inner.Validate(o.CertChain, o.AuthenticSigningTime)\n\treturn perCert, nil\n")),
 dict(name='adapter-returns-no-results-on-error', expect='flagged(aggregator/results-argument)',
      edits=_adapter(a_body="\tperCert, err := a.inner.Validate(o.CertChain, o.AuthenticSigningTime)\n\tif len(perCert) == 0 {\n\t\treturn []*revocationresult.CertRevocationResult{}, err\n\t}\n\treturn perCert, err\n")),
 dict(name='adapter-options-chain-sliced-upfront', expect='flagged(args/chain)', edits=_adapter(opts_chain='wholeChain[1:]')),
 dict(name='adapter-options-time-unguarded', expect='flagged(args/signing-time-only-for-signing-authority)', edits=_adapter(guard=False)),
 dict(name='adapter-options-time-overwritten-before-call', expect='flagged(args/signing-time-only-for-signing-authority)',
      edits=_adapter(extra_stmt="\tif consultOpts.AuthenticSigningTime.IsZero() {\n\t\tconsultOpts.AuthenticSigningTime = outcome.EnvelopeContent.SignerInfo.SignedAttributes.SigningTime\n\t}\n")),
 dict(name='adapter-helper-wraps-nil-client', expect='flagged(result/both-validators-nil)', edits=_adapter(default_ret='ADAPTER')),
 dict(name='adapter-ok-helper-wraps-nil-client', expect='flagged(result/both-validators-nil)', edits=_adapter(select='ok-helper', default_ret='ADAPTER')),
 dict(name='adapter-inline-wraps-nil-client', expect='flagged(result/both-validators-nil)', edits=_adapter(select='inline', opts='literal', default_ret='ADAPTER')),
 dict(name='adapter-helper-falls-back-to-permissive-validator', expect='flagged(result/)',
      edits=_adapter(default_ret='allGood{}', extra_decl="type allGood struct{}\n\nfunc (allGood) ValidateContext(_ context.Context, o revocation.ValidateContextOptions) ([]*revocationresult.CertRevocationResult, error) {\n" +
                     "\tout := make([]*revocationresult.CertRevocationResult, len(o.CertChain))\n\tfor i := range out {\n\t\tout[i] = &revocationresult.CertRevocationResult{Result: revocationresult.ResultOK}\n\t}\n\treturn out, nil\n}\n\n")),
 dict(name='adapter-nil-test-inverted', expect='flagged(result/)', edits=_adapter(test='picked != nil')),
 dict(name='benign-adapter-formats-its-operands', expect='silent',
      edits=_adapter(a_body="\t_ = fmt.Sprint(a, o)\n\treturn a.inner.Validate(o.CertChain, o.AuthenticSigningTime)\n"),
      why='the adapter converted to an interface is an operand of a formatting call of package fmt only, which calls no method but Format/GoString/Error/String'),
 dict(name='adapter-formats-operands-and-hands-leaf-only', expect='flagged(args/chain-deprecated-client)',
      edits=_adapter(a_body="\t_ = fmt.Sprint(a, o)\n\treturn a.inner.Validate(o.CertChain[:1], o.AuthenticSigningTime)\n")),
 dict(name='adapter-method-also-called-with-leaf-only', expect='flagged(args/chain-deprecated-client)',
      edits=_adapter(post_stmt="\tif len(wholeChain) > 3 && v.revocationClient != nil {\n\t\tcertResults, err = clientAsValidator{inner: v.revocationClient}.ValidateContext(ctx, revocation.ValidateContextOptions{CertChain: wholeChain[:1]})\n\t}\n"),
      why='the adapter method has a second, static, call site that passes a truncated chain'),
]

# class O: the caller's revocation options reach the verifier (seeded C05-6: the deprecated NewWithOptions builds the
# options it forwards as an explicit literal and forgets RevocationCodeSigningValidator; setRevocation installs the
# default validator and the caller's one is never consulted). constructor/options-forwarded/<fn>: a function that was
# handed the caller's options struct passes, in every field the two verifier fields are fed from, its own parameter's
# value of that field.
_NW_BODY = "\topts.OCITrustPolicy = ociTrustPolicy\n\topts.PluginManager = pluginManager\n\treturn NewVerifierWithOptions(trustStore, opts)\n"
_NEW_BODY = "\treturn NewVerifierWithOptions(trustStore, VerifierOptions{\n\t\tOCITrustPolicy: ociTrustPolicy,\n\t\tPluginManager:  pluginManager,\n\t})\n"
_SR_CALL = "\tif err := v.setRevocation(verifierOptions); err != nil {\n"
_SR_SIG = "func (v *verifier) setRevocation(verifierOptions VerifierOptions) error {\n"
_SR_HEAD = _SR_SIG + "\t// timestamping validator\n\trevocationTimestampingValidator := verifierOptions.RevocationTimestampingValidator\n"
_SR_CS = "\trevocationCodeSigningValidator := verifierOptions.RevocationCodeSigningValidator\n"
_SR_CL = "\trevocationClient := verifierOptions.RevocationClient\n"

def _lit(fields, indent='\t\t'):
    w = max(len(k) for k, _ in fields) + 1
    return ''.join('%s%s%s %s,\n' % (indent, k + ':', ' ' * (w - len(k) - 1), v) for k, v in fields)

_ALL = [('OCITrustPolicy', 'ociTrustPolicy'), ('BlobTrustPolicy', 'opts.BlobTrustPolicy'), ('PluginManager', 'pluginManager'),
        ('RevocationClient', 'opts.RevocationClient'), ('RevocationCodeSigningValidator', 'opts.RevocationCodeSigningValidator'),
        ('RevocationTimestampingValidator', 'opts.RevocationTimestampingValidator')]

def _nw_literal(drop=(), swap=None):
    fs = [(k, (swap or {}).get(k, v)) for k, v in _ALL if k not in drop]
    return "\treturn NewVerifierWithOptions(trustStore, VerifierOptions{\n" + _lit(fs) + "\t})\n"

def _nw_local(drop=()):
    return ("\tvar forwarded VerifierOptions\n" + ''.join("\tforwarded.%s = %s\n" % (k, v) for k, v in _ALL if k not in drop) +
            "\treturn NewVerifierWithOptions(trustStore, forwarded)\n")

def _nw_helper(drop=()):
    # the literal is built by a helper from the caller's options and the positional arguments
    return [(V, _NW_BODY, "\treturn NewVerifierWithOptions(trustStore, positionalOptions(pluginManager, ociTrustPolicy, opts))\n}\n\n" +
             "func positionalOptions(pm plugin.Manager, doc *trustpolicy.OCIDocument, given VerifierOptions) VerifierOptions {\n" +
             "\treturn VerifierOptions{\n" + _lit([(k, v.replace('opts.', 'given.').replace('ociTrustPolicy', 'doc').replace('pluginManager', 'pm')) for k, v in _ALL if k not in drop]) + "\t}\n")]

_SEPARATE = [
    (V, _SR_HEAD, "func (v *verifier) setRevocation(revocationTimestampingValidator, codeSigning revocation.Validator, client revocation.Revocation) error {\n"),
    (V, _SR_CS, "\trevocationCodeSigningValidator := codeSigning\n"),
    (V, _SR_CL, "\trevocationClient := client\n"),
]

VARIANTS += [
 # the slip, in the seed's shape and in others
 dict(name='options-literal-forgets-context-validator', expect='flagged(constructor/options-forwarded)',
      edits=[(V, _NW_BODY, _nw_literal(drop=('RevocationCodeSigningValidator',)))]),
 dict(name='options-literal-forgets-context-validator-new-delegates', expect='flagged(constructor/options-forwarded)',
      edits=[(V, _NW_BODY, _nw_literal(drop=('RevocationCodeSigningValidator',))),
             (V, _NEW_BODY, "\treturn NewWithOptions(ociTrustPolicy, trustStore, pluginManager, VerifierOptions{})\n")]),
 dict(name='options-literal-forgets-deprecated-client', expect='flagged(constructor/options-forwarded)',
      edits=[(V, _NW_BODY, _nw_literal(drop=('RevocationClient',)))]),
 dict(name='options-literal-takes-timestamping-validator-for-code-signing', expect='flagged(constructor/options-forwarded)',
      edits=[(V, _NW_BODY, _nw_literal(swap={'RevocationCodeSigningValidator': 'opts.RevocationTimestampingValidator'}))]),
 dict(name='options-local-filled-in-forgets-context-validator', expect='flagged(constructor/options-forwarded)',
      edits=[(V, _NW_BODY, _nw_local(drop=('RevocationCodeSigningValidator',)))]),
 dict(name='options-helper-literal-forgets-context-validator', expect='flagged(constructor/options-forwarded)',
      edits=_nw_helper(drop=('RevocationCodeSigningValidator',))),
 dict(name='options-general-ctor-hands-partial-copy-to-setter', expect='flagged(constructor/options-forwarded)',
      edits=[(V, _SR_CALL, "\tif err := v.setRevocation(VerifierOptions{\n\t\tRevocationCodeSigningValidator:  verifierOptions.RevocationCodeSigningValidator,\n" +
              "\t\tRevocationTimestampingValidator: verifierOptions.RevocationTimestampingValidator,\n\t}); err != nil {\n")]),
 dict(name='options-context-validator-reset-when-client-given', expect='flagged(constructor/options-forwarded)',
      edits=[(V, _NW_BODY, "\topts.OCITrustPolicy = ociTrustPolicy\n\topts.PluginManager = pluginManager\n\tif opts.RevocationClient != nil {\n\t\topts.RevocationCodeSigningValidator = nil\n\t}\n\treturn NewVerifierWithOptions(trustStore, opts)\n")]),
 dict(name='options-default-installed-over-caller-validator', expect='flagged(constructor/options-forwarded)',
      edits=[(V, _SR_CALL, "\tif verifierOptions.RevocationClient == nil {\n\t\tbuiltin, err := revocation.NewWithOptions(revocation.Options{\n\t\t\tOCSPHTTPClient:   &http.Client{Timeout: 2 * time.Second},\n" +
              "\t\t\tCertChainPurpose: purpose.CodeSigning,\n\t\t})\n\t\tif err != nil {\n\t\t\treturn nil, err\n\t\t}\n\t\tverifierOptions.RevocationCodeSigningValidator = builtin\n\t}\n" + _SR_CALL)]),
 dict(name='options-setter-separate-params-client-not-passed', expect='flagged(constructor/option-source)',
      edits=_SEPARATE + [(V, _SR_CALL, "\tif err := v.setRevocation(verifierOptions.RevocationTimestampingValidator, verifierOptions.RevocationCodeSigningValidator, nil); err != nil {\n")]),
 dict(name='options-pointer-copy-forgets-context-validator', expect='flagged(constructor/options-forwarded)',
      edits=[(V, _SR_SIG, "func (v *verifier) setRevocation(given *VerifierOptions) error {\n\tverifierOptions := *given\n"),
             (V, _SR_CALL, "\tpartial := VerifierOptions{RevocationClient: verifierOptions.RevocationClient, RevocationTimestampingValidator: verifierOptions.RevocationTimestampingValidator}\n\tif err := v.setRevocation(&partial); err != nil {\n")]),
 # behaviour-preserving shapes of the same code
 dict(name='benign-options-literal-complete', expect='silent', edits=[(V, _NW_BODY, _nw_literal())],
      why='the benign twin of seeded C05-6: the literal copies every revocation field from the caller\'s options'),
 dict(name='benign-options-literal-complete-new-delegates', expect='silent',
      edits=[(V, _NW_BODY, _nw_literal()), (V, _NEW_BODY, "\treturn NewWithOptions(ociTrustPolicy, trustStore, pluginManager, VerifierOptions{})\n")],
      why='New has no options of a caller to hand on: the empty options it passes are its own configuration'),
 dict(name='benign-options-local-filled-in-field-by-field', expect='silent', edits=[(V, _NW_BODY, _nw_local())],
      why='every revocation field of the local is stored from the same field of the parameter before the call'),
 dict(name='benign-options-literal-then-copy-assigned', expect='silent',
      edits=[(V, _NW_BODY, "\tforwarded := VerifierOptions{OCITrustPolicy: ociTrustPolicy, PluginManager: pluginManager}\n\tforwarded.BlobTrustPolicy = opts.BlobTrustPolicy\n" +
              "\tforwarded.RevocationClient = opts.RevocationClient\n\tforwarded.RevocationCodeSigningValidator = opts.RevocationCodeSigningValidator\n" +
              "\tforwarded.RevocationTimestampingValidator = opts.RevocationTimestampingValidator\n\treturn NewVerifierWithOptions(trustStore, forwarded)\n")],
      why='the zero value the literal leaves in the revocation fields is overwritten on every path to the call'),
 dict(name='benign-options-built-by-helper', expect='silent', edits=_nw_helper(),
      why='the helper is followed with the arguments of the call: its literal copies the revocation fields of what it is given'),
 dict(name='benign-options-setter-takes-pointer', expect='silent',
      edits=[(V, _SR_SIG, "func (v *verifier) setRevocation(given *VerifierOptions) error {\n\tverifierOptions := *given\n"),
             (V, _SR_CALL, "\tif err := v.setRevocation(&verifierOptions); err != nil {\n")],
      why='the address of the parameter\'s own cell is handed on: the cell holds the parameter'),
 dict(name='benign-options-setter-separate-params', expect='silent',
      edits=_SEPARATE + [(V, _SR_CALL, "\tif err := v.setRevocation(verifierOptions.RevocationTimestampingValidator, verifierOptions.RevocationCodeSigningValidator, verifierOptions.RevocationClient); err != nil {\n")],
      why='the slice from the verifier fields goes through the setter\'s parameters to the fields read in the general constructor'),
 dict(name='benign-options-default-filled-in-by-general-ctor', expect='silent',
      edits=[(V, _SR_CALL, "\tif verifierOptions.RevocationCodeSigningValidator == nil && verifierOptions.RevocationClient == nil {\n\t\tbuiltin, err := revocation.NewWithOptions(revocation.Options{\n\t\t\tOCSPHTTPClient:   &http.Client{Timeout: 2 * time.Second},\n" +
              "\t\t\tCertChainPurpose: purpose.CodeSigning,\n\t\t})\n\t\tif err != nil {\n\t\t\treturn nil, err\n\t\t}\n\t\tverifierOptions.RevocationCodeSigningValidator = builtin\n\t}\n" + _SR_CALL)],
      why='the default is stored only where the caller\'s validator was found nil'),
 dict(name='benign-options-copied-to-local-first', expect='silent',
      edits=[(V, _NW_BODY, "\tforwarded := opts\n\tforwarded.OCITrustPolicy, forwarded.PluginManager = ociTrustPolicy, pluginManager\n\treturn NewVerifierWithOptions(trustStore, forwarded)\n")],
      why='a whole copy of the parameter with two other fields overridden by positional parameters'),
]

# class O, clause 3: the default yields to what the caller supplied (constructor/default-yields/<fn>)
_SR_TAIL = ("\trevocationCodeSigningValidator := verifierOptions.RevocationCodeSigningValidator\n\tif revocationCodeSigningValidator != nil {\n\t\tv.revocationCodeSigningValidator = revocationCodeSigningValidator\n\t\treturn nil\n\t}\n" +
            "\trevocationClient := verifierOptions.RevocationClient\n\tif revocationClient != nil {\n\t\tv.revocationClient = revocationClient\n\t\treturn nil\n\t}\n\n" +
            "\t// both RevocationCodeSigningValidator and RevocationClient are nil\n\trevocationCodeSigningValidator, err = revocation.NewWithOptions(revocation.Options{\n\t\tOCSPHTTPClient:   &http.Client{Timeout: 2 * time.Second},\n" +
            "\t\tCertChainPurpose: purpose.CodeSigning,\n\t})\n\tif err != nil {\n\t\treturn err\n\t}\n\tv.revocationCodeSigningValidator = revocationCodeSigningValidator\n\treturn nil\n}\n")
_DEF = "revocation.NewWithOptions(revocation.Options{\n\t\tOCSPHTTPClient:   &http.Client{Timeout: 2 * time.Second},\n\t\tCertChainPurpose: purpose.CodeSigning,\n\t})"
VARIANTS += [
 dict(name='setter-falls-through-after-caller-validator', expect='flagged(constructor/default-yields)',
      find="\tif revocationCodeSigningValidator != nil {\n\t\tv.revocationCodeSigningValidator = revocationCodeSigningValidator\n\t\treturn nil\n\t}\n",
      replace="\tif revocationCodeSigningValidator != nil {\n\t\tv.revocationCodeSigningValidator = revocationCodeSigningValidator\n\t}\n", file=V),
 dict(name='setter-falls-through-after-caller-client', expect='flagged(constructor/default-yields)',
      find="\tif revocationClient != nil {\n\t\tv.revocationClient = revocationClient\n\t\treturn nil\n\t}\n",
      replace="\tif revocationClient != nil {\n\t\tv.revocationClient = revocationClient\n\t}\n", file=V),
 dict(name='setter-switch-default-arm-merged-with-client-arm', expect='flagged(constructor/default-yields)',
      edits=[(V, _SR_TAIL, "\tswitch {\n\tcase verifierOptions.RevocationCodeSigningValidator != nil:\n\t\tv.revocationCodeSigningValidator = verifierOptions.RevocationCodeSigningValidator\n\t\treturn nil\n" +
              "\tcase verifierOptions.RevocationClient != nil:\n\t\tv.revocationClient = verifierOptions.RevocationClient\n\t\tfallthrough\n\tdefault:\n\t\tbuiltin, err := " + _DEF.replace('\n\t', '\n\t\t') + "\n\t\tif err != nil {\n\t\t\treturn err\n\t\t}\n" +
              "\t\tv.revocationCodeSigningValidator = builtin\n\t}\n\treturn nil\n}\n")]),
 dict(name='benign-setter-switch', expect='silent',
      edits=[(V, _SR_TAIL, "\tswitch {\n\tcase verifierOptions.RevocationCodeSigningValidator != nil:\n\t\tv.revocationCodeSigningValidator = verifierOptions.RevocationCodeSigningValidator\n" +
              "\tcase verifierOptions.RevocationClient != nil:\n\t\tv.revocationClient = verifierOptions.RevocationClient\n\tdefault:\n\t\tbuiltin, err := " + _DEF.replace('\n\t', '\n\t\t') + "\n\t\tif err != nil {\n\t\t\treturn err\n\t\t}\n" +
              "\t\tv.revocationCodeSigningValidator = builtin\n\t}\n\treturn nil\n}\n")],
      why='the default arm is reached only through the nil edges of both tests'),
 dict(name='benign-setter-default-from-helper', expect='silent',
      edits=[(V, _SR_TAIL, _SR_TAIL.replace("revocationCodeSigningValidator, err = " + _DEF, "revocationCodeSigningValidator, err = builtinCodeSigningValidator()") +
              "\nfunc builtinCodeSigningValidator() (revocation.Validator, error) {\n\treturn " + _DEF + "\n}\n")],
      why='the helper result is a default; it is stored where both options were found nil'),
 dict(name='setter-helper-method-also-called-unguarded', expect='flagged(constructor/default-yields)',
      edits=[(V, _SR_TAIL, "\tif verifierOptions.RevocationCodeSigningValidator != nil {\n\t\tv.revocationCodeSigningValidator = verifierOptions.RevocationCodeSigningValidator\n\t\treturn nil\n\t}\n" +
              "\tif verifierOptions.RevocationClient != nil {\n\t\tv.revocationClient = verifierOptions.RevocationClient\n\t}\n\treturn v.useBuiltinCodeSigningValidator()\n}\n\n" +
              "func (v *verifier) useBuiltinCodeSigningValidator() error {\n\tbuiltin, err := " + _DEF + "\n\tif err != nil {\n\t\treturn err\n\t}\n\tv.revocationCodeSigningValidator = builtin\n\treturn nil\n}\n")]),
]

# class H: the store of the verifier field sits in a helper (constructor/<fn> composed through the helper)
# constructor/<fn> is decided on "store points": a direct store of a non-nil value, the success edge / the forwarding
# return of a call of a module function every success exit of which has passed a store point of its own, the store of
# a helper's result that is non-nil on every success exit of the helper.
_SR_ARMS = ("\tif verifierOptions.RevocationCodeSigningValidator != nil {\n\t\tv.revocationCodeSigningValidator = verifierOptions.RevocationCodeSigningValidator\n\t\treturn nil\n\t}\n" +
            "\tif verifierOptions.RevocationClient != nil {\n\t\tv.revocationClient = verifierOptions.RevocationClient\n\t\treturn nil\n\t}\n")
def _builtin_method(body=None, name='useBuiltinCodeSigningValidator', sig='error'):
    body = body or ("\tbuiltin, err := " + _DEF + "\n\tif err != nil {\n\t\treturn err\n\t}\n\tv.revocationCodeSigningValidator = builtin\n\treturn nil\n")
    return "\nfunc (v *verifier) %s() %s {\n%s}\n" % (name, sig, body)
def _setter_with_method(call="\treturn v.useBuiltinCodeSigningValidator()\n", arms=_SR_ARMS, **kw):
    return [(V, _SR_TAIL, arms + call + "}\n" + _builtin_method(**kw))]
_CHECKED = "\tif err := v.useBuiltinCodeSigningValidator(); err != nil {\n\t\treturn err\n\t}\n\treturn nil\n"
_SWITCH_ARMS = ("\tswitch {\n\tcase verifierOptions.RevocationCodeSigningValidator != nil:\n\t\tv.revocationCodeSigningValidator = verifierOptions.RevocationCodeSigningValidator\n" +
                "\tcase verifierOptions.RevocationClient != nil:\n\t\tv.revocationClient = verifierOptions.RevocationClient\n\tdefault:\n%s\t}\n%s")
_B_OK = "\tbuiltin, err := " + _DEF + "\n\tif err != nil {\n\t\treturn err\n\t}\n"
# the whole choice is made by a helper that returns the chosen pair; the caller stores both
def _choose(ret_default="\treturn builtin, nil, nil\n", caller_check="\tif err != nil {\n\t\treturn err\n\t}\n", cs_field='revocationCodeSigningValidator',
            client_arm="\tif given.RevocationClient != nil {\n\t\treturn nil, given.RevocationClient, nil\n\t}\n", on_err="\t\treturn nil, nil, err\n", arg='verifierOptions'):
    return [(V, _SR_TAIL, "\tchosen, legacy, err := chooseCodeSigningRevocation(" + arg + ")\n" + caller_check +
             "\tv.%s = chosen\n\tv.revocationClient = legacy\n\treturn nil\n}\n\n" % cs_field +
             "func chooseCodeSigningRevocation(given VerifierOptions) (revocation.Validator, revocation.Revocation, error) {\n" +
             "\tif given.RevocationCodeSigningValidator != nil {\n\t\treturn given.RevocationCodeSigningValidator, nil, nil\n\t}\n" + client_arm +
             "\tbuiltin, err := " + _DEF + "\n\tif err != nil {\n" + on_err + "\t}\n" + ret_default + "}\n")]
# the default validator is returned by a helper that checks the constructor's error itself
def _default_value_helper(ret="\treturn builtin, nil\n", caller_check="\tif err != nil {\n\t\treturn err\n\t}\n", field='revocationCodeSigningValidator'):
    return [(V, _SR_TAIL, _SR_ARMS + "\tfallback, err := builtinCodeSigningValidator()\n" + caller_check + "\tv.%s = fallback\n\treturn nil\n}\n\n" % field +
             "func builtinCodeSigningValidator() (revocation.Validator, error) {\n\tbuiltin, err := " + _DEF + "\n\tif err != nil {\n\t\treturn nil, err\n\t}\n" + ret + "}\n")]
# the caller's choice is adopted by a boolean helper
def _adopt(ret_client="\t\treturn true\n", test="v.adoptCallerRevocation(verifierOptions)"):
    return [(V, _SR_TAIL, "\tif " + test + " {\n\t\treturn nil\n\t}\n" + _B_OK + "\tv.revocationCodeSigningValidator = builtin\n\treturn nil\n}\n\n" +
             "func (v *verifier) adoptCallerRevocation(given VerifierOptions) bool {\n\tif given.RevocationCodeSigningValidator != nil {\n\t\tv.revocationCodeSigningValidator = given.RevocationCodeSigningValidator\n\t\treturn true\n\t}\n" +
             "\tif given.RevocationClient != nil {\n\t\tv.revocationClient = given.RevocationClient\n" + ret_client + "\t}\n\treturn false\n}\n")]
def _void_setters(client_arm="\tif verifierOptions.RevocationClient != nil {\n\t\tv.useClient(verifierOptions.RevocationClient)\n\t\treturn nil\n\t}\n", client_body="\tv.revocationClient = legacy\n", first=True):
    val_arm = "\tif verifierOptions.RevocationCodeSigningValidator != nil {\n\t\tv.useValidator(verifierOptions.RevocationCodeSigningValidator)\n\t\treturn nil\n\t}\n"
    arms = val_arm + client_arm if first else client_arm + val_arm
    return [(V, _SR_TAIL, arms + _B_OK + "\tv.revocationCodeSigningValidator = builtin\n\treturn nil\n}\n\n" +
             "func (v *verifier) useValidator(chosen revocation.Validator) {\n\tv.revocationCodeSigningValidator = chosen\n}\n\n" +
             "func (v *verifier) useClient(legacy revocation.Revocation) {\n" + client_body + "}\n")]
_WHY_H = 'a success exit of the setter that runs through the helper call is a success exit of the helper, and every success exit of the helper has stored a non-nil validator into the verifier it was handed'
VARIANTS += [
 dict(name='benign-setter-default-stored-by-helper-method-tail-call', expect='silent', edits=_setter_with_method(), why=_WHY_H),
 dict(name='benign-setter-default-stored-by-helper-method-error-checked', expect='silent', edits=_setter_with_method(call=_CHECKED), why=_WHY_H),
 dict(name='benign-setter-switch-default-arm-calls-helper-method', expect='silent',
      edits=_setter_with_method(arms='', call=_SWITCH_ARMS % ("\t\treturn v.useBuiltinCodeSigningValidator()\n", "\treturn nil\n")), why=_WHY_H),
 dict(name='benign-setter-switch-single-exit-error-local', expect='silent',
      edits=_setter_with_method(arms='', call="\tvar failure error\n" + _SWITCH_ARMS % ("\t\tfailure = v.useBuiltinCodeSigningValidator()\n", "\treturn failure\n")),
      why='the single return forwards, on the edge from the default arm, the error of the helper call; on the other edges it is nil after a direct store'),
 dict(name='benign-setter-switch-on-true-with-init', expect='silent',
      edits=[(V, _SR_TAIL, "\tswitch chosen, legacy := verifierOptions.RevocationCodeSigningValidator, verifierOptions.RevocationClient; {\n\tcase chosen != nil:\n\t\tv.revocationCodeSigningValidator = chosen\n\t\treturn nil\n" +
              "\tcase legacy != nil:\n\t\tv.revocationClient = legacy\n\t\treturn nil\n\t}\n" + _B_OK + "\tv.revocationCodeSigningValidator = builtin\n\treturn nil\n}\n")],
      why='switch arms that return; the default is stored after the switch'),
 dict(name='benign-setter-helper-method-two-levels', expect='silent',
      edits=[(V, _SR_TAIL, _SR_ARMS + "\treturn v.installDefaults()\n}\n\nfunc (v *verifier) installDefaults() error {\n\tif err := v.useBuiltinCodeSigningValidator(); err != nil {\n\t\treturn fmt.Errorf(\"default revocation validator: %w\", err)\n\t}\n\treturn nil\n}\n" + _builtin_method())],
      why='composed twice: the middle helper succeeds only through the success edge of the storing helper'),
 dict(name='benign-setter-default-value-from-checking-helper', expect='silent', edits=_default_value_helper(),
      why='every success exit of the helper returns the constructor\'s value after its error was found nil; the caller stores it after the helper\'s error was found nil'),
 dict(name='benign-setter-choice-returned-by-helper', expect='silent', edits=_choose(),
      why='on every success exit of the helper one of the two values is non-nil; the caller stores both after the error check'),
 dict(name='benign-setter-caller-choice-adopted-by-bool-helper', expect='silent', edits=_adopt(),
      why='every exit of the helper that returns true has stored a non-nil field; the setter returns early only on the true edge'),
 # broken counterparts
 dict(name='setter-helper-method-succeeds-without-storing', expect='flagged(constructor/)',
      edits=_setter_with_method(body="\tbuiltin, err := " + _DEF + "\n\tif err != nil {\n\t\treturn nil\n\t}\n\tv.revocationCodeSigningValidator = builtin\n\treturn nil\n")),
 dict(name='setter-helper-method-stores-only-when-asked', expect='flagged(constructor/)',
      edits=_setter_with_method(body="\tif v.pluginManager == nil {\n\t\treturn nil\n\t}\n" + _B_OK + "\tv.revocationCodeSigningValidator = builtin\n\treturn nil\n")),
 dict(name='setter-helper-method-error-ignored', expect='flagged(constructor/)',
      edits=_setter_with_method(call="\t_ = v.useBuiltinCodeSigningValidator()\n\treturn nil\n")),
 dict(name='setter-helper-method-error-logged-not-returned', expect='flagged(constructor/)',
      edits=_setter_with_method(call="\tif err := v.useBuiltinCodeSigningValidator(); err != nil {\n\t\tlog.GetLogger(context.Background()).Warn(err)\n\t}\n\treturn nil\n")),
 dict(name='setter-helper-method-stores-timestamping-field', expect='flagged(constructor/)',
      edits=_setter_with_method(body=_B_OK + "\tv.revocationTimestampingValidator = builtin\n\treturn nil\n")),
 dict(name='setter-helper-method-stores-into-another-verifier', expect='flagged(constructor/)',
      edits=_setter_with_method(body=_B_OK + "\tother := &verifier{}\n\tother.revocationCodeSigningValidator = builtin\n\treturn nil\n")),
 dict(name='setter-switch-default-arm-forgets-helper', expect='flagged(constructor/)',
      edits=_setter_with_method(arms='', call=_SWITCH_ARMS % ("\t\tbreak\n", "\treturn nil\n"))),
 dict(name='setter-switch-single-exit-helper-error-dropped', expect='flagged(constructor/)',
      edits=_setter_with_method(arms='', call="\tvar failure error\n" + _SWITCH_ARMS % ("\t\t_ = v.useBuiltinCodeSigningValidator()\n", "\treturn failure\n"))),
 dict(name='setter-two-levels-middle-helper-swallows-error', expect='flagged(constructor/)',
      edits=[(V, _SR_TAIL, _SR_ARMS + "\treturn v.installDefaults()\n}\n\nfunc (v *verifier) installDefaults() error {\n\tif err := v.useBuiltinCodeSigningValidator(); err != nil {\n\t\tlog.GetLogger(context.Background()).Warn(err)\n\t}\n\treturn nil\n}\n" + _builtin_method())]),
 dict(name='setter-default-value-helper-result-stored-unchecked', expect='flagged(constructor/)', edits=_default_value_helper(caller_check="\t_ = err\n")),
 dict(name='setter-default-value-helper-may-return-nil-nil', expect='flagged(constructor/)',
      edits=_default_value_helper(ret="\tif time.Now().IsZero() {\n\t\treturn nil, nil\n\t}\n\treturn builtin, nil\n")),
 dict(name='setter-default-value-helper-stored-into-timestamping-field', expect='flagged(constructor/)', edits=_default_value_helper(field='revocationTimestampingValidator')),
 dict(name='setter-choice-helper-result-stored-unchecked', expect='flagged(constructor/)', edits=_choose(caller_check="\t_ = err\n")),
 dict(name='setter-choice-helper-default-arm-returns-nothing', expect='flagged(constructor/)', edits=_choose(ret_default="\t_ = builtin\n\treturn nil, nil, nil\n")),
 dict(name='setter-choice-helper-swallows-constructor-error', expect='flagged(constructor/)', edits=_choose(on_err="\t\treturn nil, nil, nil\n")),
 dict(name='setter-choice-stored-into-timestamping-field', expect='flagged(constructor/)', edits=_choose(cs_field='revocationTimestampingValidator')),
 dict(name='setter-bool-helper-says-true-without-storing-client', expect='flagged(constructor/)',
      edits=[(e[0], e[1], e[2].replace("\t\tv.revocationClient = given.RevocationClient\n", "")) for e in _adopt()]),
 dict(name='setter-bool-helper-result-inverted', expect='flagged(constructor/)', edits=_adopt(test="!v.adoptCallerRevocation(verifierOptions)")),
 # the default yields to the caller's choice inside the choosing helper (constructor/default-yields sees the helper's nil tests)
 dict(name='setter-choice-helper-default-next-to-caller-client', expect='flagged(constructor/default-yields)',
      edits=_choose(client_arm='', ret_default="\tif given.RevocationClient != nil {\n\t\treturn builtin, given.RevocationClient, nil\n\t}\n\treturn builtin, nil, nil\n")),
 dict(name='setter-choice-helper-handed-partial-options', expect='flagged(constructor/options-forwarded)',
      edits=_choose(arg='VerifierOptions{RevocationCodeSigningValidator: verifierOptions.RevocationCodeSigningValidator}')),
 dict(name='setter-choice-helper-handed-empty-options', expect='flagged(constructor/)', edits=_choose(arg='VerifierOptions{}')),
 dict(name='setter-bool-helper-false-although-client-adopted', expect='flagged(constructor/default-yields)', edits=_adopt(ret_client="\t\treturn false\n")),
 dict(name='setter-bool-helper-handed-empty-options', expect='flagged(constructor/)', edits=_adopt(test="v.adoptCallerRevocation(VerifierOptions{})")),
 # the caller's values are stored by setters without a result: the stored parameter is judged at the call
 dict(name='benign-setter-caller-values-stored-by-void-helpers', expect='silent', edits=_void_setters(),
      why='the helper stores its parameter; at each call the argument was found non-nil'),
 dict(name='setter-void-helper-called-with-possibly-nil-client', expect='flagged(constructor/)',
      edits=_void_setters(client_arm="\tif verifierOptions.RevocationCodeSigningValidator == nil {\n\t\tv.useClient(verifierOptions.RevocationClient)\n\t\treturn nil\n\t}\n", first=False)),
 dict(name='setter-void-helper-stores-only-sometimes', expect='flagged(constructor/)',
      edits=_void_setters(client_body="\tif v.pluginManager != nil {\n\t\tv.revocationClient = legacy\n\t}\n")),
]

# ---- guards weakened by an extra conjunct (guard-mutation campaign) --------------------------------------------------
# The must-pass rules (result/*, aggregator/*) are not attached to the existence of the test: a guard that is no longer
# taken on some path (`false && (C)`, or a realistic conjunct built from what is in scope) is flagged; the same guard
# spelled differently (operands swapped, tagless switch, bool local, predicate helper) is not.
_ERR_GUARD = '\tif err != nil {\n\t\tlogger.Debug("Error while checking revocation status, err: %s", err.Error())'
def _err_guard(cond):
    return _ERR_GUARD.replace('if err != nil {', 'if %s {' % cond)
_ERR_BLOCK = """	if err != nil {
		logger.Debug("Error while checking revocation status, err: %s", err.Error())
		return &notation.ValidationResult{
			Type:   trustpolicy.TypeRevocation,
			Action: outcome.VerificationLevel.Enforcement[trustpolicy.TypeRevocation],
			Error:  fmt.Errorf("unable to check revocation status, err: %s", err.Error()),
		}
	}
"""
_ERR_BODY = _ERR_BLOCK.split('\n', 1)[1].rsplit('\t}\n', 1)[0]
_AGG_SWITCH = """	switch finalResult {
	case revocationresult.ResultOK:
		logger.Debug("No verification impacting errors encountered while checking revocation, status is OK")
	case revocationresult.ResultRevoked:
		result.Error = fmt.Errorf("signing certificate with subject %q is revoked", problematicCertSubject)
	default:
		// revocationresult.ResultUnknown
		result.Error = fmt.Errorf("signing certificate with subject %q revocation status is unknown", problematicCertSubject)
	}
"""
def _agg_if(cond):
    return """	if %s {
		if finalResult == revocationresult.ResultRevoked {
			result.Error = fmt.Errorf("signing certificate with subject %%q is revoked", problematicCertSubject)
		} else {
			result.Error = fmt.Errorf("signing certificate with subject %%q revocation status is unknown", problematicCertSubject)
		}
	} else {
		logger.Debug("No verification impacting errors encountered while checking revocation, status is OK")
	}
""" % cond
_BEFORE_AGG = '// revocationFinalResult returns the final'
def _with_helper(find, replace, helper):
    return [(V, find, replace), (V, _BEFORE_AGG, helper + '\n' + _BEFORE_AGG)]
_BOTH_NIL = '\tif v.revocationCodeSigningValidator == nil && v.revocationClient == nil {\n\t\treturn &notation.ValidationResult{'
_CHAIN = 'outcome.EnvelopeContent.SignerInfo.CertificateChain'
_WHY_G = 'the accepted fact is the must-pass fact on the value that hands on the validator error / the aggregate, whichever branch (of the function or of a predicate helper the engine composed) established it'

VARIANTS += [
 # the validator's error
 dict(name='validator-error-guard-only-for-chains-longer-than-one', file=V, expect='flagged(result/validator-error)',
      find=_ERR_GUARD, replace=_err_guard('len(%s) > 1 && err != nil' % _CHAIN)),
 dict(name='validator-error-guard-disabled-by-false-conjunct', file=V, expect='flagged(result/validator-error)',
      find=_ERR_GUARD, replace=_err_guard('false && (err != nil)')),
 dict(name='validator-error-guard-only-when-enforced', file=V, expect='flagged(result/validator-error)',
      find=_ERR_GUARD, replace=_err_guard('outcome.VerificationLevel.Enforcement[trustpolicy.TypeRevocation] == trustpolicy.ActionEnforce && err != nil')),
 dict(name='validator-error-guard-nested-under-empty-results', file=V, expect='flagged(result/validator-error)',
      find=_ERR_BLOCK, replace='\tif len(certResults) == 0 {\n' + _ERR_BLOCK + '\t}\n'),
 dict(name='validator-error-predicate-helper-skips-single-certificate-chains', expect='flagged(result/validator-error)',
      edits=_with_helper(_ERR_GUARD, _err_guard('consultationFailed(err, %s)' % _CHAIN),
                         'func consultationFailed(problem error, chain []*x509.Certificate) bool {\n\treturn len(chain) > 1 && problem != nil\n}\n')),
 dict(name='validator-error-predicate-helper-asked-about-another-error', expect='flagged(result/validator-error)',
      edits=_with_helper(_ERR_GUARD, _err_guard('consultationFailed(ctx.Err()) && err != nil'),
                         'func consultationFailed(problem error) bool {\n\treturn problem != nil\n}\n')),
 dict(name='benign-validator-error-test-operands-swapped', file=V, expect='silent', find=_ERR_GUARD, replace=_err_guard('nil != err')),
 dict(name='benign-validator-error-test-in-tagless-switch', file=V, expect='silent',
      find=_ERR_BLOCK, replace='\tswitch {\n\tcase err != nil:\n' + _ERR_BODY + '\t}\n'),
 dict(name='benign-validator-error-test-held-in-bool-local', file=V, expect='silent',
      find=_ERR_GUARD, replace=_err_guard('failed := err != nil; failed')),
 dict(name='benign-validator-error-test-in-predicate-helper', expect='silent', why=_WHY_G,
      edits=_with_helper(_ERR_GUARD, _err_guard('consultationFailed(err)'),
                         'func consultationFailed(problem error) bool {\n\treturn problem != nil\n}\n')),
 dict(name='benign-validator-error-or-missing-results-fail', file=V, expect='silent',
      why='a disjunct makes the guard stricter: every success path still passes err == nil',
      find=_ERR_BLOCK, replace=_ERR_BLOCK.replace('if err != nil {', 'if err != nil || certResults == nil {').replace('%s", err.Error())', '%v", err)')),
 # the aggregate
 dict(name='aggregate-test-only-for-more-than-one-result', file=V, expect='flagged(result/aggregate-ok)',
      find=_AGG_SWITCH, replace=_agg_if('len(certResults) > 1 && finalResult != revocationresult.ResultOK')),
 dict(name='aggregate-test-disabled-by-false-conjunct', file=V, expect='flagged(result/aggregate-ok)',
      find=_AGG_SWITCH, replace=_agg_if('false && (finalResult != revocationresult.ResultOK)')),
 dict(name='unknown-aggregate-fails-only-when-enforced', file=V, expect='flagged(result/aggregate-ok)',
      find='\t\tresult.Error = fmt.Errorf("signing certificate with subject %q revocation status is unknown", problematicCertSubject)\n',
      replace='\t\tif result.Action == trustpolicy.ActionEnforce {\n\t\t\tresult.Error = fmt.Errorf("signing certificate with subject %q revocation status is unknown", problematicCertSubject)\n\t\t}\n'),
 dict(name='aggregate-predicate-helper-skips-single-results', expect='flagged(result/aggregate-ok)',
      edits=_with_helper(_AGG_SWITCH, _agg_if('chainFlagged(finalResult, certResults)'),
                         'func chainFlagged(verdict revocationresult.Result, perCert []*revocationresult.CertRevocationResult) bool {\n\treturn len(perCert) > 1 && verdict != revocationresult.ResultOK\n}\n')),
 dict(name='aggregate-predicate-helper-accepts-unknown', expect='flagged(result/aggregate-ok)',
      edits=_with_helper(_AGG_SWITCH, _agg_if('!chainCleared(finalResult)'),
                         'func chainCleared(verdict revocationresult.Result) bool {\n\treturn verdict == revocationresult.ResultOK || verdict == revocationresult.ResultUnknown\n}\n')),
 dict(name='aggregate-predicate-helper-asked-about-a-constant', expect='flagged(result/aggregate-ok)',
      edits=_with_helper(_AGG_SWITCH, _agg_if('!chainCleared(revocationresult.ResultOK)'),
                         'func chainCleared(verdict revocationresult.Result) bool {\n\treturn verdict == revocationresult.ResultOK\n}\n')),
 dict(name='benign-aggregate-test-as-if', file=V, expect='silent', find=_AGG_SWITCH, replace=_agg_if('finalResult != revocationresult.ResultOK')),
 dict(name='benign-aggregate-test-as-if-operands-swapped', file=V, expect='silent', find=_AGG_SWITCH, replace=_agg_if('revocationresult.ResultOK != finalResult')),
 dict(name='benign-aggregate-test-in-predicate-helper', expect='silent', why=_WHY_G,
      edits=_with_helper(_AGG_SWITCH, _agg_if('!chainCleared(finalResult)'),
                         'func chainCleared(verdict revocationresult.Result) bool {\n\treturn verdict == revocationresult.ResultOK\n}\n')),
 dict(name='benign-aggregate-test-in-negative-predicate-helper', expect='silent', why=_WHY_G,
      edits=_with_helper(_AGG_SWITCH, _agg_if('chainFlagged(finalResult)'),
                         'func chainFlagged(verdict revocationresult.Result) bool {\n\treturn verdict != revocationresult.ResultOK\n}\n')),
 # the other guards of the revocation path
 dict(name='both-nil-guard-only-for-chains-longer-than-one', file=V, expect='flagged(result/both-validators-nil)',
      find=_BOTH_NIL, replace=_BOTH_NIL.replace('if v.', 'if len(%s) > 1 && v.' % _CHAIN)),
 dict(name='both-nil-guard-disabled-by-false-conjunct', file=V, expect='flagged(result/both-validators-nil)',
      find=_BOTH_NIL, replace=_BOTH_NIL.replace('if v.revocationCodeSigningValidator == nil && v.revocationClient == nil {', 'if false && (v.revocationCodeSigningValidator == nil && v.revocationClient == nil) {')),
 dict(name='length-agreement-only-for-chains-longer-than-one', file=V, expect='flagged(aggregator/length-agreement)',
      find='\tif len(certResults) != len(certChain) {\n\t\t// every certificate', replace='\tif len(certChain) > 1 && len(certResults) != len(certChain) {\n\t\t// every certificate'),
 dict(name='revoked-priority-only-when-nothing-is-ok', file=V, expect='flagged(aggregator/decision)',
      find='\tif revokedFound {\n\t\tproblematicCertSubject = revokedCertSubject', replace='\tif numOKResults == 0 && revokedFound {\n\t\tproblematicCertSubject = revokedCertSubject'),
 dict(name='all-ok-test-bypassed-for-a-single-result', file=V, expect='flagged(aggregator/decision)',
      find='\tif numOKResults == len(certResults) {\n\t\tfinalResult = revocationresult.ResultOK', replace='\tif len(certResults) <= 1 || numOKResults == len(certResults) {\n\t\tfinalResult = revocationresult.ResultOK'),
 # guards of the campaign's survivor list that do not concern this property
 dict(name='benign-server-error-logging-guard-disabled', file=V, expect='silent',
      why='the guard selects log lines only: the per-certificate Result decides, not the per-server errors',
      find='\t\t\tif serverResult.Error != nil {', replace='\t\t\tif false && (serverResult.Error != nil) {'),
 dict(name='benign-ocsp-fallback-logging-guard-disabled', file=V, expect='silent',
      why='the guard chooses between Debugf and Errorf for an OCSP server error of a certificate that fell back to CRL',
      find='\t\t\t\tif certResult.RevocationMethod == revocationresult.RevocationMethodOCSPFallbackCRL && serverResult.RevocationMethod == revocationresult.RevocationMethodOCSP {',
      replace='\t\t\t\tif false && (certResult.RevocationMethod == revocationresult.RevocationMethodOCSPFallbackCRL && serverResult.RevocationMethod == revocationresult.RevocationMethodOCSP) {'),
 dict(name='benign-for-C05-timestamping-default-not-installed', file=V, expect='silent',
      why='the timestamping validator is consulted for the TSA chain (C06), never for the signing chain: the code-signing validator / client and the signing-chain verdict are untouched',
      find='\tif revocationTimestampingValidator == nil {', replace='\tif false && (revocationTimestampingValidator == nil) {'),
]
